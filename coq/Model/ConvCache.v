(* C11 (extension round 4): what resolving a `clip-path` / `mask` link does to converter::Cache - the id generator and the
   definition caches - as interpreters over the SOURCE-DERIVED step tables mask_steps / clip_steps of Gen/ConvTables.v
   (parser/mask.rs `convert`, parser/clippath.rs `convert`), and the converter skeleton of Model/Converter.v instantiated
   with them.  Executable definitions only.

   A mask / clipPath that links another one resolves it at MS_Linked / CS_Linked (fuel-bounded recursion over the document's
   definitions; the source's parent_defs recursion check is not modelled: the model's documents have no cycles).
   Not modelled: checked_bbox_transform failing for a non-empty bbox. *)
From Coq Require Import String Ascii.
From RV Require Import Model.Base Model.ConvBase Gen.ConvTables Model.Converter.
Local Open Scope string_scope.

(* what SVG 1.1 calls not rendered, over the attributes the converter reads - the property's list, no tables involved
   except the two tag classes; a zero-size shape is not rendered WHATEVER other attributes it carries *)
Definition spec_nonrendered (n : node) : bool :=
  match n with
  | Node None _ _ => true
  | Node (Some t) a _ =>
      (negb (tag_in t graphic_tags) && negb (tag_in t structural_tags))
      || a_display_none a || negb (a_ts_valid a)
      || a_req_ext a || negb (a_features_known a) || negb (a_syslang_ok a)
      || (is_shape_tag t && negb (shape_valid t a))
  end.
(* known class zero-shape-filter-link-registers: an invalid shape that is visible, carries a `filter` attribute (any value,
   `none` included) and a clip-path or mask link *)
Definition zero_filter_link (n : node) : bool :=
  match n with
  | Node (Some t) a _ =>
      is_shape_tag t && negb (shape_valid t a) && has_filter_attr a &&
      (match a_clip a with Some _ => true | None => false end || match a_mask a with Some _ => true | None => false end)
  | _ => false
  end.
Fixpoint all_spec_nonrendered (l : nodes) : bool :=
  match l with NNil => true | NCons x r => spec_nonrendered x && all_spec_nonrendered r end.

Definition c_set_masks (c : cache) (idx : N) (l : list string) : cache :=
  {| c_all_ids := c_all_ids c; c_lg := c_lg c; c_rg := c_rg c; c_pat := c_pat c; c_clip := c_clip c; c_mask := idx;
     c_filter := c_filter c; c_image := c_image c; c_clips := c_clips c; c_masks := l; c_filters := c_filters c; c_paint := c_paint c |}.
Definition c_set_clips (c : cache) (idx : N) (l : list string) : cache :=
  {| c_all_ids := c_all_ids c; c_lg := c_lg c; c_rg := c_rg c; c_pat := c_pat c; c_clip := idx; c_mask := c_mask c;
     c_filter := c_filter c; c_image := c_image c; c_clips := l; c_masks := c_masks c; c_filters := c_filters c; c_paint := c_paint c |}.

Section Res.
  Variable fmt : N -> string.           (* format!("{}", n) *)
  Definition id_fuel (c : cache) : nat := S (length (c_all_ids c)).

  Record renv := { re_cache : cache; re_id : string; re_all : bool }.
  Definition re_ret (x : renv) (r : option string) : renv + (option string * cache) := inr (r, re_cache x).

  (* resolution of the element a definition links *)
  Variable linked : string -> cache -> option string * cache.
  Definition run_linked (d : def_info) (x : renv) : renv + (option string * cache) :=
    match d_link d with
    | None => inl x
    | Some l => match linked l (re_cache x) with
                | (None, c') => inr (None, c')
                | (Some _, c') => inl {| re_cache := c'; re_id := re_id x; re_all := re_all x |}
                end
    end.
  (* mask::convert *)
  Definition mask_step_run (d : def_info) (bbox : option qrect) (s : mask_step) (x : renv) : renv + (option string * cache) :=
    let c := re_cache x in
    match s with
    | MS_TagCheck => if d_tag_ok d then inl x else re_ret x None
    | MS_Recursive => inl x
    | MS_CacheLookup => if d_cacheable d && str_in (d_id d) (c_masks c) then re_ret x (Some (d_id d)) else inl x
    | MS_Rect => if d_geom_ok d then inl x else re_ret x None
    | MS_UnitsBBox =>
        if d_units_obb d then match bbox with Some _ => inl x | None => inl {| re_cache := c; re_id := re_id x; re_all := true |} end
        else inl x
    | MS_GenId =>
        if String.eqb (d_id d) "" then re_ret x None else
        if negb (d_cacheable d) && str_in (d_id d) (c_masks c) then
          match gen_id fmt (id_fuel c) "mask" (c_all_ids c) (c_mask c) with
          | Some (i, k) => inl {| re_cache := c_set_masks c k (c_masks c); re_id := i; re_all := re_all x |}
          | None => re_ret x None
          end
        else inl {| re_cache := c; re_id := d_id d; re_all := re_all x |}
    | MS_MaskAllInsert =>
        if re_all x then inr (Some (re_id x), c_set_masks c (c_mask c) (re_id x :: c_masks c)) else inl x
    | MS_Linked => run_linked d x
    | MS_ContentUnitsBBox => if d_content_obb d then match bbox with Some _ => inl x | None => re_ret x None end else inl x
    | MS_Children =>
        let '(c', has) := d_content d c in
        if has then inl {| re_cache := c'; re_id := re_id x; re_all := re_all x |} else inr (None, c')
    | MS_Insert => inr (Some (re_id x), c_set_masks c (c_mask c) (re_id x :: c_masks c))
    end.
  (* clippath::convert *)
  Definition clip_step_run (d : def_info) (bbox : option qrect) (s : clip_step) (x : renv) : renv + (option string * cache) :=
    let c := re_cache x in
    match s with
    | CS_TagCheck => if d_tag_ok d then inl x else re_ret x None
    | CS_Recursive => inl x
    | CS_Transform => if d_geom_ok d then inl x else re_ret x None
    | CS_CacheLookup => if d_cacheable d && str_in (d_id d) (c_clips c) then re_ret x (Some (d_id d)) else inl x
    | CS_UnitsBBox => if d_units_obb d then match bbox with Some _ => inl x | None => re_ret x None end else inl x
    | CS_Linked => run_linked d x
    | CS_GenId =>
        if String.eqb (d_id d) "" then re_ret x None else
        if negb (d_cacheable d) && str_in (d_id d) (c_clips c) then
          match gen_id fmt (id_fuel c) "clipPath" (c_all_ids c) (c_clip c) with
          | Some (i, k) => inl {| re_cache := c_set_clips c k (c_clips c); re_id := i; re_all := false |}
          | None => re_ret x None
          end
        else inl {| re_cache := c; re_id := d_id d; re_all := false |}
    | CS_Children =>
        let '(c', has) := d_content d c in inl {| re_cache := c'; re_id := re_id x; re_all := has |}
    | CS_InsertIfChildren =>
        if re_all x then inr (Some (re_id x), c_set_clips c (c_clip c) (re_id x :: c_clips c)) else re_ret x None
    end.
  Fixpoint steps_run {S : Type} (run : S -> renv -> renv + (option string * cache)) (steps : list S) (x : renv) : option string * cache :=
    match steps with
    | [] => (None, re_cache x)
    | s :: r => match run s x with inl x' => steps_run run r x' | inr res => res end
    end.
  Definition mask_once (d : def_info) (bbox : option qrect) (c : cache) : option string * cache :=
    steps_run (mask_step_run d bbox) mask_steps {| re_cache := c; re_id := ""; re_all := false |}.
  Definition clip_once (d : def_info) (bbox : option qrect) (c : cache) : option string * cache :=
    steps_run (clip_step_run d bbox) clip_steps {| re_cache := c; re_id := ""; re_all := false |}.
End Res.

Section Res2.
  Variable fmt : N -> string.
  (* the definitions of a document: id -> what the resolvers read *)
  Definition defs_t := list (string * def_info).
  Fixpoint def_lookup (l : defs_t) (s : string) : option def_info :=
    match l with [] => None | (k, d) :: r => if String.eqb s k then Some d else def_lookup r s end.
  Fixpoint mask_convert_in (fuel : nat) (masks : defs_t) (d : def_info) (bbox : option qrect) (c : cache) : option string * cache :=
    match fuel with
    | O => (None, c)
    | S k => mask_once fmt (fun l c' => match def_lookup masks l with Some d' => mask_convert_in k masks d' bbox c' | None => (None, c') end) d bbox c
    end.
  Fixpoint clip_convert_in (fuel : nat) (clips : defs_t) (d : def_info) (bbox : option qrect) (c : cache) : option string * cache :=
    match fuel with
    | O => (None, c)
    | S k => clip_once fmt (fun l c' => match def_lookup clips l with Some d' => clip_convert_in k clips d' bbox c' | None => (None, c') end) d bbox c
    end.
  (* depth of a chain of linked definitions the model follows (the source stops at a recursive link; the model's documents have
     no cycles and no chain longer than this) *)
  Definition link_fuel : nat := 32.
  (* a definition without a link *)
  Definition mask_convert (d : def_info) (bbox : option qrect) (c : cache) : option string * cache := mask_once fmt (fun _ c' => (None, c')) d bbox c.
  Definition clip_convert (d : def_info) (bbox : option qrect) (c : cache) : option string * cache := clip_once fmt (fun _ c' => (None, c')) d bbox c.
  Definition res_mask_m {state : Type} (masks : defs_t) (link : string) (_ : state) (bbox : option qrect) (c : cache) : option string * cache :=
    match def_lookup masks link with Some d => mask_convert_in link_fuel masks d bbox c | None => (None, c) end.
  Definition res_clip_m {state : Type} (clips : defs_t) (link : string) (_ : state) (bbox : option qrect) (c : cache) : option string * cache :=
    match def_lookup clips link with Some d => clip_convert_in link_fuel clips d bbox c | None => (None, c) end.

  (* the skeleton with these resolvers; a group has an object bounding box iff its subtree contains a leaf (Group::
     calculate_object_bbox skips empty groups; a content-less group kept for its filter contributes a zero rectangle, which is
     no NonZeroRect).  Valid for non-degenerate shapes. *)
  Definition unit_rect : qrect := {| rx := 0; ry := 0; rw := 1; rh := 1 |}.
  Fixpoint onode_has_geom (n : onode) : bool :=
    match n with
    | OLeaf _ _ => true
    | OGroup _ _ ch => (fix go (l : list onode) : bool := match l with [] => false | x :: r => onode_has_geom x || go r end) ch
    end.
  Definition simc_bbox (g : ogroup) : option qrect := if existsb onode_has_geom (og_ch g) then Some unit_rect else None.
  Definition simc_children (clips masks : defs_t) : nodes -> bool -> bool -> sim_state -> cache -> ogroup -> cache * ogroup :=
    conv_children sim_state ss_in_clip (fun _ => true) sim_path sim_image sim_text
              (fun _ _ _ _ _ c g => (c, g)) (fun _ cb st c g => cb st c g)
              simc_bbox (res_clip_m clips) (res_mask_m masks) sim_filter.
  Definition simc_elem (clips masks : defs_t) : node -> bool -> bool -> sim_state -> cache -> ogroup -> cache * ogroup :=
    conv_elem sim_state ss_in_clip (fun _ => true) sim_path sim_image sim_text
              (fun _ _ _ _ _ c g => (c, g)) (fun _ cb st c g => cb st c g)
              simc_bbox (res_clip_m clips) (res_mask_m masks) sim_filter.
End Res2.

(* counters below ten are enough for the correspondence documents and the witnesses *)
Definition fmt9 (n : N) : string :=
  match n with
  | 1 => "1" | 2 => "2" | 3 => "3" | 4 => "4" | 5 => "5" | 6 => "6" | 7 => "7" | 8 => "8" | 9 => "9" | _ => "X"
  end%N.
Definition plain_content (c : cache) : cache * bool := (c, true).
(* <mask id=..> (objectBoundingBox units, the default) / <mask maskUnits="userSpaceOnUse"> with a plain shape inside *)
Definition mask_obb (id : string) : def_info :=
  {| d_tag_ok := true; d_id := id; d_units_obb := true; d_content_obb := false; d_cacheable := false; d_geom_ok := true; d_link := None; d_content := plain_content |}.
Definition mask_usou (id : string) : def_info :=
  {| d_tag_ok := true; d_id := id; d_units_obb := false; d_content_obb := false; d_cacheable := true; d_geom_ok := true; d_link := None; d_content := plain_content |}.
Definition mask_cobb (id : string) : def_info :=
  {| d_tag_ok := true; d_id := id; d_units_obb := true; d_content_obb := true; d_cacheable := false; d_geom_ok := true; d_link := None; d_content := plain_content |}.
Definition clip_obb (id : string) : def_info :=
  {| d_tag_ok := true; d_id := id; d_units_obb := true; d_content_obb := false; d_cacheable := false; d_geom_ok := true; d_link := None; d_content := plain_content |}.
Definition clip_usou (id : string) : def_info :=
  {| d_tag_ok := true; d_id := id; d_units_obb := false; d_content_obb := false; d_cacheable := true; d_geom_ok := true; d_link := None; d_content := plain_content |}.
Definition not_a_def (id : string) : def_info :=
  {| d_tag_ok := false; d_id := id; d_units_obb := false; d_content_obb := false; d_cacheable := true; d_geom_ok := true; d_link := None; d_content := plain_content |}.
(* a definition that links another one: <mask id=.. mask="url(#l)"> / <clipPath id=.. clip-path="url(#l)"> *)
Definition with_link (d : def_info) (l : string) (cacheable : bool) : def_info :=
  {| d_tag_ok := d_tag_ok d; d_id := d_id d; d_units_obb := d_units_obb d; d_content_obb := d_content_obb d; d_cacheable := cacheable;
     d_geom_ok := d_geom_ok d; d_link := Some l; d_content := d_content d |}.

(* the clip-path / mask links a tree carries all lie in the sets Ac / Am *)
Section Free.
  Variables Ac Am : string -> bool.
  Definition attrs_free (a : attrs) : bool :=
    match a_clip a with Some l => Ac l | None => true end && match a_mask a with Some l => Am l | None => true end.
  Fixpoint node_free (n : node) : bool :=
    match n with Node _ a ch => attrs_free a && nodes_free ch end
  with nodes_free (l : nodes) : bool :=
    match l with NNil => true | NCons x r => node_free x && nodes_free r end.
End Free.
Definition not_key (k : string) (l : string) : bool := negb (String.eqb l k).
Definition any_key (_ : string) : bool := true.
