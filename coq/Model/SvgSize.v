(* Hand model of usvg::parser::converter::resolve_svg_size (root width/height resolution), over the
   SOURCE-DERIVED unit table Gen.Units.convert_abs.  Tied to the implementation by the `svg-size`
   correspondence op of tools/props/c17.py. *)
From RV Require Import Model.Base Gen.Units.
Local Open Scope Q_scope.

Record length := { l_num : Q; l_unit : lunit }.
Definition is_pct (l : length) : bool := match l_unit l with UPercent => true | _ => false end.
Definition def_len : length := {| l_num := 100; l_unit := UPercent |}.

(* convert_user_length: absolute and font-relative units via the generated table, percent of `base` *)
Definition conv_user (l : length) (base dpi fs : Q) : Q :=
  match convert_abs (l_unit l) (l_num l) dpi fs with
  | Some v => v
  | None => base * l_num l / 100
  end.

(* tiny_skia_path::Size::from_wh (finite values are implied in Q) *)
Definition size_from_wh (w h : Q) : option qsize :=
  if Qltb 0 w && Qltb 0 h then Some {| sw := w; sh := h |} else None.

Definition is_none {A} (o : option A) : bool := match o with None => true | Some _ => false end.

Definition resolve_svg_size (w h : option length) (vb : option qrect) (dpi fs : Q) (ds : qsize)
  : option qsize * bool :=
  let width := match w with Some l => l | None => def_len end in
  let height := match h with Some l => l | None => def_len end in
  let restore := (is_pct width || is_pct height) && is_none vb in
  let width := if restore && is_pct width
               then {| l_num := l_num width / 100 * sw ds; l_unit := UNone |} else width in
  let height := if restore && is_pct height
                then {| l_num := l_num height / 100 * sh ds; l_unit := UNone |} else height in
  match vb with
  | Some v =>
      (size_from_wh (if is_pct width then rw v * (l_num width / 100) else conv_user width (rw v) dpi fs)
                    (if is_pct height then rh v * (l_num height / 100) else conv_user height (rh v) dpi fs),
       restore)
  | None => (size_from_wh (conv_user width 100 dpi fs) (conv_user height 100 dpi fs), restore)
  end.

(* the SVG rule, stated independently of the code: one dimension *)
Definition spec_dim (l : option length) (vbdim : option Q) (defdim dpi fs : Q) : Q :=
  let l := match l with Some l => l | None => def_len end in
  match convert_abs (l_unit l) (l_num l) dpi fs with
  | Some v => v                                            (* absolute / font-relative unit at DPI *)
  | None => match vbdim with
            | Some d => d * (l_num l / 100)                (* percentage of the viewBox *)
            | None => l_num l / 100 * defdim               (* percentage of the default size *)
            end
  end.
