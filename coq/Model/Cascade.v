(* C09 model: the per-element attribute pipeline of usvg's svgtree (parser/svgtree/parse.rs:
   parse_svg_element, append_attribute, insert_attribute, write_declaration, resolve_inherit) and the
   lookups of svgtree/mod.rs (attribute, has_attribute, find_attribute_impl).

   Everything table-like (attribute classes, skip lists, default table, the `has_precedence` expression,
   the `inherit` keyword, the marker shorthand) comes from Gen/SvgTables.v, regenerated from the Rust
   source on every run.  The control flow below is hand-written and tied to the implementation by the
   `cascade` correspondence (harness op `svgtree`, compared inside Coq by `chain_eqb`).

   Representation.  An element is seen through the path to it: `anc` is the list of the *resolved*
   attribute lists of its ancestors, nearest (the parent) first; the document root node has no
   attributes and may be left out.  Selector matching is outside the model: `x_css` is the list of
   declarations of the rules that match the element, in rule order (simplecss order: one stable sort
   by specificity over injected sheet ++ document sheets), `x_style` the declarations of its `style`
   attribute.  The `font` shorthand is not modelled (generators never emit it). *)
From Coq Require Import String.
From RV Require Import Model.Base Gen.SvgTables Gen.Units Model.CascadeBase Gen.SvgInsert.

(* `attr` (name, value, important) is defined in Model/CascadeBase.v *)

Inductive dname := DMarker | DAttr (a : AId).
Record decl := { d_name : dname; d_value : string; d_imp : bool }.

Record xelem := {
  x_tag : EId;
  x_ignore_ids : bool;                     (* inside a `use` expansion *)
  x_attrs : list (AId * string);           (* XML attributes with a known name, document order *)
  x_css : list decl;
  x_style : list decl
}.

(* ---- svgtree/mod.rs lookups ------------------------------------------------------------------ *)
Definition has_name (a : AId) (x : attr) : bool := AId_eqb (a_name x) a.
(* SvgNode::has_attribute *)
Definition has_attr (a : AId) (l : list attr) : bool := existsb (has_name a) l.
(* `.attributes().iter().find(|a| a.name == aid)` *)
Definition get_attr (a : AId) (l : list attr) : option attr := find (has_name a) l.
(* SvgNode::attribute::<&str> *)
Definition lookup (a : AId) (l : list attr) : option string := option_map a_value (get_attr a l).

(* SvgNode::find_attribute_impl followed by `.attribute(aid)`: self, then `anc` *)
Definition find_attribute (self : list attr) (anc : list (list attr)) (a : AId) : option attr :=
  if is_inheritable a then
    match find (has_attr a) (self :: anc) with
    | Some l => get_attr a l
    | None => None
    end
  else if has_attr a self then get_attr a self
  else match anc with
       | p :: _ => if has_attr a p then get_attr a p else None
       | [] => None
       end.
Definition find_value (self : list attr) (anc : list (list attr)) (a : AId) : option string :=
  option_map a_value (find_attribute self anc a).

(* ---- svgtree/parse.rs ------------------------------------------------------------------------- *)
Definition default_attr (a : AId) : option attr :=
  option_map (fun v => {| a_name := a; a_value := v; a_imp := false |}) (inherit_default a).

(* resolve_inherit: the attribute that gets pushed (None = `return false`): the value of the source (nearest
   ancestor having it / the direct parent / the fallback table) with the `important` flag of the declaration
   that says `inherit` (since 7ac03db; before, the source's flag was copied). *)
Definition resolve_inherit_src (anc : list (list attr)) (a : AId) : option attr :=
  if is_inheritable a then
    match find (has_attr a) anc with
    | Some l => match get_attr a l with Some x => Some x | None => default_attr a end
    | None => default_attr a
    end
  else
    match anc with
    | p :: _ => match get_attr a p with Some x => Some x | None => default_attr a end
    | [] => default_attr a
    end.
Definition with_flag (a : AId) (imp : bool) (x : attr) : attr :=
  {| a_name := a; a_value := a_value x; a_imp := imp |}.
Definition resolve_inherit (anc : list (list attr)) (a : AId) (imp : bool) : option attr :=
  option_map (with_flag a imp) (resolve_inherit_src anc a).

(* append_attribute: the attribute appended to the list, None when it returns false *)
Definition resolve_value (anc : list (list attr)) (tag : EId) (a : AId) (v : string) (imp : bool) : option attr :=
  if is_dropped_attr a then None
  else if is_dropped_on tag a then None
  else if allows_inherit_value a && String.eqb v inherit_keyword then resolve_inherit anc a imp
  else Some {| a_name := a; a_value := v; a_imp := imp |}.

(* the presentation-attribute copy loop of parse_svg_element (one iteration) *)
Definition attr_skipped (ignore_ids : bool) (a : AId) (v : string) : bool :=
  (ignore_ids && AId_eqb a ignored_id_attr)
  || is_style_only a
  || (AId_eqb a css_only_value_attr && existsb (String.eqb v) css_only_values).
Definition copy_attr (anc : list (list attr)) (tag : EId) (ignore_ids : bool)
           (cur : list attr) (av : AId * string) : list attr :=
  if attr_skipped ignore_ids (fst av) (snd av) then cur
  else match resolve_value anc tag (fst av) (snd av) false with
       | Some x => cur ++ [x]
       | None => cur
       end.

Fixpoint position (a : AId) (l : list attr) : option nat :=
  match l with
  | [] => None
  | x :: r => if has_name a x then Some O else option_map S (position a r)
  end.
(* insert_attribute: remember the position of an existing attribute of that name, append (append_attribute), and -
   when something was appended and a previous one exists - run the SOURCE-DERIVED fix-up block
   (Gen.SvgInsert.insert_fixup: swap with the last element when the existing one gives way, then pop). *)
Definition insert_attribute (anc : list (list attr)) (tag : EId)
           (cur : list attr) (a : AId) (v : string) (imp : bool) : list attr :=
  let idx := position a cur in
  match resolve_value anc tag a v imp with
  | None => cur
  | Some nw =>
      let l := cur ++ [nw] in
      match idx with
      | Some i => insert_fixup l i
      | None => l
      end
  end.

(* write_declaration (without the `font` shorthand) *)
Definition write_decl (anc : list (list attr)) (tag : EId) (cur : list attr) (d : decl) : list attr :=
  match d_name d with
  | DMarker => fold_left (fun c a => insert_attribute anc tag c a (d_value d) (d_imp d)) marker_shorthand cur
  | DAttr a => if is_presentation a then insert_attribute anc tag cur a (d_value d) (d_imp d) else cur
  end.

(* parse_svg_element: attributes, then matched CSS in rule order, then the style attribute *)
Definition build_attrs (anc : list (list attr)) (x : xelem) : list attr :=
  let c0 := fold_left (copy_attr anc (x_tag x) (x_ignore_ids x)) (x_attrs x) [] in
  let c1 := fold_left (write_decl anc (x_tag x)) (x_css x) c0 in
  fold_left (write_decl anc (x_tag x)) (x_style x) c1.

(* a root-to-leaf chain of elements: returns the resolved lists, leaf first *)
Fixpoint build_chain_from (anc : list (list attr)) (xs : list xelem) : list (list attr) :=
  match xs with
  | [] => anc
  | x :: r => build_chain_from (build_attrs anc x :: anc) r
  end.
Definition build_chain (xs : list xelem) : list (list attr) := build_chain_from [] xs.

(* ---- boolean checkers for the correspondence ------------------------------------------------- *)
Definition attr_eqb (x y : attr) : bool :=
  AId_eqb (a_name x) (a_name y) && String.eqb (a_value x) (a_value y) && Bool.eqb (a_imp x) (a_imp y).
Fixpoint list_eqb {A} (f : A -> A -> bool) (l m : list A) : bool :=
  match l, m with
  | [], [] => true
  | x :: r, y :: s => f x y && list_eqb f r s
  | _, _ => false
  end.
Definition chain_eqb (a b : list (list attr)) : bool := list_eqb (list_eqb attr_eqb) a b.
Definition mk (a : AId) (v : string) (i : bool) : attr := {| a_name := a; a_value := v; a_imp := i |}.
Definition dc (a : AId) (v : string) (i : bool) : decl := {| d_name := DAttr a; d_value := v; d_imp := i |}.
Definition dmarker (v : string) (i : bool) : decl := {| d_name := DMarker; d_value := v; d_imp := i |}.
Definition xe (t : EId) (ig : bool) (at_ : list (AId * string)) (css st : list decl) : xelem :=
  {| x_tag := t; x_ignore_ids := ig; x_attrs := at_; x_css := css; x_style := st |}.
(* correspondence case: (chain of elements root first, implementation's resolved lists root first,
   lookups (attribute, implementation's find_attribute value on the leaf)) *)
Definition find_eqb (chain : list (list attr)) (q : AId * option string) : bool :=
  match chain with
  | self :: anc =>
      match find_value self anc (fst q), snd q with
      | Some v, Some w => String.eqb v w
      | None, None => true
      | _, _ => false
      end
  | [] => false
  end.
Definition cascade_case_ok (c : list xelem * list (list attr) * list (AId * option string)) : bool :=
  let '(xs, impl, finds) := c in
  let m := build_chain xs in
  chain_eqb (rev m) impl && forallb (find_eqb m) finds.

(* whole documents for the correspondence: elements in document (pre-)order with the index of their
   parent element (None = child of the root node); returns the resolved lists in the same order *)
Fixpoint build_doc_from (items : list (option nat * xelem)) (acc : list (list attr * list (list attr)))
  : list (list attr) :=
  match items with
  | [] => map fst acc
  | (par, x) :: r =>
      let anc := match par with
                 | Some i => match nth_error acc i with Some (a, an) => a :: an | None => [] end
                 | None => []
                 end in
      build_doc_from r (acc ++ [(build_attrs anc x, anc)])
  end.
Definition build_doc (items : list (option nat * xelem)) : list (list attr) := build_doc_from items [].
Definition doc_case_ok (c : list (option nat * xelem) * list (list attr)) : bool :=
  chain_eqb (build_doc (fst c)) (snd c).
(* find_attribute correspondence: chain root first; (attribute, default, value observed in the tree) *)
Definition find_case_ok (c : list xelem * list (AId * string * string)) : bool :=
  match build_chain (fst c) with
  | self :: anc =>
      forallb (fun q => match q with
                        | (a, d, w) => String.eqb (match find_value self anc a with Some v => v | None => d end) w
                        end) (snd c)
  | [] => false
  end.

(* ---- the per-name abstract cascade ------------------------------------------------------------
   What a single name sees: a sequence of candidate attributes (None = the source did not add
   anything); the state is the attribute currently stored under that name. *)
Definition step (st : option attr) (nw : option attr) : option attr :=
  match nw with
  | None => st
  | Some n => match st with
              | Some x => if new_has_precedence (a_imp x) then Some n else Some x
              | None => Some n
              end
  end.
(* candidates for name `a` coming from the three sources *)
Definition cand_attr (anc : list (list attr)) (tag : EId) (ig : bool) (a : AId) (av : AId * string) : list (option attr) :=
  if AId_eqb (fst av) a then
    if attr_skipped ig (fst av) (snd av) then [] else [resolve_value anc tag (fst av) (snd av) false]
  else [].
Definition cand_one (anc : list (list attr)) (tag : EId) (a : AId) (v : string) (imp : bool) (b : AId) : list (option attr) :=
  if AId_eqb b a then [resolve_value anc tag b v imp] else [].
Definition cand_decl (anc : list (list attr)) (tag : EId) (a : AId) (d : decl) : list (option attr) :=
  match d_name d with
  | DMarker => flat_map (cand_one anc tag a (d_value d) (d_imp d)) marker_shorthand
  | DAttr b => if is_presentation b then cand_one anc tag a (d_value d) (d_imp d) b else []
  end.
Definition candidates (anc : list (list attr)) (x : xelem) (a : AId) : list (option attr) :=
  flat_map (cand_attr anc (x_tag x) (x_ignore_ids x) a) (x_attrs x)
  ++ flat_map (cand_decl anc (x_tag x) a) (x_css x)
  ++ flat_map (cand_decl anc (x_tag x) a) (x_style x).
(* the copy loop appends without de-duplication: only the first attribute of a name is visible *)
Definition step_first (st : option attr) (nw : option attr) : option attr :=
  match st with Some x => Some x | None => nw end.
Definition cascade_spec (anc : list (list attr)) (x : xelem) (a : AId) : option attr :=
  let s0 := fold_left step_first (flat_map (cand_attr anc (x_tag x) (x_ignore_ids x) a) (x_attrs x)) None in
  fold_left step (flat_map (cand_decl anc (x_tag x) a) (x_css x) ++ flat_map (cand_decl anc (x_tag x) a) (x_style x)) s0.

(* ---- SVG 1.1 / CSS property table (hand-written from the specification's property index), against
   which the generated classes are checked: `Inherited: no` and `Initial:` columns for the properties
   usvg gives an `inherit` keyword or a fallback value. *)
Definition spec_noninherited (a : AId) : bool :=
  match a with
  | A_AlignmentBaseline | A_BaselineShift | A_ClipPath | A_Display | A_DominantBaseline | A_Filter
  | A_FloodColor | A_FloodOpacity | A_LightingColor | A_Mask | A_Opacity | A_Overflow
  | A_StopColor | A_StopOpacity | A_TextDecoration | A_UnicodeBidi
  | A_Transform | A_TransformOrigin | A_MixBlendMode | A_Isolation | A_MaskType | A_VectorEffect
  | A_TextOverflow | A_BackgroundColor => true
  | _ => false
  end.
Local Open Scope string_scope.
Definition spec_initial (a : AId) : option string :=
  match a with
  | A_ImageRendering | A_ShapeRendering | A_TextRendering => Some "auto"
  | A_ClipPath | A_Filter | A_MarkerEnd | A_MarkerMid | A_MarkerStart | A_Mask | A_Stroke
  | A_StrokeDasharray | A_TextDecoration => Some "none"
  | A_FontStretch | A_FontStyle | A_FontVariant | A_FontWeight | A_LetterSpacing | A_WordSpacing => Some "normal"
  | A_Fill | A_FloodColor | A_StopColor => Some "black"
  | A_FillOpacity | A_FloodOpacity | A_Opacity | A_StopOpacity | A_StrokeOpacity => Some "1"
  | A_ClipRule | A_FillRule => Some "nonzero"
  | A_BaselineShift => Some "baseline"
  | A_ColorInterpolationFilters => Some "linearRGB"
  | A_Direction => Some "ltr"
  | A_Display => Some "inline"
  | A_FontSize => Some "medium"
  | A_Overflow => Some "visible"
  | A_StrokeDashoffset => Some "0"
  | A_StrokeLinecap => Some "butt"
  | A_StrokeLinejoin => Some "miter"
  | A_StrokeMiterlimit => Some "4"
  | A_StrokeWidth => Some "1"
  | A_TextAnchor => Some "start"
  | A_Visibility => Some "visible"
  | A_WritingMode => Some "lr-tb"
  | _ => None
  end.
Local Close Scope string_scope.
(* properties that are not presentation attributes for usvg: only CSS / the style attribute reach them *)
Definition spec_style_only (a : AId) : bool :=
  match a with A_MixBlendMode | A_Isolation | A_FontKerning => true | _ => false end.
Definition spec_css_only_values : list string := ["smooth"; "high-quality"; "crisp-edges"; "pixelated"]%string.
Definition opt_string_eqb (a b : option string) : bool :=
  match a, b with Some x, Some y => String.eqb x y | None, None => true | _, _ => false end.
(* boolean checkers (also used to search for a counterexample when the proof breaks) *)
Definition noninherit_entry_ok (a : AId) : bool :=
  implb (is_presentation a && allows_inherit_value a) (Bool.eqb (is_non_inheritable a) (spec_noninherited a)).
Definition initial_entry_ok (a : AId) : bool := opt_string_eqb (inherit_default a) (spec_initial a).
Definition style_only_entry_ok (a : AId) : bool := Bool.eqb (is_style_only a) (spec_style_only a).
Fixpoint strings_eqb (l m : list string) : bool :=
  match l, m with [], [] => true | x :: r, y :: s => String.eqb x y && strings_eqb r s | _, _ => false end.
Definition css_only_ok : bool :=
  AId_eqb css_only_value_attr A_ImageRendering && strings_eqb css_only_values spec_css_only_values.

(* ---- font-size resolution (units.rs: resolve_font_size), for the `inherit` findings -------------
   The chain lists the specified font-size of each element from the outermost to the element itself. *)
Local Open Scope Q_scope.
(* a specified font-size: a number with a unit of Gen/Units.v *)
Definition fsval := (lunit * Q)%type.
Definition fs_step (dpi parent : Q) (v : fsval) : Q :=
  let n := snd v in
  match fst v with
  | UNone | UPx => fs_Px n dpi
  | UIn => fs_In n dpi | UCm => fs_Cm n dpi | UMm => fs_Mm n dpi | UPt => fs_Pt n dpi | UPc => fs_Pc n dpi
  | UEm => fs_Em n parent
  | UEx => fs_Ex n parent
  | UPercent => fs_Percent n parent
  end.
Definition font_size (dpi base : Q) (chain : list (option fsval)) : Q :=
  fold_left (fun fs o => match o with Some v => fs_step dpi fs v | None => fs end) chain base.
(* KnownClass: the specified value depends on the context it is resolved in *)
Definition fs_relative (v : fsval) : bool :=
  match fst v with UEm | UEx | UPercent => true | _ => false end.
