(* C09 model: the per-element attribute pipeline of usvg's svgtree (parser/svgtree/parse.rs:
   parse_svg_element, append_attribute, insert_attribute, write_declaration, resolve_inherit) and the
   lookups of svgtree/mod.rs (attribute, has_attribute, find_attribute_impl).

   Everything table-like (attribute classes, skip lists, default table, the `has_precedence` expression,
   the `inherit` keyword, the marker shorthand) comes from Gen/SvgTables.v, regenerated from the Rust
   source on every run.  The control flow below is hand-written and tied to the implementation by the
   `cascade` correspondence (harness op `svgtree`, compared inside Coq by `chain_eqb`).

   Representation.  An element is seen through the path to it: `anc` is the list of the *resolved*
   attribute lists of its ancestors, nearest (the parent) first; the document root node has no
   attributes and may be left out.  Selector matching is outside the model: `x_css` is the list of
   declarations of the rules that match the element, in rule order (simplecss order: one stable sort
   by specificity over injected sheet ++ document sheets), `x_style` the declarations of its `style`
   attribute.  The `font` shorthand is not modelled (generators never emit it). *)
From Coq Require Import String.
From RV Require Import Model.Base Gen.SvgTables.

Record attr := { a_name : AId; a_value : string; a_imp : bool }.

Inductive dname := DMarker | DAttr (a : AId).
Record decl := { d_name : dname; d_value : string; d_imp : bool }.

Record xelem := {
  x_tag : EId;
  x_ignore_ids : bool;                     (* inside a `use` expansion *)
  x_attrs : list (AId * string);           (* XML attributes with a known name, document order *)
  x_css : list decl;
  x_style : list decl
}.

(* ---- svgtree/mod.rs lookups ------------------------------------------------------------------ *)
Definition has_name (a : AId) (x : attr) : bool := AId_eqb (a_name x) a.
(* SvgNode::has_attribute *)
Definition has_attr (a : AId) (l : list attr) : bool := existsb (has_name a) l.
(* `.attributes().iter().find(|a| a.name == aid)` *)
Definition get_attr (a : AId) (l : list attr) : option attr := find (has_name a) l.
(* SvgNode::attribute::<&str> *)
Definition lookup (a : AId) (l : list attr) : option string := option_map a_value (get_attr a l).

(* SvgNode::find_attribute_impl followed by `.attribute(aid)`: self, then `anc` *)
Definition find_attribute (self : list attr) (anc : list (list attr)) (a : AId) : option attr :=
  if is_inheritable a then
    match find (has_attr a) (self :: anc) with
    | Some l => get_attr a l
    | None => None
    end
  else if has_attr a self then get_attr a self
  else match anc with
       | p :: _ => if has_attr a p then get_attr a p else None
       | [] => None
       end.
Definition find_value (self : list attr) (anc : list (list attr)) (a : AId) : option string :=
  option_map a_value (find_attribute self anc a).

(* ---- svgtree/parse.rs ------------------------------------------------------------------------- *)
Definition default_attr (a : AId) : option attr :=
  option_map (fun v => {| a_name := a; a_value := v; a_imp := false |}) (inherit_default a).

(* resolve_inherit: the attribute that gets pushed (None = `return false`).  The copy keeps the
   source's `important` flag, as the code does. *)
Definition resolve_inherit (anc : list (list attr)) (a : AId) : option attr :=
  if is_inheritable a then
    match find (has_attr a) anc with
    | Some l => match get_attr a l with Some x => Some x | None => default_attr a end
    | None => default_attr a
    end
  else
    match anc with
    | p :: _ => match get_attr a p with Some x => Some x | None => default_attr a end
    | [] => default_attr a
    end.

(* append_attribute: the attribute appended to the list, None when it returns false *)
Definition resolve_value (anc : list (list attr)) (tag : EId) (a : AId) (v : string) (imp : bool) : option attr :=
  if is_dropped_attr a then None
  else if is_dropped_on tag a then None
  else if allows_inherit_value a && String.eqb v inherit_keyword then resolve_inherit anc a
  else Some {| a_name := a; a_value := v; a_imp := imp |}.

(* the presentation-attribute copy loop of parse_svg_element (one iteration) *)
Definition attr_skipped (ignore_ids : bool) (a : AId) (v : string) : bool :=
  (ignore_ids && AId_eqb a ignored_id_attr)
  || is_style_only a
  || (AId_eqb a css_only_value_attr && existsb (String.eqb v) css_only_values).
Definition copy_attr (anc : list (list attr)) (tag : EId) (ignore_ids : bool)
           (cur : list attr) (av : AId * string) : list attr :=
  if attr_skipped ignore_ids (fst av) (snd av) then cur
  else match resolve_value anc tag (fst av) (snd av) false with
       | Some x => cur ++ [x]
       | None => cur
       end.

(* insert_attribute, literally: remember the position of an existing attribute of that name, append,
   then swap (if the existing one is not important) and pop. *)
Fixpoint position (a : AId) (l : list attr) : option nat :=
  match l with
  | [] => None
  | x :: r => if has_name a x then Some O else option_map S (position a r)
  end.
Fixpoint set_nth (n : nat) (y : attr) (l : list attr) : list attr :=
  match l, n with
  | [], _ => []
  | _ :: r, O => y :: r
  | x :: r, S k => x :: set_nth k y r
  end.
Definition insert_attribute (anc : list (list attr)) (tag : EId)
           (cur : list attr) (a : AId) (v : string) (imp : bool) : list attr :=
  match resolve_value anc tag a v imp with
  | None => cur
  | Some nw =>
      match position a cur with
      | None => cur ++ [nw]
      | Some i =>
          match nth_error cur i with
          | Some ex => if new_has_precedence (a_imp ex) then set_nth i nw cur else cur
          | None => cur
          end
      end
  end.

(* write_declaration (without the `font` shorthand) *)
Definition write_decl (anc : list (list attr)) (tag : EId) (cur : list attr) (d : decl) : list attr :=
  match d_name d with
  | DMarker => fold_left (fun c a => insert_attribute anc tag c a (d_value d) (d_imp d)) marker_shorthand cur
  | DAttr a => if is_presentation a then insert_attribute anc tag cur a (d_value d) (d_imp d) else cur
  end.

(* parse_svg_element: attributes, then matched CSS in rule order, then the style attribute *)
Definition build_attrs (anc : list (list attr)) (x : xelem) : list attr :=
  let c0 := fold_left (copy_attr anc (x_tag x) (x_ignore_ids x)) (x_attrs x) [] in
  let c1 := fold_left (write_decl anc (x_tag x)) (x_css x) c0 in
  fold_left (write_decl anc (x_tag x)) (x_style x) c1.

(* a root-to-leaf chain of elements: returns the resolved lists, leaf first *)
Fixpoint build_chain_from (anc : list (list attr)) (xs : list xelem) : list (list attr) :=
  match xs with
  | [] => anc
  | x :: r => build_chain_from (build_attrs anc x :: anc) r
  end.
Definition build_chain (xs : list xelem) : list (list attr) := build_chain_from [] xs.

(* ---- boolean checkers for the correspondence ------------------------------------------------- *)
Definition attr_eqb (x y : attr) : bool :=
  AId_eqb (a_name x) (a_name y) && String.eqb (a_value x) (a_value y) && Bool.eqb (a_imp x) (a_imp y).
Fixpoint list_eqb {A} (f : A -> A -> bool) (l m : list A) : bool :=
  match l, m with
  | [], [] => true
  | x :: r, y :: s => f x y && list_eqb f r s
  | _, _ => false
  end.
Definition chain_eqb (a b : list (list attr)) : bool := list_eqb (list_eqb attr_eqb) a b.
Definition mk (a : AId) (v : string) (i : bool) : attr := {| a_name := a; a_value := v; a_imp := i |}.
Definition dc (a : AId) (v : string) (i : bool) : decl := {| d_name := DAttr a; d_value := v; d_imp := i |}.
Definition dmarker (v : string) (i : bool) : decl := {| d_name := DMarker; d_value := v; d_imp := i |}.
Definition xe (t : EId) (ig : bool) (at_ : list (AId * string)) (css st : list decl) : xelem :=
  {| x_tag := t; x_ignore_ids := ig; x_attrs := at_; x_css := css; x_style := st |}.
(* correspondence case: (chain of elements root first, implementation's resolved lists root first,
   lookups (attribute, implementation's find_attribute value on the leaf)) *)
Definition find_eqb (chain : list (list attr)) (q : AId * option string) : bool :=
  match chain with
  | self :: anc =>
      match find_value self anc (fst q), snd q with
      | Some v, Some w => String.eqb v w
      | None, None => true
      | _, _ => false
      end
  | [] => false
  end.
Definition cascade_case_ok (c : list xelem * list (list attr) * list (AId * option string)) : bool :=
  let '(xs, impl, finds) := c in
  let m := build_chain xs in
  chain_eqb (rev m) impl && forallb (find_eqb m) finds.

(* ---- the per-name abstract cascade ------------------------------------------------------------
   What a single name sees: a sequence of candidate attributes (None = the source did not add
   anything); the state is the attribute currently stored under that name. *)
Definition step (st : option attr) (nw : option attr) : option attr :=
  match nw with
  | None => st
  | Some n => match st with
              | Some x => if new_has_precedence (a_imp x) then Some n else Some x
              | None => Some n
              end
  end.
(* candidates for name `a` coming from the three sources *)
Definition cand_attr (anc : list (list attr)) (tag : EId) (ig : bool) (a : AId) (av : AId * string) : list (option attr) :=
  if AId_eqb (fst av) a then
    if attr_skipped ig (fst av) (snd av) then [] else [resolve_value anc tag (fst av) (snd av) false]
  else [].
Definition cand_one (anc : list (list attr)) (tag : EId) (a : AId) (v : string) (imp : bool) (b : AId) : list (option attr) :=
  if AId_eqb b a then [resolve_value anc tag b v imp] else [].
Definition cand_decl (anc : list (list attr)) (tag : EId) (a : AId) (d : decl) : list (option attr) :=
  match d_name d with
  | DMarker => flat_map (cand_one anc tag a (d_value d) (d_imp d)) marker_shorthand
  | DAttr b => if is_presentation b then cand_one anc tag a (d_value d) (d_imp d) b else []
  end.
Definition candidates (anc : list (list attr)) (x : xelem) (a : AId) : list (option attr) :=
  flat_map (cand_attr anc (x_tag x) (x_ignore_ids x) a) (x_attrs x)
  ++ flat_map (cand_decl anc (x_tag x) a) (x_css x)
  ++ flat_map (cand_decl anc (x_tag x) a) (x_style x).
(* the copy loop appends without de-duplication: only the first attribute of a name is visible *)
Definition step_first (st : option attr) (nw : option attr) : option attr :=
  match st with Some x => Some x | None => nw end.
Definition cascade_spec (anc : list (list attr)) (x : xelem) (a : AId) : option attr :=
  let s0 := fold_left step_first (flat_map (cand_attr anc (x_tag x) (x_ignore_ids x) a) (x_attrs x)) None in
  fold_left step (flat_map (cand_decl anc (x_tag x) a) (x_css x) ++ flat_map (cand_decl anc (x_tag x) a) (x_style x)) s0.
