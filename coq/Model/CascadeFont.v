(* C09: font-weight over the ancestor chain.  Gen/FontWeight.v is the step function of text.rs::resolve_font_weight
   transcribed from the source; here the SPECIFICATION of the absolute notations (CSS: normal = 400, bold = 700, the
   nine numbers) and the checker of the `font-weight` correspondence.  No proofs. *)
From Coq Require Import String.
From RV Require Import Model.Base Gen.FontWeight.
Local Open Scope string_scope.
Local Open Scope Z_scope.

(* the number an absolute font-weight notation denotes *)
Definition spec_number (v : string) : option Z :=
  if String.eqb v "normal" then Some 400 else if String.eqb v "400" then Some 400
  else if String.eqb v "bold" then Some 700 else if String.eqb v "700" then Some 700
  else if String.eqb v "100" then Some 100 else if String.eqb v "200" then Some 200
  else if String.eqb v "300" then Some 300 else if String.eqb v "500" then Some 500
  else if String.eqb v "600" then Some 600 else if String.eqb v "800" then Some 800
  else if String.eqb v "900" then Some 900 else None.

(* two spellings of one absolute weight *)
Definition same_weight (v v' : string) : Prop := exists n, spec_number v = Some n /\ spec_number v' = Some n.
Definition same_weight_b (v v' : string) : bool :=
  match spec_number v, spec_number v' with Some a, Some b => a =? b | _, _ => false end.

(* correspondence: (values of the chain root first, weight of the text span in the converted tree) *)
Definition fw_case_ok (c : list string * Z) : bool := fw_resolve (fst c) =? snd c.
