(* Layer geometry of resvg's render_group (C02 / C13 / C14).  Executable definitions and boolean
   checkers only.  `layer_ibbox`, `layer_shift_ts`, `layer_ts`, `layer_size`, `layer_draw_pos`,
   `layer_draw_ts`, `max_bbox_args` are SOURCE-DERIVED (Gen/LeafRender.v, regenerated from
   crates/resvg/src/{render,lib}.rs on every run); `fit_to_rect` is Gen/LeafFit.v. *)
From RV Require Import Model.Base Model.RenderPrims Gen.LeafFit Gen.LeafRender.
Local Open Scope Z_scope.

(* ---------------------------------------------------------------- rectangles *)
Definition valid_irect (r : irect) : Prop :=
  I32_MIN <= ix r /\ I32_MIN <= iy r /\ 0 < iw r <= I32_MAX /\ 0 < ih r <= I32_MAX /\
  ix r + iw r <= I32_MAX /\ iy r + ih r <= I32_MAX.
Definition valid_irectb (r : irect) : bool :=
  (I32_MIN <=? ix r) && (I32_MIN <=? iy r) && (0 <? iw r) && (0 <? ih r) &&
  (iw r <=? I32_MAX) && (ih r <=? I32_MAX) && (ix r + iw r <=? I32_MAX) && (iy r + ih r <=? I32_MAX).
Definition inside (a b : irect) : Prop :=
  ix b <= ix a /\ iy b <= iy a /\ i_right a <= i_right b /\ i_bottom a <= i_bottom b.
Definition insideb (a b : irect) : bool :=
  (ix b <=? ix a) && (iy b <=? iy a) && (i_right a <=? i_right b) && (i_bottom a <=? i_bottom b).
(* pixel (px,py) = the unit square [px,px+1) x [py,py+1) *)
Definition in_irect (r : irect) (px py : Z) : Prop :=
  ix r <= px < i_right r /\ iy r <= py < i_bottom r.
Definition in_irectb (r : irect) (px py : Z) : bool :=
  (ix r <=? px) && (px <? i_right r) && (iy r <=? py) && (py <? i_bottom r).
Definition ishift (dx dy : Z) (r : irect) : irect :=
  {| ix := ix r + dx; iy := iy r + dy; iw := iw r; ih := ih r |}.
Definition qshift (dx dy : Z) (r : qrect) : qrect :=
  {| rx := (rx r + inject_Z dx)%Q; ry := (ry r + inject_Z dy)%Q; rw := rw r; rh := rh r |}.
Definition canvas_rect (W H : Z) : irect := {| ix := 0; iy := 0; iw := W; ih := H |}.

(* ---------------------------------------------------------------- resvg::render: max_bbox *)
(* None = the `.unwrap()` in resvg::render panics *)
Definition max_bbox (W H : Z) : option irect :=
  let '(x, y, w, h) := max_bbox_args (W, H) in irect_from_xywh x y w h.

(* ---------------------------------------------------------------- render_group: the layer *)
Inductive lres := LPanic | LSkip | LBox (r : irect).
(* the filtered branch panics only if it still goes through tiny_skia_path's Rect::to_int_rect().unwrap()
   (layer_to_int_rect_unwraps is derived from the source text) *)
Definition layer_panics (bbox : qrect) (no_filters : bool) : bool :=
  layer_to_int_rect_unwraps && negb no_filters && to_int_rect_panics bbox.
Definition layer_box (bbox : qrect) (no_filters : bool) (m : irect) : lres :=
  if layer_panics bbox no_filters then LPanic
  else match layer_ibbox bbox no_filters m with Some r => LBox r | None => LSkip end.

(* Nested layers.  The children of a layer are rendered in the layer's own coordinate frame: device pixel
   (px,py) is the local pixel (px - ox, py - oy), (ox,oy) = accumulated origin of the enclosing layers, and they
   are clamped against `layer_child_max` of the parent's clamp box (SOURCE-DERIVED: since ffdf909 the parent's
   box translated by the layer origin).  `frame m0 ox oy m`: a frame with origin (ox,oy) and clamp box m is
   reachable from the root frame (0,0,m0) through any number of nested layers. *)
Inductive frame (m0 : irect) : Z -> Z -> irect -> Prop :=
| frame_root : frame m0 0 0 m0
| frame_child : forall ox oy m b nf P,
    frame m0 ox oy m -> layer_box b nf m = LBox P ->
    frame m0 (ox + ix P) (oy + iy P) (layer_child_max m P).

(* the box before clamping, as a specification (used by the statements, proved equal to what the
   source-derived code computes when nothing saturates) *)
Definition raw_box (bbox : qrect) (no_filters : bool) : irect :=
  if no_filters
  then {| ix := f32_floor (rx bbox) - 2; iy := f32_floor (ry bbox) - 2;
          iw := f32_ceil (rw bbox) + 4; ih := f32_ceil (rh bbox) + 4 |}
  else {| ix := f32_floor (rx bbox); iy := f32_floor (ry bbox);
          iw := Z.max 1 (f32_ceil (rw bbox)); ih := Z.max 1 (f32_ceil (rh bbox)) |}.

(* nothing saturates: every coordinate of the padded box is an i32 with room to spare *)
Definition RANGE : Z := 536870912.   (* 2^29 *)
Definition small_bbox (b : qrect) : Prop :=
  - RANGE <= f32_floor (rx b) <= RANGE /\ - RANGE <= f32_floor (ry b) <= RANGE /\
  0 <= f32_ceil (rw b) <= RANGE /\ 0 <= f32_ceil (rh b) <= RANGE.
Definition small_bboxb (b : qrect) : bool :=
  (- RANGE <=? f32_floor (rx b)) && (f32_floor (rx b) <=? RANGE) &&
  (- RANGE <=? f32_floor (ry b)) && (f32_floor (ry b) <=? RANGE) &&
  (0 <=? f32_ceil (rw b)) && (f32_ceil (rw b) <=? RANGE) &&
  (0 <=? f32_ceil (rh b)) && (f32_ceil (rh b) <=? RANGE).

(* the transform the layer's content is rendered with, and where a layer pixel lands on the parent *)
Definition layer_content_ts (bbox : qrect) (ibbox : irect) (transform : ts) : ts :=
  layer_ts (layer_shift_ts bbox ibbox) transform.

(* the filter region that filter::apply_inner recomputes for a single filter whose rect is the layer
   bounding box: rect.transform(layer transform).to_int_rect(); the layer transform is the group
   transform shifted by the (integer) layer origin *)
Definition filter_region (bbox : qrect) (ibbox : irect) : option irect :=
  filter_to_int_rect (qshift (- ix ibbox) (- iy ibbox) bbox).
Definition filter_sizes_agree (bbox : qrect) (m : irect) : bool :=
  match layer_box bbox false m with
  | LBox i => match filter_region bbox i with
              | Some r => (iw r =? iw i) && (ih r =? ih i)
              | None => false
              end
  | _ => true
  end.
(* known class F4a: the unclamped filter layer does not fit into max_bbox *)
Definition filter_layer_clamped (bbox : qrect) (m : irect) : bool :=
  negb (insideb (raw_box bbox false) m).

(* ---------------------------------------------------------------- checkers for the trace correspondence
   and the model-level search *)
Definition in_lres (l : lres) (px py : Z) : Prop :=
  match l with LBox r => in_irect r px py | _ => False end.
Definition lres_eqb (a b : lres) : bool :=
  match a, b with
  | LPanic, LPanic | LSkip, LSkip => true
  | LBox x, LBox y => (ix x =? ix y) && (iy x =? iy y) && (iw x =? iw y) && (ih x =? ih y)
  | _, _ => false
  end.
Definition mk_irect (x y w h : Z) : irect := {| ix := x; iy := y; iw := w; ih := h |}.
Definition mk_qrect (x y w h : Q) : qrect := {| rx := x; ry := y; rw := w; rh := h |}.

(* one recorded `layer` event: bbox, filters>0, max, recorded ibbox, recorded shift (tx,ty) *)
Record layer_ev := { ev_bbox : qrect; ev_nf : bool; ev_max : irect; ev_ibbox : irect; ev_tx : Q; ev_ty : Q }.
Definition Qabsq (a : Q) : Q := if Qleb 0 a then a else (- a)%Q.
Definition shift_close (model impl scale : Q) : bool :=
  (* |model - impl| <= 2^-21 * max(1, |scale|): f32 evaluation of x - (x - i) is within 2 ulp of i *)
  Qleb (Qabsq (model - impl)%Q) ((1 # 2097152) * (if Qleb 1 (Qabsq scale) then Qabsq scale else 1))%Q.
Definition chk_layer_ev (e : layer_ev) : bool :=
  lres_eqb (layer_box (ev_bbox e) (ev_nf e) (ev_max e)) (LBox (ev_ibbox e)) &&
  let t := layer_shift_ts (ev_bbox e) (ev_ibbox e) in
  shift_close (t_tx t) (ev_tx e) (rx (ev_bbox e)) && shift_close (t_ty t) (ev_ty e) (ry (ev_bbox e)) &&
  Qeqb (t_sx t) 1 && Qeqb (t_sy t) 1 && Qeqb (t_kx t) 0 && Qeqb (t_ky t) 0.

(* boolean forms of the theorems, evaluated on structured inputs when a proof breaks *)
Definition chk_within_max (b : qrect) (nf : bool) (m : irect) : bool :=
  match layer_box b nf m with LBox r => insideb r m && valid_irectb r | _ => true end.
Definition chk_covers (b : qrect) (nf : bool) (W H px py : Z) : bool :=
  match max_bbox W H with
  | None => false
  | Some m =>
    match layer_box b nf m with
    | LBox r => implb (in_irectb (canvas_rect W H) px py && in_irectb (raw_box b nf) px py) (in_irectb r px py)
    | LSkip => negb (in_irectb (canvas_rect W H) px py && in_irectb (raw_box b nf) px py)
    | LPanic => false
    end
  end.
Definition chk_equivariant (b : qrect) (nf : bool) (W H dx dy px py : Z) : bool :=
  match max_bbox W H with
  | None => false
  | Some m =>
    let on_canvas := in_irectb (canvas_rect W H) px py && in_irectb (canvas_rect W H) (px + dx) (py + dy) in
    match layer_box b nf m, layer_box (qshift dx dy b) nf m with
    | LBox r, LBox r' => implb on_canvas (Bool.eqb (in_irectb r px py) (in_irectb r' (px + dx) (py + dy)))
    | LBox r, LSkip => implb on_canvas (negb (in_irectb r px py))
    | LSkip, LBox r' => implb on_canvas (negb (in_irectb r' (px + dx) (py + dy)))
    | LSkip, LSkip => true
    | _, _ => false
    end
  end.
Definition chk_offset (b : qrect) (i : irect) (t : ts) (x y : Q) : bool :=
  let lt := layer_content_ts b i t in
  let '(ox, oy) := layer_draw_pos i in
  Qeqb (map_x layer_draw_ts (map_x lt x y) (map_y lt x y) + inject_Z ox)%Q (map_x t x y) &&
  Qeqb (map_y layer_draw_ts (map_x lt x y) (map_y lt x y) + inject_Z oy)%Q (map_y t x y).
