(* C12: bounding boxes of the usvg tree over Q.
     crates/usvg/src/tree/geom.rs   BBox (default / expand / to_rect / to_non_zero_rect)
     crates/usvg/src/tree/mod.rs    Group::calculate_object_bbox, calculate_bounding_boxes, filters_bounding_box,
                                    Path::new (non-skew branch), abs_transform threading of convert_group /
                                    use_node::convert_children / clip_element, image abs box
     tiny-skia-path rect.rs         Rect::transform / NonZeroRect::transform = bounds of the four mapped corners
   Executable definitions and boolean checkers only. *)
From Coq Require Import Qminmax.
From RV Require Import Model.Base.
Local Open Scope Q_scope.

(* left, top, right, bottom *)
Record box := { bx0 : Q; by0 : Q; bx1 : Q; by1 : Q }.
Definition mkbox (l t r b : Q) : box := {| bx0 := l; by0 := t; bx1 := r; by1 := b |}.
Definition box_of_xywh (x y w h : Q) : box := mkbox x y (x + w) (y + h).
Definition box_valid (b : box) : bool := Qleb (bx0 b) (bx1 b) && Qleb (by0 b) (by1 b).        (* Rect::from_ltrb *)
Definition box_nonzero (b : box) : bool := Qltb (bx0 b) (bx1 b) && Qltb (by0 b) (by1 b).      (* NonZeroRect::from_ltrb *)

(* BBox: `None` is BBox::default() (the f32::MAX / f32::MIN sentinels: min(MAX, x) = x, max(MIN, x) = x) *)
Definition acc := option box.
Definition expand (a : acc) (r : box) : acc :=
  match a with
  | None => Some r
  | Some b => Some (mkbox (Qmin (bx0 b) (bx0 r)) (Qmin (by0 b) (by0 r)) (Qmax (bx1 b) (bx1 r)) (Qmax (by1 b) (by1 r)))
  end.
Definition to_rect (a : acc) : option box :=
  match a with Some b => if box_valid b then Some b else None | None => None end.
Definition to_nonzero (a : acc) : option box :=
  match a with Some b => if box_nonzero b then Some b else None | None => None end.

Definition ts_is_identity (t : ts) : bool :=
  Qeqb (t_sx t) 1 && Qeqb (t_ky t) 0 && Qeqb (t_kx t) 0 && Qeqb (t_sy t) 1 && Qeqb (t_tx t) 0 && Qeqb (t_ty t) 0.
Definition min4 (a b c d : Q) : Q := Qmin (Qmin a b) (Qmin c d).
Definition max4 (a b c d : Q) : Q := Qmax (Qmax a b) (Qmax c d).
(* bounds of the four mapped corners (PathBuilder::from_rect(r).transform(ts).bounds()) *)
Definition map_box (t : ts) (r : box) : box :=
  let x00 := map_x t (bx0 r) (by0 r) in let x10 := map_x t (bx1 r) (by0 r) in
  let x11 := map_x t (bx1 r) (by1 r) in let x01 := map_x t (bx0 r) (by1 r) in
  let y00 := map_y t (bx0 r) (by0 r) in let y10 := map_y t (bx1 r) (by0 r) in
  let y11 := map_y t (bx1 r) (by1 r) in let y01 := map_y t (bx0 r) (by1 r) in
  mkbox (min4 x00 x10 x11 x01) (min4 y00 y10 y11 y01) (max4 x00 x10 x11 x01) (max4 y00 y10 y11 y01).
(* Rect::transform (finite values: always Some) *)
Definition rect_transform (t : ts) (r : box) : option box :=
  if ts_is_identity t then Some r else Some (map_box t r).
(* NonZeroRect::transform *)
Definition nz_transform (t : ts) (r : box) : option box :=
  if ts_is_identity t then Some r else
  let b := map_box t r in if box_nonzero b then Some b else None.

(* what calculate_bounding_boxes reads from a child *)
Record leafboxes := { lb_obj : box; lb_abs : box; lb_stroke : box; lb_abs_stroke : box }.
Record gboxes := { gb_obj : box; gb_abs : box; gb_stroke : box; gb_abs_stroke : box; gb_layer : box; gb_abs_layer : box }.
(* CEmptyGroup: a child group without children and without filters - skipped by both loops since ab43936 *)
Inductive child := CLeaf (b : leafboxes) | CGroup (t : ts) (b : gboxes) | CEmptyGroup.
Definition is_live (c : child) : bool := match c with CEmptyGroup => false | _ => true end.
Definition live (cs : list child) : list child := filter is_live cs.
Definition zero_box : box := {| bx0 := 0; by0 := 0; bx1 := 0; by1 := 0 |}.

Definition or_self (o : option box) (r : box) : box := match o with Some x => x | None => r end.
(* the child's contributions, in the parent's coordinate system *)
Definition c_obj (c : child) : box :=
  match c with CLeaf b => lb_obj b | CGroup t b => or_self (rect_transform t (gb_obj b)) (gb_obj b) | CEmptyGroup => zero_box end.
Definition c_abs (c : child) : box := match c with CLeaf b => lb_abs b | CGroup _ b => gb_abs b | CEmptyGroup => zero_box end.
Definition c_stroke (c : child) : box :=
  match c with CLeaf b => lb_stroke b | CGroup t b => or_self (rect_transform t (gb_stroke b)) (gb_stroke b) | CEmptyGroup => zero_box end.
Definition c_abs_stroke (c : child) : box := match c with CLeaf b => lb_abs_stroke b | CGroup _ b => gb_abs_stroke b | CEmptyGroup => zero_box end.
(* a group child whose layer box does not survive its transform contributes nothing *)
Definition c_layer (c : child) : option box :=
  match c with CLeaf b => Some (lb_stroke b) | CGroup t b => nz_transform t (gb_layer b) | CEmptyGroup => None end.

(* both loops `continue` on empty groups: the unions run over the live children *)
Definition union_of (f : child -> box) (cs : list child) : acc := fold_left (fun a c => expand a (f c)) (live cs) None.
Definition union_opt (f : child -> option box) (cs : list child) : acc :=
  fold_left (fun a c => match f c with Some r => expand a r | None => a end) (live cs) None.

(* Group::calculate_object_bbox *)
Definition calculate_object_bbox (cs : list child) : option box := to_nonzero (union_of c_obj cs).
(* Group::filters_bounding_box *)
Definition filters_bounding_box (filters : list box) : option box :=
  to_nonzero (fold_left expand filters None).

(* Group::calculate_bounding_boxes: `prev` are the fields before the call (the dummies of convert_group);
   returns the fields after the call and whether it returned Some(()) *)
Definition calculate_bounding_boxes (abs_ts : ts) (filters : list box) (prev : gboxes) (cs : list child) : gboxes * bool :=
  let with4 (g : gboxes) (o a s sa : box) : gboxes :=
    {| gb_obj := o; gb_abs := a; gb_stroke := s; gb_abs_stroke := sa; gb_layer := gb_layer g; gb_abs_layer := gb_abs_layer g |} in
  let with_layer (g : gboxes) (l : box) : gboxes :=
    {| gb_obj := gb_obj g; gb_abs := gb_abs g; gb_stroke := gb_stroke g; gb_abs_stroke := gb_abs_stroke g;
       gb_layer := l; gb_abs_layer := gb_abs_layer g |} in
  let with_abs_layer (g : gboxes) (l : box) : gboxes :=
    {| gb_obj := gb_obj g; gb_abs := gb_abs g; gb_stroke := gb_stroke g; gb_abs_stroke := gb_abs_stroke g;
       gb_layer := gb_layer g; gb_abs_layer := l |} in
  (* the four object/stroke boxes; a failing `?` keeps the fields assigned so far *)
  let step1 : gboxes * bool :=
    match to_rect (union_of c_obj cs) with
    | None => (prev, true)
    | Some o =>
        match to_rect (union_of c_abs cs) with
        | None => (with4 prev o (gb_abs prev) (gb_stroke prev) (gb_abs_stroke prev), false)
        | Some a =>
            match to_rect (union_of c_stroke cs) with
            | None => (with4 prev o a (gb_stroke prev) (gb_abs_stroke prev), false)
            | Some s =>
                match to_rect (union_of c_abs_stroke cs) with
                | None => (with4 prev o a s (gb_abs_stroke prev), false)
                | Some sa => (with4 prev o a s sa, true)
                end
            end
        end
    end in
  let '(g1, ok1) := step1 in
  if negb ok1 then (g1, false) else
  let layer : option box :=
    match filters_bounding_box filters with
    | Some f => Some f
    | None => to_nonzero (union_opt c_layer cs)
    end in
  match layer with
  | None => (g1, false)
  | Some l =>
      let g2 := with_layer g1 l in
      match nz_transform abs_ts l with
      | None => (g2, false)
      | Some al => (with_abs_layer g2 al, true)
      end
  end.

Definition dummy_boxes : gboxes :=
  {| gb_obj := mkbox 0 0 0 0; gb_abs := mkbox 0 0 0 0; gb_stroke := mkbox 0 0 0 0; gb_abs_stroke := mkbox 0 0 0 0;
     gb_layer := mkbox 0 0 1 1; gb_abs_layer := mkbox 0 0 1 1 |}.

(* Path::new, branch without skew: the absolute boxes are the object boxes mapped by abs_transform *)
Definition ts_has_skew (t : ts) : bool := negb (Qeqb (t_kx t) 0) || negb (Qeqb (t_ky t) 0).
Definition path_abs_box (abs_ts : ts) (b : box) : option box := rect_transform abs_ts b.

(* image::convert_inner (as fixed by af9970c): the picture rectangle (0, 0, w, h) under parent.abs * image_ts *)
Definition image_abs_box (parent_abs image_ts : ts) (w h : Q) : option box :=
  rect_transform (ts_concat parent_abs image_ts) (mkbox 0 0 w h).

(* containment and closeness *)
Definition contains (a b : box) : Prop :=
  bx0 a <= bx0 b /\ by0 a <= by0 b /\ bx1 b <= bx1 a /\ by1 b <= by1 a.
Definition containsb (a b : box) : bool :=
  Qleb (bx0 a) (bx0 b) && Qleb (by0 a) (by0 b) && Qleb (bx1 b) (bx1 a) && Qleb (by1 b) (by1 a).
Definition inside (b : box) (x y : Q) : Prop := bx0 b <= x <= bx1 b /\ by0 b <= y <= by1 b.
Definition box_eq (a b : box) : Prop := bx0 a == bx0 b /\ by0 a == by0 b /\ bx1 a == bx1 b /\ by1 a == by1 b.

(* ------------------------------------------------------------------ abs_transform threading *)
(* GK_Plain      converter::convert_group on the element itself: ts = T(node), abs = P * T(node)
   GK_ViaUse     use_node::convert_children(node, passed): parent.abs is temporarily P * passed, convert_group
                 adds T(node) again, then g.transform = passed:  ts = passed, abs = P * passed * T(node)
   GK_ClipWrap   use_node::clip_element(node, rect, passed) + `g.abs_transform = parent.abs_transform`:
                 ts = passed, abs = P *)
Inductive gkind := GK_Plain | GK_ViaUse | GK_ClipWrap.
(* every leaf of the main tree gets the abs_transform of its parent group (convert_path, image, text; the root
   background rectangle since 5431e4e; Path::new_simple is only used for clip rectangles inside ClipPath roots) *)
Inductive tnode := TLeaf | TGroup (k : gkind) (node_ts passed_ts : ts) (ch : list tnode).
Inductive anode := ALeaf (abs : ts) | AGroup (t abs : ts) (ch : list anode).

Fixpoint thread (pabs : ts) (n : tnode) : anode :=
  match n with
  | TLeaf => ALeaf pabs
  | TGroup k nts pts ch =>
      let '(t, a) := match k with
                     | GK_Plain => (nts, ts_concat pabs nts)
                     | GK_ViaUse => (pts, ts_concat (ts_concat pabs pts) nts)
                     | GK_ClipWrap => (pts, pabs)
                     end in
      AGroup t a (map (thread a) ch)
  end.

Definition ts_eqb (a b : ts) : bool :=
  Qeqb (t_sx a) (t_sx b) && Qeqb (t_ky a) (t_ky b) && Qeqb (t_kx a) (t_kx b) &&
  Qeqb (t_sy a) (t_sy b) && Qeqb (t_tx a) (t_tx b) && Qeqb (t_ty a) (t_ty b).
(* abs_transform of every node = product of the ancestors' transforms down to the node *)
Fixpoint product_ok (pabs : ts) (n : anode) : bool :=
  match n with
  | ALeaf a => ts_eqb a pabs
  | AGroup t a ch => ts_eqb a (ts_concat pabs t) && forallb (product_ok a) ch
  end.
(* (214a8de: a `use` linked to a symbol WITHOUT viewport clip is an ordinary convert_group of the use element - GK_Plain with
   T(use) - whose only child is the symbol group, GK_ViaUse with node transform T(symbol) and passed = translate(x, y) * viewBox.)
   KNOWN class use_transform_twice: a group made by use_node::convert for a `use` / `symbol` element that carries its own
   `transform` attribute (GK_ViaUse with a non-identity node transform, GK_ClipWrap with a non-identity passed one).
   Nested `svg` elements left the class with fb5447a: convert_svg passes the identity to clip_element and builds the
   viewport group with abs = parent abs * transform (GK_Plain). *)
Fixpoint has_use_ts (n : tnode) : bool :=
  match n with
  | TLeaf => false
  | TGroup k nts pts ch =>
      match k with
      | GK_Plain => false
      | GK_ViaUse => negb (ts_eqb nts ts_identity)
      | GK_ClipWrap => negb (ts_eqb pts ts_identity)
      end || existsb has_use_ts ch
  end.

(* Path::new, branch with skew: the path is transformed first and then stroked with the stroke's own width.
   One horizontal segment (0,0)-(len,0) with butt caps under a rotation by 90 degrees combined with a uniform scale s:
   object-space stroke box, what the branch computes (a vertical segment of length s*len stroked with width w), and
   the true box (the object-space stroke box mapped by the transform) *)
Definition seg_stroke_box (len w : Q) : box := mkbox 0 (- (w / 2)) len (w / 2).
Definition rot90_scale (s : Q) : ts := from_row 0 s (- s) 0 0 0.
Definition skew_branch_stroke_box (s len w : Q) : box := mkbox (- (w / 2)) 0 (w / 2) (s * len).
Definition true_stroke_box (s len w : Q) : box := map_box (rot90_scale s) (seg_stroke_box len w).

(* ------------------------------------------------------------------ checkers used by the `bbox` correspondence *)
Definition Qabsb (a : Q) : Q := if Qleb 0 a then a else - a.
Definition Qcloseb (tol a b : Q) : bool :=
  Qleb (Qabsb (a - b)) (tol * Qmax 1 (Qmax (Qabsb a) (Qabsb b))).
Definition box_close (tol : Q) (a b : box) : bool :=
  Qcloseb tol (bx0 a) (bx0 b) && Qcloseb tol (by0 a) (by0 b) && Qcloseb tol (bx1 a) (bx1 b) && Qcloseb tol (by1 a) (by1 b).
Definition gboxes_close (tol : Q) (a b : gboxes) : bool :=
  box_close tol (gb_obj a) (gb_obj b) && box_close tol (gb_abs a) (gb_abs b) && box_close tol (gb_stroke a) (gb_stroke b) &&
  box_close tol (gb_abs_stroke a) (gb_abs_stroke b) && box_close tol (gb_layer a) (gb_layer b) &&
  box_close tol (gb_abs_layer a) (gb_abs_layer b).
Definition ts_closeb (tol : Q) (a b : ts) : bool :=
  Qcloseb tol (t_sx a) (t_sx b) && Qcloseb tol (t_ky a) (t_ky b) && Qcloseb tol (t_kx a) (t_kx b) &&
  Qcloseb tol (t_sy a) (t_sy b) && Qcloseb tol (t_tx a) (t_tx b) && Qcloseb tol (t_ty a) (t_ty b).
(* one group of a dump: model recomputation vs reported boxes *)
Definition chk_group (tol : Q) (abs_ts : ts) (filters : list box) (cs : list child) (reported : gboxes) : bool :=
  gboxes_close tol (fst (calculate_bounding_boxes abs_ts filters dummy_boxes cs)) reported.
(* parent_contains_children, as a checker: every reported box of the group contains the contribution of every child *)
Definition chk_contains (filters : list box) (cs : list child) (g : gboxes) : bool :=
  forallb (fun c => containsb (gb_obj g) (c_obj c) && containsb (gb_abs g) (c_abs c) &&
                    containsb (gb_stroke g) (c_stroke c) && containsb (gb_abs_stroke g) (c_abs_stroke c) &&
                    match filters_bounding_box filters, c_layer c with
                    | None, Some l => containsb (gb_layer g) l
                    | _, _ => true
                    end) (live cs).

(* ------------------------------------------------------------------ polygonal paths under arbitrary affine transforms *)
(* Path::new for an UNSTROKED path made of straight segments: `compute_tight_bounds` of a polygonal path is the bounding
   box of its vertices.  Branch with skew: the path is transformed first, then bounded; branch without skew: the object
   box is mapped (rect_transform). *)
Definition pt := (Q * Q)%type.
Definition apply_ts (t : ts) (p : pt) : pt := (map_x t (fst p) (snd p), map_y t (fst p) (snd p)).
Definition pt_box (p : pt) : box := mkbox (fst p) (snd p) (fst p) (snd p).
Definition pts_bbox (l : list pt) : option box := fold_left (fun a p => expand a (pt_box p)) l None.
Definition path_abs_bbox (abs_ts : ts) (pts : list pt) : option box :=
  if ts_has_skew abs_ts then pts_bbox (map (apply_ts abs_ts) pts)
  else match pts_bbox pts with Some b => rect_transform abs_ts b | None => None end.
Definition mix (l : Q) (p q : pt) : pt := ((1 - l) * fst p + l * fst q, (1 - l) * snd p + l * snd q).

(* a tree of nodes with their absolute boxes: leaves are polygonal paths with their abs_transform, PFixed is any other
   contribution (image, text, an empty group with filters: a box without modelled points), groups take the union of the
   children's absolute boxes (Group::calculate_bounding_boxes: abs_bbox.expand(child.abs_bounding_box())) *)
Inductive ptree := PLeaf (abs_ts : ts) (pts : list pt) | PFixed (b : box) | PGroup (ch : list ptree).
Fixpoint pt_abs_box (n : ptree) : option box :=
  match n with
  | PLeaf a pts => path_abs_bbox a pts
  | PFixed b => Some b
  | PGroup ch => fold_left (fun acc c => match pt_abs_box c with Some b => expand acc b | None => acc end) ch None
  end.
(* every vertex of every path below n, with the absolute transform it is drawn under *)
Fixpoint leaf_points (n : ptree) : list (ts * pt) :=
  match n with
  | PLeaf a pts => map (fun p => (a, p)) pts
  | PFixed _ => []
  | PGroup ch => flat_map leaf_points ch
  end.
(* checker for the correspondence: reported object / absolute boxes of a dumped polygonal path *)
Definition chk_path_boxes (tol : Q) (abs_ts : ts) (pts : list pt) (obj abs : box) : bool :=
  match pts_bbox pts, path_abs_bbox abs_ts pts with
  | Some o, Some a => box_close tol o obj && box_close tol a abs
  | _, _ => false
  end.

(* ------------------------------------------------------------------ extension round 4: sub-trees (clip paths, masks, patterns, feImage) *)
(* Every node can own sub-tree roots: Group::clip_path / mask (and their own clip / mask chains), the Pattern::root of a path's
   fill / stroke paint, feImage roots.  A root is a Group::empty() (transform = abs_transform = identity: clippath.rs, mask.rs,
   paint_server.rs convert_pattern); its content is converted by the same convert_children / convert_group as the main tree,
   so inside a sub-tree the same threading applies, started from the identity.  Wrapper groups set by hand (fact
   BF_TsAssignSites): mask.rs objectBoundingBox subroot and convert_pattern's viewBox group get transform = abs_transform = w
   BEFORE their children are converted (GK_Plain with node transform w under the identity root).
   XPushed: paint_server.rs push_pattern_transform(root, w), run AFTER the content was converted: the old root becomes a group
   with transform = abs_transform = w below a fresh root, its descendants keep the abs_transform they had
   ("TODO: we should update abs_transform in all descendants as well"). *)
Inductive xnode :=
  | XLeaf (subs : list xnode)
  | XGroup (k : gkind) (node_ts passed_ts : ts) (subs : list xnode) (ch : list xnode)
  | XPushed (w : ts) (ch : list xnode).
Inductive bnode :=
  | BLeaf (abs : ts) (subs : list bnode)
  | BGroup (t abs : ts) (subs : list bnode) (ch : list bnode).

Fixpoint xthread (pabs : ts) (n : xnode) : bnode :=
  match n with
  | XLeaf subs => BLeaf pabs (map (xthread ts_identity) subs)
  | XGroup k nts pts subs ch =>
      let '(t, a) := match k with
                     | GK_Plain => (nts, ts_concat pabs nts)
                     | GK_ViaUse => (pts, ts_concat (ts_concat pabs pts) nts)
                     | GK_ClipWrap => (pts, pabs)
                     end in
      BGroup t a (map (xthread ts_identity) subs) (map (xthread a) ch)
  | XPushed w ch => BGroup w w [] (map (xthread ts_identity) ch)
  end.
(* a sub-tree root: Group::empty() with the converted content *)
Definition xroot (subs ch : list xnode) : xnode := XGroup GK_Plain ts_identity ts_identity subs ch.

(* the product invariant on the whole forest: in the main tree relative to pabs, in every sub-tree (at every nesting depth)
   relative to the identity of its root *)
Fixpoint xproduct_ok (pabs : ts) (n : bnode) : bool :=
  match n with
  | BLeaf a subs => ts_eqb a pabs && forallb (xproduct_ok ts_identity) subs
  | BGroup t a subs ch => ts_eqb a (ts_concat pabs t) && forallb (xproduct_ok ts_identity) subs && forallb (xproduct_ok a) ch
  end.
(* KNOWN classes: use_transform_twice as before; pattern_pushed_transform: a push_pattern_transform wrapper anywhere in the forest *)
Fixpoint xhas_use_ts (n : xnode) : bool :=
  match n with
  | XLeaf subs => existsb xhas_use_ts subs
  | XGroup k nts pts subs ch =>
      match k with
      | GK_Plain => false
      | GK_ViaUse => negb (ts_eqb nts ts_identity)
      | GK_ClipWrap => negb (ts_eqb pts ts_identity)
      end || existsb xhas_use_ts subs || existsb xhas_use_ts ch
  | XPushed _ ch => existsb xhas_use_ts ch
  end.
Fixpoint xhas_pushed (n : xnode) : bool :=
  match n with
  | XLeaf subs => existsb xhas_pushed subs
  | XGroup _ _ _ subs ch => existsb xhas_pushed subs || existsb xhas_pushed ch
  | XPushed _ _ => true
  end.
(* the main tree of a forest: sub-trees dropped (what `thread` models) *)
Fixpoint xmain (n : xnode) : tnode :=
  match n with
  | XLeaf _ => TLeaf
  | XGroup k nts pts _ ch => TGroup k nts pts (map xmain ch)
  | XPushed w ch => TGroup GK_Plain w ts_identity (map xmain ch)
  end.
(* all nodes of the threaded forest with the abs_transform of their parent (identity for roots), flattened: what the
   `bbox` correspondence enumerates from a dump *)
Fixpoint bflat (pabs : ts) (n : bnode) : list (ts * bnode) :=
  (pabs, n) ::
  match n with
  | BLeaf _ subs => flat_map (bflat ts_identity) subs
  | BGroup _ a subs ch => flat_map (bflat ts_identity) subs ++ flat_map (bflat a) ch
  end.
Definition bnode_local_ok (pabs : ts) (n : bnode) : bool :=
  match n with
  | BLeaf a _ => ts_eqb a pabs
  | BGroup t a _ _ => ts_eqb a (ts_concat pabs t)
  end.

(* ------------------------------------------------------------------ extension round 4 (b): fill box, stroke box, layer box *)
(* Path::calculate_stroke_bbox strokes the path (dash removed) with tiny-skia and takes the tight bounds of the outline: the
   stroker is not modelled; what is modelled is the sandwich every leaf must satisfy:
     fill box  <=  stroke box  <=  fill box inflated by the largest distance a stroke outline point can have from the path:
   half the width times 1 (butt / round caps, round / bevel joins), sqrt 2 <= 3/2 (square cap corner), the miter limit (miter
   join: tip at w/2 / sin(theta/2) <= w/2 * limit) or sqrt(limit^2 + 1) <= limit + 1 (miter-clip: corners of the clipped tip). *)
Definition inflate (b : box) (r : Q) : box := mkbox (bx0 b - r) (by0 b - r) (bx1 b + r) (by1 b + r).
(* join: 0 miter, 1 miter-clip, 2 round, 3 bevel;  cap: 0 butt, 1 round, 2 square *)
Definition stroke_radius (w ml : Q) (join cap : N) : Q :=
  (w / 2) * Qmax (Qmax 1 (match join with 0%N => ml | 1%N => ml + 1 | _ => 1 end)) (match cap with 2%N => 3 # 2 | _ => 1 end).
(* checker for the correspondence `leaf-sandwich`; slack: f32 + the stroker's curve flattening (measured, see c12.py) *)
Definition chk_leaf_sandwich (slack : Q) (stroked : bool) (w ml : Q) (join cap : N) (fill stroke : box) : bool :=
  containsb (inflate stroke slack) fill &&
  (if stroked then containsb (inflate fill (stroke_radius w ml join cap * (21 # 20) + slack)) stroke else true).

(* ------------------------------------------------------------------ round 5: the EXACT wrong values of class use_transform_twice *)
(* A group that violates the product is excused by the class only when its abs_transform is the value the unchanged code is
   known to produce (any other value is a different defect of the same shape: seed C12-17):
     KW_ViaUse    GK_ViaUse:   transform = passed, abs = P * passed * T(node);  for a `use` -> non-symbol, passed = T * translate(x, y)
                  (`use_passed` says whether the candidate carries that constraint; a `symbol` with its own transform S has
                  passed = translate(x, y) * viewBox: no constraint on ts, aux = S)
     KW_ClipWrap  GK_ClipWrap: transform = passed <> identity, abs = P
     KW_Inner     the `use` group inside a GK_ClipWrap wrapper whose own abs_transform is the known-wrong P (parent abs =
                  grandparent abs, parent transform T <> identity): transform = identity (reset), abs = P * T *)
Definition kw_via_use (tol : Q) (pabs t a : ts) (cand : bool * ts * ts) : bool :=
  match cand with
  | (use_passed, passed, aux) =>
      (if use_passed then ts_closeb tol t passed else true) && negb (ts_closeb tol aux ts_identity) &&
      ts_closeb tol a (ts_concat (ts_concat pabs t) aux)
  end.
Definition kw_clip_wrap (tol : Q) (pabs t a : ts) : bool :=
  ts_closeb tol a pabs && negb (ts_closeb tol t ts_identity).
Definition kw_inner (tol : Q) (gp_abs pabs parent_ts t a : ts) : bool :=
  ts_closeb tol t ts_identity && ts_closeb tol pabs gp_abs && negb (ts_closeb tol parent_ts ts_identity) &&
  ts_closeb tol a (ts_concat pabs parent_ts).
Definition known_wrong_use (tol : Q) (gp_abs pabs parent_ts t a : ts) (wrap_ok : bool) (cands : list (bool * ts * ts)) : bool :=
  (wrap_ok && kw_clip_wrap tol pabs t a) || (wrap_ok && kw_inner tol gp_abs pabs parent_ts t a) || existsb (kw_via_use tol pabs t a) cands.
