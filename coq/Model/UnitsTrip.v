(* C08: `*Units` attributes and `visibility` through write + re-parse (Gen/UnitsTables.v, tools/gen_units.py).  Executable Gallina only. *)
From RV Require Import Gen.UnitsTables.
From Coq Require Import String List Bool.
Import ListNotations.

Definition units_eqb (a b : units) : bool :=
  match a, b with U_UserSpaceOnUse, U_UserSpaceOnUse | U_ObjectBoundingBox, U_ObjectBoundingBox => true | _, _ => false end.
(* write_units(id, u, def): `if units != def { name }` *)
Definition write_units (u def : units) : option string := if units_eqb u def then None else Some (units_name u).
(* the parser: attribute(..).unwrap_or(default) *)
Definition read_units (w : option string) (pdef : units) : option units :=
  match w with Some s => parse_units s | None => Some pdef end.
(* the values a site can hold *)
Definition site_values (s : string * option units * units * units) : list units :=
  match snd (fst (fst s)) with Some c => [c] | None => units_all end.
Definition units_site_ok (s : string * option units * units * units) : bool :=
  match s with
  | (_, _, wdef, pdef) =>
      forallb (fun u => match read_units (write_units u wdef) pdef with Some u' => units_eqb u u' | None => false end) (site_values s)
  end.
Definition chk_units_sites : bool := forallb units_site_ok units_sites.

Definition read_visible (w : option string) : option bool :=
  match w with Some s => option_map visible_of (parse_visibility s) | None => Some (visible_of default_visibility) end.
