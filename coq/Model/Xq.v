(* C01 model: the numeric domain in which "can this value reach an unwrap?" is decided, and the validated
   constructors of strict-num / tiny-skia-path that usvg's parser relies on.

   xq = finite rational | +inf | -inf | NaN.  Arithmetic overflows to +-inf above f32::MAX; rounding of
   finite values is ignored (DESIGN 1.2).  -0.0 is the finite value 0: every comparison the constructors
   make treats it like +0.0.
     PositiveF32::new(n)         n.is_finite() && n >= 0.0
     NonZeroPositiveF32::new(n)  n.is_finite() && n > 0.0
     NormalizedF32::new(n)       n.is_finite() && n >= 0.0 && n <= 1.0
     Size::from_wh(w, h)         NonZeroPositiveF32::new(w)?, NonZeroPositiveF32::new(h)?
     NonZeroRect::from_ltrb      all four finite, left < right, top < bottom, right-left and bottom-top
                                 strictly inside (f32::MIN, f32::MAX) (checked_f32_sub, computed in f64)
     NonZeroRect::from_xywh      from_ltrb(x, y, w + x, h + y)
   Executable Gallina only. *)
From Coq Require Import QArith Bool.
From RV Require Import Model.Base.
Local Open Scope Q_scope.

Inductive xq := XFin (q : Q) | XPInf | XNInf | XNaN.

(* f32::MAX = (2 - 2^-23) * 2^127 *)
Definition F32_MAX : Q := 340282346638528859811704183484516925440 # 1.

Definition x_is_finite (x : xq) : bool := match x with XFin _ => true | _ => false end.

(* f32 addition up to rounding: overflow gives an infinity, inf - inf and NaN give NaN *)
Definition x_add (a b : xq) : xq :=
  match a, b with
  | XNaN, _ | _, XNaN => XNaN
  | XPInf, XNInf | XNInf, XPInf => XNaN
  | XPInf, _ | _, XPInf => XPInf
  | XNInf, _ | _, XNInf => XNInf
  | XFin p, XFin q =>
      let s := p + q in
      if Qltb F32_MAX s then XPInf else if Qltb s (- F32_MAX) then XNInf else XFin s
  end.

Definition x_positive (x : xq) : bool := match x with XFin q => Qleb 0 q | _ => false end.
Definition x_nonzero_positive (x : xq) : bool := match x with XFin q => Qltb 0 q | _ => false end.
Definition x_normalized (x : xq) : bool := match x with XFin q => Qleb 0 q && Qleb q 1 | _ => false end.
Definition x_size (w h : xq) : bool := x_nonzero_positive w && x_nonzero_positive h.

Definition x_nz_ltrb (l t r b : xq) : bool :=
  match l, t, r, b with
  | XFin l, XFin t, XFin r, XFin b =>
      Qltb l r && Qltb t b && Qltb (r - l) F32_MAX && Qltb (b - t) F32_MAX
  | _, _, _, _ => false
  end.
Definition x_nz_xywh (x y w h : xq) : bool := x_nz_ltrb x y (x_add w x) (x_add h y).

(* tiny_skia_path::Rect (may be empty): from_ltrb needs finite edges, left <= right, top <= bottom and
   representable width / height; from_xywh(x, y, w, h) = from_ltrb(x, y, w + x, h + y) *)
Definition x_rect_ltrb (l t r b : xq) : bool :=
  match l, t, r, b with
  | XFin l, XFin t, XFin r, XFin b =>
      Qleb l r && Qleb t b && Qltb (r - l) F32_MAX && Qltb (b - t) F32_MAX
  | _, _, _, _ => false
  end.
Definition x_rect_xywh (x y w h : xq) : bool := x_rect_ltrb x y (x_add w x) (x_add h y).
