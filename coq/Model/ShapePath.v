(* C10 model: the path a basic shape is converted into (shapes.rs), over exact rationals.
     - `pbuilder`: hand model of tiny_skia_path::PathBuilder 0.11.4 (move_to overwrites a trailing Move, line_to /
       cubic_to / quad_to inject a Move when one is required, close never doubles, finish rejects an empty path
       and a lone Move).  External crate, pinned by Cargo.lock: tied by the correspondence `shape-path` of
       tools/props/c10.py (dumped segment list of the converted element vs this model, compared in Coq).
     - `bop` / `run_script`: straight-line sequences of builder calls; the scripts themselves
       (Gen/ShapePaths.v: points_to_path, convert_polyline, convert_polygon, convert_line, ellipse_to_path, the
       rounded branch of convert_rect, the segment dispatch of convert_path) are transcribed from shapes.rs by
       tools/gen_structure.py on every run.
     - arcs stay symbolic (`SA rx ry x y` = arc_to(rx, ry, 0, false, true, x, y)): kurbo's arc -> cubic step is
       not modelled.
   No proofs here. *)
From RV Require Import Model.Base.
Local Open Scope Q_scope.

Inductive seg :=
| SM (x y : Q) | SL (x y : Q) | SQ (x1 y1 x y : Q) | SC (x1 y1 x2 y2 x y : Q)
| SA (rx ry x y : Q)                 (* elliptical arc, rotation 0, small, positive sweep, to (x, y) *)
| SZ.

(* verbs + points in reverse order; move_to_required; the point at last_move_to_index *)
Record pbuilder := { b_rev : list seg; b_mtr : bool; b_lm : option (Q * Q) }.
Definition pb_new : pbuilder := {| b_rev := []; b_mtr := true; b_lm := None |}.
Definition pb_is_empty (b : pbuilder) : bool := match b_rev b with [] => true | _ => false end.
Definition pb_len (b : pbuilder) : nat := length (b_rev b).
Definition pb_move_to (b : pbuilder) (x y : Q) : pbuilder :=
  match b_rev b with
  | SM _ _ :: r => {| b_rev := SM x y :: r; b_mtr := b_mtr b; b_lm := Some (x, y) |}
  | r => {| b_rev := SM x y :: r; b_mtr := false; b_lm := Some (x, y) |}
  end.
Definition pb_inject (b : pbuilder) : pbuilder :=
  if b_mtr b then match b_lm b with Some p => pb_move_to b (fst p) (snd p) | None => pb_move_to b 0 0 end else b.
Definition pb_push (b : pbuilder) (s : seg) : pbuilder :=
  let b' := pb_inject b in {| b_rev := s :: b_rev b'; b_mtr := b_mtr b'; b_lm := b_lm b' |}.
Definition pb_line_to (b : pbuilder) (x y : Q) : pbuilder := pb_push b (SL x y).
Definition pb_quad_to (b : pbuilder) (x1 y1 x y : Q) : pbuilder := pb_push b (SQ x1 y1 x y).
Definition pb_cubic_to (b : pbuilder) (x1 y1 x2 y2 x y : Q) : pbuilder := pb_push b (SC x1 y1 x2 y2 x y).
(* shapes.rs PathBuilderExt::arc_to: nothing without a previous point *)
Definition pb_arc_to (b : pbuilder) (rx ry x y : Q) : pbuilder :=
  if pb_is_empty b then b else pb_push b (SA rx ry x y).
Definition pb_close (b : pbuilder) : pbuilder :=
  {| b_rev := match b_rev b with [] => [] | SZ :: r => SZ :: r | r => SZ :: r end; b_mtr := true; b_lm := b_lm b |}.
(* finish: None for no verbs / a lone Move (all coordinates are finite here, so the bounds always exist) *)
Definition pb_finish (b : pbuilder) : option (list seg) :=
  match b_rev b with [] => None | [_] => None | r => Some (rev r) end.
(* PathBuilder::from_rect(Rect::from_xywh(x, y, w, h)) *)
Definition path_from_rect (x y w h : Q) : list seg :=
  [SM x y; SL (x + w) y; SL (x + w) (y + h); SL x (y + h); SZ].

(* straight-line builder scripts *)
Inductive bop :=
| BMove (x y : Q) | BLine (x y : Q) | BQuad (x1 y1 x y : Q) | BCubic (x1 y1 x2 y2 x y : Q)
| BArc (rx ry x y : Q) | BClose.
Definition run_op (b : pbuilder) (o : bop) : pbuilder :=
  match o with
  | BMove x y => pb_move_to b x y
  | BLine x y => pb_line_to b x y
  | BQuad x1 y1 x y => pb_quad_to b x1 y1 x y
  | BCubic x1 y1 x2 y2 x y => pb_cubic_to b x1 y1 x2 y2 x y
  | BArc rx ry x y => pb_arc_to b rx ry x y
  | BClose => pb_close b
  end.
Definition run_script (l : list bop) (b : pbuilder) : pbuilder := fold_left run_op l b.

(* the output of svgtypes::SimplifyingPathParser: absolute M / L / Q / C / Z *)
Inductive simple_seg :=
| PMove (x y : Q) | PLine (x y : Q) | PQuad (x1 y1 x y : Q) | PCurve (x1 y1 x2 y2 x y : Q) | PClose.

(* what the SVG specification gives as the equivalent path of each basic shape *)
Definition spec_points_path (closed : bool) (pts : list (Q * Q)) : list seg :=
  match pts with
  | [] => []
  | p :: r => SM (fst p) (snd p) :: map (fun q => SL (fst q) (snd q)) r ++ (if closed then [SZ] else [])
  end.
Definition spec_points_data (closed : bool) (pts : list (Q * Q)) : list simple_seg :=
  match pts with
  | [] => []
  | p :: r => PMove (fst p) (snd p) :: map (fun q => PLine (fst q) (snd q)) r ++ (if closed then [PClose] else [])
  end.
Definition spec_ellipse_path (cx cy rx ry : Q) : list seg :=
  [SM (cx + rx) cy; SA rx ry cx (cy + ry); SA rx ry (cx - rx) cy; SA rx ry cx (cy - ry); SA rx ry (cx + rx) cy; SZ].
(* SVG 1.1 9.2, with rx, ry already resolved and clamped *)
Definition spec_round_rect_path (x y w h rx ry : Q) : list seg :=
  [SM (x + rx) y;
   SL (x + w - rx) y; SA rx ry (x + w) (y + ry);
   SL (x + w) (y + h - ry); SA rx ry (x + w - rx) (y + h);
   SL (x + rx) (y + h); SA rx ry x (y + h - ry);
   SL x (y + ry); SA rx ry (x + rx) y;
   SZ].

(* equality of segment lists up to == on coordinates *)
Definition seg_eq (a b : seg) : Prop :=
  match a, b with
  | SM x y, SM x' y' | SL x y, SL x' y' => x == x' /\ y == y'
  | SQ a1 b1 x y, SQ a1' b1' x' y' | SA a1 b1 x y, SA a1' b1' x' y' => a1 == a1' /\ b1 == b1' /\ x == x' /\ y == y'
  | SC a1 b1 a2 b2 x y, SC a1' b1' a2' b2' x' y' => a1 == a1' /\ b1 == b1' /\ a2 == a2' /\ b2 == b2' /\ x == x' /\ y == y'
  | SZ, SZ => True
  | _, _ => False
  end.
Definition segs_eq (a b : list seg) : Prop := Forall2 seg_eq a b.
Definition osegs_eq (a b : option (list seg)) : Prop :=
  match a, b with Some x, Some y => segs_eq x y | None, None => True | _, _ => False end.

(* ---- checker for the correspondence `shape-path`: model segments vs dumped segments.
   A symbolic arc matches a non-empty run of cubics ending at its end point, or one line to its end point
   (kurbo returns no arc for a zero radius). *)
Definition qclose_abs (tol a b : Q) : bool :=
  let d := a - b in Qleb (if Qleb 0 d then d else - d) tol.
Definition seg_end (s : seg) : option (Q * Q) :=
  match s with
  | SM x y | SL x y | SQ _ _ x y | SC _ _ _ _ x y | SA _ _ x y => Some (x, y)
  | SZ => None
  end.
Definition pt_close (tol : Q) (p : Q * Q) (s : seg) : bool :=
  match seg_end s with Some q => qclose_abs tol (fst p) (fst q) && qclose_abs tol (snd p) (snd q) | None => false end.
Definition is_cubic (s : seg) : bool := match s with SC _ _ _ _ _ _ => true | _ => false end.
Fixpoint segs_match (tol : Q) (model impl : list seg) : bool :=
  match model with
  | [] => match impl with [] => true | _ => false end
  | SA _ _ x y :: m =>
      match impl with
      | SL x' y' :: r => qclose_abs tol x x' && qclose_abs tol y y' && segs_match tol m r
      | SC _ _ _ _ _ _ :: _ =>
          (* a run of cubics ending at (x, y); the next model segment is never a cubic in a shape script *)
          (fix go (fuel : list seg) (l : list seg) : bool :=
             match fuel with
             | [] => false
             | _ :: fuel' =>
                 match l with
                 | (SC _ _ _ _ x' y' as s) :: r =>
                     (qclose_abs tol x x' && qclose_abs tol y y' && segs_match tol m r) || go fuel' r
                 | _ => false
                 end
             end) impl impl
      | _ => false
      end
  | s :: m =>
      match impl with
      | s' :: r =>
          match s, s' with
          | SM x y, SM x' y' | SL x y, SL x' y' => qclose_abs tol x x' && qclose_abs tol y y'
          | SQ a b x y, SQ a' b' x' y' =>
              qclose_abs tol a a' && qclose_abs tol b b' && qclose_abs tol x x' && qclose_abs tol y y'
          | SC a b c d x y, SC a' b' c' d' x' y' =>
              qclose_abs tol a a' && qclose_abs tol b b' && qclose_abs tol c c' && qclose_abs tol d d'
              && qclose_abs tol x x' && qclose_abs tol y y'
          | SZ, SZ => true
          | _, _ => false
          end && segs_match tol m r
      | [] => false
      end
  end.
Definition osegs_match (tol : Q) (model impl : option (list seg)) : bool :=
  match model, impl with
  | Some a, Some b => segs_match tol a b
  | None, None => true
  | _, _ => false
  end.
