(* C04 correspondence helpers: the model of Model/Style.v run on the inputs the harness fed to the real
   parser, compared with what the parser produced (comparison inside Coq; tools/props/c04.py only parses
   the list of failing indices).  Also boolean forms of the theorem statements, used to search the model
   for a counterexample when a proof no longer checks.  Never used by proofs. *)
From RV Require Import Model.Base Model.StylePrims Model.Corr Gen.LeafStyle Model.TreeValid Model.Style.
Local Open Scope Q_scope.

Definition xq_close (tol : Q) (a b : xq) : bool :=
  match a, b with
  | Fin x, Fin y => Qclose tol x y
  | PInf, PInf | NInf, NInf | NaN, NaN => true
  | _, _ => false
  end.
(* absolute tolerance (stop offsets: EPSILON = 2^-23 must stay visible) *)
Definition xq_close_abs (tol : Q) (a b : xq) : bool :=
  match a, b with
  | Fin x, Fin y => Qleb (Qabs' (x - y)) tol
  | _, _ => false
  end.
Fixpoint list_close (f : xq -> xq -> bool) (a b : list xq) : bool :=
  match a, b with
  | [], [] => true
  | x :: r, y :: s => f x y && list_close f r s
  | _, _ => false
  end.
Definition olist_close (f : xq -> xq -> bool) (a b : option (list xq)) : bool :=
  match a, b with
  | None, None => true
  | Some x, Some y => list_close f x y
  | _, _ => false
  end.

(* the fixed environment of the crafted documents: dpi 96, font-size 12 (usvg defaults), viewBox 0 0 100 100
   (so the diagonal used for `other` percentages is sqrt((100^2+100^2)/2) = 100) *)
Definition st0 : state_ :=
  {| st_opt := {| opt_dpi := Fin 96; opt_font_size := Fin 12 |};
     st_view_box := {| xr_x := Fin 0; xr_y := Fin 0; xr_w := Fin 100; xr_h := Fin 100 |} |}.
Definition nd0 : node_ := {| nd_font_size := Fin 12 |}.
Definition CL (aid : aid_) (n : xq) (u : unit_) : xq :=
  convert_length (fun _ => Fin 100) {| len_number := n; len_unit := u |} nd0 aid UserSpaceOnUse st0.

(* the same with the element's resolved font size given (font-relative units) *)
Definition CLf (fs : xq) (aid : aid_) (n : xq) (u : unit_) : xq :=
  convert_length (fun _ => Fin 100) {| len_number := n; len_unit := u |} {| nd_font_size := fs |} aid UserSpaceOnUse st0.

Definition tolr : Q := 1 # 200000.       (* relative 5e-6: a handful of f32 roundings *)

(* ---- stroke ---- *)
Definition stroke_obs := option (xq * xq * option (list xq)).
Definition chk_stroke (c : stroke_in * stroke_obs) : bool :=
  match resolve_stroke (fst c), snd c with
  | None, None => true
  | Some s, Some (w, m, d) =>
      xq_close tolr (so_width s) w && xq_close tolr (so_miter s) m && olist_close (xq_close tolr) (so_dash s) d
  | _, _ => false
  end.

(* ---- gradient stops ---- *)
Inductive grad_obs := ONone | OColor | OServer (stops : list xq) (r : option xq).
Definition tol_stop : Q := 1 # 1099511627776.     (* 2^-40 absolute *)
Definition chk_gradient (c : option (list xq) * option xq * grad_obs) : bool :=
  let '(offs, rr, obs) := c in
  match convert_gradient offs rr, obs with
  | GNone, ONone | GColor, OColor => true
  | GServer s r, OServer s' r' =>
      list_close (xq_close_abs tol_stop) s s'
      && match r, r' with None, None => true | Some a, Some b => xq_close tolr a b | _, _ => false end
  | _, _ => false
  end.

(* ---- regions ---- *)
Definition chk_region (c : xq * xq * xq * xq * option xrect) : bool :=
  let '(x, y, w, h, obs) := c in
  match nz_from_xywh x y w h, obs with
  | None, None => true
  | Some a, Some b => xq_close tolr (xr_x a) (xr_x b) && xq_close tolr (xr_y a) (xr_y b)
                      && xq_close tolr (xr_w a) (xr_w b) && xq_close tolr (xr_h a) (xr_h b)
  | _, _ => false
  end.

(* ---- rect radii: observed (rx, ry) read back from the path; a plain rectangle shows (0, 0) ---- *)
Definition chk_radii (c : xq * xq * option radius_attr * option radius_attr * option (xq * xq)) : bool :=
  let '(w, h, rxo, ryo, obs) := c in
  match rect_radii w h rxo ryo, obs with
  | None, None => true
  | Some (rx, ry), Some (ox, oy) =>
      if rect_is_plain rx then xq_close tolr ox (Fin 0) && xq_close tolr oy (Fin 0)
      else xq_close tolr rx ox && xq_close tolr ry oy
  | _, _ => false
  end.

(* ---- text chunks: per chunk (byte length, spans) ---- *)
Local Open Scope N_scope.
Definition chunk_obs := (N * list (N * N))%type.
Fixpoint spans_eqb (a b : list (N * N)) : bool :=
  match a, b with
  | [], [] => true
  | (s, e) :: r, (s', e') :: r' => (s =? s') && (e =? e') && spans_eqb r r'
  | _, _ => false
  end.
Fixpoint chunks_eqb (a : list chunk) (b : list chunk_obs) : bool :=
  match a, b with
  | [], [] => true
  | c :: r, (len, sp) :: r' => (sumN (ck_lens c) =? len) && spans_eqb (ck_spans c) sp && chunks_eqb r r'
  | _, _ => false
  end.
Definition chk_chunks (c : list (N * bool * bool) * list chunk_obs) : bool :=
  chunks_eqb (collect_chunks (fst c)) (snd c) && forallb chunk_ok (collect_chunks (fst c)).
Local Open Scope Q_scope.

(* ---- boolean forms of the theorem statements (model-level search) ---- *)
Definition thm_stroke (i : stroke_in) : bool :=
  match resolve_stroke i with
  | None => true
  | Some s => valid_stroke (so_width s) (so_miter s) (so_dash s)
              && match so_dash s with Some d => all_finite d | None => true end
  end.
Definition thm_stops (offs : list xq) : bool :=
  valid_stops_range (convert_stops offs) && sorted_xq (convert_stops offs).
Definition thm_gradient (offs : option (list xq)) (rr : option xq) : bool :=
  match convert_gradient offs rr with
  | GServer s r => valid_stops s && match r with Some v => valid_radius v | None => true end
  | _ => true
  end.
Definition thm_region (x y w h : xq) : bool :=
  match nz_from_xywh x y w h with Some rc => valid_region rc | None => true end.
Definition thm_radii (w h : xq) (rxo ryo : option radius_attr) : bool :=
  match rect_radii w h rxo ryo with
  | Some (rx, ry) => (xq_is_nan rx || xq_leb rx (xq_div w (Fin 2))) && (xq_is_nan ry || xq_leb ry (xq_div h (Fin 2)))
  | None => true
  end.
