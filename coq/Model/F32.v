(* Exact IEEE-754 binary32 arithmetic (Flocq BinarySingleNaN, round-to-nearest-even) plus the Rust
   conversions the per-pixel filter kernels use: `u8 as f32`, `f32 as u8` (truncating, saturating,
   NaN -> 0), decimal literals, comparisons (false on NaN), `approx_zero_ulps(4)`.
   Executable definitions only; used by the generated Gen/PixelTables.v and by Model/Pixel.v.
   Rust emits no FMA for these expressions, so each `+ - * /` is one correctly rounded operation. *)
From Coq Require Export ZArith List Bool Lia.
From Flocq Require Import Core BinarySingleNaN.
Export ListNotations.
Local Open Scope Z_scope.

Definition f32 := binary_float 24 128.
Definition Hp24 : Prec_gt_0 24 := eq_refl.
Definition Hpe24 : Prec_lt_emax 24 128 := eq_refl.

(* integer -> f32 (`x as f32`, correctly rounded; exact below 2^24) *)
Definition of_Z (z : Z) : f32 := binary_normalize 24 128 Hp24 Hpe24 mode_NE z 0 false.
(* m * 2^e, exact when representable: how the harness hands over arbitrary f32 parameters *)
Definition of_me (m e : Z) : f32 := binary_normalize 24 128 Hp24 Hpe24 mode_NE m e false.

Definition fmul : f32 -> f32 -> f32 := @Bmult 24 128 Hp24 Hpe24 mode_NE.
Definition fdiv : f32 -> f32 -> f32 := @Bdiv 24 128 Hp24 Hpe24 mode_NE.
Definition fadd : f32 -> f32 -> f32 := @Bplus 24 128 Hp24 Hpe24 mode_NE.
Definition fsub : f32 -> f32 -> f32 := @Bminus 24 128 Hp24 Hpe24 mode_NE.

(* decimal literal num/den (both below 2^24, checked by the generator): one correctly rounded
   division of two exact integers is the correctly rounded value of the literal *)
Definition flit (num den : Z) : f32 := fdiv (of_Z num) (of_Z den).
Definition finf (neg : bool) : f32 := B754_infinity neg.
Definition fnan : f32 := B754_nan.
Definition fzero : f32 := B754_zero false.

(* Rust float comparisons: every one is false when an operand is NaN *)
Definition fcmp (a b : f32) : option comparison := Bcompare a b.
Definition fgt (a b : f32) : bool := match fcmp a b with Some Gt => true | _ => false end.
Definition flt (a b : f32) : bool := match fcmp a b with Some Lt => true | _ => false end.
Definition fge (a b : f32) : bool := match fcmp a b with Some Gt | Some Eq => true | _ => false end.
Definition fle (a b : f32) : bool := match fcmp a b with Some Lt | Some Eq => true | _ => false end.

(* truncation of a non-negative finite value m * 2^e *)
Definition trunc_me (m : positive) (e : Z) : Z :=
  match e with
  | Z0 => Zpos m
  | Zpos p => Z.shiftl (Zpos m) (Zpos p)
  | Zneg p => Z.shiftr (Zpos m) (Zpos p)
  end.

(* `x as u8`: round toward zero, saturate to 0..255, NaN -> 0 *)
Definition to_u8 (x : f32) : Z :=
  match x with
  | B754_zero _ => 0
  | B754_infinity s => if s then 0 else 255
  | B754_nan => 0
  | B754_finite s m e _ => if s then 0 else Z.min 255 (trunc_me m e)
  end.

(* `x.floor() as usize` / `x as usize` for the non-negative values the kernels feed it
   (negative and NaN -> 0, +inf saturates; the cap only keeps the model total) *)
Definition USIZE_MAX : Z := 18446744073709551615.
Definition to_usize (x : f32) : Z :=
  match x with
  | B754_zero _ => 0
  | B754_infinity s => if s then 0 else USIZE_MAX
  | B754_nan => 0
  | B754_finite s m e _ => if s then 0 else Z.min USIZE_MAX (trunc_me m e)
  end.

(* float-cmp `approx_eq_ulps(&0.0, 4)`: +-0, or one of the four smallest positive denormals *)
Definition approx_zero4 (x : f32) : bool :=
  match x with
  | B754_zero _ => true
  | B754_finite false m e _ => (e =? -149) && (Zpos m <=? 4)
  | _ => false
  end.

(* f32::is_finite *)
Definition ffinite (x : f32) : bool := is_finite x.

Definition is_pzero (x : f32) : bool := match x with B754_zero false => true | _ => false end.

Fixpoint zrange (n : nat) (s : Z) : list Z :=
  match n with O => [] | S k => s :: zrange k (s + 1) end.
Definition bytes : list Z := zrange 256 0.

Definition nthZ {A} (l : list A) (i : Z) (d : A) : A := nth (Z.to_nat i) l d.
