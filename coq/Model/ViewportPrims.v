(* C17 (extension round 4): the facts about an element and the converter state that the nested <svg> / <symbol>
   viewport code of usvg::parser::use_node reads, and hand models of the small accessors it calls.  The functions
   themselves (use_node_size, viewbox_transform, get_clip_rect) are SOURCE-DERIVED: Gen/LeafViewport.v.
   Hand-written here (tied by the `viewport-clip` and `viewbox` correspondence ops of tools/props/c17.py):
   SvgNode::convert_user_length (attribute or default, then units::convert_length with user-space units),
   NonZeroRect::from_xywh, IsValidLength, the svgtypes default of preserveAspectRatio (xMidYMid meet). *)
From Coq Require Import String.
From RV Require Import Model.Base Model.GeomPrims Gen.Units Model.SvgSize Gen.PctAxis.
Local Open Scope Q_scope.

Record vnode := {
  vn_is_svg : bool;                       (* tag_name() == Some(EId::Svg) *)
  vn_x : option length; vn_y : option length; vn_width : option length; vn_height : option length;
  vn_overflow : option string;
  vn_viewbox : option qrect;              (* parse_viewbox(): a NonZeroRect, i.e. positive width and height *)
  vn_aspect : option aspect
}.
Record vstate := {
  st_view_box : qrect;                    (* State::view_box: the nearest ancestor viewport *)
  st_use_size : option Q * option Q;      (* State::use_size: width / height of a `use` that references an svg *)
  st_dpi : Q; st_fs : Q
}.

Definition mk_len (n : Q) (u : lunit) : length := {| l_num := n; l_unit := u |}.
Definition len_zero : length := mk_len 0 UNone.
Definition opt_unwrap_or {A} (o : option A) (d : A) : A := match o with Some v => v | None => d end.
Definition valid_length (q : Q) : bool := Qltb 0 q.                (* > 0 (finite is implied in Q) *)
Definition nzrect_from_xywh (x y w h : Q) : option qrect :=
  if Qltb 0 w && Qltb 0 h then Some {| rx := x; ry := y; rw := w; rh := h |} else None.
Definition mk_viewbox (r : qrect) (a : aspect) : viewbox := {| vb_rect := r; vb_aspect := a |}.
Definition default_aspect : aspect := {| ar_align := XMidYMid; ar_slice := false |}.
Definition aspect_or_default (n : vnode) : aspect := opt_unwrap_or (vn_aspect n) default_aspect.

Definition vn_attr (n : vnode) (a : aid) : option length :=
  match a with A_X => vn_x n | A_Y => vn_y n | A_Width => vn_width n | A_Height => vn_height n | _ => None end.
Definition vn_has_attr (n : vnode) (a : aid) : bool := negb (is_none (vn_attr n a)).

(* units::convert_length with Units::UserSpaceOnUse: the source-derived unit table, else the percentage of the
   view box dimension the source-derived axis table names (the diagonal arm needs a square root and is not
   modelled: x / y / width / height never reach it, see Proofs/Viewport.v pct_axis_xywh) *)
Definition convert_user_len (l : length) (a : aid) (st : vstate) : Q :=
  match convert_abs (l_unit l) (l_num l) (st_dpi st) (st_fs st) with
  | Some v => v
  | None => match pct_axis a with
            | AxW => convert_percent l (rw (st_view_box st))
            | AxH => convert_percent l (rh (st_view_box st))
            | AxDiag => 0
            end
  end.
(* SvgNode::convert_user_length(aid, state, def) = convert_length(self.attribute(aid).unwrap_or(def), ..) *)
Definition vn_user_length (n : vnode) (a : aid) (st : vstate) (def : length) : Q :=
  convert_user_len (opt_unwrap_or (vn_attr n a) def) a st.

(* ---- specification vocabulary (independent of the code): the viewport an element establishes -----------------
   width / height: the attribute resolved by the SVG rule (absolute unit at the DPI; percentage of the parent
   viewport's dimension on the same axis; missing = 100%), overridden by the width / height of a `use` that
   references the <svg>; x / y: the attribute resolved the same way, missing = 0. *)
Definition spec_own_w (n : vnode) (st : vstate) : Q := spec_dim (vn_width n) (Some (rw (st_view_box st))) 0 (st_dpi st) (st_fs st).
Definition spec_own_h (n : vnode) (st : vstate) : Q := spec_dim (vn_height n) (Some (rh (st_view_box st))) 0 (st_dpi st) (st_fs st).
Definition spec_vp_w (n : vnode) (st : vstate) : Q :=
  if vn_is_svg n then opt_unwrap_or (fst (st_use_size st)) (spec_own_w n st) else spec_own_w n st.
Definition spec_vp_h (n : vnode) (st : vstate) : Q :=
  if vn_is_svg n then opt_unwrap_or (snd (st_use_size st)) (spec_own_h n st) else spec_own_h n st.
Definition spec_vp_x (n : vnode) (st : vstate) : Q :=
  spec_dim (Some (opt_unwrap_or (vn_x n) len_zero)) (Some (rw (st_view_box st))) 0 (st_dpi st) (st_fs st).
Definition spec_vp_y (n : vnode) (st : vstate) : Q :=
  spec_dim (Some (opt_unwrap_or (vn_y n) len_zero)) (Some (rh (st_view_box st))) 0 (st_dpi st) (st_fs st).
(* the viewport clips unless overflow is visible / auto; an <svg> that is not sized by itself (both width and
   height) or by a referencing `use` establishes no clip rectangle *)
Definition overflow_shows (o : option string) : bool :=
  match o with Some s => String.eqb s "visible" || String.eqb s "auto" | None => false end.
Definition spec_clips (n linked : vnode) (st : vstate) : bool :=
  negb (overflow_shows (vn_overflow linked)) &&
  (negb (vn_is_svg n) || negb (is_none (fst (st_use_size st))) || negb (is_none (snd (st_use_size st)))
   || (negb (is_none (vn_width n)) && negb (is_none (vn_height n)))).
(* the element's content transform as convert_svg / convert (symbol) compose it: translate(x, y) then the viewBox *)
Definition viewport_ts (n : vnode) (st : vstate) (t : ts) : ts :=
  ts_concat (from_translate (vn_user_length n A_X st len_zero) (vn_user_length n A_Y st len_zero)) t.
(* the clip rectangle and content transform the rule prescribes (used by the `viewport-clip` spec check on the
   implementation's tree; independent of Gen/LeafViewport.v) *)
Definition spec_clip_rect (n l : vnode) (st : vstate) : option qrect :=
  if spec_clips n l st && Qltb 0 (spec_vp_w n st) && Qltb 0 (spec_vp_h n st)
  then Some {| rx := spec_vp_x n st; ry := spec_vp_y n st; rw := spec_vp_w n st; rh := spec_vp_h n st |} else None.

(* ---- image placement (image.rs convert_inner; Gen/LeafImage.v): hand models of the primitives it calls ---------- *)
Definition no_clip : option qrect := None.
Definition Qmin2 (a b : Q) : Q := if Qleb a b then a else b.
Definition Qmax2 (a b : Q) : Q := if Qleb a b then b else a.
(* tiny_skia_path::NonZeroRect::transform: bounding box of the four mapped corners; None when it is degenerate *)
Definition rect_transform (r : qrect) (t : ts) : option qrect :=
  let x0 := rx r in let y0 := ry r in let x1 := rx r + rw r in let y1 := ry r + rh r in
  let l := Qmin2 (Qmin2 (map_x t x0 y0) (map_x t x1 y0)) (Qmin2 (map_x t x0 y1) (map_x t x1 y1)) in
  let rr := Qmax2 (Qmax2 (map_x t x0 y0) (map_x t x1 y0)) (Qmax2 (map_x t x0 y1) (map_x t x1 y1)) in
  let tp := Qmin2 (Qmin2 (map_y t x0 y0) (map_y t x1 y0)) (Qmin2 (map_y t x0 y1) (map_y t x1 y1)) in
  let b := Qmax2 (Qmax2 (map_y t x0 y0) (map_y t x1 y0)) (Qmax2 (map_y t x0 y1) (map_y t x1 y1)) in
  nzrect_from_xywh l tp (rr - l) (b - tp).

(* ---- marker viewport (marker.rs; Gen/LeafMarker.v): node facts and hand models of the primitives it calls ------------ *)
Record mnode := { mk_ref_x : option length; mk_ref_y : option length; mk_width : option length; mk_height : option length }.
Record qpoint := { pt_x : Q; pt_y : Q }.
Definition len_num (n : Q) : length := mk_len n UNone.
Definition mk_attr (n : mnode) (a : aid) : option length :=
  match a with A_RefX => mk_ref_x n | A_RefY => mk_ref_y n | A_MarkerWidth => mk_width n | A_MarkerHeight => mk_height n | _ => None end.
Definition mk_user_length (n : mnode) (a : aid) (st : vstate) (def : length) : Q :=
  convert_user_len (opt_unwrap_or (mk_attr n a) def) a st.
(* Size::from_wh of a NonZeroRect side times a NonZeroPositiveF32: never None over Q (f32 overflow is outside the model) *)
Definition size_from_wh_pos (w h : Q) : qsize := {| sw := w; sh := h |}.
(* Transform::get_scale = (sqrt(sx^2 + kx^2), sqrt(ky^2 + sy^2)); for the skew-free, positive transforms that
   ViewBox::to_transform returns (C17_no_skew, C17_scale_positive) this is (sx, sy) *)
Definition ts_get_scale (t : ts) : Q * Q := (t_sx t, t_sy t).
Definition ts_pre_scale (t : ts) (sx sy : Q) : ts := ts_concat t (from_scale sx sy).
Definition ts_pre_translate (t : ts) (tx ty : Q) : ts := ts_concat t (from_translate tx ty).
