(* C03 model (extension round 4): documents nested through `image` / `feImage` references.

   parser/image.rs: get_href_data hands an href to `state.opt.image_href_resolver` (resolve_data for
   data: URLs, resolve_string for anything else = a file path); the default resolvers call load_sub_svg
   for SVG content, and load_sub_svg parses the sub-document with `Tree::from_data(data, &sub_opt)` where
   `sub_opt` is a fresh Options value whose two resolvers return None.  That is the only guard against a
   file that includes itself (directly, through a second file, through feImage): there is no depth
   counter and no list of files being loaded.  The model follows exactly that: a document is the list of
   its external references, a file system maps paths to documents (it may be cyclic: a path can lead
   back to the file that holds it), options are the two resolver switches, and the options of a
   sub-document are built from the SOURCE-DERIVED booleans of Gen/LinkGuards.v:

     G_SUB_OPT_USED      load_sub_svg passes `&sub_opt` to the only Tree::from_* call of parser/**
     G_SUB_DATA_NONE     sub_opt.image_href_resolver.resolve_data   is `|_, _, _| None`
     G_SUB_STRING_NONE   sub_opt.image_href_resolver.resolve_string is `|_, _| None`

   (a field that is not given falls back to `..Options::default()`, i.e. to the resolver that loads).
   Executable Gallina only. *)
From Coq Require Import List Bool Arith.
From RV Require Import Gen.LinkGuards.
Import ListNotations.

(* an external reference of an `image` / `feImage`: a data: URL carries the document, a path is looked up *)
Inductive href := HData (imgs : list href) | HPath (p : nat).
Definition idoc := list href.
Definition fsys := nat -> option idoc.

(* Options::image_href_resolver: does resolve_data / resolve_string load SVG content? *)
Record ropt := { r_data : bool; r_string : bool }.
Definition ropt_default : ropt := {| r_data := true; r_string := true |}.

(* load_sub_svg: the options the sub-document is parsed with *)
Definition sub_opt (o : ropt) : ropt :=
  if G_SUB_OPT_USED then {| r_data := negb G_SUB_DATA_NONE; r_string := negb G_SUB_STRING_NONE |} else o.

(* the usvg::Tree values that exist after parsing: one per loaded document, nested as ImageKind::SVG *)
Inductive ltree := LT (subs : list ltree).

Fixpoint collect {A} (l : list (option (option A))) : option (list A) :=
  match l with
  | [] => Some []
  | None :: _ => None
  | Some None :: r => collect r
  | Some (Some a) :: r => match collect r with Some t => Some (a :: t) | None => None end
  end.

(* Tree::from_data on a document: every reference is resolved through the options; None = out of fuel.
   (an image whose href is not resolved yields no node: image::convert returns None) *)
Fixpoint load (fuel : nat) (fs : fsys) (o : ropt) (d : idoc) : option ltree :=
  match fuel with
  | O => None
  | S f =>
      let sub (h : href) : option (option ltree) :=
        match h with
        | HData d' => if r_data o then option_map Some (load f fs (sub_opt o) d') else Some None
        | HPath p =>
            if r_string o then
              match fs p with
              | Some d' => option_map Some (load f fs (sub_opt o) d')
              | None => Some None
              end
            else Some None
        end in
      option_map LT (collect (map sub d))
  end.

Fixpoint depth (t : ltree) : nat :=
  match t with LT subs => fold_right (fun s m => Nat.max (S (depth s)) m) O subs end.
(* number of Tree::from_data calls *)
Fixpoint calls (t : ltree) : nat :=
  match t with LT subs => S (fold_right (fun s m => calls s + m) O subs) end.

Fixpoint ltree_eqb (a b : ltree) {struct a} : bool :=
  match a, b with
  | LT x, LT y =>
      (fix go (x : list ltree) (y : list ltree) {struct x} : bool :=
         match x, y with
         | [], [] => true
         | p :: r, q :: s => ltree_eqb p q && go r s
         | _, _ => false
         end) x y
  end.

(* file system given as a table *)
Definition fs_of (l : list (option idoc)) : fsys := fun p => nth p l None.

(* correspondence: (files, top document, what the implementation built) -> agrees with the model and is bounded *)
Definition chk_nest (c : list (option idoc) * idoc * option ltree) : bool :=
  match c with
  | (files, d, impl) =>
      match load 2 (fs_of files) ropt_default d, impl with
      | Some t, Some t' => ltree_eqb t t' && Nat.leb (depth t') 1
      | _, _ => false
      end
  end.
(* guard-free bound on what the implementation built *)
Definition chk_nest_bound (c : list (option idoc) * idoc * option ltree) : bool :=
  match c with
  | (_, d, Some t') => Nat.leb (depth t') 1 && Nat.leb (calls t') (S (length d))
  | _ => false
  end.
