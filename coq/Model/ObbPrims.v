(* C18 prelude: the tiny-skia-path primitives the objectBoundingBox resolution of usvg is built from, over
   exact rationals (hand-modelled third-party code, validated by the obb-resolve correspondence), and the
   names the source-derived leaves of Gen/LeafObb.v use.  Executable definitions only. *)
From RV Require Import Model.Base Model.StylePrims.
Local Open Scope Q_scope.

(* Transform::from_bbox *)
Definition from_bbox (b : qrect) : ts := from_row (rw b) 0 0 (rh b) (rx b) (ry b).
(* a.post_concat(b) = b * a (apply a, then b);  a.pre_concat(b) = a * b (apply b, then a) *)
Definition ts_post_concat (a b : ts) : ts := ts_concat b a.
Definition ts_pre_concat (a b : ts) : ts := ts_concat a b.
(* NonZeroRect::from_xywh over exact rationals: Some iff the size is positive *)
Definition nzrect_from_xywh (x y w h : Q) : option qrect :=
  if Qltb 0 w && Qltb 0 h then Some {| rx := x; ry := y; rw := w; rh := h |} else None.
(* Rect::to_non_zero_rect: the bounding box of an element, None when it has no area *)
Definition to_non_zero_rect (r : qrect) : option qrect := nzrect_from_xywh (rx r) (ry r) (rw r) (rh r).
Definition Qunwrap_or (o : option Q) (d : Q) : Q := match o with Some v => v | None => d end.
Definition qrect_eqb (a b : qrect) : bool :=
  Qeqb (rx a) (rx b) && Qeqb (ry a) (ry b) && Qeqb (rw a) (rw b) && Qeqb (rh a) (rh b).
Definition ts_eqb' (a b : ts) : bool :=
  Qeqb (t_sx a) (t_sx b) && Qeqb (t_ky a) (t_ky b) && Qeqb (t_kx a) (t_kx b) &&
  Qeqb (t_sy a) (t_sy b) && Qeqb (t_tx a) (t_tx b) && Qeqb (t_ty a) (t_ty b).

(* ---- extension round 4: names used by the filter-primitive slices of Gen/LeafObb.v ---- *)
(* tiny_skia::Size as a pair; strict_num::PositiveF32::new over exact rationals: Some iff the number is not negative
   (finiteness cannot fail here; the xq-domain copy of the same slices in Gen/LeafStyle.v covers NaN / overflow for C04) *)
Definition sz_w (s : Q * Q) : Q := fst s.
Definition sz_h (s : Q * Q) : Q := snd s.
Definition positive_new (q : Q) : option Q := if Qleb 0 q then Some q else None.
Definition Qsign_positive (q : Q) : bool := Qleb 0 q.
(* usvg ApproxZeroUlps::approx_zero_ulps(n) on an f32 value q: q == 0, or q > 0 with bit pattern <= n, i.e. q <= n * 2^-149
   (exact for every f32 value; a negative non-zero value is never approximately zero: the signs differ) *)
Definition F32_MIN_SUBNORMAL : Q := 1 # (2 ^ 149).
Definition Qapprox_zero (q ulps : Q) : bool := Qleb 0 q && Qleb q (ulps * F32_MIN_SUBNORMAL).
