(* C10 model: structural constructs of usvg's converter and their expansions.
     - transform attribute as a list of transform functions (svgtypes multiplies them left to right),
       transform-origin (converter.rs resolve_transform; the product itself is source-derived:
       Gen.StructTables.resolve_transform_origin)
     - the group skeleton produced for g / a / use (converter.rs convert_group, use_node.rs convert,
       convert_children) over a small element tree
     - switch (switch.rs convert / is_condition_passed; the FEATURES list is source-derived)
     - rect radii (shapes.rs resolve_rx_ry + clamp; the clamp divisors are source-derived)
   Tied to the implementation by the correspondences `use-convert`, `switch`, `transform-origin`,
   `rect-radii` of tools/props/c10.py (comparison inside Coq) and by the construct-vs-expansion oracle. *)
From Coq Require Import String Ascii.
From RV Require Import Model.Base Model.GeomPrims Gen.SvgTables Gen.StructTables Gen.LeafViewBox.
From RV Require Import Model.ShapePath Gen.ShapePaths Gen.UseClip.
Local Open Scope Q_scope.

(* ---- transforms -------------------------------------------------------------------------------- *)
(* svgtypes::Transform::from_str: the functions of a list are multiplied in order *)
Definition ts_of_list (l : list ts) : ts := fold_left ts_concat l ts_identity.
Definition from_matrix (a b c d e f : Q) : ts := from_row a b c d e f.
(* rotate / skew need sin/cos: generators give the matrix entries (c, s) with c^2 + s^2 = 1 exactly *)
Definition from_rotate_cs (c s : Q) : ts := from_row c s (- s) c 0 0.
Definition from_rotate_cs_at (c s cx cy : Q) : ts :=
  ts_concat (ts_concat (from_translate cx cy) (from_rotate_cs c s)) (from_translate (- cx) (- cy)).

(* converter.rs resolve_transform *)
Definition resolve_transform (transform : ts) (origin : option (Q * Q)) : ts :=
  match origin with
  | Some (dx, dy) => resolve_transform_origin transform dx dy
  | None => transform
  end.

(* ---- converter skeleton ------------------------------------------------------------------------ *)
(* group-forming style of an element, as convert_group reads it (only what matters for structure) *)
Record gstyle := { g_opacity : Q; g_blend : N; g_isolate : bool; g_clip : option N; g_mask : option N;
                   g_filter : list N }.
Definition plain : gstyle :=
  {| g_opacity := 1; g_blend := 0%N; g_isolate := false; g_clip := None; g_mask := None; g_filter := [] |}.
Definition gstyle_neutral (s : gstyle) : bool :=
  Qeqb (g_opacity s) 1 && N.eqb (g_blend s) 0 && negb (g_isolate s)
  && match g_clip s with None => true | _ => false end
  && match g_mask s with None => true | _ => false end
  && match g_filter s with [] => true | _ => false end.

(* source elements (after the svgtree step: `use` already carries a copy of its target as only child) *)
Inductive selem :=
| SLeaf (id : N) (shape : N)                                  (* any graphic leaf; `shape` is opaque  *)
| SGroup (tag : EId) (id : N) (tl : list ts) (origin : option (Q * Q)) (st : gstyle) (kids : list selem)
| SUse (id : N) (tl : list ts) (origin : option (Q * Q)) (x y : Q) (st : gstyle) (copy : selem).

(* converted tree *)
Inductive tnode :=
| TLeaf (id : N) (shape : N)
| TGroup (id : N) (t : ts) (st : gstyle) (kids : list tnode).

Definition is_g_or_use (tag : EId) : bool := EId_eqb tag E_G || EId_eqb tag E_Use.

(* convert_group: the group is dissolved when nothing requires it *)
Definition group_or_splice (tag : EId) (id : N) (t : ts) (identity_ts : bool) (st : gstyle) (kids : list tnode)
  : list tnode :=
  let required := negb (gstyle_neutral st) || negb identity_ts || is_g_or_use tag in
  if required then [TGroup (if is_g_or_use tag then id else 0%N) t st kids] else kids.

Definition ts_is_identity (t : ts) : bool :=
  Qeqb (t_sx t) 1 && Qeqb (t_ky t) 0 && Qeqb (t_kx t) 0 && Qeqb (t_sy t) 1 && Qeqb (t_tx t) 0 && Qeqb (t_ty t) 0.

Fixpoint convert (e : selem) : list tnode :=
  match e with
  | SLeaf id sh => [TLeaf id sh]
  | SGroup tag id tl o st kids =>
      let t := resolve_transform (ts_of_list tl) o in
      group_or_splice (retag tag) id t (ts_is_identity t) st (flat_map convert kids)
  | SUse id tl o x y st copy =>
      (* use_node::convert, target neither symbol nor svg: convert_children(node, orig_ts.pre_concat(translate)) *)
      let t := use_group_ts (resolve_transform (ts_of_list tl) o) x y in
      [TGroup id t st (convert copy)]
  end.

(* the definitional expansion of `use`: a `g` carrying the use's own style whose transform is the use's
   (resolved) transform followed by translate(x, y), around the copy *)
Definition expand_use (id : N) (tl : list ts) (o : option (Q * Q)) (x y : Q) (st : gstyle) (copy : selem) : selem :=
  SGroup E_G id [resolve_transform (ts_of_list tl) o; from_translate x y] None st [copy].
(* without transform-origin the transform list can simply be extended *)
Definition expand_use_list (id : N) (tl : list ts) (x y : Q) (st : gstyle) (copy : selem) : selem :=
  SGroup E_G id (tl ++ [from_translate x y]) None st [copy].

(* ---- symbol / nested svg viewport --------------------------------------------------------------- *)
(* size the viewBox is fitted into: `use` width/height override the svg's own (use_node.rs) *)
Definition override_size (use_w use_h : option Q) (own : qsize) : qsize :=
  {| sw := match use_w with Some w => w | None => sw own end;
     sh := match use_h with Some h => h | None => sh own end |}.
Definition viewport_ts (orig_ts : ts) (x y : Q) (vb : option viewbox) (size : qsize) : ts :=
  match vb with
  | Some v => use_viewport_ts orig_ts x y (to_transform v size)
  | None => use_group_ts orig_ts x y
  end.
(* the clip rectangle of the new viewport, in the coordinate system of the clip group *)
Definition clip_rect (x y : Q) (size : qsize) : qrect := {| rx := x; ry := y; rw := sw size; rh := sh size |}.

(* size of a `use` that references a symbol (use_node.rs convert): since 72e1d38 viewbox_transform / get_clip_rect
   resolve the use's width / height against the ORIGINAL view box (`state`), once *)
Inductive slen := LAbs (v : Q) | LPct (p : Q).
Definition resolve_len (l : slen) (base : Q) : Q :=
  match l with LAbs v => v | LPct p => base * p / 100 end.
Definition symbol_use_side (vp : Q) (l : option slen) : Q :=
  match l with
  | Some v => resolve_len v vp
  | None => resolve_len (LPct 100) vp               (* default 100% *)
  end.
(* what the expansion / the specification use *)
Definition spec_use_side (vp : Q) (l : option slen) : Q :=
  match l with Some v => resolve_len v vp | None => vp end.

(* nested svg element: converter.rs convert_element wraps it in convert_group (its own style and transform attribute,
   dissolved when nothing requires it); use_node.rs convert_svg (since fb5447a) only sets up the viewport: an
   optional clip group with the identity transform, then convert_svg_children = a plain group carrying new_ts unless
   that is the identity.  `clip` = the viewport clip path when there is one. *)
Definition clip_only (c : N) : gstyle :=
  {| g_opacity := 1; g_blend := 0%N; g_isolate := false; g_clip := Some c; g_mask := None; g_filter := [] |}.
Definition svg_children (new_ts : ts) (kids : list tnode) : list tnode :=
  if ts_is_identity new_ts then kids else [TGroup 0%N new_ts plain kids].
Definition convert_nested_svg (t_attr : ts) (st : gstyle) (new_ts : ts) (clip : option N) (kids : list tnode)
  : list tnode :=
  group_or_splice E_Svg 0%N t_attr (ts_is_identity t_attr) st
    match clip with
    | Some c => [TGroup 0%N ts_identity (clip_only c) (svg_children new_ts kids)]
    | None => svg_children new_ts kids
    end.
(* its expansion: a group with the element's style and transform, the viewport clip group, the viewport transform *)
Definition expand_nested_svg (t_attr : ts) (st : gstyle) (new_ts : ts) (clip : option N) (kids : list tnode)
  : list tnode :=
  [TGroup 0%N t_attr st
     match clip with
     | Some c => [TGroup 0%N ts_identity (clip_only c) [TGroup 0%N new_ts plain kids]]
     | None => [TGroup 0%N new_ts plain kids]
     end].
(* accumulated opacity and transform of every leaf *)
Fixpoint leaves (o : Q) (t : ts) (n : tnode) : list (N * Q * ts) :=
  match n with
  | TLeaf id _ => [(id, o, t)]
  | TGroup _ u st ks => flat_map (leaves (o * g_opacity st) (ts_concat t u)) ks
  end.
Definition leaves_of (l : list tnode) : list (N * Q * ts) := flat_map (leaves 1 ts_identity) l.
Definition leaf_close (tol : Q) (a b : N * Q * ts) : bool :=
  let Qabs_ (x : Q) := if Qleb 0 x then x else - x in
  N.eqb (fst (fst a)) (fst (fst b)) && Qleb (Qabs_ (snd (fst a) - snd (fst b))) tol
  && Qleb (Qabs_ (t_sx (snd a) - t_sx (snd b))) tol && Qleb (Qabs_ (t_ky (snd a) - t_ky (snd b))) tol
  && Qleb (Qabs_ (t_kx (snd a) - t_kx (snd b))) tol && Qleb (Qabs_ (t_sy (snd a) - t_sy (snd b))) tol
  && Qleb (Qabs_ (t_tx (snd a) - t_tx (snd b))) tol && Qleb (Qabs_ (t_ty (snd a) - t_ty (snd b))) tol.

(* ---- use -> symbol: group structure (use_node.rs convert, `linked_to_symbol`) ---------------------------------- *)
(* convert_children(child, t, .., false, g): convert_group(child, required = !t.is_identity()) with g.transform := t *)
Definition symbol_children (t : ts) (sym_st : gstyle) (kids : list tnode) : list tnode :=
  group_or_splice E_Symbol 0%N t (ts_is_identity t) sym_st kids.
(* orig_ts = the use's resolved transform attribute, new_ts = translate(x, y) . viewBox transform,
   clip = the clip path made from get_clip_rect's rectangle (when it gives one), st / sym_st = the group-forming style of
   the use / of the symbol.  With a clip: clip group (id, orig_ts) > forced use group (no id, identity) > children(new_ts);
   without (since 214a8de): use group (id, orig_ts, kept from convert_group) > children(new_ts). *)
Definition convert_use_symbol (id : N) (orig_ts new_ts : ts) (st sym_st : gstyle) (clip : option N) (kids : list tnode)
  : list tnode :=
  match clip with
  | Some c => [TGroup id orig_ts (clip_only c) [TGroup 0%N ts_identity st (symbol_children new_ts sym_st kids)]]
  | None => [TGroup id orig_ts st (symbol_children new_ts sym_st kids)]
  end.
(* the expansion: a group with the use's transform and style > viewport clip > viewport transform + the symbol's style > copy *)
Definition expand_use_symbol (id : N) (orig_ts new_ts : ts) (st sym_st : gstyle) (clip : option N) (kids : list tnode)
  : list tnode :=
  [TGroup id orig_ts st
     match clip with
     | Some c => [TGroup 0%N ts_identity (clip_only c) [TGroup 0%N new_ts sym_st kids]]
     | None => [TGroup 0%N new_ts sym_st kids]
     end].
(* coordinate-system-sensitive effects of a group: (0, clip path), (1, mask), (2, filter) .. *)
Definition effects (st : gstyle) : list (N * N) :=
  match g_clip st with Some c => [(0%N, c)] | None => [] end
  ++ match g_mask st with Some m => [(1%N, m)] | None => [] end
  ++ map (fun f => (2%N, f)) (g_filter st).
(* leaves with accumulated opacity, transform, and the clips / masks / filters above them, each with the transform accumulated
   AT its group (= the coordinate system the effect is evaluated in) *)
Fixpoint cleaves (o : Q) (t : ts) (cl : list (N * N * ts)) (n : tnode) : list (N * Q * ts * list (N * N * ts)) :=
  match n with
  | TLeaf id _ => [(id, o, t, cl)]
  | TGroup _ u st ks =>
      let t' := ts_concat t u in
      flat_map (cleaves (o * g_opacity st) t' (cl ++ map (fun e => (e, t')) (effects st))) ks
  end.
Definition cleaves_of (l : list tnode) := flat_map (cleaves 1 ts_identity []) l.
(* clip decision + rectangle of a use -> symbol (Gen.UseClip.get_clip_rect with use_node = the use element) *)
Definition symbol_clip_rect (overflow : option string) (x y w h : Q) : option qrect :=
  get_clip_rect false overflow None None true true x y w h.
(* ... and of a nested svg / an svg referenced by use (use_node = the svg element; us = the use's width / height) *)
Definition svg_clip_rect (overflow : option string) (us0 us1 : option Q) (has_w has_h : bool) (x y w h : Q) : option qrect :=
  get_clip_rect true overflow us0 us1 has_w has_h x y w h.
Definition qrect_close (tol : Q) (a b : option qrect) : bool :=
  let Qabs_ (v : Q) := if Qleb 0 v then v else - v in
  let c (u v : Q) := Qleb (Qabs_ (u - v)) tol in
  match a, b with
  | Some p, Some q => c (rx p) (rx q) && c (ry p) (ry q) && c (rw p) (rw q) && c (rh p) (rh q)
  | None, None => true
  | _, _ => false
  end.

(* ---- property inheritance through use chains ------------------------------------------------------------------- *)
(* after the svgtree step a use carries a copy of its target as its only child; an inheritable property (fill, ...) set on an
   element (`own`) overrides what it inherits, and a copy inherits from the USE element (find_attribute walks the parents in the
   new tree), never from the place the target was defined in *)
Inductive ielem :=
| ILeaf (id : N) (own : option N)
| IGroup (own : option N) (kids : list ielem)
| IUse (own : option N) (copy : ielem).
Definition pick (own : option N) (inh : N) : N := match own with Some v => v | None => inh end.
Fixpoint resolved (inh : N) (e : ielem) : list (N * N) :=
  match e with
  | ILeaf id own => [(id, pick own inh)]
  | IGroup own kids => flat_map (resolved (pick own inh)) kids
  | IUse own copy => resolved (pick own inh) copy
  end.
(* the expansion of every use (at any depth) by a group around the copy *)
Fixpoint expand_uses (e : ielem) : ielem :=
  match e with
  | ILeaf id own => ILeaf id own
  | IGroup own kids => IGroup own (map expand_uses kids)
  | IUse own copy => IGroup own [expand_uses copy]
  end.
(* a chain use -> use -> .. -> target of any length: the i-th use sets `owns[i]` *)
Fixpoint use_chain (owns : list (option N)) (target : ielem) : ielem :=
  match owns with [] => target | o :: r => IUse o (use_chain r target) end.
(* the innermost value that is set along the chain, else the inherited one *)
Fixpoint chain_value (owns : list (option N)) (inh : N) : N :=
  match owns with [] => inh | o :: r => chain_value r (pick o inh) end.

(* ---- switch ---------------------------------------------------------------------------------------- *)
Record cond := { c_element : bool;                 (* false = text node *)
                 c_req_ext : bool;                 (* has requiredExtensions *)
                 c_features : option (list string);(* requiredFeatures split at ' ' *)
                 c_langs : option (list string) }. (* systemLanguage split at ',' and trimmed *)
Fixpoint prefix_before_dash (s : string) : option string :=
  match s with
  | EmptyString => None
  | String c r => if Ascii.eqb c "-"%char then Some EmptyString
                  else match prefix_before_dash r with Some p => Some (String c p) | None => None end
  end.
Definition lang_matches (user : list string) (lang : string) : bool :=
  existsb (String.eqb lang) user
  || match prefix_before_dash lang with Some p => existsb (String.eqb p) user | None => false end.
Definition condition_passed (user : list string) (c : cond) : bool :=
  c_element c && negb (c_req_ext c)
  && match c_features c with Some fs => forallb (fun f => existsb (String.eqb f) FEATURES) fs | None => true end
  && match c_langs c with Some ls => existsb (lang_matches user) ls | None => true end.
(* index of the child `switch` renders *)
Fixpoint first_passing (user : list string) (cs : list cond) (i : nat) : option nat :=
  match cs with
  | [] => None
  | c :: r => if condition_passed user c then Some i else first_passing user r (S i)
  end.
Definition switch_choice (user : list string) (cs : list cond) : option nat := first_passing user cs O.
(* switch.rs convert: a group (from the switch element's own attributes) around the chosen child *)
Definition convert_switch (user : list string) (id : N) (t : ts) (st : gstyle) (kids : list (cond * selem)) : list tnode :=
  match find (fun k => condition_passed user (fst k)) kids with
  | Some k => group_or_splice E_Switch id t (ts_is_identity t) st (convert (snd k))
  | None => []
  end.

(* ---- rect radii -------------------------------------------------------------------------------------- *)
Definition drop_negative (r : option Q) : option Q :=
  match r with Some v => if Qltb v 0 then None else Some v | None => None end.
Definition resolve_rx_ry (rx ry : option Q) : Q * Q :=
  match drop_negative rx, drop_negative ry with
  | None, None => (0, 0)
  | Some a, None => (a, a)
  | None, Some b => (b, b)
  | Some a, Some b => (a, b)
  end.
Definition clamp_radii (w h : Q) (r : Q * Q) : Q * Q :=
  (if Qgtb (fst r) (w / RX_DIV) then w / RX_DIV else fst r,
   if Qgtb (snd r) (h / RY_DIV) then h / RY_DIV else snd r).
Definition rect_radii (w h : Q) (rx ry : option Q) : Q * Q := clamp_radii w h (resolve_rx_ry rx ry).

(* shapes.rs convert_rect: size guards, resolved and clamped radii, then the source-derived builder script *)
Definition convert_rect (x y w h : Q) (rx ry : option Q) : option (list seg) :=
  if rect_guard w h then let r := rect_radii w h rx ry in rect_path x y w h (fst r) (snd r) else None.

(* what can be observed on the converted rect: it has curved corners exactly when neither resolved radius is 0
   (`if rx.approx_eq_ulps(&0.0, 4)` draws the plain rectangle; a zero ry makes every arc a straight line) *)
Definition radii_observed_ok (tol : Q) (model impl : Q * Q) (curved : bool) : bool :=
  let Qabs_ (a : Q) := if Qleb 0 a then a else - a in
  let close (a b : Q) := Qleb (Qabs_ (a - b)) tol in
  if curved then close (fst model) (fst impl) && close (snd model) (snd impl)
  else Qeqb (fst model) 0 || Qeqb (snd model) 0.

(* ---- checkers for the correspondences ---------------------------------------------------------- *)
Definition opt_nat_eqb (a b : option nat) : bool :=
  match a, b with Some x, Some y => Nat.eqb x y | None, None => true | _, _ => false end.
