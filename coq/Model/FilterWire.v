(* Wiring of a filter's primitives (crates/resvg/src/filter/mod.rs apply_inner / get_input / apply_merge /
   apply_to_canvas) on ONE pixel, for the per-pixel primitives: the list of named results, lookup of a
   reference = the LAST result with that name, colour-space tags and conversions on demand, and the fact
   that reading a result never changes it.  Validated against the real filter::apply by the `wire` cases of
   tools/props/c16.py (reused result names, implicit inputs, one result read by primitives of different
   color-interpolation-filters). *)
From RV Require Import Model.F32.
From RV Require Import Gen.PixelTables.
From RV Require Import Model.Pixel.
Local Open Scope Z_scope.

Inductive cspace := CsSRGB | CsLinear.
Definition cs_eqb (a b : cspace) : bool := match a, b with CsSRGB, CsSRGB | CsLinear, CsLinear => true | _, _ => false end.
Definition img := (px * cspace)%type.
Inductive winput := WSource | WSourceAlpha | WRef (name : N).
Inductive wkind :=
  | WOffset0 (i : winput)                    (* zero offset / zero blur: the input image itself, colour space tag included *)
  | WColorMatrix (k : cm_kind) (i : winput)
  | WTransfer (fs : list tf) (i : winput)
  | WMerge (is : list winput)
  (* extension round 4 *)
  | WArithmetic (k1 k2 k3 k4 : f32) (i1 i2 : winput)      (* feComposite operator="arithmetic" *)
  | WOver (i1 i2 : winput)                                  (* feComposite operator="over" / feBlend mode="normal": in2 drawn first, in over it *)
  | WConvolve1 (preserve : bool) (divisor bias k : f32) (i : winput).   (* feConvolveMatrix order="1" kernelMatrix="k" *)
Record wprim := { w_kind : wkind; w_cs : cspace; w_name : N }.

Definition into_cs (c : cspace) (v : img) : px :=
  if cs_eqb c (snd v) then fst v
  else match c with CsSRGB => px_into_srgb (fst v) | CsLinear => px_into_linear (fst v) end.

(* results are appended; a reference resolves to the LAST result with that name, else to SourceGraphic *)
Fixpoint find_last (results : list (N * img)) (name : N) (acc : option img) : option img :=
  match results with
  | [] => acc
  | (n, v) :: r => find_last r name (if N.eqb n name then Some v else acc)
  end.
Definition get_input (src : px) (results : list (N * img)) (i : winput) : img :=
  match i with
  | WSource => (src, CsSRGB)
  | WSourceAlpha => ({| pr := 0; pg := 0; pb := 0; pa := pa src |}, CsSRGB)
  | WRef n => match find_last results n None with Some v => v | None => (src, CsSRGB) end
  end.
Definition over_px (s d : px) : px :=
  {| pr := over_u8 (pr s) (pa s) (pr d); pg := over_u8 (pg s) (pa s) (pg d);
     pb := over_u8 (pb s) (pa s) (pb d); pa := over_u8 (pa s) (pa s) (pa d) |}.
Definition run_prim (src : px) (results : list (N * img)) (p : wprim) : img :=
  let cs := w_cs p in
  match w_kind p with
  | WOffset0 i => get_input src results i
  | WColorMatrix k i => (px_color_matrix k (into_cs cs (get_input src results i)), cs)
  | WTransfer fs i => (px_component_transfer fs (into_cs cs (get_input src results i)), cs)
  | WMerge is => (fold_left (fun acc i => over_px (into_cs cs (get_input src results i)) acc) is px0, cs)
  | WArithmetic k1 k2 k3 k4 i1 i2 =>
      (px_arithmetic k1 k2 k3 k4 (into_cs cs (get_input src results i1)) (into_cs cs (get_input src results i2)), cs)
  | WOver i1 i2 =>
      (over_px (into_cs cs (get_input src results i1)) (over_px (into_cs cs (get_input src results i2)) px0), cs)
  | WConvolve1 pa0 d b k i => (px_convolve_uniform pa0 d b [k] (into_cs cs (get_input src results i)), cs)
  end.
Fixpoint run_prims (src : px) (results : list (N * img)) (ps : list wprim) : list (N * img) :=
  match ps with
  | [] => results
  | p :: r => run_prims src (results ++ [(w_name p, run_prim src results p)]) r
  end.
(* apply_inner + apply_to_canvas: the last result, converted to sRGB; no primitive = error = transparent *)
Definition run_filter (ps : list wprim) (src : px) : px :=
  match rev (run_prims src [] ps) with
  | [] => px0
  | (_, v) :: _ => into_cs CsSRGB v
  end.
