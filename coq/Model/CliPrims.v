(* C20: hand-written model of the tiny-skia-path (0.11.4) IntSize / Size primitives the resvg binary calls
   (third-party code: tied by the `c20-fit` correspondence op on the real methods, not proved against
   source).  u32 values are Z with explicit range checks; f32 arithmetic is exact rational arithmetic:
   for `a as f32 * b as f32 / c as f32` this is EXACT IN THE IMPLEMENTATION whenever a*b < 2^24 (the product
   is then exact, and the correctly rounded quotient cannot cross an integer because its distance to the next
   lower integer is at least 1/c > ulp/2) - the correspondence check stays inside that domain. *)
From Coq Require Import Qround.
From RV Require Import Model.Base.
Local Open Scope Z_scope.

Record isize := { is_w : Z; is_h : Z }.
Definition isize_eqb (a b : isize) : bool := (is_w a =? is_w b) && (is_h a =? is_h b).

(* IntSize::from_wh: both non-zero (LengthU32) *)
Definition isize_from_wh (w h : Z) : option isize :=
  if (0 <? w) && (w <=? U32_MAX) && (0 <? h) && (h <=? U32_MAX) then Some {| is_w := w; is_h := h |} else None.
(* `x as u32` for a finite float: truncation has already happened (ceil/round), saturate *)
Definition sat_u32 (z : Z) : Z := Z.max 0 (Z.min z U32_MAX).
(* f32::round: half away from zero *)
Definition Qround_haz (q : Q) : Z :=
  if Qle_bool 0 q then Qfloor (q + (1 # 2))%Q else Qceiling (q - (1 # 2))%Q.

Definition zq (z : Z) : Q := inject_Z z.

(* IntSize::scale_to_width / scale_to_height: the other side is ceil'ed *)
Definition isize_scale_to_width (s : isize) (nw : Z) : option isize :=
  isize_from_wh nw (sat_u32 (Qceiling (zq nw * zq (is_h s) / zq (is_w s))%Q)).
Definition isize_scale_to_height (s : isize) (nh : Z) : option isize :=
  isize_from_wh (sat_u32 (Qceiling (zq nh * zq (is_w s) / zq (is_h s))%Q)) nh.
(* IntSize::scale_by: both sides rounded *)
Definition isize_scale_by (s : isize) (z : Q) : option isize :=
  isize_from_wh (sat_u32 (Qround_haz (zq (is_w s) * z)%Q)) (sat_u32 (Qround_haz (zq (is_h s) * z)%Q)).
(* IntSize::scale_to = size_scale(s1, s2, expand = false): keeps the aspect ratio, fits inside s2 *)
Definition isize_scale_to (s1 s2 : isize) : isize :=
  let rw := sat_u32 (Qceiling (zq (is_h s2) * zq (is_w s1) / zq (is_h s1))%Q) in
  if rw >=? is_w s2
  then {| is_w := is_w s2; is_h := sat_u32 (Qceiling (zq (is_w s2) * zq (is_h s1) / zq (is_w s1))%Q) |}
  else {| is_w := rw; is_h := is_h s2 |}.

(* Size::to_int_size: max(1, round) per side *)
Definition to_int_size (w h : Q) : isize :=
  {| is_w := Z.max 1 (sat_u32 (Qround_haz w)); is_h := Z.max 1 (sat_u32 (Qround_haz h)) |}.

(* `x as i32` for a float that is already integral: saturating *)
Definition sat_i32 (z : Z) : Z := Z.max I32_MIN (Z.min z I32_MAX).
(* `x as i32` of a finite float: truncation toward zero, saturating *)
Definition Qtrunc (q : Q) : Z := if Qle_bool 0 q then Qfloor q else Qceiling q.
Definition f2i32 (q : Q) : Z := sat_i32 (Qtrunc q).
(* Rect::to_int_rect = IntRect::from_xywh(floor x, floor y, max(1, ceil w), max(1, ceil h)).unwrap():
   None here = the unwrap inside tiny-skia-path panics *)
Definition q_to_int_rect (x y w h : Q) : option irect :=
  irect_from_xywh (sat_i32 (Qfloor x)) (sat_i32 (Qfloor y))
                  (Z.max 1 (sat_u32 (Qceiling w))) (Z.max 1 (sat_u32 (Qceiling h))).

(* tiny_skia::Pixmap::new(w, h): None when w or h is 0 or 4*w overflows i32 (then the CLI's unwrap panics) *)
Definition MAX_PIXMAP_W : Z := 536870911.     (* i32::MAX / 4 *)
Definition pixmap_new_ok (s : isize) : bool :=
  (0 <? is_w s) && (0 <? is_h s) && (is_w s <=? MAX_PIXMAP_W).
