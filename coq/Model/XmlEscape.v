(* Model of how strings reach the written text (C07): usvg's writer.rs hands ids, references and span text to
   the `xmlwriter` crate, which appends the formatted string to its byte buffer and then escapes in place:

     fn escape_attribute_value(&mut self, mut start: usize) {
         let quote = if self.opt.use_single_quote { APOSTROPHE } else { QUOTATION MARK };
         while let Some(idx) = self.buf[start..].iter().position(|c| *c == quote) {
             let i = start + idx;
             let s = if self.opt.use_single_quote { &apos; } else { &quot; };
             self.buf.splice(i..i+1, s.iter().cloned());
             start = i + 6;
         } }
     fn escape_text(..)   the same loop for LESS-THAN / &lt; / start = i + 4

   The searched byte, the spliced bytes and the step are NOT copied here: they come from Gen/XmlEscape.v
   (tools/gen_writer.py reads the xmlwriter source named by /repo/Cargo.lock and usvg's writer.rs on every run).
   Strings are byte lists (`list N`, UTF-8).  Executable Gallina only. *)
From RV Require Import Gen.XmlEscape.
From Coq Require Import NArith List Bool String.
Import ListNotations.
Local Open Scope N_scope.

Definition bytes := list N.

(* `slice.iter().position(|c| *c == b)` *)
Fixpoint position (b : N) (l : bytes) : option nat :=
  match l with
  | [] => None
  | x :: r => if x =? b then Some O else option_map S (position b r)
  end.

(* the splice loop; `fuel` bounds the number of iterations (one per occurrence: length buf + 1 is enough) *)
Fixpoint esc_loop (fuel : nat) (c : N) (rep : bytes) (skip : nat) (buf : bytes) (start : nat) : bytes :=
  match fuel with
  | O => buf
  | S f =>
      match position c (skipn start buf) with
      | None => buf
      | Some idx =>
          let i := (start + idx)%nat in
          esc_loop f c rep skip (firstn i buf ++ rep ++ skipn (S i) buf) (i + skip)%nat
      end
  end.

(* escaping the string `s` that was appended to a buffer holding `pre` (start = pre.len()) *)
Definition xw_escape_in (e : N * bytes * nat) (pre s : bytes) : bytes :=
  match e with (c, rep, skip) => esc_loop (S (List.length s)) c rep skip (pre ++ s) (List.length pre) end.
Definition xw_escape (e : N * bytes * nat) (s : bytes) : bytes := xw_escape_in e [] s.

(* `str::replace(char, &str)` for an ASCII char *)
Definition replace_all (c : N) (rep : bytes) (s : bytes) : bytes :=
  flat_map (fun b => if b =? c then rep else [b]) s.

(* the replacements writer.rs applies before the string is given to xmlwriter, by destination *)
Definition pre_replace (dest : string) (s : bytes) : bytes :=
  fold_left (fun a site => match site with (d, _, c, rep) => if String.eqb d dest then replace_all c rep a else a end)
            writer_replace_sites s.

(* XmlWriter::write_attribute(name, value): the value between the quotes *)
Definition escape_attr (single_quote : bool) (s : bytes) : bytes :=
  xw_escape (xw_attr_escape single_quote) (pre_replace "attribute" s).
(* write_span: xml.write_text(&cur_text.replace(..).replace(..)): the replacements of Gen/XmlEscape.v, left to right *)
Definition escape_text (s : bytes) : bytes := xw_escape xw_text_escape (pre_replace "text" s).

Definition quote_byte (single_quote : bool) : N := if single_quote then 39 else 34.

(* ---------------------------------------------------------------- specification side: what an XML parser reads back.
   Predefined entities only (the writer never emits character references). *)
Definition entities : list (bytes * N) :=
  [([108; 116; 59], 60);              (* lt;   *)
   ([103; 116; 59], 62);              (* gt;   *)
   ([97; 109; 112; 59], 38);          (* amp;  *)
   ([113; 117; 111; 116; 59], 34);    (* quot; *)
   ([97; 112; 111; 115; 59], 39)].    (* apos; *)

Fixpoint starts_with (p s : bytes) : bool :=
  match p, s with
  | [], _ => true
  | x :: p', y :: s' => (x =? y) && starts_with p' s'
  | _ :: _, [] => false
  end.
Definition find_entity (s : bytes) : option (N * nat) :=
  match find (fun e => starts_with (fst e) s) entities with
  | Some (name, ch) => Some (ch, List.length name)
  | None => None
  end.

Fixpoint unescape_f (fuel : nat) (s : bytes) : bytes :=
  match fuel with
  | O => s
  | S f =>
      match s with
      | [] => []
      | b :: r =>
          if b =? 38 then
            match find_entity r with
            | Some (ch, n) => ch :: unescape_f f (skipn n r)
            | None => b :: unescape_f f r            (* a bare `&`: not well-formed; kept as is *)
            end
          else b :: unescape_f f r
      end
  end.
Definition unescape (s : bytes) : bytes := unescape_f (List.length s) s.

(* every `&` starts one of the five predefined entity references *)
Fixpoint amp_ok (s : bytes) : bool :=
  match s with
  | [] => true
  | b :: r => (if b =? 38 then match find_entity r with Some _ => true | None => false end else true) && amp_ok r
  end.
Definition has_byte (b : N) (s : bytes) : bool := existsb (N.eqb b) s.
(* AttValue ::= QUOTE ([^<&QUOTE] | Reference)* QUOTE   (XML 1.0, production 10) *)
Definition attr_value_wf (single_quote : bool) (s : bytes) : bool :=
  negb (has_byte (quote_byte single_quote) s) && negb (has_byte 60 s) && amp_ok s.
(* `]]>` must not occur in character data (XML 1.0, production 14: CharData excludes the CDATA-section-close delimiter) *)
Fixpoint has_cdata_end (s : bytes) : bool :=
  match s with
  | [] => false
  | b :: r => starts_with [93; 93; 62] (b :: r) || has_cdata_end r
  end.
(* character data (XML 1.0 productions 14 / 43): no raw LESS-THAN, every AMPERSAND starts a reference, no CDATA-section-close delimiter *)
Definition char_data_wf (s : bytes) : bool := negb (has_byte 60 s) && amp_ok s && negb (has_cdata_end s).

(* ---------------------------------------------------------------- checkers for the correspondence (tools/props/c07.py `escape`) *)
(* the real output continues with `expected` followed by the terminator byte *)
Definition chk_attr_written (single_quote : bool) (value rest : bytes) : bool :=
  starts_with (escape_attr single_quote value ++ [quote_byte single_quote]) rest.
Definition chk_text_written (value rest : bytes) : bool :=
  starts_with (escape_text value ++ [60]) rest.

(* model-level search when a theorem of Proofs/XmlEscape.v breaks: the round trip as a boolean, on concrete strings *)
Fixpoint bytes_eqb (a b : bytes) : bool :=
  match a, b with
  | [], [] => true
  | x :: a', y :: b' => (x =? y) && bytes_eqb a' b'
  | _, _ => false
  end.
Definition chk_text_roundtrip (s : bytes) : bool :=
  bytes_eqb (unescape (escape_text s)) s && char_data_wf (escape_text s).
Definition chk_attr_roundtrip (single_quote : bool) (s : bytes) : bool :=
  negb (has_byte (quote_byte single_quote) (escape_attr single_quote s)) &&
  (has_byte 38 s || has_byte 60 s ||
   (bytes_eqb (unescape (escape_attr single_quote s)) s && attr_value_wf single_quote (escape_attr single_quote s))).
(* one case of the `escape` correspondence: kind 0 = attribute value, 1 = span text *)
Definition chk_written (c : N * bool * bytes * bytes) : bool :=
  match c with (k, sq, v, rest) => if k =? 0 then chk_attr_written sq v rest else chk_text_written v rest end.
Definition chk_roundtrip (c : N * bool * bytes * bytes) : bool :=
  match c with (k, sq, v, _) => if k =? 0 then chk_attr_roundtrip sq v else chk_text_roundtrip v end.
