(* Shared prelude: boolean comparisons over Q, records mirroring the tiny-skia-path / usvg
   value types that the source-derived (Gen) and hand-written models share.  No proofs about
   the code live here; only reflection lemmas for the boolean tests. *)
From Coq Require Export QArith ZArith List Bool Lia Lqa.
Export ListNotations.

Definition Qleb (a b : Q) : bool := Qle_bool a b.
Definition Qltb (a b : Q) : bool := negb (Qle_bool b a).
Definition Qgtb (a b : Q) : bool := Qltb b a.
Definition Qgeb (a b : Q) : bool := Qle_bool b a.
Definition Qeqb (a b : Q) : bool := Qeq_bool a b.
Definition Qneb (a b : Q) : bool := negb (Qeq_bool a b).
Definition Zneb (a b : Z) : bool := negb (Z.eqb a b).
Local Open Scope Q_scope.

Lemma Qleb_true a b : Qleb a b = true <-> a <= b.
Proof. unfold Qleb. apply Qle_bool_iff. Qed.
Lemma Qleb_false a b : Qleb a b = false <-> b < a.
Proof.
  unfold Qleb. split; intro H.
  - apply Qnot_le_lt. intro H1. apply Qle_bool_iff in H1. congruence.
  - destruct (Qle_bool a b) eqn:E; [|reflexivity].
    apply Qle_bool_iff in E. exfalso. apply (Qlt_not_le _ _ H E).
Qed.
Lemma Qltb_true a b : Qltb a b = true <-> a < b.
Proof. unfold Qltb. rewrite negb_true_iff. apply (Qleb_false b a). Qed.
Lemma Qltb_false a b : Qltb a b = false <-> b <= a.
Proof. unfold Qltb. rewrite negb_false_iff. apply (Qleb_true b a). Qed.
Lemma Qgtb_true a b : Qgtb a b = true <-> b < a.
Proof. apply Qltb_true. Qed.
Lemma Qgtb_false a b : Qgtb a b = false <-> a <= b.
Proof. apply Qltb_false. Qed.
Lemma Qgeb_true a b : Qgeb a b = true <-> b <= a.
Proof. apply Qleb_true. Qed.
Lemma Qgeb_false a b : Qgeb a b = false <-> a < b.
Proof. apply Qleb_false. Qed.
Lemma Qeqb_true a b : Qeqb a b = true <-> a == b.
Proof. apply Qeq_bool_iff. Qed.

(* svgtypes::Align / AspectRatio *)
Inductive Align :=
  ANone | XMinYMin | XMidYMin | XMaxYMin | XMinYMid | XMidYMid | XMaxYMid
  | XMinYMax | XMidYMax | XMaxYMax.
Definition Align_eqb (a b : Align) : bool :=
  match a, b with
  | ANone, ANone | XMinYMin, XMinYMin | XMidYMin, XMidYMin | XMaxYMin, XMaxYMin
  | XMinYMid, XMinYMid | XMidYMid, XMidYMid | XMaxYMid, XMaxYMid
  | XMinYMax, XMinYMax | XMidYMax, XMidYMax | XMaxYMax, XMaxYMax => true
  | _, _ => false
  end.
Lemma Align_eqb_eq a b : Align_eqb a b = true <-> a = b.
Proof. destruct a, b; simpl; split; intro H; try reflexivity; try discriminate. Qed.
Definition all_aligns : list Align :=
  [ANone; XMinYMin; XMidYMin; XMaxYMin; XMinYMid; XMidYMid; XMaxYMid; XMinYMax; XMidYMax; XMaxYMax].

Record aspect := { ar_align : Align; ar_slice : bool }.

(* tiny_skia_path::{NonZeroRect, Rect} seen through x/y/width/height *)
Record qrect := { rx : Q; ry : Q; rw : Q; rh : Q }.
Definition r_right (r : qrect) : Q := rx r + rw r.
Definition r_bottom (r : qrect) : Q := ry r + rh r.
Record qsize := { sw : Q; sh : Q }.
Definition r_size (r : qrect) : qsize := {| sw := rw r; sh := rh r |}.
Definition size_to_rect (s : qsize) (x y : Q) : qrect := {| rx := x; ry := y; rw := sw s; rh := sh s |}.

Record viewbox := { vb_rect : qrect; vb_aspect : aspect }.

(* tiny_skia_path::Transform; from_row argument order is (sx, ky, kx, sy, tx, ty) *)
Record ts := { t_sx : Q; t_ky : Q; t_kx : Q; t_sy : Q; t_tx : Q; t_ty : Q }.
Definition from_row (sx ky kx sy tx ty : Q) : ts :=
  {| t_sx := sx; t_ky := ky; t_kx := kx; t_sy := sy; t_tx := tx; t_ty := ty |}.
Definition ts_identity : ts := from_row 1 0 0 1 0 0.
Definition map_x (t : ts) (x y : Q) : Q := t_sx t * x + t_kx t * y + t_tx t.
Definition map_y (t : ts) (x y : Q) : Q := t_ky t * x + t_sy t * y + t_ty t.
(* pre_concat a b = a * b : apply b first, then a *)
Definition ts_concat (a b : ts) : ts :=
  from_row (t_sx a * t_sx b + t_kx a * t_ky b)
           (t_ky a * t_sx b + t_sy a * t_ky b)
           (t_sx a * t_kx b + t_kx a * t_sy b)
           (t_ky a * t_kx b + t_sy a * t_sy b)
           (t_sx a * t_tx b + t_kx a * t_ty b + t_tx a)
           (t_ky a * t_tx b + t_sy a * t_ty b + t_ty a).
Definition ts_eq (a b : ts) : Prop :=
  t_sx a == t_sx b /\ t_ky a == t_ky b /\ t_kx a == t_kx b /\
  t_sy a == t_sy b /\ t_tx a == t_tx b /\ t_ty a == t_ty b.
Definition from_scale (sx sy : Q) : ts := from_row sx 0 0 sy 0 0.
Definition from_translate (tx ty : Q) : ts := from_row 1 0 0 1 tx ty.

Local Open Scope Z_scope.
(* integer rectangles (tiny_skia::IntRect): x, y : i32; width, height : u32 > 0 *)
Record irect := { ix : Z; iy : Z; iw : Z; ih : Z }.
Definition i_right (r : irect) : Z := ix r + iw r.
Definition i_bottom (r : irect) : Z := iy r + ih r.
Definition I32_MIN : Z := -2147483648.
Definition I32_MAX : Z := 2147483647.
Definition U32_MAX : Z := 4294967295.
Definition in_i32 (z : Z) : bool := (I32_MIN <=? z) && (z <=? I32_MAX).
(* IntRect::from_xywh: width/height non-zero, x+w and y+h fit in i32 (checked_add) *)
Definition irect_from_xywh (x y w h : Z) : option irect :=
  if in_i32 x && in_i32 y && (0 <? w) && (w <=? U32_MAX) && (0 <? h) && (h <=? U32_MAX)
     && (w <=? I32_MAX) && (h <=? I32_MAX) && in_i32 (x + w) && in_i32 (y + h)
  then Some {| ix := x; iy := y; iw := w; ih := h |} else None.
(* IntRect::from_ltrb: checked_sub then u32::try_from, then from_xywh *)
Definition irect_from_ltrb (l t r b : Z) : option irect :=
  if in_i32 (r - l) && in_i32 (b - t) && (0 <=? r - l) && (0 <=? b - t)
  then irect_from_xywh l t (r - l) (b - t) else None.
