(* Boolean forms of the C17 theorem statements over the source-derived functions, used to search the
   model for a counterexample when a proof no longer checks (never used as a proof). *)
From RV Require Import Model.Base Model.GeomPrims Model.ViewBoxSpec Model.Corr Gen.LeafViewBox.
Local Open Scope Q_scope.

Definition aligned_b (s : side) (lo hi L : Q) : bool :=
  match s with SMin => Qeqb lo 0 | SMid => Qeqb (lo + hi) L | SMax => Qeqb hi L end.

Definition chk_viewbox (vb : viewbox) (s : qsize) : bool :=
  let t := to_transform vb s in
  let r := vb_rect vb in
  let a := ar_align (vb_aspect vb) in
  let lx := img_lo_x t r in let hx := img_hi_x t r in
  let ly := img_lo_y t r in let hy := img_hi_y t r in
  Qeqb (t_kx t) 0 && Qeqb (t_ky t) 0 && Qltb 0 (t_sx t) && Qltb 0 (t_sy t) &&
  (if Align_eqb a ANone
   then Qeqb lx 0 && Qeqb hx (sw s) && Qeqb ly 0 && Qeqb hy (sh s)
   else Qeqb (t_sx t) (t_sy t) &&
        (if ar_slice (vb_aspect vb)
         then Qleb lx 0 && Qleb (sw s) hx && Qleb ly 0 && Qleb (sh s) hy
         else Qleb 0 lx && Qleb hx (sw s) && Qleb 0 ly && Qleb hy (sh s)) &&
        (Qeqb (hx - lx) (sw s) || Qeqb (hy - ly) (sh s)) &&
        match align_x a with Some sd => aligned_b sd lx hx (sw s) | None => true end &&
        match align_y a with Some sd => aligned_b sd ly hy (sh s) | None => true end).

Definition ts_eqb (a b : ts) : bool :=
  Qeqb (t_sx a) (t_sx b) && Qeqb (t_ky a) (t_ky b) && Qeqb (t_kx a) (t_kx b) &&
  Qeqb (t_sy a) (t_sy b) && Qeqb (t_tx a) (t_tx b) && Qeqb (t_ty a) (t_ty b).

Definition chk_scale_law (vb : viewbox) (s : qsize) (k : Q) : bool :=
  ts_eqb (to_transform vb (scale_size k s)) (ts_concat (from_scale k k) (to_transform vb s)).

Definition image_ts (actual : qsize) (rect : qrect) (a : aspect) : ts :=
  let aligned_size := fit_view_box actual rect a in
  let '(ax, ay) := aligned_pos (ar_align a) (rx rect) (ry rect)
                     (rw rect - sw aligned_size) (rh rect - sh aligned_size) in
  from_row (sw aligned_size / sw actual) 0 0 (sh aligned_size / sh actual) ax ay.

Definition chk_image_fit (actual : qsize) (rect : qrect) (a : aspect) : bool :=
  ts_eqb (image_ts actual rect a)
         (ts_concat (from_translate (rx rect) (ry rect))
            (to_transform {| vb_rect := {| rx := 0; ry := 0; rw := sw actual; rh := sh actual |};
                             vb_aspect := a |} (r_size rect))).
