(* C04: the validity predicates of the property statement, as boolean functions over the special-value
   domain xq, and `valid_tree`: the same predicates folded over a whole usvg tree (main tree, pattern /
   mask / clip-path / feImage sub-trees, flattened text, nested SVG images).

   The per-value predicates (`valid_stroke`, `valid_stops`, `valid_region`, ...) are the conclusions of the
   C04 theorems about the model of the producers (Proofs/Style.v) AND what the system-level oracle evaluates
   on the dump of every tree the harness produces (tools/props/c04.py turns the JSON dump into a `vn` term;
   the deciding evaluation is `why`/`valid_tree` under vm_compute).  Executable definitions only. *)
From Coq Require Import Uint63.
From RV Require Import Model.Base Model.StylePrims.
Local Open Scope Q_scope.

(* ---------------------------------------------------------------- per-value predicates *)
Definition xq_pos (x : xq) : bool := match x with Fin q => Qltb 0 q | _ => false end.
Definition xq_nonneg (x : xq) : bool := match x with Fin q => Qleb 0 q | _ => false end.
Definition xq_ge1 (x : xq) : bool := match x with Fin q => Qleb 1 q | _ => false end.
Definition xq_in01 (x : xq) : bool := match x with Fin q => Qleb 0 q && Qleb q 1 | _ => false end.
Definition all_finite (l : list xq) : bool := forallb xq_finite l.
Fixpoint sorted_xq (l : list xq) : bool :=
  match l with
  | a :: r => match r with b :: _ => xq_leb a b && sorted_xq r | [] => true end
  | [] => true
  end.

(* every transform is finite (six coefficients) *)
Definition valid_ts (t : list xq) : bool := Nat.eqb (length t) 6 && all_finite t.
(* every pattern, mask, filter and filter-primitive region has positive finite size *)
Definition valid_region (r : xrect) : bool :=
  xq_finite (xr_x r) && xq_finite (xr_y r) && xq_pos (xr_w r) && xq_pos (xr_h r).
(* stroke: positive finite width, miter limit >= 1, dash list absent or even / non-negative / not all zero *)
Definition valid_width (w : xq) : bool := xq_pos w.
Definition valid_miter (m : xq) : bool := xq_ge1 m.
Definition valid_dash (d : option (list xq)) : bool :=
  match d with
  | None => true
  | Some l => Nat.even (length l) && forallb xq_nonneg l && existsb xq_pos l
  end.
Definition valid_stroke (w m : xq) (d : option (list xq)) : bool :=
  valid_width w && valid_miter m && valid_dash d.
(* gradient: at least two stops, offsets inside [0,1], non-decreasing *)
Definition valid_stops_count (l : list xq) : bool := (2 <=? length l)%nat.
Definition valid_stops_range (l : list xq) : bool := forallb xq_in01 l.
Definition valid_stops (l : list xq) : bool :=
  valid_stops_count l && valid_stops_range l && sorted_xq l.
Definition valid_radius (r : xq) : bool := xq_pos r.

(* path data: at least two segments, starts with a move, finite coordinates *)
Inductive segk := SM | SL | SQ | SC | SZ.
Definition seg := (segk * list xq)%type.
Definition valid_path_len (s : list seg) : bool := (2 <=? length s)%nat.
Definition valid_path_start (s : list seg) : bool := match s with (SM, _) :: _ => true | _ => false end.
Definition valid_path_coords (s : list seg) : bool := forallb (fun sg => all_finite (snd sg)) s.
(* never two moves in a row (PathBuilder::move_to overwrites a trailing MoveTo; Proofs/PathValid.v) *)
Definition seg_is_move (sg : seg) : bool := match fst sg with SM => true | _ => false end.
Fixpoint valid_path_moves (s : list seg) : bool :=
  match s with
  | a :: r => match r with b :: _ => negb (seg_is_move a && seg_is_move b) && valid_path_moves r | [] => true end
  | [] => true
  end.

(* filter primitive parameters (second pass of extension round 4; producers: Proofs/FilterPar.v, Proofs/ObbFilter.v).
   kind 1: numbers that must be finite and not negative (stdDeviation, feMorphology radius, baseFrequency)
   kind 2: feConvolveMatrix [columns; rows; targetX; targetY; number of kernel entries; divisor]
   kind 3: specularExponent of feSpecularLighting, inside [1, 128] *)
Definition xq_is (x : xq) (q : Q) : bool := match x with Fin v => Qeqb v q | _ => false end.
Definition valid_fe_par (kind : N) (vals : list xq) : bool :=
  match kind with
  | 1%N => forallb xq_nonneg vals
  | 2%N => match vals with
           | [Fin c; Fin r; Fin tx; Fin ty; Fin n; d] =>
               Qltb 0 c && Qltb 0 r && Qleb 0 tx && Qltb tx c && Qleb 0 ty && Qltb ty r && Qeqb n (c * r)
               && xq_finite d && negb (xq_is d 0)
           | _ => false
           end
  | 3%N => match vals with [Fin e] => Qleb 1 e && Qleb e 128 | _ => false end
  | _ => true
  end.

(* text: a span lies on character boundaries inside its chunk (chunk text given as UTF-8 bytes) *)
Local Open Scope N_scope.
Definition is_cont_byte (b : N) : bool := (128 <=? b) && (b <? 192).
Definition is_char_boundary (text : list N) (pos : N) : bool :=
  let len := N.of_nat (length text) in
  if pos =? len then true
  else if len <? pos then false
  else negb (is_cont_byte (nth (N.to_nat pos) text 128)).
Definition valid_span (text : list N) (s e : N) : bool :=
  (s <=? e) && (e <=? N.of_nat (length text)) && is_char_boundary text s && is_char_boundary text e.
(* what the model of collect_text_chunks guarantees in addition: the spans tile the chunk *)
Fixpoint spans_tile_from (spans : list (N * N)) (pos len : N) : bool :=
  match spans with
  | [] => pos =? len
  | (s, e) :: r => (s =? pos) && (s <? e) && spans_tile_from r e len
  end.
Definition spans_tile (text : list N) (spans : list (N * N)) : bool :=
  match spans with [] => false | _ => spans_tile_from spans 0 (N.of_nat (length text)) end.
Local Open Scope Q_scope.

(* ---------------------------------------------------------------- whole trees *)
Inductive vn :=
| VTree (size : list xq) (sub : list vn)                       (* sub: root group + the tree-level definition lists *)
| VGroup (ts abs_ts : list xq) (defs children : list vn)       (* defs: clip path, mask, filters *)
| VClip (ts : list xq) (sub : list vn)                         (* sub: linked clip path, root group *)
| VMask (rect : xrect) (sub : list vn)                         (* sub: linked mask, root group *)
| VFilter (rect : xrect) (prims : list vn)
| VPrim (rect : xrect) (sub : list vn)                         (* sub: feImage root, parameters *)
| VFePar (kind : N) (vals : list xq)                           (* parameters of a filter primitive *)
| VPath (abs_ts : list xq) (paints : list vn) (segs : list seg)
| VSegs (segs : list seg)                                      (* path data without a node (textPath) *)
| VFill (paint : list vn)
| VStroke (width miter : xq) (dash : option (list xq)) (paint : list vn)
| VColor
| VLinear (ts coords stops : list xq)                         (* coords: x1 y1 x2 y2 (carried, not part of the property) *)
| VRadial (ts coords : list xq) (r : xq) (stops : list xq)
| VPattern (ts : list xq) (rect : xrect) (root : list vn)
| VImage (abs_ts : list xq) (sub : list vn)                    (* sub: nested tree *)
| VText (abs_ts : list xq) (chunks : list vn) (sub : list vn)  (* sub: flattened group, layouted spans' paints *)
| VChunk (text : list N) (spans : list vn)
| VSpan (start end_ : N) (sub : list vn).                      (* sub: fill, stroke, decoration paints *)

(* codes of violated clauses *)
Definition chk (b : bool) (code : N) : list N := if b then [] else [code].
Definition span_pos (v : vn) : list (N * N) := match v with VSpan s e _ => [(s, e)] | _ => [] end.

Fixpoint why (v : vn) : list N :=
  let whys := fix whys (l : list vn) : list N := match l with [] => [] | x :: r => why x ++ whys r end in
  match v with
  | VTree size sub => chk (Nat.eqb (length size) 2 && forallb xq_pos size) 15 ++ whys sub
  | VGroup ts abs_ts defs children => chk (valid_ts ts && valid_ts abs_ts) 1 ++ whys defs ++ whys children
  | VClip ts sub => chk (valid_ts ts) 1 ++ whys sub
  | VMask rect sub => chk (valid_region rect) 2 ++ whys sub
  | VFilter rect prims => chk (valid_region rect) 2 ++ whys prims
  | VPrim rect sub => chk (valid_region rect) 2 ++ whys sub
  | VPath abs_ts paints segs =>
      chk (valid_ts abs_ts) 1 ++ chk (valid_path_len segs) 10 ++ chk (valid_path_start segs) 11
      ++ chk (valid_path_coords segs) 12 ++ chk (valid_path_moves segs) 17 ++ whys paints
  | VSegs segs => chk (valid_path_len segs) 10 ++ chk (valid_path_start segs) 11 ++ chk (valid_path_coords segs) 12
                  ++ chk (valid_path_moves segs) 17
  | VFePar kind vals => chk (valid_fe_par kind vals) (if N.eqb kind 2 then 19 else 18)
  | VFill paint => whys paint
  | VStroke w m d paint => chk (valid_width w) 3 ++ chk (valid_miter m) 4 ++ chk (valid_dash d) 5 ++ whys paint
  | VColor => []
  | VLinear ts coords stops =>
      chk (valid_ts ts) 1 ++ chk (valid_stops_count stops) 6
      ++ chk (valid_stops_range stops) 7 ++ chk (sorted_xq stops) 8
  | VRadial ts coords r stops =>
      chk (valid_ts ts) 1 ++ chk (valid_radius r) 9 ++ chk (valid_stops_count stops) 6
      ++ chk (valid_stops_range stops) 7 ++ chk (sorted_xq stops) 8
  | VPattern ts rect root => chk (valid_ts ts) 1 ++ chk (valid_region rect) 2 ++ whys root
  | VImage abs_ts sub => chk (valid_ts abs_ts) 1 ++ whys sub
  | VText abs_ts chunks sub => chk (valid_ts abs_ts) 1 ++ whys chunks ++ whys sub
  | VChunk text spans =>
      let ps := flat_map span_pos spans in
      chk (forallb (fun p => valid_span text (fst p) (snd p)) ps) 13
      ++ chk (spans_tile text ps) 16 ++ whys spans
  | VSpan _ _ sub => whys sub
  end.

Definition valid_tree (v : vn) : bool := match why v with [] => true | _ => false end.

(* ---------------------------------------------------------------- input of numbers from the harness *)
(* an f32 (or f64) value m * 2^(e-1200) handed over as two primitive integers: cheap to parse *)
Definition Qpow2' (k : Z) : Q := if (0 <=? k)%Z then inject_Z (2 ^ k) else (1 # Z.to_pos (2 ^ (- k))).
Definition R (m e : int) : xq := Fin (inject_Z (Uint63.to_Z m) * Qpow2' (Uint63.to_Z e - 1200)).
Definition RN (m e : int) : xq := Fin (- (inject_Z (Uint63.to_Z m) * Qpow2' (Uint63.to_Z e - 1200))).
Arguments R (m e)%uint63.
Arguments RN (m e)%uint63.
Definition XR (x y w h : xq) : xrect := {| xr_x := x; xr_y := y; xr_w := w; xr_h := h |}.
