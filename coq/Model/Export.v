(* C19: node export.  crates/resvg/src/lib.rs render_node (as fixed by 2b7df1a), crates/resvg/src/render.rs
   render_node / render_group (the transform a node's content is drawn under), crates/usvg/src/tree/mod.rs
   Node::abs_layer_bounding_box, Tree::node_by_id.  Executable definitions only. *)
From Coq Require Import String.
From RV Require Import Model.Base Model.BBox.
Local Open Scope Q_scope.

Inductive enode :=
  | EGroup (id : string) (t abs : ts) (abs_layer : box) (ch : list enode)
  | ELeaf (id : string) (abs : ts) (abs_sbbox : box).   (* abs_sbbox: absolute STROKE box (image: its absolute box) *)
Definition eid (n : enode) : string := match n with EGroup i _ _ _ _ => i | ELeaf i _ _ => i end.
Definition eabs (n : enode) : ts := match n with EGroup _ _ a _ _ => a | ELeaf _ a _ => a end.

(* Node::abs_layer_bounding_box: groups always have one; path / text: abs_stroke_bounding_box().to_non_zero_rect() (ece95dc:
   a layer includes the stroke); image: abs_bounding_box().to_non_zero_rect() *)
Definition abs_layer_bounding_box (n : enode) : option box :=
  match n with
  | EGroup _ _ _ l _ => Some l
  | ELeaf _ _ b => to_nonzero (Some b)
  end.

(* Transform::invert *)
Definition e_det (t : ts) : Q := t_sx t * t_sy t - t_kx t * t_ky t.
Definition ts_invert (t : ts) : option ts :=
  let d := e_det t in
  if Qeqb d 0 then None else
  Some (from_row (t_sy t / d) (- t_ky t / d) (- t_kx t / d) (t_sx t / d)
                 ((t_kx t * t_ty t - t_sy t * t_tx t) / d) ((t_ky t * t_tx t - t_sx t * t_ty t) / d)).

(* lib.rs render_node: `parent_ts` - the transforms of the node's ancestors.  For a group, abs_transform includes
   the group's own transform, which render_group applies again: g.abs * g.transform^-1 (identity when not invertible) *)
Definition parent_ts (n : enode) : ts :=
  match n with
  | EGroup _ t a _ _ => ts_concat a (match ts_invert t with Some i => i | None => ts_identity end)
  | ELeaf _ a _ => a
  end.

(* lib.rs render_node: None when there is no layer box, else the transform handed to render::render_node:
   transform.pre_translate(-bbox.x, -bbox.y).pre_concat(parent_ts) *)
Definition render_node_ts (n : enode) (tr : ts) : option ts :=
  match abs_layer_bounding_box n with
  | None => None
  | Some b => Some (ts_concat (ts_concat tr (from_translate (- bx0 b) (- by0 b))) (parent_ts n))
  end.
(* render.rs: a group's content is drawn under transform.pre_concat(group.transform()), a leaf under transform *)
Definition content_ts (n : enode) (tr : ts) : option ts :=
  match render_node_ts n tr with
  | None => None
  | Some f => Some (match n with EGroup _ t _ _ _ => ts_concat f t | ELeaf _ _ _ => f end)
  end.
(* what the full rendering does with the same content, seen through the export window: the node's absolute
   transform, shifted by the origin of its absolute layer box, then the export transform *)
Definition expected_content_ts (n : enode) (tr : ts) : option ts :=
  match abs_layer_bounding_box n with
  | None => None
  | Some b => Some (ts_concat (ts_concat tr (from_translate (- bx0 b) (- by0 b))) (eabs n))
  end.

(* Tree::node_by_id / node_by_id: first match in pre-order below the root; the empty id finds nothing *)
Fixpoint nbi (id : string) (n : enode) {struct n} : option enode :=
  match n with
  | EGroup _ _ _ _ ch =>
      (fix go (l : list enode) : option enode :=
         match l with
         | [] => None
         | c :: r => if String.eqb (eid c) id then Some c else
                     match nbi id c with Some x => Some x | None => go r end
         end) ch
  | ELeaf _ _ _ => None
  end.
Definition node_by_id (root : enode) (id : string) : option enode :=
  if String.eqb id "" then None else nbi id root.

(* all nodes strictly below n, in pre-order *)
Fixpoint descendants (n : enode) : list enode :=
  match n with
  | EGroup _ _ _ _ ch => flat_map (fun c => c :: descendants c) ch
  | ELeaf _ _ _ => []
  end.

Definition ts_closeb' (tol : Q) (a b : option ts) : bool :=
  match a, b with Some x, Some y => ts_closeb tol x y | None, None => true | _, _ => false end.

(* ------------------------------------------------------------------ what is drawn: the draw list of a subtree *)
(* render.rs render_node / render_group / render_nodes, transforms only: a leaf is drawn under the current transform, a group
   pre-concats its own transform for its children (isolation, opacity, clip, mask, filters are C14/C15/C16's business and
   apply to the same list).  `prim` identifies the leaf. *)
Inductive dnode := DLeaf (prim : N) | DGroup (t : ts) (ch : list dnode).
Fixpoint draws (cur : ts) (n : dnode) : list (ts * N) :=
  match n with
  | DLeaf p => [(cur, p)]
  | DGroup t ch => flat_map (draws (ts_concat cur t)) ch
  end.
(* the full rendering draws the node's subtree under the product of its ancestors' transforms `anc`; resvg::render_node hands
   render::render_node the transform  tr * translate(-box origin) * parent_ts *)
Definition full_draws (anc : ts) (n : dnode) : list (ts * N) := draws anc n.
Definition export_draws (tr : ts) (b : box) (parent : ts) (n : dnode) : list (ts * N) :=
  draws (ts_concat (ts_concat tr (from_translate (- bx0 b) (- by0 b))) parent) n.
(* pointwise comparison of draw lists: same leaves in the same order, transforms equal as rational matrices *)
Fixpoint draws_eq (a b : list (ts * N)) : Prop :=
  match a, b with
  | [], [] => True
  | (t1, p1) :: r1, (t2, p2) :: r2 => ts_eq t1 t2 /\ p1 = p2 /\ draws_eq r1 r2
  | _, _ => False
  end.

(* ------------------------------------------------------------------ extension round 4: the search domain of node_by_id *)
(* A node of the usvg tree also owns sub-trees (clip-path / mask roots of a group, pattern roots of a path's paints, feImage
   roots): `subs`.  tree/mod.rs node_by_id iterates `parent.children` and descends into `Node::Group` children only (fact
   BF_NodeById): nodes of sub-trees are not renderable nodes and are never returned, whatever ids they carry. *)
Inductive fnode :=
  | FGroup (id : string) (t abs : ts) (abs_layer : box) (subs : list fnode) (ch : list fnode)
  | FLeaf (id : string) (abs : ts) (abs_sbbox : box) (subs : list fnode).
Definition fid (n : fnode) : string := match n with FGroup i _ _ _ _ _ => i | FLeaf i _ _ _ => i end.
Fixpoint f_nbi (id : string) (n : fnode) {struct n} : option fnode :=
  match n with
  | FGroup _ _ _ _ _ ch =>
      (fix go (l : list fnode) : option fnode :=
         match l with
         | [] => None
         | c :: r => if String.eqb (fid c) id then Some c else
                     match f_nbi id c with Some x => Some x | None => go r end
         end) ch
  | FLeaf _ _ _ _ => None
  end.
Definition f_node_by_id (root : fnode) (id : string) : option fnode :=
  if String.eqb id "" then None else f_nbi id root.
(* the renderable tree: sub-trees dropped *)
Fixpoint f_erase (n : fnode) : enode :=
  match n with
  | FGroup i t a l _ ch => EGroup i t a l (map f_erase ch)
  | FLeaf i a b _ => ELeaf i a b
  end.
(* every node of the forest, sub-trees included, in pre-order *)
Fixpoint f_all (n : fnode) : list fnode :=
  n :: match n with
       | FGroup _ _ _ _ subs ch => flat_map f_all subs ++ flat_map f_all ch
       | FLeaf _ _ _ subs => flat_map f_all subs
       end.
