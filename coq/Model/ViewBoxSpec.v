(* Specification vocabulary for preserveAspectRatio (SVG 1.1 sect. 7.8), independent of the code. *)
From RV Require Import Model.Base Model.GeomPrims.
Local Open Scope Q_scope.

Inductive side := SMin | SMid | SMax.
Definition align_x (a : Align) : option side :=
  match a with
  | ANone => None
  | XMinYMin | XMinYMid | XMinYMax => Some SMin
  | XMidYMin | XMidYMid | XMidYMax => Some SMid
  | XMaxYMin | XMaxYMid | XMaxYMax => Some SMax
  end.
Definition align_y (a : Align) : option side :=
  match a with
  | ANone => None
  | XMinYMin | XMidYMin | XMaxYMin => Some SMin
  | XMinYMid | XMidYMid | XMaxYMid => Some SMid
  | XMinYMax | XMidYMax | XMaxYMax => Some SMax
  end.

(* image of the viewBox under t: [lo_x, hi_x] x [lo_y, hi_y] *)
Definition img_lo_x (t : ts) (r : qrect) := map_x t (rx r) (ry r).
Definition img_hi_x (t : ts) (r : qrect) := map_x t (rx r + rw r) (ry r + rh r).
Definition img_lo_y (t : ts) (r : qrect) := map_y t (rx r) (ry r).
Definition img_hi_y (t : ts) (r : qrect) := map_y t (rx r + rw r) (ry r + rh r).

(* "aligned on side s within [0, L]" for an interval [lo, hi] *)
Definition aligned (s : side) (lo hi L : Q) : Prop :=
  match s with
  | SMin => lo == 0
  | SMid => lo + hi == L
  | SMax => hi == L
  end.

Definition vb_ok (vb : viewbox) (s : qsize) : Prop := pos_rect (vb_rect vb) /\ pos_size s.
Definition scale_size (k : Q) (s : qsize) : qsize := {| sw := k * sw s; sh := k * sh s |}.
