(* C08: numeric attributes that writer.rs writes only under a condition (Gen/ElisionTables.v, tools/gen_elision.py).
   `written c v` = the attribute is written for the value v.  The approximate comparisons of the source
   (approx_zero_ulps(n); PartialEq of the f32 newtypes = approx_eq_ulps(4)) are over-approximated: a value is
   taken as possibly elided whenever it is within n * (|c| / 2^22 + 2^-149) of c (an f32 ulp near c is at most
   |c| / 2^22, next to zero it is 2^-149), so "elided => close to the parser default" is sound for the real test.
   A condition the generator does not understand (COther) is modelled as "never written".  Executable Gallina only. *)
From RV Require Import Gen.ElisionTables.
From Coq Require Import String List Bool ZArith QArith Qabs.
Import ListNotations.

Definition tol (c : econd) : Q :=
  match c with
  | CNe _ => 0
  | CApprox c0 n => inject_Z n * (Qabs c0 / inject_Z (2 ^ 22) + 1 / inject_Z (2 ^ 149))
  | COther _ => 0
  end.

Definition written (c : econd) (v : Q) : bool :=
  match c with
  | CNe c0 => negb (Qeq_bool v c0)
  | CApprox c0 _ => negb (Qle_bool (Qabs (v - c0)) (tol c))
  | COther _ => false
  end.

Definition cond_const (c : econd) : option Q :=
  match c with CNe c0 | CApprox c0 _ => Some c0 | COther _ => None end.

(* the constant of the writer's condition is the parser's default *)
Definition elision_site_ok (s : string * econd * option Q) : bool :=
  match cond_const (snd (fst s)), snd s with
  | Some c0, Some d => Qeq_bool c0 d
  | _, _ => false
  end.
Definition chk_elision_sites : bool := forallb elision_site_ok elision_sites.
Definition bad_elision_sites : list string := map (fun s => fst (fst s)) (filter (fun s => negb (elision_site_ok s)) elision_sites).
