(* checker for the `ctor` correspondence: (model verdict, implementation verdict) pairs *)
From Coq Require Import QArith List Bool NArith.
From RV Require Import Model.Base Model.Xq.
Import ListNotations.
Fixpoint xq_bad_from (l : list (bool * bool)) (i : N) : list N :=
  match l with
  | [] => []
  | (a, b) :: r => if Bool.eqb a b then xq_bad_from r (N.succ i) else i :: xq_bad_from r (N.succ i)
  end.
Definition xq_bad (l : list (bool * bool)) : list N := xq_bad_from l 0%N.
