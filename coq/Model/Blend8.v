(* Bytes and tiny-skia's u8 blending arithmetic, shared by the filter model (C16) and the clip / mask model (C15).
   No generated definitions are used here, so an edit of the filter kernels does not touch C15's closure.
   Pixmap::apply_mask runs tiny-skia's lowp pipeline: div255(v) = (v + 255) >> 8.
   draw_pixmap (pattern shader) runs the float pipeline; its result is the exact value rounded to nearest
   (k/255 is never a tie).  Both are validated exhaustively against the real tiny-skia by the harness tables
   `mask`, `over:<d>`, `xor:<d>`; tiny-skia itself is not modelled further. *)
From RV Require Import Model.F32.
Local Open Scope Z_scope.

Definition is_byte (z : Z) : Prop := 0 <= z <= 255.
Definition div255 (v : Z) : Z := Z.shiftr (v + 255) 8.
Definition scale_u8 (c m : Z) : Z := div255 (c * m).                 (* apply_mask: DestinationIn with coverage m *)
Definition round_div255 (v : Z) : Z := (2 * v + 255) / 510.          (* nearest integer to v / 255 *)
Definition over_u8 (s sa d : Z) : Z := s + round_div255 (d * (255 - sa)).   (* SourceOver of (s, sa) onto d *)
Definition xor_alpha_u8 (sa da : Z) : Z := round_div255 (sa * (255 - da) + da * (255 - sa)).   (* BlendMode::Xor, alpha *)

(* compare two Z lists, return the indices that differ (a length mismatch as index = length) *)
Fixpoint diff_from (a b : list Z) (i : N) : list N :=
  match a, b with
  | [], [] => []
  | x :: r, y :: s => if x =? y then diff_from r s (N.succ i) else i :: diff_from r s (N.succ i)
  | _, _ => [i]
  end.
Definition diff_indices (a b : list Z) : list N := diff_from a b 0%N.
Definition first5 (l : list N) : list N := firstn 5 l.
(* one verdict per case: 0 = agrees, n > 0 = 1 + index of the first disagreement *)
Definition verdict (l : list N) : N := match l with [] => 0%N | i :: _ => N.succ i end.
