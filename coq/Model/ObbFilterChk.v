(* C18 correspondence helpers, extension round 4 (filters / masks through the conversion caches, primitiveUnits scaling);
   separate from Model/ObbChk.v so that a broken tie of the filter slices leaves the other correspondences running.
   Never used by proofs. *)
From RV Require Import Model.Base Model.GeomPrims Model.StylePrims Model.Corr Model.ObbPrims Gen.LeafObb Model.Obb Model.ObbChk.
From RV Require Import Model.ObbFilter.
Local Open Scope Q_scope.

(* ---- extension round 4: filters / masks through the conversion cache, primitiveUnits scaling ---- *)
Definition rparam_close (a b : rparam) : bool :=
  match a, b with
  | RP_plain, RP_plain => true
  | RP_blur x y, RP_blur x' y' => Qclose tol18 x x' && Qclose tol18 y y'
  | RP_offset x y, RP_offset x' y' => Qclose tol18 x x' && Qclose tol18 y y'
  | RP_shadow x y s t, RP_shadow x' y' s' t' => Qclose tol18 x x' && Qclose tol18 y y' && Qclose tol18 s s' && Qclose tol18 t t'
  | RP_morph x y, RP_morph x' y' => Qclose tol18 x x' && Qclose tol18 y y'
  | RP_displace s, RP_displace s' => Qclose tol18 s s'
  | _, _ => false
  end.
(* a sequence of users over the filters of one document; observed per user: id, region, parameters of the first primitive *)
Definition chk_filter_users (c : list N * list (felem * option qrect * option (N * qrect * rparam))) : bool :=
  let '(taken, us) := c in
  let rs := fst (filter_users taken (map (fun p => (fst (fst p), snd (fst p))) us) {| fs_cache := []; fs_ctr := 0 |}) in
  (fix go (rs : list (option fconv)) (obs : list (felem * option qrect * option (N * qrect * rparam))) : bool :=
     match rs, obs with
     | [], [] => true
     | r :: rs', (_, o) :: obs' =>
         match r, o with
         | None, None => go rs' obs'
         | Some v, Some (id, rc, par) =>
             N.eqb (fv_id v) id && rect_close (fv_rect v) rc
             && match fv_prims v with p :: _ => rparam_close (rp_par p) par | [] => false end && go rs' obs'
         | _, _ => false
         end
     | _, _ => false
     end) rs us.
(* a sequence of users over the mask chains of one document; observed per user and chain element: id, region,
   whether the content sits in a group with a transform, whether there is content at all *)
Definition chk_mask_users (c : list N * list (msrc * option qrect * option (list (N * qrect * bool * bool)))) : bool :=
  let '(taken, us) := c in
  let rs := mask_users taken (map (fun p => (fst (fst p), snd (fst p))) us) {| ms_cache := []; ms_ctr := 0 |} in
  (fix go (rs : list (option mconv)) (obs : list (msrc * option qrect * option (list (N * qrect * bool * bool)))) : bool :=
     match rs, obs with
     | [], [] => true
     | r :: rs', (_, o) :: obs' =>
         match r, o with
         | None, None => go rs' obs'
         | Some v, Some l =>
             (fix cmp (a : mconv) (b : list (N * qrect * bool * bool)) : bool :=
                match a, b with
                | [], [] => true
                | e :: a', (id, rc, grp, content) :: b' =>
                    N.eqb (mv_id e) id && rect_close (mv_rect e) rc
                    && Bool.eqb (match mv_content e with Some (Some _) => true | _ => false end) grp
                    && Bool.eqb (match mv_content e with Some _ => true | None => false end) content && cmp a' b'
                | _, _ => false
                end) v l && go rs' obs'
         | _, _ => false
         end
     | _, _ => false
     end) rs us.
(* boolean form of C18_primitive_params_equiv for the model-level search *)
Definition thm_params (c : fparam * qrect) : bool :=
  let '(p, B) := c in
  negb (Qltb 0 (rw B) && Qltb 0 (rh B))
  || rparam_eqb (resolve_param p (rw B, rh B)) (resolve_param (map_param p B) (1, 1)).
