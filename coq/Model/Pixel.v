(* Per-pixel model of resvg's filter kernels over bytes, in exact binary32 arithmetic.
   The leaf expressions (tables, multiply/demultiply, f32_bound, colour-matrix rows, transfer
   arithmetic, arithmetic composite, pass order of into_srgb / apply_color_matrix / ...) are the
   SOURCE-DERIVED definitions of Gen/PixelTables.v; this file only composes them the way
   crates/resvg/src/filter/{mod,color_matrix,component_transfer,composite,morphology}.rs do.
   Executable definitions and boolean checkers only (no property proofs). *)
From RV Require Import Model.F32.
From RV Require Import Gen.PixelTables.
From RV Require Export Model.Blend8.
Local Open Scope Z_scope.

(* ------------------------------------------------------------------ byte-pair kernels *)
Definition mul_alpha (c a : Z) : Z := multiply_alpha_ch c (multiply_alpha_a a).
Definition demul_alpha (c a : Z) : Z := demultiply_alpha_ch c (demultiply_alpha_a a).

Record px := { pr : Z; pg : Z; pb : Z; pa : Z }.
Definition px0 : px := {| pr := 0; pg := 0; pb := 0; pa := 0 |}.
Definition byte_px (p : px) : Prop := is_byte (pr p) /\ is_byte (pg p) /\ is_byte (pb p) /\ is_byte (pa p).
(* valid premultiplied RGBA *)
Definition valid_px (p : px) : Prop := pr p <= pa p /\ pg p <= pa p /\ pb p <= pa p.
Definition valid_pxb (p : px) : bool := (pr p <=? pa p) && (pg p <=? pa p) && (pb p <=? pa p).
Definition px_eqb (p q : px) : bool :=
  (pr p =? pr q) && (pg p =? pg q) && (pb p =? pb q) && (pa p =? pa q).

Definition px_multiply (p : px) : px :=
  let a := multiply_alpha_a (pa p) in
  {| pr := multiply_alpha_ch (pr p) a; pg := multiply_alpha_ch (pg p) a;
     pb := multiply_alpha_ch (pb p) a; pa := pa p |}.
Definition px_demultiply (p : px) : px :=
  let a := demultiply_alpha_a (pa p) in
  {| pr := demultiply_alpha_ch (pr p) a; pg := demultiply_alpha_ch (pg p) a;
     pb := demultiply_alpha_ch (pb p) a; pa := pa p |}.
Definition px_map_rgb (f : Z -> Z) (p : px) : px :=
  {| pr := f (pr p); pg := f (pg p); pb := f (pb p); pa := pa p |}.

(* the pass lists are generated from the bodies of into_srgb, apply_color_matrix, ... *)
Definition run_step (k : px -> px) (s : step) (p : px) : px :=
  match s with
  | StDemul => px_demultiply p
  | StMul => px_multiply p
  | StFromLinear => px_map_rgb lut_from_linear_ch p
  | StIntoLinear => px_map_rgb lut_into_linear_ch p
  | StKernel => k p
  end.
Definition run_steps (k : px -> px) (steps : list step) (p : px) : px :=
  fold_left (fun q s => run_step k s q) steps p.

Definition px_into_srgb : px -> px := run_steps (fun p => p) into_srgb_steps.
Definition px_into_linear : px -> px := run_steps (fun p => p) into_linear_rgb_steps.

(* ------------------------------------------------------------------ feColorMatrix *)
Inductive cm_kind := CMMatrix (m : list f32) | CMSaturate (v : f32) | CMLuminanceToAlpha
  | CMHueRotate (a1 a2 : f32).   (* a1 = cos, a2 = sin of the angle in radians (libm; for 0 degrees exactly 1 and 0) *)
(* f32::max(v, 0.0) for the non-NaN v of a PositiveF32 *)
Definition fmax0 (v : f32) : f32 := if flt v fzero then fzero else v.
Definition cm_kernel (k : cm_kind) (p : px) : px :=
  let r := cm_to_normalized (pr p) in let g := cm_to_normalized (pg p) in
  let b := cm_to_normalized (pb p) in let a := cm_to_normalized (pa p) in
  match k with
  | CMMatrix m =>
      {| pr := cm_from_normalized (cm_matrix_r m r g b a); pg := cm_from_normalized (cm_matrix_g m r g b a);
         pb := cm_from_normalized (cm_matrix_b m r g b a); pa := cm_from_normalized (cm_matrix_a m r g b a) |}
  | CMSaturate v =>
      let m := cm_saturate_coefs (fmax0 v) in
      {| pr := cm_from_normalized (cm_saturate_r m r g b a); pg := cm_from_normalized (cm_saturate_g m r g b a);
         pb := cm_from_normalized (cm_saturate_b m r g b a); pa := pa p |}
  | CMLuminanceToAlpha =>
      {| pr := 0; pg := 0; pb := 0; pa := cm_from_normalized (cm_luminance_a r g b a) |}
  | CMHueRotate a1 a2 =>
      let m := cm_hue_coefs a1 a2 in
      {| pr := cm_from_normalized (cm_hue_r m r g b a); pg := cm_from_normalized (cm_hue_g m r g b a);
         pb := cm_from_normalized (cm_hue_b m r g b a); pa := pa p |}
  end.
(* filter/mod.rs apply_color_matrix on one pixel (after into_color_space) *)
Definition px_color_matrix (k : cm_kind) : px -> px := run_steps (cm_kernel k) apply_color_matrix_steps.

Definition f1 : f32 := flit 1 1.
Definition identity_matrix : list f32 :=
  [f1; fzero; fzero; fzero; fzero;  fzero; f1; fzero; fzero; fzero;
   fzero; fzero; f1; fzero; fzero;  fzero; fzero; fzero; f1; fzero].

(* ------------------------------------------------------------------ feComponentTransfer *)
Inductive tf := TFIdentity | TFTable (vs : list f32) | TFDiscrete (vs : list f32)
              | TFLinear (slope intercept : f32).       (* Gamma (powf) is not modelled *)
Definition tf_dummy (f : tf) : bool :=
  match f with TFIdentity => true | TFTable [] => true | TFDiscrete [] => true | _ => false end.
Definition transfer (f : tf) (c : Z) : Z :=
  let cf := ct_to_f c in
  ct_final
    match f with
    | TFIdentity => cf
    | TFTable vs =>
        let n := Z.of_nat (length vs) - 1 in
        let k := Z.min (ct_table_pos cf n) n in
        if k =? n then nthZ vs k fzero
        else ct_table_interp (nthZ vs k fzero) (nthZ vs (k + 1) fzero) cf (of_Z k) (of_Z n)
    | TFDiscrete vs =>
        let n := Z.of_nat (length vs) in
        nthZ vs (Z.min (ct_discrete_pos cf n) (n - 1)) fzero
    | TFLinear s i => ct_linear s i cf
    end.
Definition get_ch (p : px) (i : Z) : Z :=
  match i with 0 => pr p | 1 => pg p | 2 => pb p | _ => pa p end.
Definition set_ch (p : px) (i v : Z) : px :=
  match i with
  | 0 => {| pr := v; pg := pg p; pb := pb p; pa := pa p |}
  | 1 => {| pr := pr p; pg := v; pb := pb p; pa := pa p |}
  | 2 => {| pr := pr p; pg := pg p; pb := v; pa := pa p |}
  | _ => {| pr := pr p; pg := pg p; pb := pb p; pa := v |}
  end.
(* fs = [func_r; func_g; func_b; func_a]; statements in source order (ct_wiring) *)
Definition ct_kernel (fs : list tf) (p : px) : px :=
  fold_left (fun q w => let '(gf, dst, f, src) := w in
                        if tf_dummy (nthZ fs gf TFIdentity) then q
                        else set_ch q dst (transfer (nthZ fs f TFIdentity) (get_ch q src)))
            ct_wiring p.
Definition px_component_transfer (fs : list tf) : px -> px :=
  run_steps (ct_kernel fs) apply_component_transfer_steps.

(* ------------------------------------------------------------------ feComposite arithmetic *)
Definition ar_calc (k1 k2 k3 k4 : f32) (i1 i2 : Z) (max : f32) : f32 :=
  ar_bound (ar_result k1 k2 k3 k4 (ar_norm i1) (ar_norm i2)) max.
Definition px_arithmetic (k1 k2 k3 k4 : f32) (p1 p2 : px) : px :=
  let a := ar_calc k1 k2 k3 k4 (pa p1) (pa p2) ar_alpha_max in
  if approx_zero4 a then px0      (* `continue`: the fresh destination stays transparent *)
  else {| pr := ar_store_c (ar_calc k1 k2 k3 k4 (pr p1) (pr p2) a);
          pg := ar_store_c (ar_calc k1 k2 k3 k4 (pg p1) (pg p2) a);
          pb := ar_store_c (ar_calc k1 k2 k3 k4 (pb p1) (pb p2) a);
          pa := ar_store_a a |}.

(* ------------------------------------------------------------------ feConvolveMatrix (extension round 4)
   One output pixel of convolve_matrix::apply.  `win` = the (kernel value, window pixel) pairs in the order the two
   loops visit them (whatever the edge mode, the order / target / kernel size: they only decide which pairs are in
   the list); the four sums are the source's `+=` folds from 0.0 (new_a is only accumulated without preserveAlpha).
   The leaf expressions cv_* are SOURCE-DERIVED (Gen/PixelTables.v). *)
Definition cv_sum (ch : px -> Z) (win : list (f32 * px)) : f32 :=
  fold_left (fun acc kp => fadd acc (cv_term (ch (snd kp)) (fst kp))) win (flit 0 1).
Definition cv_out (preserve : bool) (divisor bias : f32) (sr sg sb sa : f32) (in_a : Z) : px :=
  let new_a := if preserve then cv_alpha_preserve in_a else cv_alpha_plain sa divisor bias in
  let ba := cv_bounded_a new_a in
  let calc (s : f32) : Z :=
    let x := cv_x s divisor bias new_a in
    cv_store (if preserve then cv_calc_preserve x ba else cv_calc_plain x ba) in
  {| pr := calc sr; pg := calc sg; pb := calc sb; pa := cv_store_a ba |}.
Definition cv_pixel (preserve : bool) (divisor bias : f32) (win : list (f32 * px)) (in_p : px) : px :=
  cv_out preserve divisor bias (cv_sum pr win) (cv_sum pg win) (cv_sum pb win)
         (if preserve then flit 0 1 else cv_sum pa win) (pa in_p).
(* filter/mod.rs apply_convolve_matrix on an image whose window pixels all equal the pixel itself (a 1x1 kernel, or a
   1x1 image with edgeMode duplicate / wrap): ks = kernel values in visiting order *)
Definition px_convolve_uniform (preserve : bool) (divisor bias : f32) (ks : list f32) : px -> px :=
  run_steps (fun q => cv_pixel preserve divisor bias (map (fun k => (k, q)) ks) q) (apply_convolve_steps preserve).

(* ------------------------------------------------------------------ feMorphology *)
Inductive mop := Erode | Dilate.
Definition morph_init (op : mop) : px :=
  match op with Erode => {| pr := 255; pg := 255; pb := 255; pa := 255 |} | Dilate => px0 end.
Definition morph_acc (op : mop) (acc p : px) : px :=
  match op with
  | Erode => {| pr := Z.min (pr p) (pr acc); pg := Z.min (pg p) (pg acc);
                pb := Z.min (pb p) (pb acc); pa := Z.min (pa p) (pa acc) |}
  | Dilate => {| pr := Z.max (pr p) (pr acc); pg := Z.max (pg p) (pg acc);
                 pb := Z.max (pb p) (pb acc); pa := Z.max (pa p) (pa acc) |}
  end.
Definition pixel_at (data : list px) (w x y : Z) : px := nthZ data (w * y + x) px0.
(* window of pixel (x, y): `for oy in 0..rows { for ox in 0..columns { tx = x - target_x + ox; .. } }`,
   positions outside the image skipped *)
Definition morph_window (columns rows w h x y : Z) : list (Z * Z) :=
  let target_x := columns / 2 in let target_y := rows / 2 in   (* (columns as f32 / 2.0).floor() *)
  flat_map (fun oy => flat_map (fun ox =>
      let tx := x - target_x + ox in let ty := y - target_y + oy in
      if (tx <? 0) || (w - 1 <? tx) || (ty <? 0) || (h - 1 <? ty) then [] else [(tx, ty)])
    (zrange (Z.to_nat columns) 0)) (zrange (Z.to_nat rows) 0).
Definition morph_pixel (op : mop) (columns rows w h : Z) (data : list px) (x y : Z) : px :=
  fold_left (fun acc t => morph_acc op acc (pixel_at data w (fst t) (snd t)))
            (morph_window columns rows w h x y) (morph_init op).
(* crx = rx.ceil(), cry = ry.ceil() (positive integers) *)
Definition morphology (op : mop) (crx cry w h : Z) (data : list px) : list px :=
  let columns := Z.min (crx * 2) w in let rows := Z.min (cry * 2) h in
  flat_map (fun y => map (fun x => morph_pixel op columns rows w h data x y) (zrange (Z.to_nat w) 0))
           (zrange (Z.to_nat h) 0).

(* ------------------------------------------------------------------ identity primitives: early returns
   apply_offset / apply_blur return the very input image when the scaled offset / deviation is zero
   (guards and scale_coordinates are source-derived); `shifted` / `blurred` stand for whatever the
   non-trivial path would compute. *)
Definition apply_offset_model {I : Type} (dx dy sx sy : f32) (input shifted : I) : I :=
  let '(x, y) := scale_coordinates dx dy sx sy in if offset_returns_input x y then input else shifted.
Definition apply_blur_model {I : Type} (std_dx std_dy sx sy : f32) (input blurred : I) : I :=
  let '(x, y) := scale_coordinates std_dx std_dy sx sy in if blur_returns_input x y then input else blurred.
(* feMerge / apply_to_canvas: SourceOver of one premultiplied pixel onto a fresh transparent pixmap *)
Definition merge_single (p : px) : px :=
  {| pr := over_u8 (pr p) (pa p) 0; pg := over_u8 (pg p) (pa p) 0;
     pb := over_u8 (pb p) (pa p) 0; pa := over_u8 (pa p) (pa p) 0 |}.

(* ------------------------------------------------------------------ helpers for exhaustive tables *)
Definition pair_table (f : Z -> Z -> Z) : list Z :=
  flat_map (fun a => map (fun c => f c a) bytes) bytes.        (* index = a * 256 + c *)
Definition grey (c a : Z) : px := {| pr := c; pg := c; pb := c; pa := a |}.
Definition px_list (p : px) : list Z := [pr p; pg p; pb p; pa p].

Definition firstn_N (n : nat) (l : list N) : list N := firstn n l.
