(* C18 correspondence helpers: the model of Model/Obb.v run on the definitions / boxes of the generated
   documents, compared inside Coq with what the parser produced (tools/props/c18.py parses only the list of
   failing indices).  Never used by proofs. *)
From RV Require Import Model.Base Model.GeomPrims Model.StylePrims Model.Corr Model.ObbPrims Gen.LeafObb Model.Obb.
Local Open Scope Q_scope.

Definition tol18 : Q := 1 # 10000.
Definition rect_close (a b : qrect) : bool :=
  Qclose tol18 (rx a) (rx b) && Qclose tol18 (ry a) (ry b) && Qclose tol18 (rw a) (rw b) && Qclose tol18 (rh a) (rh b).
Definition orect_close (a b : option qrect) : bool :=
  match a, b with Some x, Some y => rect_close x y | None, None => true | _, _ => false end.

(* gradients: per holder (box, observed (id, transform)); the model runs the whole post-pass *)
Definition chk_gradient_users (c : ts * N * list N * list (qrect * option (N * ts))) : bool :=
  let '(T, sid, taken, us) := c in
  let d0 := {| g_id := sid; g_units := ObjectBoundingBox; g_ts := T |} in
  let users := map (fun p => {| u_h := Some 0%nat; u_box := fst p |}) us in
  let '(st, out) := postpass taken [d0] 0 users in
  (fix go (o : list user) (obs : list (qrect * option (N * ts))) : bool :=
     match o, obs with
     | [], [] => true
     | u :: r, (_, ob) :: s =>
         match user_def st u, ob with
         | None, None => go r s
         | Some d, Some (id, t) => N.eqb (g_id d) id && ts_close tol18 (g_ts d) t && go r s
         | _, _ => false
         end
     | _, _ => false
     end) out us.

(* pattern: rect and (for patternContentUnits=objectBoundingBox without viewBox) the content transform *)
Definition chk_pattern (c : units_ * qrect * qrect * option qrect * option ts) : bool :=
  let '(units, rect, B, obs_rect, obs_content) := c in
  orect_close (resolve_pattern_rect units rect B) obs_rect
  && match obs_content with Some t => ts_close tol18 (pattern_content_ts B) t | None => true end.

(* clip paths: a sequence of users of one chain; observed per user: the converted chain (id, transform) list *)
Definition chk_clip_users (c : list N * csrc * list (option qrect * option (list (N * ts)))) : bool :=
  let '(taken, chain, us) := c in
  let res := clip_users taken (map (fun p => (chain, fst p)) us) {| cs_cache := []; cs_ctr := 0 |} in
  (fix go (r : list (option cconv)) (obs : list (option qrect * option (list (N * ts)))) : bool :=
     match r, obs with
     | [], [] => true
     | x :: r', (_, o) :: s =>
         match x, o with
         | None, None => go r' s
         | Some v, Some l =>
             (fix cmp (a : cconv) (b : list (N * ts)) : bool :=
                match a, b with
                | [], [] => true
                | e :: a', (id, t) :: b' => N.eqb (cv_id e) id && ts_close tol18 (cv_ts e) t && cmp a' b'
                | _, _ => false
                end) v l && go r' s
         | _, _ => false
         end
     | _, _ => false
     end) res us.
(* the same users against the per-user expectation (what the property demands) *)
Definition chk_clip_expected (c : csrc * list (option qrect * option (list (N * ts)))) : bool :=
  let '(chain, us) := c in
  forallb (fun p => match clip_expected chain (fst p), snd p with
                    | None, None => true
                    | Some l, Some o => (fix cmp (a : list ts) (b : list (N * ts)) : bool :=
                                           match a, b with
                                           | [], [] => true
                                           | t :: a', (_, t') :: b' => ts_close tol18 t t' && cmp a' b'
                                           | _, _ => false
                                           end) l o
                    | _, _ => false
                    end) us.

(* mask / filter region, mask content group *)
Definition chk_region (c : units_ * qrect * qrect * option qrect) : bool :=
  let '(units, rect, B, obs) := c in
  orect_close (if units_eqb units ObjectBoundingBox then checked_bbox_transform rect B else Some rect) obs.
Definition chk_from_bbox (c : qrect * ts) : bool := ts_close tol18 (from_bbox (fst c)) (snd c).

(* filter primitive sub-region *)
Definition chk_prim (c : prim_kind * units_ * option Q * option Q * option Q * option Q * option qrect * qrect * option qrect) : bool :=
  let '(k, units, x, y, w, h, bbox, fr, obs) := c in
  orect_close (resolve_primitive_region k units x y w h bbox fr) obs.

(* boolean forms of theorem statements for the model-level search *)
Definition thm_shared (c : ts * list qrect) : bool :=
  let '(T, boxes) := c in
  let d0 := {| g_id := 1000; g_units := ObjectBoundingBox; g_ts := T |} in
  let users := map (fun b => {| u_h := Some 0%nat; u_box := b |}) boxes in
  let '(st, out) := postpass [1000%N] [d0] 0 users in
  (fix go (us o : list user) : bool :=
     match us, o with
     | [], [] => true
     | u :: r, v :: s =>
         match to_non_zero_rect (u_box u), user_def st v with
         | None, None => go r s
         | Some B, Some d => units_eqb (g_units d) UserSpaceOnUse && ts_eqb' (g_ts d) (resolve_gradient_ts T B) && go r s
         | _, _ => false
         end
     | _, _ => false
     end) users out.
Definition thm_bbox_map (c : qrect * qrect) : bool :=
  let '(r, B) := c in
  match checked_bbox_transform r B with
  | Some r' => Qeqb (rx r') (map_x (from_bbox B) (rx r) (ry r)) && Qeqb (ry r') (map_y (from_bbox B) (rx r) (ry r))
               && Qeqb (r_right r') (map_x (from_bbox B) (r_right r) (r_bottom r))
               && Qeqb (r_bottom r') (map_y (from_bbox B) (r_right r) (r_bottom r))
  | None => negb (Qltb 0 (rw r * rw B) && Qltb 0 (rh r * rh B))
  end.

Definition chk_gradient_ts (c : ts * qrect * ts) : bool :=
  let '(T, B, t) := c in ts_close tol18 (resolve_gradient_ts T B) t.
Definition chk_clip_ts (c : ts * qrect * ts) : bool :=
  let '(T, B, t) := c in ts_close tol18 (clip_resolve_ts T B) t.
