(* C20: model of the resvg command-line tool (crates/resvg/src/main.rs) over Z / Q.
   Source-derived (Gen/C20Cli.v, regenerated on every run): the parse_* accept conditions, FitTo, fit_to_size,
   fit_to_transform, the -w/-h/-z decision, fit_to_rect, the order of the steps of `process`.
   Hand-written here: the control flow of render_svg / trim_pixmap / process (tied by the cli-dims
   correspondence op against the real binary).  Executable definitions only. *)
From Coq Require Import Qround String.
From RV Require Import Model.Base Model.GeomPrims Model.CliPrims Gen.C20Cli.
Local Open Scope Z_scope.

(* ---- arguments ---------------------------------------------------------------------------------- *)
Record cli_args := {
  a_w : option Z; a_h : option Z;        (* numeric value given to -w / -h (None: option absent) *)
  a_z : option Q;                        (* -z *)
  a_dpi : option Z; a_font_size : option Z;
  a_syntax_ok : bool;      (* pico-args level: every option known and given a parsable value, <in-svg> present,
                              `-c` not in input position, enum-valued options valid *)
  a_has_output : bool;     (* <out-png> or -c present *)
  a_stdout : bool;         (* output is -c *)
  a_query_all : bool;
  a_export_id : bool; a_area_page : bool; a_area_drawing : bool
}.

Definition in_u32 (n : Z) : bool := (0 <=? n) && (n <=? U32_MAX).   (* str::parse::<u32> succeeds *)
Definition opt_ok {A} (f : A -> bool) (o : option A) : bool := match o with Some x => f x | None => true end.
Definition args_valid (a : cli_args) : bool :=
  a_syntax_ok a
  && opt_ok (fun n => in_u32 n && parse_length_ok n) (a_w a)
  && opt_ok (fun n => in_u32 n && parse_length_ok n) (a_h a)
  && opt_ok parse_zoom_ok (a_z a)
  && opt_ok (fun n => in_u32 n && parse_dpi_ok n) (a_dpi a)
  && opt_ok (fun n => in_u32 n && parse_font_size_ok n) (a_font_size a)
  && (a_query_all a || a_has_output a).
Definition the_fit (a : cli_args) : FitTo := snd (decide_fit (a_w a) (a_h a) (a_z a)).
Definition the_default_size (a : cli_args) : Q * Q := fst (decide_fit (a_w a) (a_h a) (a_z a)).

(* ---- environment: what the file system, the parsers and the library answer --------------------------- *)
Inductive node_status := NodeMissing | NodeZero | NodeBox (x y w h : Q).
Record env := {
  e_read_ok : bool; e_gunzip_ok : bool; e_utf8_ok : bool; e_xml_ok : bool;
  e_tree : option (Q * Q);              (* Tree::from_xmltree: Err, or tree.size() *)
  e_ids : nat;                          (* lines printed by --query-all *)
  e_node : node_status;                 (* tree.node_by_id(id) / abs_layer_bounding_box() *)
  e_content : Q * Q * Q * Q;            (* tree.root().layer_bounding_box(): x, y, w, h (w, h > 0) *)
  e_alloc_ok : bool;                    (* Vec::try_reserve_exact of the pixel buffers succeeds (new_pixmap, fix 943ffd6) *)
  e_encode_ok : bool; e_write_ok : bool
}.

Inductive errk := EArgs | ERead | EGunzip | EUtf8 | EXml | ETree | ENoIds | ENoNode | EZeroNode | ETargetZero | ETargetTooLarge | EEncode | EWrite.
(* the only remaining unwrap that the arguments can reach: `IntRect::from_xywh(0, 0, pixmap.width(), pixmap.height()).unwrap()` in
   trim_pixmap, for a canvas taller than i32::MAX (>= 8 GiB of pixels) *)
Inductive psite := PLimitRect.
Inductive outcome := Exit0 (dims : option isize) | Exit1 (e : errk) | Panic (p : psite).
Inductive rres := ROk (s : isize) | RErr (e : errk) | RPanic (p : psite).

(* Qtrunc / f2i32 (`x as i32` of a finite float) are in Model/CliPrims.v *)

(* trim_pixmap + `.unwrap_or(pixmap)`: the size of the saved pixmap (every `?` inside trim_pixmap keeps the untrimmed one) *)
Definition trim (fit : FitTo) (doc canvas : isize) (c : Q * Q * Q * Q) : rres :=
  let '(x, y, w, h) := c in
  let t := fit_to_transform fit doc in
  match irect_from_xywh 0 0 (is_w canvas) (is_h canvas) with
  | None => RPanic PLimitRect
  | Some limit =>
    (* NonZeroRect::transform with a scale-only transform, then the CHECKED integer box (fix 57970e3):
       IntRect::from_xywh(floor x, floor y, max(1, ceil w), max(1, ceil h))? *)
    match q_to_int_rect (x * t_sx t)%Q (y * t_sy t)%Q (w * t_sx t)%Q (h * t_sy t)%Q with
    | None => ROk canvas
    | Some ci =>
      match cli_fit_to_rect ci limit with
      | None => ROk canvas                       (* no intersection: the untrimmed pixmap is saved (fix cbe5ba7) *)
      | Some r => ROk {| is_w := iw r; is_h := ih r |}
      end
    end
  end.

(* new_pixmap(size)?: Err("target size is too large") when the byte length overflows, the allocation fails, or
   Pixmap::from_vec rejects the width (4*w > i32::MAX) *)
Definition canvas_ok (e : env) (s : isize) : bool := pixmap_new_ok s && e_alloc_ok e.

Definition render_svg (a : cli_args) (e : env) (docsize : Q * Q) : rres :=
  let fit := the_fit a in
  let doc := to_int_size (fst docsize) (snd docsize) in
  if a_export_id a then
    match e_node e with
    | NodeMissing => RErr ENoNode
    | NodeZero => RErr EZeroNode
    | NodeBox x y w h =>
      match fit_to_size fit (to_int_size w h) with
      | None => RErr ETargetZero
      | Some size =>
        (* new_pixmap(size)?   (fixes 925640f, 943ffd6) *)
        if negb (canvas_ok e size) then RErr ETargetTooLarge else
        if a_area_page a then
          match fit_to_size fit doc with
          | None => RErr ETargetZero
          | Some psize =>
            if negb (canvas_ok e psize) then RErr ETargetTooLarge else
            (* draw_pixmap is skipped when IntRect::from_xywh(x, y, w, h) is None (fix 71df1bd): same size either way *)
            ROk psize
          end
        else ROk size
      end
    end
  else
    match fit_to_size fit doc with
    | None => RErr ETargetZero
    | Some size =>
      if negb (canvas_ok e size) then RErr ETargetTooLarge else
      if a_area_drawing a then trim fit doc size (e_content e) else ROk size
    end.

(* ---- render_svg as an interpreter of the SOURCE-DERIVED control skeleton (Gen/C20Cli.v c20_render_*; round 4, 2nd pass).
   State: the size bound by the last `let size = ..fit_to_size(..)?` and the canvas made by the last `new_pixmap(size)?`.
   Proofs/Cli.v render_svg_is_skeleton: the hand-written render_svg above = run_render, for all inputs. *)
Record rstate := { rs_size : option isize; rs_canvas : option isize }.
Definition rstep_sem (s : rstep) (a : cli_args) (e : env) (docsize : Q * Q) (st : rstate) : rstate + rres :=
  let fit := the_fit a in
  let doc := to_int_size (fst docsize) (snd docsize) in
  match s with
  | RsLookup _ => match e_node e with NodeMissing => inr (RErr ENoNode) | _ => inl st end
  | RsNodeBox _ => match e_node e with NodeZero => inr (RErr EZeroNode) | _ => inl st end
  | RsFit src _ =>
      let base := match src with
                  | SrcDoc => Some doc
                  | SrcNode => match e_node e with NodeBox x y w h => Some (to_int_size w h) | _ => None end
                  end in
      match base with
      | None => inr (RErr EZeroNode)
      | Some b => match fit_to_size fit b with
                  | None => inr (RErr ETargetZero)
                  | Some sz => inl {| rs_size := Some sz; rs_canvas := rs_canvas st |}
                  end
      end
  | RsAlloc => match rs_size st with
               | Some sz => if canvas_ok e sz then inl {| rs_size := rs_size st; rs_canvas := Some sz |} else inr (RErr ETargetTooLarge)
               | None => inr (RErr ETargetZero)
               end
  | RsRenderNode | RsRender | RsDraw => inl st
  | RsTrim => match rs_canvas st with
              | Some c => match trim fit doc c (e_content e) with
                          | ROk d => inl {| rs_size := rs_size st; rs_canvas := Some d |}
                          | r => inr r
                          end
              | None => inr (RErr ETargetZero)
              end
  end.
Fixpoint run_rsteps (l : list rstep) (a : cli_args) (e : env) (ds : Q * Q) (st : rstate) : rstate + rres :=
  match l with
  | [] => inl st
  | s :: r => match rstep_sem s a e ds st with inl st' => run_rsteps r a e ds st' | inr x => inr x end
  end.
Definition run_render (a : cli_args) (e : env) (ds : Q * Q) : rres :=
  let prog := if a_export_id a
              then c20_render_export ++ (if a_area_page a then c20_render_export_page else [])
              else c20_render_normal ++ (if a_area_drawing a then c20_render_normal_drawing else []) in
  match run_rsteps prog a e ds {| rs_size := None; rs_canvas := None |} with
  | inr r => r
  | inl st => match rs_canvas st with Some c => ROk c | None => RErr ETargetZero end
  end.
(* the messages of the fallible steps, as documented (stderr is `Error: <msg>.`) *)
Local Open Scope string_scope.
Definition rstep_msg_ok (s : rstep) : bool :=
  match s with
  | RsLookup m => String.eqb m "SVG doesn't have '{}' ID"
  | RsNodeBox m => String.eqb m "node has zero size"
  | RsFit _ m => String.eqb m "target size is zero"
  | _ => true
  end.
Local Close Scope string_scope.
Definition render_msgs_ok : bool :=
  forallb rstep_msg_ok (c20_render_export ++ c20_render_export_page ++ c20_render_normal ++ c20_render_normal_drawing).

(* ---- --languages (round 5, seed C20-16): the list handed to usvg::Options::languages, as an interpretation of the
   SOURCE-DERIVED item operations (Gen/C20Cli.v <tool>_lang_item_ops / _separator / _all_items_kept).  The library matches
   systemLanguage exactly and case-sensitively, so the tools must hand over every item as written (surrounding blanks removed). *)
Local Open Scope string_scope.
Definition is_blank (c : Ascii.ascii) : bool := match Ascii.nat_of_ascii c with 32%nat | 9%nat | 10%nat | 13%nat => true | _ => false end.
Fixpoint ltrim (s : string) : string := match s with String c r => if is_blank c then ltrim r else s | EmptyString => s end.
Fixpoint srev_acc (s acc : string) : string := match s with String c r => srev_acc r (String c acc) | EmptyString => acc end.
Definition srev (s : string) : string := srev_acc s EmptyString.
Definition strim (s : string) : string := srev (ltrim (srev (ltrim s))).
Definition lower_ascii (c : Ascii.ascii) : Ascii.ascii :=
  let n := Ascii.nat_of_ascii c in if (Nat.leb 65 n && Nat.leb n 90)%bool then Ascii.ascii_of_nat (n + 32) else c.
Fixpoint slower (s : string) : string := match s with String c r => String (lower_ascii c) (slower r) | EmptyString => s end.
Fixpoint ssplit_acc (sep : Ascii.ascii) (s cur : string) : list string :=
  match s with
  | EmptyString => [srev cur]
  | String c r => if Ascii.eqb c sep then srev cur :: ssplit_acc sep r EmptyString else ssplit_acc sep r (String c cur)
  end.
Definition ssplit (sep : string) (s : string) : list string :=
  match sep with String c EmptyString => ssplit_acc c s EmptyString | _ => [s] end.
(* what each recognised method does to an item; an unknown method has no model *)
Definition lang_op_sem (op : string) : option (string -> string) :=
  if String.eqb op "trim" then Some strim
  else if String.eqb op "to_string" || String.eqb op "to_owned" || String.eqb op "into" then Some (fun x => x)
  else if String.eqb op "to_lowercase" || String.eqb op "to_ascii_lowercase" then Some slower
  else None.
Fixpoint lang_apply (ops : list string) (x : string) : option string :=
  match ops with
  | [] => Some x
  | o :: r => match lang_op_sem o with Some f => lang_apply r (f x) | None => None end
  end.
Fixpoint opt_map_all {A B} (f : A -> option B) (l : list A) : option (list B) :=
  match l with
  | [] => Some []
  | x :: r => match f x, opt_map_all f r with Some y, Some ys => Some (y :: ys) | _, _ => None end
  end.
Definition cli_languages (sep : string) (ops : list string) (kept passed : bool) (arg : string) : option (list string) :=
  if kept && passed then opt_map_all (lang_apply ops) (ssplit sep arg) else None.
(* the documented meaning: comma-separated items, blanks around an item ignored, nothing else changed *)
Definition spec_languages (arg : string) : list string := map strim (ssplit "," arg).
(* ops that keep an item as written *)
Definition lang_op_transparent (op : string) : bool :=
  String.eqb op "trim" || String.eqb op "to_string" || String.eqb op "to_owned" || String.eqb op "into".
Definition lang_ops_faithful (sep : string) (ops : list string) (kept passed : bool) : bool :=
  String.eqb sep "," && forallb lang_op_transparent ops && (Nat.eqb (List.length (filter (String.eqb "trim") ops)) 1) && kept && passed.
Local Close Scope string_scope.

(* ---- --export-id: the transform handed to render_node and the place of the node on the page ----------------
   export_fit_source / c20_page_offset_scaled are source-derived (fixes bd4cb7e, 85fde2f). *)
Definition export_ts (a : cli_args) (docsize : Q * Q) (w h : Q) : ts :=
  match export_fit_source (a_area_page a) with
  | SrcDoc => fit_to_transform (the_fit a) (to_int_size (fst docsize) (snd docsize))
  | SrcNode => fit_to_transform (the_fit a) (to_int_size w h)
  end.
(* (bbox.x() * ts.sx) as i32, (bbox.y() * ts.sy) as i32 *)
Definition page_offset (a : cli_args) (docsize : Q * Q) (x y w h : Q) : Z * Z :=
  let t := export_ts a docsize w h in
  if c20_page_offset_scaled then (sat_i32 (Qtrunc (x * t_sx t)%Q), sat_i32 (Qtrunc (y * t_sy t)%Q))
  else (sat_i32 (Qtrunc x), sat_i32 (Qtrunc y)).

(* ---- process as a state machine over the source-derived step list ------------------------------------ *)
Record pstate := { st_written : bool; st_dims : option isize }.
Definition is_write (s : pstep) : bool := match s with SWriteStdout | SWriteFile => true | _ => false end.

Definition step_sem (s : pstep) (a : cli_args) (e : env) (st : pstate) : pstate + outcome :=
  let go := inl st in
  match s with
  | SParseArgs => if args_valid a then go else inr (Exit1 EArgs)
  | SRead | SReadStdin => if e_read_ok e then go else inr (Exit1 ERead)
  | SGunzip => if e_gunzip_ok e then go else inr (Exit1 EGunzip)
  | SUtf8 => if e_utf8_ok e then go else inr (Exit1 EUtf8)
  | SXml => if e_xml_ok e then go else inr (Exit1 EXml)
  | SFonts => go
  | STree => match e_tree e with Some _ => go | None => inr (Exit1 ETree) end
  | SQueryAll => if a_query_all a then inr (if Nat.eqb (e_ids e) 0 then Exit1 ENoIds else Exit0 None) else go
  | SRender =>
    match e_tree e with
    | None => inr (Exit1 ETree)
    | Some sz =>
      match render_svg a e sz with
      | ROk d => inl {| st_written := st_written st; st_dims := Some d |}
      | RErr k => inr (Exit1 k)
      | RPanic p => inr (Panic p)
      end
    end
  | SEncode => if a_stdout a then (if e_encode_ok e then go else inr (Exit1 EEncode)) else go
  | SWriteStdout =>
    (* write_all(..).map_err(..)?   (fix dd6e054) *)
    if a_stdout a then (if e_write_ok e then inl {| st_written := true; st_dims := st_dims st |} else inr (Exit1 EWrite)) else go
  | SWriteFile =>
    if a_stdout a then go
    else if e_encode_ok e && e_write_ok e then inl {| st_written := true; st_dims := st_dims st |} else inr (Exit1 EWrite)
  end.

Fixpoint run_steps (steps : list pstep) (a : cli_args) (e : env) (st : pstate) : outcome * bool :=
  match steps with
  | [] => (Exit0 (st_dims st), st_written st)
  | s :: r => match step_sem s a e st with
              | inl st' => run_steps r a e st'
              | inr o => (o, st_written st)
              end
  end.
Definition init_state : pstate := {| st_written := false; st_dims := None |}.
Definition process (a : cli_args) (e : env) : outcome * bool := run_steps c20_process_steps a e init_state.

(* every write step comes after every other step, and each kind of write occurs at most once *)
Fixpoint writes_last (steps : list pstep) : bool :=
  match steps with
  | [] => true
  | s :: r => if is_write s then forallb is_write r && negb (existsb (fun s' => match s, s' with
                                                                          | SWriteStdout, SWriteStdout | SWriteFile, SWriteFile => true
                                                                          | _, _ => false end) r)
                                 && writes_last r
              else writes_last r
  end.

(* ---- panics -------------------------------------------------------------------------------------------
   The classes target-width-overflow, area-drawing-box-overflow, area-page-offset-overflow and stdout-write-panic are
   FIXED in /repo (925640f, 57970e3, 71df1bd, dd6e054).  What remains is a resource assumption, not a defect class:
   a canvas taller than i32::MAX rows needs at least 8 GiB of pixel memory; if the allocation succeeds,
   --export-area-drawing reaches `IntRect::from_xywh(0, 0, w, h).unwrap()`. *)
Definition canvas_height_fits_i32 (a : cli_args) (e : env) : bool :=
  match e_tree e with
  | None => true
  | Some sz => match fit_to_size (the_fit a) (to_int_size (fst sz) (snd sz)) with
               | Some s => is_h s <=? I32_MAX | None => true end
  end.

(* K4 (dimension rule): -w W -h H where IntSize::scale_to picks the wrong side because of its ceil'ed comparison:
   H*w/h lies strictly between W-1 and W, and the result exceeds the requested height *)
Definition k_wh_ceil_tie (s : isize) (W H : Z) : bool :=
  let q := (zq H * zq (is_w s) / zq (is_h s))%Q in
  Qltb (zq (W - 1)) q && Qltb q (zq W).

(* ---- checkers used by the correspondence (cli-dims) ------------------------------------------------- *)
(* ---- the unwrap ledger of main.rs (Gen/C20Cli.v c20_unwrap_sites): every `.unwrap()` / `.expect()` is one of the reviewed ones *)
Definition has_sub (sub s : string) : bool :=
  (fix go (n : nat) (t : string) : bool :=
     match n with
     | O => false
     | S n' => String.prefix sub t || match t with EmptyString => false | String _ r => go n' r end
     end) (S (String.length s)) s.
Local Open Scope string_scope.
Definition unwrap_site_ok (u : usite) : bool :=
  (* guarded by `if !args.query_all && out_png.is_none() { return Err }` in parse_args *)
  (String.eqb (us_fn u) "process" && has_sub "args.out_png.unwrap(" (us_text u))
  (* Size::from_wh of validated non-zero u32 values / positive literals *)
  || (String.eqb (us_fn u) "parse_args" && has_sub "usvg::Size::from_wh(" (us_text u))
  (* the canvas rectangle of an existing pixmap (model: PLimitRect, see canvas_height_fits_i32) *)
  || (String.eqb (us_fn u) "trim_pixmap" && has_sub "IntRect::from_xywh(0, 0, pixmap.width(), pixmap.height()).unwrap(" (us_text u)).
Definition unwrap_ledger_ok : bool :=
  forallb unwrap_site_ok c20_unwrap_sites && c20_draw_guard_ok && c20_canvas_alloc_ok && c20_trim_shape_ok && c20_trim_fallback_ok.
Local Close Scope string_scope.

(* a failed `process()` ends in main's std::process::exit(c20_main_err_exit) (source-derived) *)
Definition outcome_code (o : outcome) : Z := match o with Exit0 _ => 0 | Exit1 _ => c20_main_err_exit | Panic _ => 101 end.
Definition outcome_dims (o : outcome) : option isize := match o with Exit0 d => d | _ => None end.
Definition opt_isize_eqb (a b : option isize) : bool :=
  match a, b with Some x, Some y => isize_eqb x y | None, None => true | _, _ => false end.
(* observed: exit code, PNG dims (None when no file), file exists *)
Definition obs_matches (a : cli_args) (e : env) (code : Z) (dims : option isize) (file_exists : bool) : bool :=
  let '(o, written) := process a e in
  (outcome_code o =? code) && opt_isize_eqb (if written then outcome_dims o else None) dims && Bool.eqb written file_exists.

Definition mk_args (w h : option Z) (z : option Q) (dpi : option Z) (syntax_ok has_out stdout qall eid apage adraw : bool) : cli_args :=
  {| a_w := w; a_h := h; a_z := z; a_dpi := dpi; a_font_size := None; a_syntax_ok := syntax_ok; a_has_output := has_out;
     a_stdout := stdout; a_query_all := qall; a_export_id := eid; a_area_page := apage; a_area_drawing := adraw |}.
Definition mk_env (read_ok xml_ok : bool) (tree : option (Q * Q)) (ids : nat) (node : node_status) (content : Q * Q * Q * Q) : env :=
  {| e_read_ok := read_ok; e_gunzip_ok := true; e_utf8_ok := true; e_xml_ok := xml_ok; e_tree := tree; e_ids := ids;
     e_node := node; e_content := content; e_alloc_ok := true; e_encode_ok := true; e_write_ok := true |}.
