(* C04 / C18 prelude: the special-value number domain `xq` (finite rational | +inf | -inf | NaN) with the
   IEEE-754 rules for the special values (signed zeros are not distinguished; rounding of finite results
   is idealised as exact, overflow beyond f32::MAX gives an infinity), plus the small records / enums the
   source-derived leaf functions of Gen/LeafStyle.v mention.  Executable definitions only. *)
From RV Require Import Model.Base.
Local Open Scope Q_scope.

Inductive xq := Fin (q : Q) | PInf | NInf | NaN.

(* f32::MAX = (2 - 2^-23) * 2^127 *)
Definition F32_MAX : Q := 340282346638528859811704183484516925440 # 1.
(* f32::EPSILON = 2^-23 *)
Definition F32_EPS : Q := 1 # 8388608.

Definition xq_norm (q : Q) : xq :=
  if Qltb F32_MAX q then PInf else if Qltb q (- F32_MAX) then NInf else Fin q.

Definition xq_finite (x : xq) : bool := match x with Fin _ => true | _ => false end.
Definition xq_is_nan (x : xq) : bool := match x with NaN => true | _ => false end.
(* sign bit; -0.0 is not represented, so `Fin 0` is positive *)
Definition xq_sign_negative (x : xq) : bool :=
  match x with Fin q => Qltb q 0 | NInf => true | _ => false end.

(* sign of a value as -1 / 0 / 1 (NaN excluded by callers) *)
Definition xq_sgn (x : xq) : Z :=
  match x with
  | Fin q => if Qltb 0 q then 1%Z else if Qltb q 0 then (-1)%Z else 0%Z
  | PInf => 1%Z | NInf => (-1)%Z | NaN => 0%Z
  end.
Definition inf_of_sign (s : Z) : xq :=
  if (0 <? s)%Z then PInf else if (s <? 0)%Z then NInf else NaN.

Definition xq_neg (x : xq) : xq :=
  match x with Fin q => Fin (- q) | PInf => NInf | NInf => PInf | NaN => NaN end.

Definition xq_add (a b : xq) : xq :=
  match a, b with
  | NaN, _ | _, NaN => NaN
  | Fin x, Fin y => xq_norm (x + y)
  | PInf, NInf | NInf, PInf => NaN
  | PInf, _ | _, PInf => PInf
  | NInf, _ | _, NInf => NInf
  end.
Definition xq_sub (a b : xq) : xq := xq_add a (xq_neg b).

Definition xq_mul (a b : xq) : xq :=
  match a, b with
  | NaN, _ | _, NaN => NaN
  | Fin x, Fin y => xq_norm (x * y)
  | _, _ => inf_of_sign (xq_sgn a * xq_sgn b)     (* inf * 0 = NaN *)
  end.

Definition xq_div (a b : xq) : xq :=
  match a, b with
  | NaN, _ | _, NaN => NaN
  | Fin x, Fin y => if Qeqb y 0 then inf_of_sign (xq_sgn a) (* 0/0 = NaN, x/0 = +-inf *)
                    else xq_norm (x / y)
  | Fin _, _ => Fin 0
  | _, Fin _ => inf_of_sign (xq_sgn a * (if Qltb (match b with Fin y => y | _ => 0 end) 0 then -1 else 1))
  | _, _ => NaN                                   (* inf / inf *)
  end.

(* Rust comparison operators: false whenever an operand is NaN *)
Definition xq_ltb (a b : xq) : bool :=
  match a, b with
  | NaN, _ | _, NaN => false
  | Fin x, Fin y => Qltb x y
  | NInf, NInf | PInf, PInf => false
  | NInf, _ | _, PInf => true
  | _, _ => false
  end.
Definition xq_gtb (a b : xq) : bool := xq_ltb b a.
Definition xq_eqb (a b : xq) : bool :=
  match a, b with
  | Fin x, Fin y => Qeqb x y
  | PInf, PInf | NInf, NInf => true
  | _, _ => false
  end.
Definition xq_leb (a b : xq) : bool := xq_ltb a b || xq_eqb a b.
Definition xq_geb (a b : xq) : bool := xq_leb b a.
Definition xq_neb (a b : xq) : bool := negb (xq_eqb a b).

(* f32::max / f32::min: a NaN operand is ignored *)
Definition xq_max (a b : xq) : xq :=
  match a, b with NaN, _ => b | _, NaN => a | _, _ => if xq_ltb a b then b else a end.
Definition xq_min (a b : xq) : xq :=
  match a, b with NaN, _ => b | _, NaN => a | _, _ => if xq_ltb b a then b else a end.

(* f64::clamp / f32::clamp: a NaN stays NaN *)
Definition xq_clamp (x lo hi : xq) : xq := if xq_ltb x lo then lo else if xq_gtb x hi then hi else x.
Definition xq_lit (q : Q) : xq := Fin q.
Definition xq_powi2 (a : xq) : xq := xq_mul a a.
Definition xq_unwrap_or (o : option xq) (d : xq) : xq := match o with Some v => v | None => d end.

(* value of a finite xq, 0 otherwise (used only behind an `xq_finite` test) *)
Definition xq_val (x : xq) : Q := match x with Fin q => q | _ => 0 end.

(* ------------------------------------------------------------------------------------------
   f32 bit patterns of non-negative finite values: what `approx_eq_ulps` (float-cmp) subtracts.
   For q = m * 2^e representable in binary32, `f32_bits q` is the integer value of the bit pattern. *)
Local Open Scope Z_scope.
Definition floor_log2_Q (q : Q) : Z :=       (* q > 0 *)
  let n := Qnum q in let d := Zpos (Qden q) in
  let e := Z.log2 n - Z.log2 d in
  (* 2^e <= n/d  <->  d * 2^e <= n *)
  let le_pow (k : Z) : bool := if 0 <=? k then d * 2 ^ k <=? n else d <=? n * 2 ^ (- k) in
  if le_pow e then (if le_pow (e + 1) then e + 1 else e) else e - 1.
Definition Qpow2 (k : Z) : Q := if 0 <=? k then inject_Z (2 ^ k) else (1 # Z.to_pos (2 ^ (- k)))%Q.
Definition Qfloor' (q : Q) : Z := Qnum q / Zpos (Qden q).
Definition f32_bits (q : Q) : Z :=            (* q >= 0 *)
  if Qleb q 0 then 0
  else
    let e := floor_log2_Q q in
    if e <? -126 then Qfloor' (q * Qpow2 149)          (* subnormal: multiples of 2^-149 *)
    else (e + 127) * 8388608 + Qfloor' ((q * Qpow2 (- e) - 1) * inject_Z 8388608).
Local Open Scope Q_scope.

Definition Qabs_s (a : Q) : Q := if Qleb 0 a then a else - a.
(* float_cmp::ApproxEqUlps for f32 (self == other, else same sign and bit patterns within `ulps`) *)
Definition xq_approx_eq_ulps (a b : xq) (ulps : Z) : bool :=
  if xq_eqb a b then true
  else match a, b with
       | Fin x, Fin y =>
           if Bool.eqb (Qltb x 0) (Qltb y 0)
           then let d := (f32_bits (Qabs_s x) - f32_bits (Qabs_s y))%Z in
                ((- ulps <=? d) && (d <=? ulps))%Z
           else false
       | _, _ => false
       end.

(* ------------------------------------------------------------------------------------------
   Types mentioned by the source-derived leaf functions (Gen/LeafStyle.v, Gen/LeafObb.v). *)
Inductive unit_ := U_None | U_Px | U_Em | U_Ex | U_In | U_Cm | U_Mm | U_Pt | U_Pc | U_Percent.
(* the attribute ids convert_length distinguishes; every other attribute is A_Other *)
Inductive aid_ :=
  A_Cx | A_Dx | A_Fx | A_MarkerWidth | A_RefX | A_Rx | A_Width | A_X | A_X1 | A_X2
| A_Cy | A_Dy | A_Fy | A_Height | A_MarkerHeight | A_RefY | A_Ry | A_Y | A_Y1 | A_Y2
| A_Other.
Inductive units_ := UserSpaceOnUse | ObjectBoundingBox.
Definition units_eqb (a b : units_) : bool :=
  match a, b with UserSpaceOnUse, UserSpaceOnUse | ObjectBoundingBox, ObjectBoundingBox => true | _, _ => false end.
Lemma units_eqb_eq a b : units_eqb a b = true <-> a = b.
Proof. destruct a, b; simpl; split; congruence. Qed.

(* svgtypes::Length after `number as f32` *)
Record length_ := { len_number : xq; len_unit : unit_ }.
(* rectangles / transforms over xq (dump values may be non-finite) *)
Record xrect := { xr_x : xq; xr_y : xq; xr_w : xq; xr_h : xq }.
Record options_ := { opt_dpi : xq; opt_font_size : xq }.
Record state_ := { st_opt : options_; st_view_box : xrect }.
(* an element seen through what convert_length needs: its resolved font size (units.rs resolve_font_size) *)
Record node_ := { nd_font_size : xq }.
Definition resolve_font_size (n : node_) (s : state_) : xq := nd_font_size n.
