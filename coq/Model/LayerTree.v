(* C14 (extension round 4, second pass): usvg's layer_bounding_box from the leaves up.
   render_group takes `group.layer_bounding_box()` as the extent of everything the group paints.  That field is
   computed by Group::calculate_bounding_boxes (crates/usvg/src/tree/mod.rs), bottom-up: a leaf contributes its stroke
   box, a child group its own layer box mapped by its transform (NonZeroRect::transform), empty groups are skipped, a
   group with filters takes the union of its filter regions instead.  This file composes exactly the pieces of C12's
   model of that function (Model/BBox.v: expand, to_nonzero, nz_transform, filters_bounding_box, c_layer, union_opt -
   imported read-only; locked to the source by Gen/BBoxTables.v `bbox_facts` and C12's `bbox` correspondence) over a
   whole tree.  Executable definitions only. *)
From RV Require Import Model.Base Model.BBox.
Local Open Scope Q_scope.

Inductive ltree :=
| LLeaf (stroke : box)                                  (* path / image / text: stroke_bounding_box *)
| LGroup (t : ts) (filters : list box) (ch : list ltree).

Definition is_nil {A} (l : list A) : bool := match l with [] => true | _ => false end.
Definition leafb (b : box) : leafboxes := {| lb_obj := b; lb_abs := b; lb_stroke := b; lb_abs_stroke := b |}.
Definition gb_of_layer (l : box) : gboxes :=
  {| gb_obj := l; gb_abs := l; gb_stroke := l; gb_abs_stroke := l; gb_layer := l; gb_abs_layer := l |}.
Definition dummy_layer : box := mkbox 0 0 1 1.          (* convert_group's placeholder, kept when the call fails *)

(* Group::layer_bounding_box as calculate_bounding_boxes leaves it (None: the call returns None) *)
Fixpoint layer_of (n : ltree) : option box :=
  match n with
  | LLeaf b => Some b
  | LGroup t fs ch =>
      match filters_bounding_box fs with
      | Some f => Some f
      | None =>
          to_nonzero (union_opt c_layer
            (map (fun c => match c with
                           | LLeaf b => CLeaf (leafb b)
                           | LGroup t' fs' ch' =>
                               if is_nil ch' && is_nil fs' then CEmptyGroup
                               else CGroup t' (gb_of_layer (match layer_of c with Some l => l | None => dummy_layer end))
                           end) ch))
      end
  end.
Definition to_child (c : ltree) : child :=
  match c with
  | LLeaf b => CLeaf (leafb b)
  | LGroup t' fs' ch' =>
      if is_nil ch' && is_nil fs' then CEmptyGroup
      else CGroup t' (gb_of_layer (match layer_of c with Some l => l | None => dummy_layer end))
  end.

(* every non-empty group below computed its boxes, and its layer box survives its own transform (otherwise usvg
   drops the group / the parent ignores it) *)
Fixpoint okb (n : ltree) : bool :=
  match n with
  | LLeaf _ => true
  | LGroup t fs ch =>
      forallb (fun c => okb c &&
                 match c with
                 | LLeaf _ => true
                 | LGroup t' fs' ch' =>
                     (is_nil ch' && is_nil fs') ||
                     match layer_of c with
                     | Some l => match nz_transform t' l with Some _ => true | None => false end
                     | None => false
                     end
                 end) ch
  end.

(* what a node can paint.  `inner`: in the node's own coordinate system (a group's children space); `painted`: in the
   coordinate system of its parent.  A group with a filter region paints at most that region (the region is the
   filter's canvas and clip); otherwise it paints what its children paint. *)
Definition qpt_eq (p q : Q * Q) : Prop := fst p == fst q /\ snd p == snd q.
Fixpoint inner (n : ltree) (q : Q * Q) : Prop :=
  match n with
  | LLeaf b => inside b (fst q) (snd q)
  | LGroup t fs ch =>
      match filters_bounding_box fs with
      | Some f => inside f (fst q) (snd q)
      | None =>
          (fix any (l : list ltree) : Prop :=
             match l with
             | [] => False
             | c :: r =>
                 match c with
                 | LLeaf b => inside b (fst q) (snd q)
                 | LGroup t' _ _ => exists q', inner c q' /\ qpt_eq q (apply_ts t' q')
                 end \/ any r
             end) ch
      end
  end.
Definition painted (c : ltree) (q : Q * Q) : Prop :=
  match c with
  | LLeaf b => inside b (fst q) (snd q)
  | LGroup t' _ _ => exists q', inner c q' /\ qpt_eq q (apply_ts t' q')
  end.

(* correspondence (c14-lbbox): the layer box usvg reports for a group against layer_of of the tree rebuilt from the
   leaves' stroke boxes, group transforms and filter regions *)
Definition chk_layer_of (tol : Q) (n : ltree) (reported : box) : bool :=
  (* a group whose calculate_bounding_boxes call fails keeps convert_group's placeholder *)
  match layer_of n with Some l => box_close tol l reported | None => box_close tol dummy_layer reported end.
