(* Which emitted nodes carry the id of the source element (C05: "ids of renderable nodes are pairwise distinct").
   The converter emits several nodes for one element at three kinds of sites (image with a slice clip group, a path
   split by paint-order around its markers, a `use` with a clip rectangle).  Gen/IdPrograms.v (tools/gen_ids.py) holds
   every control path of those sites as a straight-line program over node variables; this file interprets them.
   Executable Gallina only. *)
From RV Require Import Gen.IdPrograms.
From Coq Require Import String List Bool Arith.
Import ListNotations.
Local Open Scope string_scope.

(* the id a node variable holds: the source element's id, or the empty string (Group::empty(), String::new()) *)
Inductive idk := KSrc | KEmpty.
Definition is_src (k : idk) : bool := match k with KSrc => true | KEmpty => false end.

(* environments are total functions; `emitted` starts from the worst case: a variable the program never introduced holds the source id *)
Definition env := string -> idk.
Definition lookup (x : string) (e : env) : idk := e x.
Definition set (x : string) (k : idk) (e : env) : env := fun y => if String.eqb y x then k else e y.

(* one statement: new environment and what it pushes into the tree *)
Definition step (o : idop) (e : env) : env * list idk :=
  match o with
  | OpNew x => (set x KEmpty e, [])
  | OpAssignSrc x => (set x KSrc e, [])
  | OpClear x => (set x KEmpty e, [])
  | OpCloneId x y => (set x (lookup y e) e, [])            (* x.id = y.id.clone(): y keeps it *)
  | OpSwap x y => (set x (lookup y e) (set y (lookup x e) e), [])
  | OpCloneNode x y => (set x (lookup y e) e, [])          (* let x = y.clone() *)
  | OpEmit x => (set x KEmpty e, [lookup x e])             (* moved into the tree *)
  | OpEmitClone x => (e, [lookup x e])                     (* a copy is pushed, x stays usable *)
  | OpEmitNew => (e, [KEmpty])
  (* y is stored inside x as its second representation (Text::flattened): it is never written next to x, so it is no extra
     carrier - unless it has the id while x does not *)
  | OpSetAlt x y => (set y KEmpty e, if is_src (lookup y e) && negb (is_src (lookup x e)) then [KSrc] else [])
  end.
Fixpoint run (p : list idop) (e : env) : list idk :=
  match p with [] => [] | o :: r => let (e', out) := step o e in out ++ run r e' end.

Definition src_count (l : list idk) : nat := List.length (filter is_src l).
Definition emitted (p : list idop) : list idk := run p (fun _ => KSrc).
(* at most one emitted node carries the source id *)
Definition program_ok (p : list idop) : bool := Nat.leb (src_count (emitted p)) 1.
Definition id_programs_ok : bool := forallb (fun np => program_ok (snd np)) id_programs.

(* syntactic class for the general theorem: no copies of an id, the source id is assigned once *)
Definition is_copy (o : idop) : bool :=
  match o with OpCloneId _ _ | OpCloneNode _ _ | OpEmitClone _ | OpSetAlt _ _ => true | _ => false end.
Definition is_assign (o : idop) : bool := match o with OpAssignSrc _ => true | _ => false end.
Definition n_assign (p : list idop) : nat := List.length (filter is_assign p).
(* only moves: new / assign (at most once) / clear / swap / emit by move *)
Definition copy_free (p : list idop) : bool := forallb (fun o => negb (is_copy o)) p && Nat.leb (n_assign p) 1.
