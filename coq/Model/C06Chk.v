(* C06: boolean checkers over the source-derived ledger Gen/C06Sites.v (allowlists with their
   justification).  Executable only; the theorems are in Proofs/C06Sites.v and Props/C06.v. *)
From Coq Require Import String Ascii ZArith List Bool.
Import ListNotations.
From RV Require Import Model.HashModel Model.C06State Gen.C06Sites Gen.C06BinSites.
Local Open Scope string_scope.

Definition str_in (s : string) (l : list string) : bool := existsb (String.eqb s) l.
Definition has_sub (sub s : string) : bool :=
  (fix go (n : nat) (t : string) : bool :=
     match n with
     | O => false
     | S n' => String.prefix sub t || match t with EmptyString => false | String _ r => go n' r end
     end) (S (String.length s)) s.

(* Which operation of the container model a Rust method is.  Anything that exposes the physical order
   maps to Iter; anything unknown maps to None (and is rejected).
     insert                -> Insert   (HashMap::insert / HashSet::insert)
     get                   -> Get
     contains, contains_key-> Contains
     remove                -> Remove
     clear                 -> Clear
     len, is_empty         -> Len *)
Definition method_op (m : string) : option (op unit unit) :=
  if str_in m ["insert"] then Some (Insert tt tt)
  else if str_in m ["get"] then Some (Get tt)
  else if str_in m ["contains"; "contains_key"] then Some (Contains tt)
  else if str_in m ["remove"] then Some (Remove tt)
  else if str_in m ["clear"] then Some Clear
  else if str_in m ["len"; "is_empty"] then Some Len
  else if str_in m ["iter"; "iter_mut"; "keys"; "values"; "values_mut"; "into_iter"; "into_keys"; "into_values";
                    "drain"; "retain"; "extract_if"; "for_in"; "extend"; "clone"; "eq"; "ne"; "fmt"; "hash"]
       then Some Iter
  else None.

(* Whole-value uses that cannot observe the order:
     pass_arg    the container is handed to a callee; the callee's parameter must be declared with the
                 container type (Rust has no inference across fn signatures) and is scanned itself
     move_assign / assigned / struct_init
                 the container is moved into a declared (scanned) field or binding *)
Definition whole_value_kinds : list string := ["pass_arg"; "move_assign"; "assigned"; "struct_init"].

Definition hsite_ok (h : hsite) : bool :=
  match method_op (hs_method h) with
  | Some o => lookup_only unit unit o
  | None => str_in (hs_method h) whole_value_kinds
  end.
Definition hsite_resolved (h : hsite) : bool := negb (String.eqb (hs_owner h) "?").
(* constructors of an EMPTY container only (from / from_iter / collect are not used today) *)
Definition ctor_ok (h : hsite) : bool := str_in (hs_method h) ["new"; "with_capacity"; "default"].

(* Every source line that names a hash container type is one of: an import, a type alias, a declared field
   / parameter / annotated let (all followed by the receiver typing of the scanner) or an empty constructor.
   A fn result type, a generic argument, an impl for a hash type ... ("fn_result", "other") is rejected: the
   scanner would not follow such a value. *)
Definition mention_ok (s : ssite) : bool :=
  str_in (ss_kind s) ["use"; "alias"; "field"; "param"; "let_annot"; "ctor"].

(* Shared state / ambient inputs: EVERY entry of the ledger is a cell with a class (Model/C06State.v); the class is the
   reason why the entry cannot make the output depend on the history or the schedule:
     static        -> ImmInit    immutable `static` of plain data, const initialiser (`static mut` and statics whose type
                                 mentions an interior-mutability wrapper are the separate kinds static_mut / static_interior)
     ptr_identity  -> AddrEq     Arc::ptr_eq / ptr::eq: equality of addresses, never their order or value
     ptr_key       -> AddrEq     `set.insert(Arc::as_ptr(x))` / `HashSet<*const T>` (fix 37642ef, Tree's collectors): an address
                                 that is only the key of a hash set; membership is equality of addresses, the value of the address
                                 picks a bucket only, and every hash container is confined to the lookup-only fragment
                                 (hash_sites_lookup_only: no iteration, no order); the scanner gives this kind only to these two
                                 shapes, and the text is re-checked here
     Rc            -> CallLocal  only in resvg/src/filter/mod.rs (filter::Image; Rc is !Send, created and dropped in one `apply`)
     fs            -> ExtInput   only usvg's default_string_resolver: the file an <image href> names is part of the input
   Everything else the scanner knows (static_mut, static_interior, thread_local, Cell, RefCell, Mutex, RwLock, Atomic, Lazy,
   unsafe, raw_ptr, fmt_ptr, env, time, thread, random, read_dir, process, leak, uninit, alloc) is Mutable = undischarged. *)
Definition cell_class (s : ssite) : cls :=
  if String.eqb (ss_kind s) "static" then ImmInit
  else if String.eqb (ss_kind s) "ptr_identity" then AddrEq
  else if String.eqb (ss_kind s) "ptr_key" && (has_sub "insert(Arc::as_ptr(" (ss_text s) || has_sub "HashSet<*const " (ss_text s)) then AddrEq
  else if String.eqb (ss_kind s) "Rc" && String.eqb (ss_file s) "crates/resvg/src/filter/mod.rs" then CallLocal
  else if String.eqb (ss_kind s) "fs" && String.eqb (ss_file s) "crates/usvg/src/parser/image.rs"
          && String.eqb (ss_fn s) "default_string_resolver" then ExtInput
  else Mutable.
Definition ssite_ok (s : ssite) : bool := discharged (cell_class s).
Definition ledger_classes : list cls := map cell_class c06_shared_sites.

(* Order of sequences: a Vec is iterated in its own order (a function of how it was built); the only operations that
   re-establish an order are listed in c06_order_sites.  Stable sorts / dedup / binary_search are functions of the
   sequence (Proofs/C06State.v: stable_sort_unique); an unstable sort, a heap or a parallel iterator is rejected. *)
Definition order_site_ok (s : ssite) : bool := str_in (ss_kind s) ["sort_stable"; "dedup"; "binary_search"].

(* The two dependencies whose order reaches the output (pinned by Cargo.lock, read from the offline registry):
   simplecss  no shared state at all; the rules are sorted by specificity with a STABLE sort in parse_more
   fontdb     file system / environment / mmap only inside the functions that BUILD a Database (the Database is an input
              handed in through Options) or read the font file a face names (with_data); faces live in a SlotMap
              (insertion order), no hash container among the fields *)
Definition fontdb_input_fns : list string :=
  ["load_font_file_impl"; "make_shared_face_data"; "with_data"; "load_system_fonts"; "load_no_fontconfig";
   "load_fontconfig"; "load_fonts_dir_impl"; "canonicalize"].
Definition dep_cell_class (s : ssite) : cls :=
  if String.eqb (ss_file s) "fontdb/src/lib.rs"
     && str_in (ss_kind s) ["unsafe"; "fs"; "read_dir"; "env"; "hash_mention"]
     && (str_in (ss_fn s) fontdb_input_fns || has_sub "fn make_shared_face_data" (ss_text s))
  then ExtInput else Mutable.
Definition dep_site_ok (s : ssite) : bool := order_site_ok s || discharged (dep_cell_class s).
Definition css_sort_is_stable : bool :=
  existsb (fun s => String.eqb (ss_file s) "simplecss/src/lib.rs" && String.eqb (ss_kind s) "sort_stable"
                    && String.eqb (ss_fn s) "parse_more" && has_sub "self.rules.sort" (ss_text s)) c06_dep_sites
  && forallb (fun s => negb (String.eqb (ss_file s) "simplecss/src/lib.rs") || String.eqb (ss_kind s) "sort_stable") c06_dep_sites.
Definition dep_fields_ok : bool :=
  forallb (fun p => negb (has_sub "Hash" (snd (snd p)))) c06_dep_fields
  && existsb (fun p => String.eqb (fst p) "fontdb::Database" && String.eqb (fst (snd p)) "faces" && String.prefix "SlotMap<" (snd (snd p))) c06_dep_fields
  && existsb (fun p => String.eqb (fst p) "simplecss::StyleSheet" && String.eqb (fst (snd p)) "rules" && String.prefix "Vec<" (snd (snd p))) c06_dep_fields.
Definition order_ledger_ok : bool :=
  forallb order_site_ok c06_order_sites && forallb order_site_ok c06_bin_order_sites
  && forallb dep_site_ok c06_dep_sites && css_sort_is_stable && dep_fields_ok
  && Nat.eqb (length c06_dep_versions) 2.

(* Hashers: DefaultHasher::new() (SipHash-1-3 with the constant keys 0,0) and the perfect-hash table of
   svgtree/names.rs (SipHasher13::new_with_keys(0, <static key>)).  RandomState / BuildHasher must not be named. *)
Definition hasher_ok (h : hasher_site) : bool :=
  (String.eqb (hh_type h) "DefaultHasher" && String.eqb (hh_method h) "new")
  || (String.eqb (hh_type h) "SipHasher13" && String.eqb (hh_method h) "new_with_keys"
      && String.eqb (hh_file h) "crates/usvg/src/parser/svgtree/names.rs").
Definition string_hash_fixed (l : list hasher_site) : bool :=
  existsb (fun h => String.eqb (hh_fn h) "string_hash" && String.eqb (hh_type h) "DefaultHasher"
                    && String.eqb (hh_method h) "new") l
  && forallb (fun h => negb (String.eqb (hh_fn h) "string_hash") || String.eqb (hh_type h) "DefaultHasher") l.

Definition forbid_ok (l : list (string * bool)) : bool :=
  forallb snd l && str_in "crates/usvg/src/lib.rs" (map fst l) && str_in "crates/resvg/src/lib.rs" (map fst l).

(* one Cache per convert_doc call, never stored or returned *)
Definition cache_per_call_ok : bool :=
  match c06_cache_new_sites with
  | [(f, fn)] => String.eqb f "crates/usvg/src/parser/converter.rs" && String.eqb fn "convert_doc"
  | _ => false
  end && match c06_cache_escapes with [] => true | _ => false end.

Fixpoint nodupb (l : list string) : bool :=
  match l with [] => true | x :: r => negb (str_in x r) && nodupb r end.
Definition prefix_free (l : list string) : bool :=
  forallb (fun p => forallb (fun q => String.eqb p q || negb (String.prefix p q)) l) l.

Definition gen_fns_ok : bool :=
  forallb gf_shape_ok c06_gen_id_fns
  && nodupb (map gf_counter c06_gen_id_fns)
  && nodupb (map gf_prefix c06_gen_id_fns)
  && prefix_free (map gf_prefix c06_gen_id_fns)
  && forallb (fun g => str_in (gf_counter g) c06_counter_fields) c06_gen_id_fns
  && forallb (fun f => existsb (fun p => String.eqb (fst p) f && Z.eqb (snd p) 0) c06_counter_inits) c06_counter_fields
  && forallb (fun f => str_in f (map gf_counter c06_gen_id_fns)) c06_counter_fields.

(* ---- the two command-line front ends (crates/{resvg,usvg}/src/main.rs): "separate processes" covers the shipped
   binaries.  Hash containers: same lookup-only rule.  Shared state / ambient inputs, allowed:
     static   immutable (the `static LOGGER: SimpleLogger` unit struct)
     process  process::exit
     env      only the compile-time env!("CARGO_PKG_VERSION") of --version
     time     only in resvg's `timed` / `render_svg` (the --perf statistics, printed to stdout, never in the image) *)
(*   fs       reading the input file / writing the output file named on the command line (the CLI's input and output) *)
Definition bin_cell_class (s : ssite) : cls :=
  if String.eqb (ss_kind s) "static" then ImmInit
  else if String.eqb (ss_kind s) "process" then NotOutput
  else if String.eqb (ss_kind s) "env" && has_sub "env!(""CARGO_PKG_VERSION"")" (ss_text s) then ImmInit
  else if String.eqb (ss_kind s) "time" && String.eqb (ss_file s) "crates/resvg/src/main.rs"
          && str_in (ss_fn s) ["timed"; "render_svg"] then NotOutput
  else if String.eqb (ss_kind s) "fs" then ExtInput
  else Mutable.
Definition bin_ssite_ok (s : ssite) : bool := discharged (bin_cell_class s).
Definition bin_ledger_ok : bool :=
  forallb (fun h => hsite_ok h && hsite_resolved h) c06_bin_hash_sites
  && forallb ctor_ok c06_bin_hash_ctor_sites
  && forallb mention_ok c06_bin_hash_mentions
  && forallb bin_ssite_ok c06_bin_shared_sites
  && forallb hasher_ok c06_bin_hasher_sites
  && Nat.eqb (length c06_bin_scanned_files) 2.
