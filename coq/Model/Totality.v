(* C01 round 4, executable definitions only.
   (1) conditions on one f32 value over the xq domain (Model/Xq.v): the acceptance predicate of a validated constructor that
       lives in /repo is `no atom of its reject list holds` (Gen/Totality.v G_NONZERO_F32_REJECTS is read from
       tree/mod.rs NonZeroF32::new); a guard in front of an unwrap site is the list of conditions under which the function
       returned early.  `guard_covers` is the syntactic check that every reject atom is implied by a guard atom.
       AOther (text the scanner does not understand) is read pessimistically on both sides: as a constructor atom it may
       reject anything, as a guard atom it excludes nothing.
   (2) the walk `chain = [node]; while let Some(link) = attr(chain.last()) { if chain.contains(link) { break }
       chain.push(link) }` of clippath.rs / mask.rs is_cacheable over an arbitrary link function, with fuel.
   (3) the discipline of the converter's definition caches: lookup by id when the definition is cacheable, insert after
       the conversion; `conversions` counts the conversions a sequence of requests causes. *)
From Coq Require Import QArith Bool List String NArith Arith.
From RV Require Import Model.Base Model.Xq Gen.Sites Gen.Totality.
Import ListNotations.
Local Open Scope Q_scope.

(* smallest positive subnormal f32 = 2^-149: one ulp next to zero *)
Definition F32_MIN_SUB : Q := 1 # (2 ^ 149).

(* float_cmp approx_eq_ulps(&0.0, k): equal to zero (either sign), or same sign as +0.0 and at most k ulps away *)
Definition x_approx_zero (k : nat) (x : xq) : bool :=
  match x with XFin q => Qleb 0 q && Qleb q (inject_Z (Z.of_nat k) * F32_MIN_SUB) | _ => false end.

Definition atom_holds (pess : bool) (a : fatom) (x : xq) : bool :=
  match a with
  | AApproxZero k => x_approx_zero k x
  | ANotFinite => negb (x_is_finite x)
  | ANaN => match x with XNaN => true | _ => false end
  | AInf => match x with XPInf | XNInf => true | _ => false end
  | ANeg => match x with XFin q => Qltb q 0 | XNInf => true | _ => false end
  | ANonPos => match x with XFin q => Qleb q 0 | XNInf => true | _ => false end
  | AOther _ => pess
  end.
Definition rejects_any (pess : bool) (l : list fatom) (x : xq) : bool := existsb (fun a => atom_holds pess a x) l.
Definition ctor_accepts (rejects : list fatom) (x : xq) : bool := negb (rejects_any true rejects x).
Definition guard_passes (guard : list fatom) (x : xq) : bool := negb (rejects_any false guard x).

Definition atom_le (a g : fatom) : bool :=
  match a, g with
  | AApproxZero k, AApproxZero k' => Nat.leb k k'
  | ANotFinite, ANotFinite | ANaN, ANaN | ANaN, ANotFinite | AInf, AInf | AInf, ANotFinite
  | ANeg, ANeg | ANeg, ANonPos | ANonPos, ANonPos => true
  | _, _ => false
  end.
Definition guard_covers (rejects guard : list fatom) : bool := forallb (fun a => existsb (atom_le a) guard) rejects.

(* NonZeroF32::new as read from tree/mod.rs *)
Definition x_nonzero_f32 (x : xq) : bool := ctor_accepts G_NONZERO_F32_REJECTS x.

Local Open Scope string_scope.
Definition str_contains (pat s : string) : bool := match String.index 0 pat s with Some _ => true | None => false end.
Definition guard_of (file fn text : string) : list fatom :=
  match find (fun u => match u with (f, g, t, _, _) => String.eqb f file && String.eqb g fn && String.eqb t text end) G_NONZERO_F32_UNWRAPS with
  | Some (_, _, _, _, guard) => guard
  | None => []
  end.
Definition is_unwrap (k : skind) : bool := match k with KUnwrap => true | _ => false end.
(* every unwrap site of Gen/Sites.v that applies NonZeroF32::new has its guard listed in Gen/Totality.v, and the guard covers
   the constructor's reject list *)
Definition nonzero_site_guarded (s : site) : bool :=
  implb (is_unwrap (s_kind s) && str_contains "NonZeroF32::new(" (s_text s))
        (existsb (fun u => match u with (f, g, t, _, guard) =>
                    String.eqb f (s_file s) && String.eqb g (s_fn s) && String.eqb t (s_text s) && guard_covers G_NONZERO_F32_REJECTS guard end)
                 G_NONZERO_F32_UNWRAPS).
(* model-level search for a value that passes a guard and is rejected by the constructor *)
Definition xq_samples : list xq := [XFin 0; XFin 1; XFin (-1); XFin F32_MIN_SUB; XFin (-F32_MIN_SUB); XFin F32_MAX; XPInf; XNInf; XNaN].
Definition unguarded_values (guard : list fatom) : list xq :=
  filter (fun x => guard_passes guard x && negb (x_nonzero_f32 x)) xq_samples.

(* ---- (2) the visited-set walk ---- *)
Fixpoint walk (next : N -> option N) (fuel : nat) (chain : list N) (last : N) : option (list N) :=
  match fuel with
  | O => None
  | S f => match next last with
           | None => Some chain
           | Some l => if existsb (N.eqb l) chain then Some chain else walk next f (l :: chain) l
           end
  end.
Definition visited_walk (next : N -> option N) (univ : list N) (start : N) : option (list N) :=
  walk next (S (length univ)) [start] start.
(* the shape that is NOT accepted: stop only when back at the start *)
Fixpoint walk_start_only (next : N -> option N) (fuel : nat) (start cur : N) : option nat :=
  match fuel with
  | O => None
  | S f => match next cur with
           | None => Some fuel
           | Some l => if N.eqb l start then Some fuel else walk_start_only next f start l
           end
  end.
Definition rho_next (n : N) : option N :=
  match n with 0%N => Some 1%N | 1%N => Some 2%N | 2%N => Some 3%N | 3%N => Some 1%N | _ => None end.

(* ---- (3) cache discipline ---- *)
Definition memN (i : N) (l : list N) : bool := existsb (N.eqb i) l.
Fixpoint conversions (cache : list N) (reqs : list (N * bool)) : nat :=
  match reqs with
  | [] => O
  | (id, cacheable) :: r => if cacheable && memN id cache then conversions cache r else S (conversions (id :: cache) r)
  end.
Definition lookup_unconditional (name : string) : bool :=
  existsb (fun l => String.eqb (c_cache l) name && c_returns l && match c_conds l with [] => true | _ => false end) G_CACHE_LOOKUPS.
Definition lookup_under (name cond def : string) : bool :=
  existsb (fun l => String.eqb (c_cache l) name && c_returns l &&
                    match c_conds l, c_defs l with [c], [d] => String.eqb c cond && String.eqb d def | _, _ => false end) G_CACHE_LOOKUPS.

(* ---- (4) the id generators `loop { index += 1; let id = name(index); if !taken.contains(id) { return id } }`
   (converter.rs gen_*_id, filter.rs gen_result): `taken` = the indices whose name is in the set of used ids (names are
   injective in the index: prefix + decimal number; the hash set of converter.rs is read as a set of names).
   Result: the id and the fuel that was left. ---- *)
Fixpoint gen_id (taken : list N) (fuel : nat) (n : N) : option (N * nat) :=
  match fuel with
  | O => None
  | S f => let n' := N.succ n in if memN n' taken then gen_id taken f n' else Some (n', fuel)
  end.

(* ---- loop ledger types ---- *)
Inductive lterm := LVisited | LFinder | LCounter (why : string) | LGenId | LOwned | LReviewed (why : string).
Definition shape_ok (s : lshape) (t : lterm) : bool :=
  match t, s with
  | LVisited, SVisitedWalk _ | LFinder, SFinder | LCounter _, SCounter | LGenId, SGenId | LOwned, SOwnedTree | LReviewed _, _ => true
  | _, _ => false
  end.
Definition proved_term (t : lterm) : bool := match t with LVisited | LFinder | LGenId => true | _ => false end.
Definition loop_key_eqb (l : loop_site) (e : string * string * string * string * lterm) : bool :=
  match e with (f, g, h, d, _) => String.eqb f (l_file l) && String.eqb g (l_fn l) && String.eqb h (l_header l) && String.eqb d (l_digest l) end.
Definition loop_discharged_by (ledger : list (string * string * string * string * lterm)) (l : loop_site) : bool :=
  existsb (fun e => loop_key_eqb l e && shape_ok (l_shape l) (snd e) && implb (l_links l) (proved_term (snd e))) ledger.
Definition loop_entry_live (e : string * string * string * string * lterm) : bool := existsb (fun l => loop_key_eqb l e) parser_loops.

(* ---- recursion ledger types: one entry per recursive group of Gen/Totality.v `parser_recursions` (keyed by the digest of its
   member list, so a function that joins a group makes the entry stale) ---- *)
Inductive rterm :=
  | RDepthProved                (* svgtree construction: depth counter against DEPTH_LIMIT, Proofs/SvgBuild.v build_inv *)
  | RGuarded (why : string)     (* explicit measure: depth limit / in-progress stack / node budget / marker instance limit *)
  | RStructural (why : string)  (* recursion over an owned finite tree - NOT PROVED *)
  | RNameClash                  (* calls are matched by name: a field, trait method or method of another type - not recursive *)
  | RReviewed (why : string).   (* read and argued informally - NOT PROVED *)
(* a group that follows reference attributes must not be filed as structural / reviewed: it needs a measure (or the finding that
   it is not a recursion at all) *)
Definition has_measure (t : rterm) : bool := match t with RDepthProved | RGuarded _ | RNameClash => true | _ => false end.
Definition rec_discharged_by (ledger : list (string * rterm)) (r : rec_site) : bool :=
  existsb (fun e => String.eqb (fst e) (r_digest r) && implb (r_links r) (has_measure (snd e))) ledger.
Definition rec_entry_live (e : string * rterm) : bool := existsb (fun r => String.eqb (fst e) (r_digest r)) parser_recursions.

(* ---- iterator ledger: a `for` loop ends when its iterator does (the borrow checker forbids growing the collection inside the
   loop); std iterators over finite collections end unless they come from a source of parser_unbounded_sources ---- *)
Inductive iterm :=
  | IHrefProved                 (* HrefIter: Proofs/Links.v href_iter_bounded (Props C01_href_iter_bounded), tie in gen_links.py *)
  | ITree (why : string)        (* walks the svgtree arena along parent / sibling / child ids - NOT PROVED *)
  | IReviewed (why : string).
Definition iter_key_eqb (a : string * string * string) (e : string * string * string * iterm) : bool :=
  match a, e with (f, t, d), (f', t', d', _) => String.eqb f f' && String.eqb t t' && String.eqb d d' end.
Definition iter_discharged_by (ledger : list (string * string * string * iterm)) (a : string * string * string) : bool :=
  existsb (iter_key_eqb a) ledger.
Definition iter_entry_live (e : string * string * string * iterm) : bool := existsb (fun a => iter_key_eqb a e) parser_iterators.
