(* C08: when is `text-anchor` of a preserved text chunk written?  Gen/TextGuards.v gives the conditions writer.rs puts around the
   write that are not about the anchor itself; Gen/EnumTables.v gives the keyword tables and the parser default.  A chunk shape
   = (has an explicit x, has an explicit y, lies on a text path).  A condition this model does not know holds for no shape. *)
From RV Require Import Gen.EnumTables.
From RV Require Import Gen.TextGuards.
From Coq Require Import String List Bool.
Import ListNotations.
Local Open Scope string_scope.

Record chunk_shape := { has_x : bool; has_y : bool; on_path : bool }.
Definition all_shapes : list chunk_shape :=
  flat_map (fun a => flat_map (fun b => map (fun c => {| has_x := a; has_y := b; on_path := c |}) [true; false]) [true; false]) [true; false].

Definition guard_holds (sh : chunk_shape) (g : string) : bool :=
  if String.eqb g "if let Some(x) = chunk.x" then has_x sh
  else if String.eqb g "if let Some(y) = chunk.y" then has_y sh
  else if String.eqb g "if let TextFlow::Path(text_path) = &chunk.text_flow" then on_path sh
  else false.
(* what the writer emits for the anchor of a chunk of this shape *)
Definition anchor_written (sh : chunk_shape) (v : E_TextAnchor) : option string :=
  if forallb (guard_holds sh) text_anchor_guards then write_TextAnchor v else None.
(* what the parser makes of it *)
Definition anchor_read (w : option string) : option E_TextAnchor :=
  match w with Some s => parse_TextAnchor s | None => Some default_TextAnchor end.
Definition anchor_eqb (a b : E_TextAnchor) : bool :=
  match a, b with
  | TextAnchor_Start, TextAnchor_Start | TextAnchor_Middle, TextAnchor_Middle | TextAnchor_End, TextAnchor_End => true
  | _, _ => false
  end.
Definition chk_anchor_all_shapes : bool :=
  forallb (fun sh => forallb (fun v => match anchor_read (anchor_written sh v) with Some v' => anchor_eqb v v' | None => false end)
                             all_TextAnchor) all_shapes.
Definition chk_no_foreign_guards : bool := forallb (fun s => match snd s with [] => true | _ => false end) guard_sites.
Definition foreign_guard_sites : list (string * list string) := filter (fun s => match snd s with [] => false | _ => true end) guard_sites.
