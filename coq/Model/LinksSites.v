(* C03 second pass: which guard stands behind every link-following construct of crates/usvg/src/parser/**.
   Gen/LinkGuards.v `SITES` is regenerated from the source on every run (file, enclosing function, construct,
   number of occurrences); the classification below is hand-written and names, for each site, the mechanism that
   bounds the walk it starts - a site that is not listed (a new function that follows references, one more
   occurrence in a known function) makes `sites_covered` false.  Executable Gallina only. *)
From Coq Require Import List Bool Arith String.
From RV Require Import Gen.LinkGuards.
Import ListNotations.
Open Scope string_scope.

Inductive gkind :=
  | KStack        (* the element is looked up on State::parent_defs / parent_markers before it is entered (any shape) *)
  | KSteps        (* HrefIter: step counter <= nodes.len() (any shape) *)
  | KVisited      (* the walk keeps the list of elements it has seen (any shape) *)
  | KInProgress   (* use expansion: in-progress list `origin` (any shape) *)
  | KOneStep      (* the element found is inspected, not followed further from here *)
  | KSelfOnly | KOriginOnly | KPrepassOnly | KNoGuard.      (* not sufficient: a rho-shaped chain gets past them *)

(* does the mechanism stop the walk on every reference graph, tail + cycle included?  (Proofs/LinksSites.v:
   the first four by theorem, the insufficient ones by counterexample) *)
Definition gkind_complete (g : gkind) : bool :=
  match g with KStack | KSteps | KVisited | KInProgress | KOneStep => true | _ => false end.

Definition skind_eqb (a b : skind) : bool :=
  match a, b with
  | NodeAttr, NodeAttr | AttrNode, AttrNode | HrefIter, HrefIter | ById, ById | UseHref, UseHref => true
  | _, _ => false
  end.

(* (file, function, construct, occurrences, mechanism, the generated guard that witnesses it) *)
Definition CLASSIFIED : list (string * string * skind * nat * gkind * bool) := [
  ("clippath.rs", "convert", AttrNode, 1, KStack, G_CLIP_CHECK && G_CLIP_PUSH);
  ("clippath.rs", "is_cacheable", AttrNode, 1, KVisited, G_CLIP_CHAIN_VISITED);
  ("converter.rs", "convert_group", AttrNode, 2, KStack, G_CLIP_CHECK && G_MASK_CHECK);
  ("filter.rs", "convert", ById, 1, KStack, G_FILTER_CHECK && G_FLIST_VIA_URL);
  ("filter.rs", "convert_image_inner", AttrNode, 1, KStack, G_FILTER_PUSH);
  ("filter.rs", "find_filter_with_primitives", HrefIter, 1, KSteps, G_HREF_STEPS);
  ("marker.rs", "convert", AttrNode, 1, KStack, G_MARKER_CHECK && G_MARKER_PUSH && G_MARKER_LIMIT);
  ("marker.rs", "is_valid", AttrNode, 3, KOneStep, true);
  ("mask.rs", "convert", AttrNode, 1, KStack, G_MASK_CHECK && G_MASK_PUSH);
  ("mask.rs", "is_cacheable", AttrNode, 1, KVisited, G_MASK_CHAIN_VISITED);
  ("paint_server.rs", "find_gradient_with_stops", HrefIter, 1, KSteps, G_HREF_STEPS);
  ("paint_server.rs", "find_pattern_with_children", HrefIter, 1, KSteps, G_HREF_STEPS);
  ("paint_server.rs", "resolve_filter_attr", HrefIter, 1, KSteps, G_HREF_STEPS);
  ("paint_server.rs", "resolve_lg_attr", HrefIter, 1, KSteps, G_HREF_STEPS);
  ("paint_server.rs", "resolve_pattern_attr", HrefIter, 1, KSteps, G_HREF_STEPS);
  ("paint_server.rs", "resolve_rg_attr", HrefIter, 1, KSteps, G_HREF_STEPS);
  ("style.rs", "convert_paint", ById, 1, KStack, G_PATTERN_CHECK && G_PATTERN_PUSH);
  ("svgtree/mod.rs", "next", NodeAttr, 1, KSteps, G_HREF_STEPS);
  ("svgtree/mod.rs", "node_attribute", ById, 1, KOneStep, true);
  ("svgtree/mod.rs", "parse", ById, 1, KOneStep, true);
  ("svgtree/parse.rs", "find_recursive_link", NodeAttr, 2, KOneStep, G_PRE_LINK_SCOPE);
  ("svgtree/parse.rs", "find_recursive_pattern", ById, 1, KOneStep, G_PRE_PAT_SCOPE);
  ("svgtree/parse.rs", "fix_recursive_fe_image", NodeAttr, 1, KOneStep, G_PRE_FEIMAGE);
  ("svgtree/parse.rs", "parse_svg_use_element", UseHref, 2, KInProgress, G_USE_ORIGIN && G_USE_PUSH);
  ("text.rs", "resolve_text_flow", AttrNode, 1, KOneStep, G_TEXTPATH_NO_FOLLOW)
].

Definition site_matches (s : string * string * skind * nat) (c : string * string * skind * nat * gkind * bool) : bool :=
  match s, c with
  | (f, fn, k, n), (f', fn', k', n', g, w) =>
      String.eqb f f' && String.eqb fn fn' && skind_eqb k k' && Nat.eqb n n' && gkind_complete g && w
  end.

Definition site_covered (s : string * string * skind * nat) : bool := existsb (site_matches s) CLASSIFIED.
Definition uncovered_sites : list (string * string * skind * nat) := filter (fun s => negb (site_covered s)) SITES.
Definition sites_covered : bool := match uncovered_sites with [] => true | _ => false end.

(* final pass: files whose functions receive a referenced element but must not follow any reference from it:
   shapes.rs (textPath -> path geometry), switch.rs (the selected child is converted like any child) *)
Definition site_file (s : string * string * skind * nat) : string := match s with (f, _, _, _) => f end.
Definition no_follow_files : bool :=
  forallb (fun s => negb (String.eqb (site_file s) "shapes.rs" || String.eqb (site_file s) "switch.rs")) SITES.
