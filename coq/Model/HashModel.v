(* C06: model of std::collections::HashMap / HashSet as used by usvg, and of the generated-id counters
   of usvg::parser::converter::Cache.  Executable definitions only.

   A hash container is an association list whose PHYSICAL ORDER IS NOT UNDER THE PROGRAM'S CONTROL:
   before every operation an arbitrary "order oracle" (seed of RandomState, insertion history, rehash,
   allocator) rearranges the storage by any permutation.  The lookup interface (insert / get /
   contains(_key) / remove / clear / len / is_empty) is defined on the rearranged storage; `Iter` returns the
   storage in its physical order and is the only operation through which the order can be observed. *)
From Coq Require Import List Bool Arith PeanoNat.
Import ListNotations.

Section HashContainer.
  Variables K V : Type.
  Variable keqb : K -> K -> bool.

  Definition store := list (K * V).
  Definition oracle := nat -> store -> store.

  Inductive op :=
  | Insert (k : K) (v : V)   (* HashMap::insert / HashSet::insert (V = unit) : returns the old value *)
  | Get (k : K)              (* get *)
  | Contains (k : K)         (* contains_key / contains *)
  | Remove (k : K)           (* remove *)
  | Clear                    (* clear *)
  | Len                      (* len / is_empty *)
  | Iter.                    (* iter / keys / values / drain / into_iter / retain / for-in *)

  Inductive obs :=
  | OVal (o : option V) | OBool (b : bool) | ONat (n : nat) | OSeq (l : list (K * V)) | OUnit.

  Fixpoint lookup (k : K) (s : store) : option V :=
    match s with
    | [] => None
    | (k', v) :: r => if keqb k k' then Some v else lookup k r
    end.
  Definition remove_key (k : K) (s : store) : store := filter (fun kv => negb (keqb k (fst kv))) s.

  Definition step (o : op) (s : store) : store * obs :=
    match o with
    | Insert k v => ((k, v) :: remove_key k s, OVal (lookup k s))
    | Get k => (s, OVal (lookup k s))
    | Contains k => (s, OBool (match lookup k s with Some _ => true | None => false end))
    | Remove k => (remove_key k s, OVal (lookup k s))
    | Clear => ([], OUnit)
    | Len => (s, ONat (length s))
    | Iter => (s, OSeq s)
    end.

  (* run a program: the oracle rearranges the storage before every operation *)
  Fixpoint run (p : oracle) (n : nat) (prog : list op) (s : store) : list obs :=
    match prog with
    | [] => []
    | o :: r => let (s', ob) := step o (p n s) in ob :: run p (S n) r s'
    end.

  Definition lookup_only (o : op) : bool := match o with Iter => false | _ => true end.
End HashContainer.

Arguments Insert {K V}. Arguments Get {K V}. Arguments Contains {K V}. Arguments Remove {K V}.
Arguments Clear {K V}. Arguments Len {K V}. Arguments Iter {K V}.
Arguments OVal {K V}. Arguments OBool {K V}. Arguments ONat {K V}. Arguments OSeq {K V}. Arguments OUnit {K V}.

(* ------------------------------------------------------------------------------------------------
   Generated ids (Cache::gen_*_id).  Every gen function has the shape (checked on the source by
   Gen/C06Sites.v, gf_shape_ok):
       loop { self.<counter> += 1; let new_id = format!("<prefix>{}", self.<counter>);
              if !self.all_ids.contains(&string_hash(&new_id)) { return new_id } }
   `kind` indexes the gen functions, `idhash k n` stands for string_hash(format!(prefix_k, n)) (a fixed
   function: DefaultHasher::new() has constant keys), `all_ids` is a hash set of hashes, held here as a
   physical list in arbitrary order and consulted through membership only. *)
Section GenIds.
  Variable kind : Type.
  Variable kind_eqb : kind -> kind -> bool.
  Variable H : Type.
  Variable heqb : H -> H -> bool.
  Variable idhash : kind -> nat -> H.

  Definition mem (s : list H) (h : H) : bool := existsb (heqb h) s.

  Definition counters := kind -> nat.
  Definition init_counters : counters := fun _ => 0.
  Definition upd (c : counters) (k : kind) (n : nat) : counters :=
    fun k' => if kind_eqb k' k then n else c k'.

  (* the loop of gen_*_id; `fuel` bounds the search (the code loops until a free id is found) *)
  Fixpoint gen_loop (taken : H -> bool) (fuel : nat) (k : kind) (c : nat) : option nat :=
    match fuel with
    | O => None
    | S f => let c' := S c in if taken (idhash k c') then gen_loop taken f k c' else Some c'
    end.

  (* one call of gen_<k>_id: new counters and the generated id (kind, number) *)
  Definition gen (taken : H -> bool) (fuel : nat) (k : kind) (c : counters) : counters * option (kind * nat) :=
    match gen_loop taken fuel k (c k) with
    | Some n => (upd c k n, Some (k, n))
    | None => (c, None)
    end.

  Fixpoint gen_run (taken : H -> bool) (fuel : nat) (calls : list kind) (c : counters) : list (option (kind * nat)) :=
    match calls with
    | [] => []
    | k :: r => let (c', id) := gen taken fuel k c in id :: gen_run taken fuel r c'
    end.
End GenIds.

(* ------------------------------------------------------------------------------------------------
   Arc::make_mut (Options::fontdb_mut, FontResolver closures): holders point at cells; a holder that
   wants to mutate gets the cell to itself only when it is the unique holder, otherwise a fresh copy. *)
Section ArcCow.
  Variable D : Type.
  Record world := { holders : list nat;          (* holder i points at cell (nth i holders) *)
                    cells : nat -> D;
                    fresh : nat }.                (* every cell id in use is < fresh *)
  Definition strong_count (w : world) (c : nat) : nat := count_occ Nat.eq_dec (holders w) c.
  Fixpoint set_nth (l : list nat) (i : nat) (x : nat) : list nat :=
    match l, i with
    | [], _ => []
    | _ :: r, O => x :: r
    | y :: r, S j => y :: set_nth r j x
    end.
  Definition seen (w : world) (i : nat) : option D :=
    match nth_error (holders w) i with Some c => Some (cells w c) | None => None end.
  (* holder i calls Arc::make_mut and applies f to the database it now owns exclusively *)
  Definition make_mut_apply (w : world) (i : nat) (f : D -> D) : world :=
    match nth_error (holders w) i with
    | None => w
    | Some c =>
      if Nat.eqb (strong_count w c) 1
      then {| holders := holders w; cells := fun c' => if Nat.eqb c' c then f (cells w c) else cells w c'; fresh := fresh w |}
      else {| holders := set_nth (holders w) i (fresh w);
              cells := fun c' => if Nat.eqb c' (fresh w) then f (cells w c) else cells w c';
              fresh := S (fresh w) |}
    end.
  Definition world_ok (w : world) : Prop := forall c, In c (holders w) -> c < fresh w.
End ArcCow.
