(* C11: skeleton of usvg's converter (crates/usvg/src/parser/converter.rs, switch.rs, shapes.rs) with its
   state, evaluated over the SOURCE-DERIVED tables of Gen/ConvTables.v, and the element/attribute filter
   of svgtree::parse.  Executable definitions only.

   What is abstract: the leaf converters (path styling, image, text, `use`, nested `svg`) and the
   resolution of clip-path / mask / filter links are section variables; the theorems hold for every
   instantiation.  `use` and nested `svg` reach their content only through `convert_children` /
   `convert_clip_path_elements`, so they receive those as callbacks. *)
From Coq Require Import String Ascii.
From RV Require Import Model.Base Model.ConvBase Gen.ConvTables.
Local Open Scope string_scope.

Fixpoint first_exit {S R : Type} (steps : list S) (f : S -> option R) (dflt : R) : R :=
  match steps with
  | [] => dflt
  | s :: r => match f s with Some x => x | None => first_exit r f dflt end
  end.

(* ------------------------------------------------------------------ element tests *)
Definition eval_cond_fail (tg : option tag) (a : attrs) (t : cond_test) : bool :=
  match t with
  | CT_NotElement => match tg with None => true | Some _ => false end
  | CT_HasRequiredExtensions => a_req_ext a
  | CT_UnknownFeature => negb (a_features_known a)
  | CT_SysLangMismatch => negb (a_syslang_ok a)
  end.
(* switch::is_condition_passed *)
Definition cond_passed (tg : option tag) (a : attrs) : bool :=
  negb (existsb (eval_cond_fail tg a) condition_fail_tests).

Definition eval_vis (tg : option tag) (a : attrs) (t : vis_test) : bool :=
  match t with
  | V_DisplayNotNone => negb (a_display_none a)
  | V_ValidTransform => a_ts_valid a
  | V_ConditionPassed => cond_passed tg a
  end.
(* SvgNode::is_visible_element *)
Definition is_visible (tg : option tag) (a : attrs) : bool := forallb (eval_vis tg a) visible_tests.

(* switch.rs is_valid_sys_lang on the trimmed entries of a systemLanguage value *)
Fixpoint before_dash (e : string) : option string :=
  match e with
  | EmptyString => None
  | String c r => if Ascii.eqb c "-"%char then Some EmptyString
                  else match before_dash r with Some p => Some (String c p) | None => None end
  end.
Definition eval_lang_rule (r : lang_rule) (user entry : string) : bool :=
  match r with
  | LR_Exact => String.eqb user entry
  | LR_PrefixDash => match before_dash entry with Some p => String.eqb user p | None => false end
  | LR_StartsWith => String.prefix user entry
  end.
Definition entry_matches (users : list string) (entry : string) : bool :=
  existsb (fun r => existsb (fun u => eval_lang_rule r u entry) users) sys_lang_rules.
Definition sys_lang_ok (users entries : list string) : bool := existsb (entry_matches users) entries.

Definition geom_of (a : attrs) (g : geom_attr) : Q :=
  match g with GA_Width => a_width a | GA_Height => a_height a | GA_R => a_r a | GA_Rx => a_rx a | GA_Ry => a_ry a end.
Fixpoint len_checks_of (t : tag) (l : list (tag * list geom_attr)) : list geom_attr :=
  match l with [] => [] | (t', c) :: r => if tag_eqb t t' then c else len_checks_of t r end.
(* shapes::convert returns Some *)
Definition shape_valid (t : tag) (a : attrs) : bool :=
  forallb (fun g => Qltb 0 (geom_of a g)) (len_checks_of t shape_len_checks) &&
  match t with
  | T_Polyline | T_Polygon => N.leb poly_min_points (a_npoints a)
  | T_Path => N.leb 2 (a_npoints a)       (* PathBuilder::finish *)
  | _ => true
  end.

(* ------------------------------------------------------------------ has_valid_transform *)
(* TT_IsValid: tiny_skia_path::Transform::is_valid (third party, validated by convert-skel): finite and both get_scale()
   components above f32::EPSILON; sqrt(a) <= eps  <=>  a <= eps^2.
   TT_DetRelTol (427fd1e): |ad - bc| > f32::EPSILON * (|ad| + |bc|), computed in f64 (idealised as exact). *)
Definition F32_EPS : Q := 1 # 8388608.
Definition F32_EPS_SQ : Q := F32_EPS * F32_EPS.
Definition Qabs_b (a : Q) : Q := if Qleb 0 a then a else - a.
Definition ts_is_valid (t : ts) : bool :=
  negb (Qleb (t_sx t * t_sx t + t_kx t * t_kx t) F32_EPS_SQ) &&
  negb (Qleb (t_ky t * t_ky t + t_sy t * t_sy t) F32_EPS_SQ).
Definition ts_det (t : ts) : Q := t_sx t * t_sy t - t_kx t * t_ky t.
Definition eval_ts_test (t : ts) (x : ts_test) : bool :=
  match x with
  | TT_IsValid => ts_is_valid t
  | TT_DetRelTol => Qltb (F32_EPS * (Qabs_b (t_sx t * t_sy t) + Qabs_b (t_kx t * t_ky t))) (Qabs_b (t_sx t * t_sy t - t_kx t * t_ky t))
  end.
(* SvgNode::has_valid_transform on a parsed transform *)
Definition usvg_ts_valid (t : ts) : bool := forallb (eval_ts_test t) valid_ts_tests.

(* ------------------------------------------------------------------ generated ids *)
Fixpoint str_in (s : string) (l : list string) : bool :=
  match l with [] => false | x :: r => if String.eqb s x then true else str_in s r end.

(* decimal rendering of the counter is abstract: `fmt n` stands for format!("{}", n) *)
Section GenId.
  Variable fmt : N -> string.
  (* Cache::gen_*_id: bump the counter until `prefix ++ counter` is not a known id.  The loop of the
     source has no bound; `fuel` bounds the model (|all_ids| + 1 always suffices). *)
  Fixpoint gen_id (fuel : nat) (prefix : string) (all_ids : list string) (idx : N) : option (string * N) :=
    match fuel with
    | O => None
    | S f =>
      let idx' := N.succ idx in
      let cand := prefix ++ fmt idx' in
      if str_in cand all_ids then gen_id f prefix all_ids idx' else Some (cand, idx')
    end.
End GenId.

(* ------------------------------------------------------------------ the converter *)
Section Conv.
  Variable state : Type.
  Variable st_in_clip : state -> bool.          (* state.parent_clip_path.is_some() *)
  Variable st_no_markers : state -> bool.       (* state.parent_markers.is_empty() *)
  Definition conv_t := state -> cache -> ogroup -> cache * ogroup.
  Variable conv_path : tag -> attrs -> conv_t.  (* converter::convert_path on a valid shape *)
  Variable conv_image : attrs -> conv_t.
  Variable conv_text : node -> conv_t.
  (* use_node::convert: element, its first child (tag, attributes), conversion of its own children and of
     the first child's children *)
  Variable conv_use : attrs -> option (option tag * attrs) -> conv_t -> conv_t -> conv_t.
  (* use_node::convert_svg: element, conversion of its children *)
  Variable conv_nested_svg : attrs -> conv_t -> conv_t.
  Variable obj_bbox : ogroup -> option qrect.   (* Group::calculate_object_bbox *)
  Variable res_clip : string -> state -> option qrect -> cache -> option string * cache.
  Variable res_mask : string -> state -> option qrect -> cache -> option string * cache.
  Variable res_filter : attrs -> state -> option qrect -> cache -> option (list string) * cache.

  Definition is_g_or_use (tg : option tag) : bool :=
    match tg with Some t => tag_in t g_or_use_tags | None => false end.

  Record genv := {
    ge_cache : cache; ge_g : ogroup; ge_bbox : option qrect;
    ge_clip : option string; ge_mask : option string; ge_filters : list string;
    ge_pre : option (list string)      (* `empty_filters`: filters resolved early for an element without content *)
  }.

  Section Group.
    Variables (tg : option tag) (a : attrs) (st : state) (force : bool) (parent : ogroup).
    Definition g_opacity : Q := if st_in_clip st then 1 else a_opacity a.
    Definition eval_empty (x : genv) (t : empty_term) : bool :=
      match t with
      | EM_NoChildren => match og_ch (ge_g x) with [] => true | _ => false end
      | EM_NotGOrUse => negb (is_g_or_use tg)
      | EM_NotForce => negb force
      end.
    Definition is_empty (x : genv) : bool := forallb (eval_empty x) empty_terms.
    Definition eval_req (x : genv) (t : req_term) : bool :=
      match t with
      | RQ_Opacity => negb (Qeqb g_opacity 1)
      | RQ_Clip => match ge_clip x with Some _ => true | None => false end
      | RQ_Mask => match ge_mask x with Some _ => true | None => false end
      | RQ_Filters => match ge_filters x with [] => false | _ => true end
      | RQ_Transform => negb (a_ts_identity a)
      | RQ_Blend => negb (a_blend_normal a)
      | RQ_Isolate => a_isolate a
      | RQ_GOrUse => is_g_or_use tg
      | RQ_Force => force
      end.
    Definition required (x : genv) : bool := existsb (eval_req x) required_terms.
    Definition final_group (x : genv) : ogroup :=
      {| og_id := og_id (ge_g x);
         og_pr := {| gp_opacity := g_opacity; gp_ts_identity := a_ts_identity a; gp_blend_normal := a_blend_normal a;
                     gp_isolate := a_isolate a; gp_clip := ge_clip x; gp_mask := ge_mask x; gp_filters := ge_filters x |};
         og_ch := og_ch (ge_g x) |}.

    Definition gresult := (cache * ogroup * option ogroup)%type.
    (* converter::convert_group_filters: None = the element must not be rendered at all *)
    Definition group_filters (x : genv) : option (list string) * cache :=
      if st_in_clip st then (Some [], ge_cache x) else
      match a_filter a with
      | FA_Absent | FA_NoneValue => (Some [], ge_cache x)
      | FA_Value _ => res_filter a st (ge_bbox x) (ge_cache x)
      end.
    (* one step of convert_group after `collect_children`: continue with a new environment or return *)
    Definition group_step_run (s : group_step) (x : genv) : genv + gresult :=
      match s with
      | GS_EmptyNoFilterAttr =>
          if is_empty x && negb (has_filter_attr a) then inr (ge_cache x, parent, None) else inl x
      | GS_ObjectBBox =>
          inl {| ge_cache := ge_cache x; ge_g := ge_g x; ge_bbox := obj_bbox (ge_g x);
                 ge_clip := ge_clip x; ge_mask := ge_mask x; ge_filters := ge_filters x; ge_pre := ge_pre x |}
      | GS_Clip =>
          match a_clip a with
          | None => inl x
          | Some link =>
              match res_clip link st (ge_bbox x) (ge_cache x) with
              | (None, c') => inr (c', parent, None)
              | (Some r, c') => inl {| ge_cache := c'; ge_g := ge_g x; ge_bbox := ge_bbox x;
                                       ge_clip := Some r; ge_mask := ge_mask x; ge_filters := ge_filters x; ge_pre := ge_pre x |}
              end
          end
      | GS_Mask =>
          if st_in_clip st then inl x else
          match a_mask a with
          | None => inl x
          | Some link =>
              match res_mask link st (ge_bbox x) (ge_cache x) with
              | (None, c') => inr (c', parent, None)
              | (Some r, c') => inl {| ge_cache := c'; ge_g := ge_g x; ge_bbox := ge_bbox x;
                                       ge_clip := ge_clip x; ge_mask := Some r; ge_filters := ge_filters x; ge_pre := ge_pre x |}
              end
          end
      | GS_Filters =>
          match ge_pre x with
          | Some f => inl {| ge_cache := ge_cache x; ge_g := ge_g x; ge_bbox := ge_bbox x;
                             ge_clip := ge_clip x; ge_mask := ge_mask x; ge_filters := f; ge_pre := ge_pre x |}
          | None =>
              match group_filters x with
              | (None, c') => inr (c', parent, None)
              | (Some f, c') => inl {| ge_cache := c'; ge_g := ge_g x; ge_bbox := ge_bbox x;
                                       ge_clip := ge_clip x; ge_mask := ge_mask x; ge_filters := f; ge_pre := ge_pre x |}
              end
          end
      | GS_EmptyFiltersFirst =>
          if is_empty x then
            match group_filters x with
            | (None, c') => inr (c', parent, None)
            | (Some [], c') => inr (c', parent, None)
            | (Some f, c') => inl {| ge_cache := c'; ge_g := ge_g x; ge_bbox := ge_bbox x;
                                     ge_clip := ge_clip x; ge_mask := ge_mask x; ge_filters := ge_filters x; ge_pre := Some f |}
            end
          else inl x
      | GS_NotRequired =>
          if required x then inl x else inr (ge_cache x, og_append parent (og_ch (ge_g x)), None)
      | GS_EmptyNoFilters =>
          if is_empty x && match ge_filters x with [] => true | _ => false end
          then inr (ge_cache x, parent, None) else inl x
      | GS_Boxes => inr (ge_cache x, parent, Some (final_group x))
      end.
    Fixpoint group_run (steps : list group_step) (x : genv) : gresult :=
      match steps with
      | [] => (ge_cache x, parent, None)
      | s :: r => match group_step_run s x with inl x' => group_run r x' | inr res => res end
      end.

    (* converter::convert_group *)
    Definition convert_group (c : cache) (collect : cache -> ogroup -> cache * ogroup) : gresult :=
      let id := if is_g_or_use tg && st_no_markers st then a_id a else "" in
      let g0 := {| og_id := id;
                   og_pr := {| gp_opacity := g_opacity; gp_ts_identity := a_ts_identity a; gp_blend_normal := a_blend_normal a;
                               gp_isolate := a_isolate a; gp_clip := None; gp_mask := None; gp_filters := [] |};
                   og_ch := [] |} in
      let '(c1, g1) := collect c g0 in
      group_run group_steps {| ge_cache := c1; ge_g := g1; ge_bbox := None; ge_clip := None; ge_mask := None; ge_filters := []; ge_pre := None |}.
  End Group.

  Definition push_group (r : gresult) : cache * ogroup :=
    match r with
    | (c, p, Some g) => (c, og_push p (og_node g))
    | (c, p, None) => (c, p)
    end.

  Fixpoint has_passing (l : nodes) : bool :=
    match l with
    | NNil => false
    | NCons x r => if cond_passed (node_tag x) (node_attrs x) then true else has_passing r
    end.

  Definition first_child_info (l : nodes) : option (option tag * attrs) :=
    match l with NNil => None | NCons x _ => Some (node_tag x, node_attrs x) end.

  (* Body of `convert_element` (clip = false) / of the loop of `convert_clip_path_elements` (clip = true)
     over the recursive calls.  top: the element is a child of the document root. *)
  Definition elem_body (rec_children : nodes -> bool -> bool -> conv_t) (rec_first : nodes -> conv_t)
             (n : node) (top clip : bool) (st : state) (c : cache) (p : ogroup) : cache * ogroup :=
    match n with
    | Node tg a ch =>
      let impl (c' : cache) (g' : ogroup) : cache * ogroup :=
        match tg with
        | None => (c', g')
        | Some t =>
          if tag_in t (if clip then clip_shape_tags else impl_shape_tags)
          then (if shape_valid t a then conv_path t a st c' g' else (c', g'))
          else match t with
               | T_Text => conv_text n st c' g'
               | T_Image => if clip then (c', g') else conv_image a st c' g'
               | T_Svg => if clip then (c', g') else
                          if top then rec_children ch false false st c' g'
                          else conv_nested_svg a (fun st' c2 g2 => rec_children ch false (st_in_clip st') st' c2 g2) st c' g'
               | T_G => if clip then (c', g') else rec_children ch false false st c' g'
               | _ => (c', g')
               end
        end in
      let step (s : dispatch_step) : option (cache * ogroup) :=
        match s with
        | D_TagName => match tg with None => Some (c, p) | Some _ => None end
        | D_GraphicOrStructural =>
            match tg with
            | Some t => if negb (tag_in t graphic_tags) && negb (if clip then false else tag_in t structural_tags)
                        then Some (c, p) else None
            | None => None
            end
        | D_Visible => if is_visible tg a then None else Some (c, p)
        | D_Use =>
            match tg with
            | Some T_Use =>
                Some (conv_use a (first_child_info ch)
                        (fun st' c2 g2 => rec_children ch false (st_in_clip st') st' c2 g2)
                        (match ch with
                         | NCons (Node _ _ cch) _ => fun st' c2 g2 => rec_children cch false (st_in_clip st') st' c2 g2
                         | NNil => fun _ c2 g2 => (c2, g2)
                         end)
                        st c p)
            | _ => None
            end
        | D_Switch =>
            match tg with
            | Some T_Switch =>
                if has_passing ch
                then Some (push_group (convert_group tg a st false p c (fun c' g' => rec_first ch st c' g')))
                else Some (c, p)
            | _ => None
            end
        | D_Group => Some (push_group (convert_group tg a st false p c impl))
        end in
      first_exit (if clip then clip_dispatch else elem_dispatch) step (c, p)
    end.

  (* conv_elem: convert_element / clip loop body; conv_children: `convert_children` /
     `convert_clip_path_elements`; conv_first_passing: the child chosen by switch::convert, converted
     with convert_element. *)
  Fixpoint conv_elem (n : node) (top clip : bool) (st : state) (c : cache) (p : ogroup) {struct n} : cache * ogroup :=
    elem_body conv_children conv_first_passing n top clip st c p
  with conv_children (l : nodes) (top clip : bool) (st : state) (c : cache) (p : ogroup) {struct l} : cache * ogroup :=
    match l with
    | NNil => (c, p)
    | NCons x r => let '(c1, p1) := conv_elem x top clip st c p in conv_children r top clip st c1 p1
    end
  with conv_first_passing (l : nodes) (st : state) (c : cache) (p : ogroup) {struct l} : cache * ogroup :=
    match l with
    | NNil => (c, p)
    | NCons x r => if cond_passed (node_tag x) (node_attrs x) then conv_elem x false false st c p
                   else conv_first_passing r st c p
    end.
End Conv.

(* ------------------------------------------------------------------ routes to content conversion (table call_sites) *)
(* the non-rendered filter (D_Visible, after the tag tests) precedes every step of the dispatch that produces content *)
Fixpoint dispatch_guarded (l : list dispatch_step) : bool :=
  match l with
  | [] => false
  | D_Visible :: _ => true
  | D_Use :: _ | D_Switch :: _ | D_Group :: _ => false
  | _ :: r => dispatch_guarded r
  end.
Definition internally_guarded (f : string) : bool :=
  if String.eqb f "converter::convert_element" then dispatch_guarded elem_dispatch
  else if String.eqb f "converter::convert_children" then dispatch_guarded elem_dispatch   (* the loop over convert_element *)
  else if String.eqb f "converter::convert_clip_path_elements" then dispatch_guarded clip_dispatch
  else false.
Definition site := (string * string * site_guard)%type.
Definition symbol_site (callee encl : string) : bool :=
  String.eqb callee "use_node::convert_children" && String.eqb encl "use_node::convert".
(* every caller hands f a node that passed the filter *)
Fixpoint fn_vetted (fuel : nat) (sites : list site) (f : string) : bool :=
  match fuel with
  | O => false
  | S k =>
      forallb (fun s : site =>
                 match s with
                 | (callee, encl, g) =>
                     if String.eqb callee f then
                       match g with
                       | SG_VisibleBefore => true
                       | SG_OwnNode => fn_vetted k sites encl
                       | SG_SymbolOfUse => symbol_site callee encl
                       | SG_Internal | SG_None => false
                       end
                     else true
                 end) sites
  end.
Definition site_safe (fuel : nat) (sites : list site) (s : site) : bool :=
  match s with
  | (callee, encl, g) =>
      match g with
      | SG_Internal => internally_guarded callee
      | SG_VisibleBefore => true
      | SG_SymbolOfUse => symbol_site callee encl
      | SG_OwnNode => fn_vetted fuel sites encl
      | SG_None => false
      end
  end.
Definition routes_guarded (sites : list site) : bool := forallb (site_safe 8 sites) sites.

(* ------------------------------------------------------------------ what C11 calls non-rendered content *)
Definition is_shape_tag (t : tag) : bool := tag_in t impl_shape_tags.
(* decidable: the element never reaches the output, whatever surrounds it *)
Definition ignorable (n : node) : bool :=
  match n with
  | Node None _ _ => true                                           (* text / whitespace between elements *)
  | Node (Some t) a _ =>
      (negb (tag_in t graphic_tags) && negb (tag_in t structural_tags))   (* defs, gradients, patterns, clipPath, mask,
                                                                             filter, marker, symbol, any other element *)
      || a_display_none a                                           (* display:none subtree *)
      || negb (a_ts_valid a)                                        (* non-invertible transform *)
      || a_req_ext a || negb (a_features_known a) || negb (a_syslang_ok a)   (* failing conditional attribute *)
      || (is_shape_tag t && negb (shape_valid t a) && negb (has_filter_attr a))
                                                                    (* zero-size / invalid shape without a filter *)
  end.
(* SVG 1.1 sect. 9: the shapes that are "not rendered" because of their geometry (spec side, no tables) *)
Definition zero_size (t : tag) (a : attrs) : bool :=
  match t with
  | T_Rect => Qleb (a_width a) 0 || Qleb (a_height a) 0
  | T_Circle => Qleb (a_r a) 0
  | T_Ellipse => Qleb (a_rx a) 0 || Qleb (a_ry a) 0
  | T_Polyline | T_Polygon | T_Path => N.ltb (a_npoints a) 2
  | _ => false
  end.
Fixpoint all_ignorable (l : nodes) : bool :=
  match l with NNil => true | NCons x r => ignorable x && all_ignorable r end.

(* containers whose child list may receive insertions *)
Definition allows_insertion (tg : option tag) : bool :=
  match tg with
  | Some T_Switch | Some T_Text | Some T_Use => false
  | Some _ => true
  | None => false
  end.

(* ------------------------------------------------------------------ svgtree::parse element / attribute filter *)
Record xattr := { xa_ns : attr_ns; xa_known : bool (* AId::from_str is Some *); xa_name : string; xa_value : string }.
Definition keep_attr (x : xattr) : bool := existsb (attr_ns_eqb (xa_ns x)) attr_ns_kept && xa_known x.
Definition kept_attrs (l : list xattr) : list xattr := filter keep_attr l.

Inductive xkind := XK_Element | XK_Text | XK_Comment | XK_PI.
(* x_tag: EId::from_str of the local name; x_svg_ns: namespace == SVG_NS; x_style: the element is `style` *)
Inductive xnode := XNode (k : xkind) (svg_ns : bool) (tg : option tag) (is_style : bool) (al : list xattr) (ch : xnodes)
with xnodes := XNil | XCons (n : xnode) (r : xnodes).
Fixpoint xapp (a b : xnodes) : xnodes := match a with XNil => b | XCons x r => XCons x (xapp r b) end.

(* parse_tag_name *)
Definition parse_tag_name (k : xkind) (svg_ns : bool) (tg : option tag) : option tag :=
  match k with XK_Element => if svg_ns then tg else None | _ => None end.

Section SvgTree.
  (* attribute resolution (presentation attributes, CSS, style) from the kept attributes of the element *)
  Variable resolve : list xattr -> attrs.
  (* text / use keep their own parsers *)
  Variable parse_text_children : xnodes -> nodes.
  Variable parse_use_children : list xattr -> nodes.
  (* parse_xml_node / parse_xml_node_children: the svgtree nodes appended for XML nodes *)
  Fixpoint parse_xml_node (x : xnode) : nodes :=
    match x with
    | XNode k ns tg is_style al ch =>
        match parse_tag_name k ns tg with
        | None => NNil
        | Some t =>
            if is_style then NNil else
            NCons (Node (Some t) (resolve (kept_attrs al))
                        (match t with
                         | T_Text => parse_text_children ch
                         | T_Use => parse_use_children (kept_attrs al)
                         | _ => parse_xml_children ch
                         end)) NNil
        end
    end
  with parse_xml_children (l : xnodes) : nodes :=
    match l with
    | XNil => NNil
    | XCons x r => napp (parse_xml_node x) (parse_xml_children r)
    end.
End SvgTree.

(* XML nodes that svgtree drops *)
Definition xml_ignorable (x : xnode) : bool :=
  match x with
  | XNode k ns tg is_style _ _ =>
      match parse_tag_name k ns tg with None => true | Some _ => is_style end
  end.
Fixpoint all_xml_ignorable (l : xnodes) : bool :=
  match l with XNil => true | XCons x r => xml_ignorable x && all_xml_ignorable r end.

(* special lookups: does a lookup of kind k find an attribute / element that lives in namespace ns (equal local name)? *)
Definition lookup_finds (k : lookup_kind) (ns : attr_ns) : bool :=
  match k with
  | LK_NoNamespace => attr_ns_eqb ns ANS_None
  | LK_LocalNameOnly => true
  | LK_SvgNamespace => attr_ns_eqb ns ANS_Svg
  end.
(* what `:first-child` and the `+` combinator see: the element children, in order (roxmltree prev_sibling_element /
   parent_element skip comments, processing instructions and text) *)
Definition x_is_element (x : xnode) : bool := match x with XNode XK_Element _ _ _ _ _ => true | _ => false end.
Fixpoint sibling_elements (l : xnodes) : list xnode :=
  match l with
  | XNil => []
  | XCons x r => if x_is_element x then x :: sibling_elements r else sibling_elements r
  end.
Fixpoint all_non_element (l : xnodes) : bool :=
  match l with XNil => true | XCons x r => negb (x_is_element x) && all_non_element r end.

(* ------------------------------------------------------------------ concrete instance for the correspondence *)
(* Leaves push one node; links resolve to themselves when listed as valid; filters resolve when the
   value is a link to a listed id.  Used only by harness-generated case files. *)
Record sim_state := { ss_in_clip : bool; ss_valid_links : list string }.
Definition sim_path (t : tag) (a : attrs) : sim_state -> cache -> ogroup -> cache * ogroup :=
  fun _ c g => (c, og_push g (OLeaf T_Path (a_id a))).
Definition sim_image (a : attrs) : sim_state -> cache -> ogroup -> cache * ogroup :=
  fun _ c g => (c, og_push g (OLeaf T_Image (a_id a))).
Definition sim_text (n : node) : sim_state -> cache -> ogroup -> cache * ogroup :=
  fun _ c g => (c, og_push g (OLeaf T_Text (a_id (node_attrs n)))).
Definition sim_link (l : string) (st : sim_state) (_ : option qrect) (c : cache) : option string * cache :=
  (if str_in l (ss_valid_links st) then Some l else None, c).
Definition sim_filter (a : attrs) (st : sim_state) (_ : option qrect) (c : cache) : option (list string) * cache :=
  (match a_filter a with
   | FA_Value v => if str_in v (ss_valid_links st) then Some [v] else None
   | _ => Some []
   end, c).
Definition sim_elem : node -> bool -> bool -> sim_state -> cache -> ogroup -> cache * ogroup :=
  conv_elem sim_state ss_in_clip (fun _ => true) sim_path sim_image sim_text
            (fun _ _ _ _ _ c g => (c, g)) (fun _ cb st c g => cb st c g)
            (fun _ => None) sim_link sim_link sim_filter.
Definition sim_children : nodes -> bool -> bool -> sim_state -> cache -> ogroup -> cache * ogroup :=
  conv_children sim_state ss_in_clip (fun _ => true) sim_path sim_image sim_text
            (fun _ _ _ _ _ c g => (c, g)) (fun _ cb st c g => cb st c g)
            (fun _ => None) sim_link sim_link sim_filter.

Definition empty_cache : cache :=
  {| c_all_ids := []; c_lg := 0; c_rg := 0; c_pat := 0; c_clip := 0; c_mask := 0; c_filter := 0; c_image := 0;
     c_clips := []; c_masks := []; c_filters := []; c_paint := [] |}.
Definition empty_props : gprops :=
  {| gp_opacity := 1; gp_ts_identity := true; gp_blend_normal := true; gp_isolate := false;
     gp_clip := None; gp_mask := None; gp_filters := [] |}.
Definition root_group : ogroup := {| og_id := ""; og_pr := empty_props; og_ch := [] |}.

Definition opt_str_eqb (a b : option string) : bool :=
  match a, b with Some x, Some y => String.eqb x y | None, None => true | _, _ => false end.
Fixpoint strs_eqb (a b : list string) : bool :=
  match a, b with [] , [] => true | x :: r, y :: s => String.eqb x y && strs_eqb r s | _, _ => false end.
Definition gprops_eqb (a b : gprops) : bool :=
  Qeqb (gp_opacity a) (gp_opacity b) && Bool.eqb (gp_ts_identity a) (gp_ts_identity b) &&
  Bool.eqb (gp_blend_normal a) (gp_blend_normal b) && Bool.eqb (gp_isolate a) (gp_isolate b) &&
  opt_str_eqb (gp_clip a) (gp_clip b) && opt_str_eqb (gp_mask a) (gp_mask b) && strs_eqb (gp_filters a) (gp_filters b).
Fixpoint onode_eqb (a b : onode) {struct a} : bool :=
  match a, b with
  | OLeaf k i, OLeaf k' i' => tag_eqb k k' && String.eqb i i'
  | OGroup i p ch, OGroup i' p' ch' =>
      String.eqb i i' && gprops_eqb p p' &&
      (fix go (l l' : list onode) : bool :=
         match l, l' with
         | [], [] => true
         | x :: r, y :: s => onode_eqb x y && go r s
         | _, _ => false
         end) ch ch'
  | _, _ => false
  end.
Fixpoint onodes_eqb (l l' : list onode) : bool :=
  match l, l' with [], [] => true | x :: r, y :: s => onode_eqb x y && onodes_eqb r s | _, _ => false end.
