(* C14: compositing algebra of offscreen layers, per pixel, over Q (premultiplied colour).
   Executable definitions only.

   tiny-skia's `draw_pixmap` with BlendMode::SourceOver and PixmapPaint::opacity o computes, per
   channel, d' = o*s + d*(1 - o*sa): `over (scale o s) d`.  A draw call (path fill/stroke, image) with
   normal blending contributes `over p` for its own premultiplied coverage-weighted colour p. *)
From RV Require Import Model.Base.
Local Open Scope Q_scope.

Record px := { pr : Q; pg : Q; pb : Q; pa : Q }.
Definition clear : px := {| pr := 0; pg := 0; pb := 0; pa := 0 |}.
Definition over (s d : px) : px :=
  {| pr := pr s + pr d * (1 - pa s); pg := pg s + pg d * (1 - pa s);
     pb := pb s + pb d * (1 - pa s); pa := pa s + pa d * (1 - pa s) |}.
Definition scale (k : Q) (p : px) : px :=
  {| pr := k * pr p; pg := k * pg p; pb := k * pb p; pa := k * pa p |}.
Definition peq (a b : px) : Prop := pr a == pr b /\ pg a == pg b /\ pb a == pb b /\ pa a == pa b.
Definition peqb (a b : px) : bool := Qeqb (pr a) (pr b) && Qeqb (pg a) (pg b) && Qeqb (pb a) (pb b) && Qeqb (pa a) (pa b).

(* A render tree seen from one pixel: leaves are the colours that draw calls contribute there;
   a group is rendered either directly onto its parent's surface or (isolate = true) onto a fresh
   transparent layer that is then composited with the group opacity.
   usvg::Group::should_isolate is true whenever opacity != 1, so a non-isolated group has opacity 1
   (its opacity field is ignored here, as in render_group). *)
Inductive node :=
| Draw (p : px)
| Grp (isolate : bool) (opacity : Q) (children : list node).

Fixpoint render (n : node) (bg : px) {struct n} : px :=
  match n with
  | Draw p => over p bg
  | Grp iso o ch =>
    let fix go (l : list node) (acc : px) {struct l} : px :=
      match l with [] => acc | c :: r => go r (render c acc) end in
    if iso then over (scale o (go ch clear)) bg else go ch bg
  end.
Fixpoint render_list (l : list node) (acc : px) : px :=
  match l with [] => acc | c :: r => render_list r (render c acc) end.

(* flat draw lists *)
Definition paint (ds : list px) (bg : px) : px := fold_left (fun acc d => over d acc) ds bg.

(* rewrite the isolation flags of all opacity-1 groups with a flag supplied by f (applied to the depth) *)
Fixpoint reflag (f : nat -> bool) (d : nat) (n : node) {struct n} : node :=
  match n with
  | Draw p => Draw p
  | Grp iso o ch =>
    let fix go (l : list node) : list node :=
      match l with [] => [] | c :: r => reflag f (S d) c :: go r end in
    Grp (if Qeqb o 1 then f d else iso) o (go ch)
  end.
(* well-formed as produced by usvg: non-isolated groups have opacity 1 *)
Fixpoint wf (n : node) : bool :=
  match n with
  | Draw _ => true
  | Grp iso o ch =>
    let fix go (l : list node) : bool := match l with [] => true | c :: r => wf c && go r end in
    (iso || Qeqb o 1) && go ch
  end.

Definition chk_layer_invisible (n : node) (bg : px) : bool :=
  peqb (render n bg) (over (render n clear) bg) &&
  peqb (render (reflag (fun _ => true) 0 n) bg) (render (reflag (fun _ => false) 0 n) bg).
