(* C18 model, extension round 4: filters and masks.

   filter.rs  collect_children: the scale of primitiveUnits (`prim_scale`), the number attributes multiplied with it
              (stdDeviation, dx/dy, radius, scale: the SOURCE-DERIVED slices of Gen/LeafObb.v), the loop that ends at the
              first primitive without a valid sub-region; convert_url: region, primitives, the conversion cache
   mask.rs    convert: region / mask_all / link / content in the order of the source, with the conversion cache

   Executable definitions only (proofs: Proofs/ObbFilter.v). *)
From RV Require Import Model.Base Model.GeomPrims Model.StylePrims Model.ObbPrims Gen.LeafObb Model.Obb.
Local Open Scope Q_scope.

(* ---------------------------------------------------------------- number attributes of a primitive *)
(* as parsed (None = attribute absent / number missing); stdDeviation as the first three numbers of its list *)
Inductive fparam :=
| FP_plain
| FP_blur (n1 n2 n3 : option Q)
| FP_offset (dx dy : option Q)
| FP_shadow (dx dy : option Q) (n1 n2 n3 : option Q)
| FP_morph (radius : option (list Q))
| FP_displace (s : option Q).
(* as stored in the tree *)
Inductive rparam :=
| RP_plain
| RP_blur (sx sy : Q)
| RP_offset (dx dy : Q)
| RP_shadow (dx dy sx sy : Q)
| RP_morph (rx ry : Q)
| RP_displace (s : Q).

(* convert_morphology (since 4d36085 / e3b9753): the fallback radius is the constant `morph_default` (1, 1); a given radius
   is multiplied with the scale FIRST (morph_fix), then goes through the zero replacement, the sign test and PositiveF32::new *)
Definition morph_radii (radius : option (list Q)) (scale : Q * Q) : Q * Q :=
  let d := morph_default in
  match radius with
  | None => d
  | Some l =>
      let '(rx, ry) := morph_pair l in
      let '(rx, ry) := morph_fix rx ry scale in
      if morph_positive rx ry
      then match morph_scaled rx ry with (Some a, Some b) => (a, b) | _ => d end
      else d
  end.

Definition std_dev (n1 n2 n3 : option Q) (scale : Q * Q) : Q * Q :=
  let '(x, y) := std_dev_pair n1 n2 n3 in std_dev_scaled x y scale.

Definition resolve_param (p : fparam) (scale : Q * Q) : rparam :=
  match p with
  | FP_plain => RP_plain
  | FP_blur a b c => let '(sx, sy) := std_dev a b c scale in RP_blur sx sy
  | FP_offset dx dy => RP_offset (offset_dx dx scale) (offset_dy dy scale)
  | FP_shadow dx dy a b c => let '(sx, sy) := std_dev a b c scale in RP_shadow (shadow_dx dx scale) (shadow_dy dy scale) sx sy
  | FP_morph r => let '(a, b) := morph_radii r scale in RP_morph a b
  | FP_displace s => RP_displace (displace_scale s scale)
  end.

Definition rparam_eqb (a b : rparam) : bool :=
  match a, b with
  | RP_plain, RP_plain => true
  | RP_blur x y, RP_blur x' y' => Qeqb x x' && Qeqb y y'
  | RP_offset x y, RP_offset x' y' => Qeqb x x' && Qeqb y y'
  | RP_shadow x y s t, RP_shadow x' y' s' t' => Qeqb x x' && Qeqb y y' && Qeqb s s' && Qeqb t t'
  | RP_morph x y, RP_morph x' y' => Qeqb x x' && Qeqb y y'
  | RP_displace s, RP_displace s' => Qeqb s s'
  | _, _ => false
  end.

(* the same attributes written in user space for the box B (what the hand-mapped definition carries):
   lengths along x times the width, along y times the height, the displacement scale times their mean *)
Definition map_param (p : fparam) (B : qrect) : fparam :=
  let w := rw B in let h := rh B in
  match p with
  | FP_plain => FP_plain
  | FP_blur a b c => let '(x, y) := std_dev_pair a b c in FP_blur (Some (x * w)) (Some (y * h)) None
  | FP_offset dx dy => FP_offset (Some (Qunwrap_or dx 0 * w)) (Some (Qunwrap_or dy 0 * h))
  | FP_shadow dx dy a b c => let '(x, y) := std_dev_pair a b c in
                             FP_shadow (Some (Qunwrap_or dx 2 * w)) (Some (Qunwrap_or dy 2 * h)) (Some (x * w)) (Some (y * h)) None
  | FP_morph None => FP_morph None
  | FP_morph (Some l) => let '(x, y) := morph_pair l in FP_morph (Some [x * w; y * h])
  | FP_displace s => FP_displace (Some (Qunwrap_or s 0 * ((w + h) / 2)))
  end.
(* ---------------------------------------------------------------- collect_children *)
Record fprim := { fp_kind : prim_kind; fp_x : option Q; fp_y : option Q; fp_w : option Q; fp_h : option Q; fp_par : fparam }.
Record rprim := { rp_rect : qrect; rp_par : rparam }.
Fixpoint collect_loop (units : units_) (bbox : option qrect) (region : qrect) (scale : Q * Q) (ps : list fprim) : list rprim :=
  match ps with
  | [] => []
  | p :: r =>
      match resolve_primitive_region (fp_kind p) units (fp_x p) (fp_y p) (fp_w p) (fp_h p) bbox region with
      | None => []                                                         (* `None => break` *)
      | Some sub => {| rp_rect := sub; rp_par := resolve_param (fp_par p) scale |} :: collect_loop units bbox region scale r
      end
  end.
Definition collect_prims (units : units_) (bbox : option qrect) (region : qrect) (ps : list fprim) : list rprim :=
  match prim_scale units bbox with
  | None => []
  | Some sc => collect_loop units bbox region sc ps
  end.

(* ---------------------------------------------------------------- convert_url with the cache of converted filters *)
Record felem := { fe_id : N; fe_units : units_; fe_punits : units_; fe_rect : qrect; fe_prims : list fprim }.
Record fconv := { fv_id : N; fv_rect : qrect; fv_prims : list rprim }.
(* what one user with box `bbox` must get (no cache involved) *)
Definition filter_resolve (f : felem) (bbox : option qrect) : option (qrect * list rprim) :=
  match to_non_zero_rect (fe_rect f) with
  | None => None
  | Some r0 =>
      match (if units_eqb (fe_units f) ObjectBoundingBox
             then match bbox with Some B => checked_bbox_transform r0 B | None => None end
             else Some r0) with
      | None => None
      | Some r =>
          match collect_prims (fe_punits f) bbox r (fe_prims f) with
          | [] => None
          | ps => Some (r, ps)
          end
      end
  end.

Section KeyedCache.
  Context {A : Type}.
  Fixpoint kc_get (c : list (N * A)) (id : N) : option A :=
    match c with [] => None | (k, v) :: r => if N.eqb k id then Some v else kc_get r id end.
  Definition kc_has (c : list (N * A)) (id : N) : bool := match kc_get c id with Some _ => true | None => false end.
End KeyedCache.

Record fstate := { fs_cache : list (N * fconv); fs_ctr : N }.
Definition filter_convert (taken : list N) (f : felem) (bbox : option qrect) (st : fstate) : option fconv * fstate :=
  let cacheable := filter_cacheable (fe_units f) (fe_punits f) in
  match (if cacheable then kc_get (fs_cache st) (fe_id f) else None) with
  | Some v => (Some v, st)
  | None =>
      match filter_resolve f bbox with
      | None => (None, st)
      | Some (r, ps) =>
          let regen := negb cacheable && kc_has (fs_cache st) (fe_id f) in
          let id' := if regen then gen_id taken (fs_ctr st) else fe_id f in
          let ctr' := if regen then gen_id taken (fs_ctr st) else fs_ctr st in
          let v := {| fv_id := id'; fv_rect := r; fv_prims := ps |} in
          (Some v, {| fs_cache := (id', v) :: fs_cache st; fs_ctr := ctr' |})
      end
  end.
Fixpoint filter_users (taken : list N) (us : list (felem * option qrect)) (st : fstate) : list (option fconv) * fstate :=
  match us with
  | [] => ([], st)
  | (f, b) :: r => let '(v, st') := filter_convert taken f b st in
                   let '(vs, st'') := filter_users taken r st' in (v :: vs, st'')
  end.

(* ---------------------------------------------------------------- mask::convert with the cache of converted masks *)
(* a mask element; a chain = the element followed by the chain of its `mask` link *)
Record melem := { me_id : N; me_units : units_; me_cunits : units_; me_rect : qrect; me_content : bool }.
Definition msrc := list melem.
(* converted: id, region, content: None = masks everything (no children), Some None = children as they are,
   Some (Some t) = children inside a group with transform t *)
Record mvelem := { mv_id : N; mv_rect : qrect; mv_content : option (option ts) }.
Definition mconv := list mvelem.
Record mstate := { ms_cache : list (N * mconv); ms_ctr : N }.

Definition mchain_cacheable (c : msrc) : bool := forallb (fun e => mask_cacheable (me_units e) (me_cunits e)) c.
(* region and the mask_all flag *)
Definition mask_region (e : melem) (bbox : option qrect) : option (qrect * bool) :=
  match to_non_zero_rect (me_rect e) with
  | None => None
  | Some r0 =>
      if units_eqb (me_units e) ObjectBoundingBox
      then match bbox with
           | Some B => match checked_bbox_transform r0 B with Some r => Some (r, false) | None => None end
           | None => Some (r0, true)
           end
      else Some (r0, false)
  end.
Definition mask_content_ts (e : melem) (bbox : option qrect) : option (option ts) :=
  if units_eqb (me_cunits e) ObjectBoundingBox
  then match bbox with Some B => Some (Some (from_bbox B)) | None => None end
  else Some None.

Fixpoint mask_convert (taken : list N) (c : msrc) (bbox : option qrect) (st : mstate) : option mconv * mstate :=
  match c with
  | [] => (Some [], st)
  | e :: link =>
      let cacheable := mchain_cacheable (e :: link) in
      match (if cacheable then kc_get (ms_cache st) (me_id e) else None) with
      | Some v => (Some v, st)
      | None =>
          match mask_region e bbox with
          | None => (None, st)
          | Some (r, mask_all) =>
              (* the id is chosen BEFORE the link is converted *)
              let regen := negb cacheable && kc_has (ms_cache st) (me_id e) in
              let id' := if regen then gen_id taken (ms_ctr st) else me_id e in
              let st0 := {| ms_cache := ms_cache st; ms_ctr := if regen then gen_id taken (ms_ctr st) else ms_ctr st |} in
              if mask_all
              then let v := [ {| mv_id := id'; mv_rect := r; mv_content := None |} ] in
                   (Some v, {| ms_cache := (id', v) :: ms_cache st0; ms_ctr := ms_ctr st0 |})
              else
                match mask_convert taken link bbox st0 with
                | (None, st1) => (None, st1)
                | (Some lk, st1) =>
                    match mask_content_ts e bbox with
                    | None => (None, st1)
                    | Some ct =>
                        if me_content e
                        then let v := {| mv_id := id'; mv_rect := r; mv_content := Some ct |} :: lk in
                             (Some v, {| ms_cache := (id', v) :: ms_cache st1; ms_ctr := ms_ctr st1 |})
                        else (None, st1)
                    end
                end
          end
      end
  end.
(* what the user with box `bbox` must be masked with, along the chain *)
Fixpoint mask_expected (c : msrc) (bbox : option qrect) : option (list (qrect * option (option ts))) :=
  match c with
  | [] => Some []
  | e :: link =>
      match mask_region e bbox with
      | None => None
      | Some (r, true) => Some [(r, None)]
      | Some (r, false) =>
          match mask_expected link bbox with
          | None => None
          | Some l =>
              match mask_content_ts e bbox with
              | None => None
              | Some ct => if me_content e then Some ((r, Some ct) :: l) else None
              end
          end
      end
  end.
Definition mconv_vals (v : mconv) : list (qrect * option (option ts)) := map (fun e => (mv_rect e, mv_content e)) v.
Fixpoint mask_users (taken : list N) (us : list (msrc * option qrect)) (st : mstate) : list (option mconv) :=
  match us with
  | [] => []
  | (c, b) :: r => let '(v, st') := mask_convert taken c b st in v :: mask_users taken r st'
  end.
