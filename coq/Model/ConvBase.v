(* C11: types shared by the source-derived tables (Gen/ConvTables.v) and the hand-written converter
   skeleton (Model/Converter.v).  Executable definitions only. *)
From Coq Require Import String.
From RV Require Import Model.Base.
Local Open Scope string_scope.

(* The element kinds the converter distinguishes.  Every other known SVG element (stop, tspan,
   fe*, style, ...) is T_Other: the converter never looks at those tags by name. *)
Inductive tag :=
  | T_Rect | T_Circle | T_Ellipse | T_Line | T_Polyline | T_Polygon | T_Path
  | T_Image | T_Text | T_Use | T_G | T_Switch | T_Svg
  | T_Defs | T_LinearGradient | T_RadialGradient | T_Pattern | T_ClipPath | T_Mask | T_Filter
  | T_Marker | T_Symbol | T_Other.

Definition tag_idx (t : tag) : N :=
  match t with
  | T_Rect => 0 | T_Circle => 1 | T_Ellipse => 2 | T_Line => 3 | T_Polyline => 4 | T_Polygon => 5
  | T_Path => 6 | T_Image => 7 | T_Text => 8 | T_Use => 9 | T_G => 10 | T_Switch => 11 | T_Svg => 12
  | T_Defs => 13 | T_LinearGradient => 14 | T_RadialGradient => 15 | T_Pattern => 16
  | T_ClipPath => 17 | T_Mask => 18 | T_Filter => 19 | T_Marker => 20 | T_Symbol => 21 | T_Other => 22
  end%N.
Definition tag_eqb (a b : tag) : bool := N.eqb (tag_idx a) (tag_idx b).
Definition tag_in (t : tag) (l : list tag) : bool := existsb (tag_eqb t) l.

(* `is_visible_element`: the conjuncts, in source order *)
Inductive vis_test := V_DisplayNotNone | V_ValidTransform | V_ConditionPassed.
(* `is_condition_passed`: the `return false` tests, in source order *)
Inductive cond_test := CT_NotElement | CT_HasRequiredExtensions | CT_UnknownFeature | CT_SysLangMismatch.
(* `convert_group`: conjuncts of `is_empty` *)
Inductive empty_term := EM_NoChildren | EM_NotGOrUse | EM_NotForce.
(* `convert_group`: disjuncts of `required` *)
Inductive req_term :=
  RQ_Opacity | RQ_Clip | RQ_Mask | RQ_Filters | RQ_Transform | RQ_Blend | RQ_Isolate | RQ_GOrUse | RQ_Force.
(* `convert_element`: the order of its steps *)
Inductive dispatch_step := D_TagName | D_GraphicOrStructural | D_Visible | D_Use | D_Switch | D_Group.
(* `convert_group`: the order of its exits after the children were collected *)
Inductive group_step :=
  GS_EmptyNoFilterAttr | GS_ObjectBBox | GS_Clip | GS_Mask | GS_Filters | GS_NotRequired | GS_EmptyNoFilters | GS_Boxes
  | GS_EmptyFiltersFirst.   (* dd154cd: an element without content resolves its filters BEFORE clip-path / mask and is dropped when
                               they resolve to nothing *)
(* shapes.rs: lengths that must be `is_valid_length` *)
Inductive geom_attr := GA_Width | GA_Height | GA_R | GA_Rx | GA_Ry.

(* `filter` attribute of an element *)
Inductive filter_attr :=
  | FA_Absent                  (* no attribute *)
  | FA_NoneValue               (* filter="none" *)
  | FA_Value (v : string).     (* anything else: links and filter functions, resolved by filter::convert *)

(* What the converter reads from an element of the svgtree (after CSS/attribute resolution).
   Numeric leaf predicates of third-party code are booleans here. *)
Record attrs := {
  a_id : string;
  a_display_none : bool;          (* display == "none" *)
  a_ts_valid : bool;              (* has_valid_transform(AId::Transform) *)
  a_ts_identity : bool;           (* resolve_transform(..).is_identity() *)
  a_req_ext : bool;               (* has_attribute(requiredExtensions) *)
  a_features_known : bool;        (* every requiredFeatures entry is in FEATURES (true when absent) *)
  a_syslang_ok : bool;            (* is_valid_sys_lang *)
  a_opacity : Q;
  a_blend_normal : bool;
  a_isolate : bool;
  a_clip : option string;         (* attribute::<SvgNode>(clip-path): id of the linked element *)
  a_mask : option string;
  a_filter : filter_attr;
  (* resolved shape geometry *)
  a_width : Q; a_height : Q; a_r : Q; a_rx : Q; a_ry : Q;
  a_npoints : N                   (* PathBuilder::len() for polyline/polygon/path/line *)
}.

Definition has_filter_attr (a : attrs) : bool :=
  match a_filter a with FA_Absent => false | _ => true end.

(* svgtree node: `None` tag = text node *)
Inductive node := Node (tg : option tag) (a : attrs) (ch : nodes)
with nodes := NNil | NCons (n : node) (r : nodes).

Fixpoint napp (a b : nodes) : nodes :=
  match a with NNil => b | NCons x r => NCons x (napp r b) end.
Fixpoint of_list (l : list node) : nodes :=
  match l with [] => NNil | x :: r => NCons x (of_list r) end.

Definition node_tag (n : node) : option tag := match n with Node t _ _ => t end.
Definition node_attrs (n : node) : attrs := match n with Node _ a _ => a end.
Definition node_children (n : node) : nodes := match n with Node _ _ c => c end.

(* usvg tree under construction.  A group carries what `convert_group` decides. *)
Record gprops := {
  gp_opacity : Q;
  gp_ts_identity : bool;
  gp_blend_normal : bool;
  gp_isolate : bool;
  gp_clip : option string;
  gp_mask : option string;
  gp_filters : list string
}.
Inductive onode :=
  | OGroup (id : string) (pr : gprops) (ch : list onode)
  | OLeaf (k : tag) (id : string).
Record ogroup := { og_id : string; og_pr : gprops; og_ch : list onode }.
Definition og_node (g : ogroup) : onode := OGroup (og_id g) (og_pr g) (og_ch g).
Definition og_push (g : ogroup) (n : onode) : ogroup :=
  {| og_id := og_id g; og_pr := og_pr g; og_ch := og_ch g ++ [n] |}.
Definition og_append (g : ogroup) (l : list onode) : ogroup :=
  {| og_id := og_id g; og_pr := og_pr g; og_ch := og_ch g ++ l |}.

(* converter::Cache: generated-id counters, the pre-scanned ids, keys of the definition caches *)
Record cache := {
  c_all_ids : list string;
  c_lg : N; c_rg : N; c_pat : N; c_clip : N; c_mask : N; c_filter : N; c_image : N;
  c_clips : list string; c_masks : list string; c_filters : list string; c_paint : list string
}.

(* XML level (roxmltree) seen by svgtree::parse *)
Inductive attr_ns := ANS_None | ANS_Svg | ANS_Xlink | ANS_Xml | ANS_Foreign.
Definition attr_ns_eqb (a b : attr_ns) : bool :=
  match a, b with
  | ANS_None, ANS_None | ANS_Svg, ANS_Svg | ANS_Xlink, ANS_Xlink | ANS_Xml, ANS_Xml | ANS_Foreign, ANS_Foreign => true
  | _, _ => false
  end.

(* how svgtree::parse looks up the XML attributes / elements it treats specially *)
Inductive special_attr := SA_Style | SA_Id | SA_Class.
(* LK_NoNamespace: roxmltree lookup by a plain string = attribute / element WITHOUT a namespace (for elements: any
   namespace is accepted by has_tag_name(&str) - that is LK_LocalNameOnly); LK_SvgNamespace: (SVG_NS, name) *)
Inductive lookup_kind := LK_NoNamespace | LK_LocalNameOnly | LK_SvgNamespace.
Definition lookup_kind_eqb (a b : lookup_kind) : bool :=
  match a, b with
  | LK_NoNamespace, LK_NoNamespace | LK_LocalNameOnly, LK_LocalNameOnly | LK_SvgNamespace, LK_SvgNamespace => true
  | _, _ => false
  end.
(* simplecss::Element for XmlNode: the facts positional selectors rest on *)
Inductive css_fact := CF_ParentElement | CF_PrevSiblingElement | CF_FirstChildViaPrevSibling | CF_AttrMatchNoNamespace.

(* has_valid_transform: the conjuncts of its final test *)
Inductive ts_test := TT_IsValid | TT_DetRelTol.

(* parser/filter.rs, create_base_filter_func (filter FUNCTIONS such as blur(2)): the generated filter id is taken only after
   the element's bounding box was found to exist and the region was computed *)
Inductive filter_fact := FF_GenIdAfterRegionCheck | FF_NoBBoxReturnsEarly.

(* switch.rs is_valid_sys_lang: how one (trimmed) entry of systemLanguage is compared with one user language *)
Inductive lang_rule := LR_Exact | LR_PrefixDash | LR_StartsWith.

(* ---- extension round 4: what clip-path / mask resolution does to converter::Cache ----
   parser/mask.rs `convert` and parser/clippath.rs `convert`: the steps that return, read or write the cache, in source order
   (tables mask_steps / clip_steps of Gen/ConvTables.v). *)
Inductive mask_step :=
  | MS_TagCheck            (* link is not a `mask` element -> None *)
  | MS_Recursive           (* state.parent_defs.contains(node) -> None *)
  | MS_CacheLookup         (* cacheable && cache.masks has the id -> the cached mask *)
  | MS_Rect                (* invalid x/y/width/height -> None *)
  | MS_UnitsBBox           (* maskUnits = objectBoundingBox: bbox Some -> transformed rect, None -> mask_all *)
  | MS_GenId               (* empty id -> None; !cacheable && cache.masks has the id -> gen_mask_id *)
  | MS_MaskAllInsert       (* mask_all -> cache.masks.insert, Some *)
  | MS_Linked              (* mask attribute of the mask element *)
  | MS_ContentUnitsBBox    (* maskContentUnits = objectBoundingBox without bbox -> None *)
  | MS_Children            (* convert_children; no children -> None *)
  | MS_Insert.             (* cache.masks.insert, Some *)
Inductive clip_step :=
  | CS_TagCheck | CS_Recursive
  | CS_Transform           (* invalid transform -> None *)
  | CS_CacheLookup
  | CS_UnitsBBox           (* clipPathUnits = objectBoundingBox without bbox -> None *)
  | CS_Linked
  | CS_GenId
  | CS_Children            (* convert_clip_path_elements *)
  | CS_InsertIfChildren.   (* has children -> cache.clip_paths.insert, Some; else None *)

(* what the two resolvers read from the referenced element.  The conversion of its content (which may register further
   definitions) is a function on the cache that also says whether any child was produced. *)
Record def_info := {
  d_tag_ok : bool;          (* the link points to a mask (clipPath) element *)
  d_id : string;            (* element_id *)
  d_units_obb : bool;       (* maskUnits (default) / clipPathUnits = objectBoundingBox *)
  d_content_obb : bool;     (* maskContentUnits = objectBoundingBox (masks only) *)
  d_cacheable : bool;       (* is_cacheable(node) *)
  d_geom_ok : bool;         (* mask: the rect is a NonZeroRect; clipPath: the transform is valid *)
  d_link : option string;   (* `mask` attribute of the mask / `clip-path` attribute of the clipPath: id of the linked element *)
  d_content : cache -> cache * bool
}.

(* ---- second pass: every call site in crates/usvg/src/parser/*.rs of a function that converts an element, with the guard that
   precedes it (table call_sites of Gen/ConvTables.v: callee, enclosing function, guard) *)
Inductive site_guard :=
  | SG_VisibleBefore   (* `if !SUBJECT.is_visible_element(..) { return / continue }` precedes the call in the enclosing function *)
  | SG_OwnNode         (* the subject is the enclosing function's own `node` parameter (not rebound): vetted by ITS callers *)
  | SG_SymbolOfUse     (* use_node::convert hands the `symbol` child of a (vetted) `use` to its local convert_children: SVG says
                          display / conditional attributes do not apply to symbol *)
  | SG_Internal        (* the callee filters the elements itself (convert_element, convert_children, convert_clip_path_elements) *)
  | SG_None.           (* nothing of the above: an unguarded route to content conversion *)
