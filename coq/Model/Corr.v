(* Helpers for the correspondence checks: tolerant comparison and failing-index extraction.
   Used only by harness-generated case files (evaluated with vm_compute), never by proofs. *)
From RV Require Import Model.Base.
Local Open Scope Q_scope.

Definition Qabs' (a : Q) : Q := if Qleb 0 a then a else - a.
Definition Qmax' (a b : Q) : Q := if Qleb a b then b else a.
(* |a - b| <= tol * max(1, |a|, |b|) *)
Definition Qclose (tol a b : Q) : bool :=
  Qleb (Qabs' (a - b)) (tol * Qmax' 1 (Qmax' (Qabs' a) (Qabs' b))).
Definition ts_close (tol : Q) (a b : ts) : bool :=
  Qclose tol (t_sx a) (t_sx b) && Qclose tol (t_ky a) (t_ky b) && Qclose tol (t_kx a) (t_kx b) &&
  Qclose tol (t_sy a) (t_sy b) && Qclose tol (t_tx a) (t_tx b) && Qclose tol (t_ty a) (t_ty b).
Definition size_close (tol : Q) (a b : qsize) : bool :=
  Qclose tol (sw a) (sw b) && Qclose tol (sh a) (sh b).

Fixpoint bad_from {A} (f : A -> bool) (l : list A) (i : N) : list N :=
  match l with
  | [] => []
  | x :: r => if f x then bad_from f r (N.succ i) else i :: bad_from f r (N.succ i)
  end.
Definition bad_indices {A} (f : A -> bool) (l : list A) : list N := bad_from f l 0%N.

Definition opt_eqb {A} (f : A -> A -> bool) (a b : option A) : bool :=
  match a, b with Some x, Some y => f x y | None, None => true | _, _ => false end.
Definition irect_eqb (a b : irect) : bool :=
  (ix a =? ix b)%Z && (iy a =? iy b)%Z && (iw a =? iw b)%Z && (ih a =? ih b)%Z.
