(* Attribute records and the list primitives the source-derived `insert_fixup` (Gen/SvgInsert.v, the body of
   parse_svg_element's `insert_attribute` closure) is expressed in: Vec::swap, Vec::pop, indexing. *)
From Coq Require Import String.
From RV Require Import Model.Base Gen.SvgTables.

Record attr := { a_name : AId; a_value : string; a_imp : bool }.

Fixpoint set_nth (n : nat) (y : attr) (l : list attr) : list attr :=
  match l, n with
  | [], _ => []
  | _ :: r, O => y :: r
  | x :: r, S k => x :: set_nth k y r
  end.
(* Vec::swap (both indices in range, as in the code) *)
Definition swap_nth (i j : nat) (l : list attr) : list attr :=
  match nth_error l i, nth_error l j with
  | Some x, Some y => set_nth i y (set_nth j x l)
  | _, _ => l
  end.
(* `doc.attrs[i].important` *)
Definition attr_important (l : list attr) (i : nat) : bool :=
  match nth_error l i with Some x => a_imp x | None => false end.
(* `doc.attrs[i].value = v` (kept for translations of variants of the closure) *)
Definition set_value_nth (i : nat) (v : string) (l : list attr) : list attr :=
  match nth_error l i with
  | Some x => set_nth i {| a_name := a_name x; a_value := v; a_imp := a_imp x |} l
  | None => l
  end.
