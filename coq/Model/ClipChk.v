(* Checkers used only by the correspondence evaluations of tools/props/c15.py (vm_compute in scratch files). *)
From RV Require Import Model.Base.
From RV Require Import Model.F32.
From RV Require Import Gen.ClipTables.
From RV Require Import Model.Blend8.
From RV Require Import Model.ClipMask.
Local Open Scope Z_scope.

Definition mask_table : list Z := flat_map (fun m => map (fun c => scale_u8 c m) bytes) bytes.   (* index = m * 256 + c *)
Definition xor_alpha_table (d : Z) : list Z := flat_map (fun sa => map (fun s => xor_alpha_u8 sa d) bytes) bytes.
Definition alpha_table : list Z := flat_map (fun a => map (fun c => a) bytes) bytes.
Fixpoint lum_of_rgba (l : list Z) : list Z :=
  match l with
  | r :: g :: b :: a :: t => lum_mask_u8 r g b a :: lum_of_rgba t
  | _ => []
  end.
Definition lum_rows (rows : list Z) : list Z :=
  flat_map (fun a => map (fun c => lum_mask_u8 (Z.min c a) (Z.min c a) (Z.min c a) a) bytes) rows.
(* second pass: rows o = lo .. lo + n - 1 of the opacity table, index (o - lo) * 256 + c *)
Definition opacity_rows (lo : Z) (n : nat) : list Z :=
  flat_map (fun k => let o := opacity_of_byte k in map (fun c => opacity_u8 c o) bytes) (zrange n lo).
Definition opacity_row_f (o : f32) : list Z := map (fun c => opacity_u8 c o) bytes.
