(* C04 model of the value producers of usvg's parser.  The leaf expressions (clamps, guards, conditions and
   replacement values of the stop passes, unit table) are the SOURCE-DERIVED definitions of Gen/LeafStyle.v;
   this file adds the loop skeletons and third-party constructors around them:

     style.rs        resolve_stroke (width / miter limit / dash list), conv_dasharray
     paint_server.rs convert_stops (three passes), the `< 2 stops` and radial `r` guards
     shapes.rs       resolve_rx_ry + clamp of convert_rect
     text.rs         collect_text_chunks_impl: the per-character chunk / span builder
     strict-num      NormalizedF32::new_clamped, NonZeroPositiveF32::new
     tiny-skia-path  NonZeroRect::from_ltrb / from_xywh

   Executable definitions only (proofs: Proofs/Style.v).  Tied to the implementation by the correspondence
   operations of tools/props/c04.py (same inputs through the public API, comparison inside Coq). *)
From Coq Require Import String.
From RV Require Import Model.Base Model.StylePrims Gen.LeafStyle Model.TreeValid.
Local Open Scope Q_scope.

(* ---------------------------------------------------------------- strict-num *)
(* NormalizedF32::new_clamped: clamp to [0,1]; NaN and infinities give 0 *)
Definition new_clamped (x : xq) : xq :=
  match x with
  | Fin q => if Qltb q 0 then Fin 0 else if Qltb 1 q then Fin 1 else Fin q
  | _ => Fin 0
  end.
(* NonZeroPositiveF32::new / PositiveF32 of a valid length: finite and > 0 *)
Definition nz_positive_new (x : xq) : option xq :=
  if xq_finite x && xq_gtb x (Fin 0) then Some x else None.

(* ---------------------------------------------------------------- style.rs *)
Definition conv_dasharray (l : option (list xq)) : option (list xq) :=
  match l with
  | None => None
  | Some list =>
      if existsb dash_reject list then None
      else if dash_sum_is_zero (fold_left xq_add list (Fin 0)) then None
      else if dash_needs_doubling (length list) then Some (list ++ list)
      else Some list
  end.

(* what resolve_stroke reads: stroke-width after resolve_length, the stroke-miterlimit number if present,
   the stroke-dasharray list after convert_list if present *)
Record stroke_in := { si_width : xq; si_miter : option xq; si_dash : option (list xq) }.
Record stroke_out := { so_width : xq; so_miter : xq; so_dash : option (list xq) }.
Definition resolve_stroke (i : stroke_in) : option stroke_out :=
  match nz_positive_new (si_width i) with
  | None => None
  | Some w => Some {| so_width := w;
                      so_miter := stroke_miterlimit_new (miter_clamp (si_miter i));
                      so_dash := conv_dasharray (si_dash i) |}
  end.

(* ---------------------------------------------------------------- paint_server.rs: convert_stops *)
Section Stops.
  (* the pieces that Gen/LeafStyle.v derives from the source; kept as parameters here so that the
     theorems can be stated for every implementation of `x - EPSILON` (exact or f32-rounded) *)
  Variable dup3 : xq -> xq -> xq -> bool.
  Variable zero2 : xq -> xq -> bool.
  Variable zero_new : xq -> xq.
  Variable shift_cond : xq -> xq -> bool.
  Variable shift_min0 : xq.
  Variable shift_new : xq -> xq -> xq.

  (* pass 1: while i < len - 2: if dup3 s[i] s[i+1] s[i+2] then remove s[i+1] else i += 1 *)
  Fixpoint p1 (a b : xq) (r : list xq) : list xq :=
    match r with
    | [] => [a; b]
    | c :: r' => if dup3 a b c then p1 a c r' else a :: p1 b c r'
    end.
  Definition pass1 (l : list xq) : list xq := match l with a :: b :: r => p1 a b r | _ => l end.

  (* pass 2: for i in 0 .. len-1: if zero2 s[i] s[i+1] then s[i+1] := new_clamped (zero_new s[i]) *)
  Fixpoint p2 (a : xq) (r : list xq) : list xq :=
    match r with
    | [] => [a]
    | b :: r' => let b' := if zero2 a b then new_clamped (zero_new a) else b in a :: p2 b' r'
    end.
  Definition pass2 (l : list xq) : list xq := match l with a :: r => p2 a r | [] => [] end.

  (* pass 3: for i in 1 .. len: if shift_cond s[i-1] s[i] then
               s[i-1] := new_clamped (shift_new s[i-1] (i >= 2 ? s[i-2] : min0)); s[i] := new_clamped old s[i-1] *)
  Fixpoint p3 (m a : xq) (r : list xq) : list xq :=
    match r with
    | [] => [a]
    | b :: r' => if shift_cond a b
                 then let a' := new_clamped (shift_new a m) in a' :: p3 a' (new_clamped a) r'
                 else a :: p3 a b r'
    end.
  Definition pass3 (l : list xq) : list xq := match l with a :: r => p3 shift_min0 a r | [] => [] end.

  Definition convert_stops_with (offsets : list xq) : list xq :=
    pass3 (pass2 (pass1 (map (fun o => new_clamped (stop_offset_bound o)) offsets))).
End Stops.

(* the instance the source defines *)
Definition convert_stops (offsets : list xq) : list xq :=
  convert_stops_with stops_dup3 stops_zero2 stops_zero_new stops_shift_cond stops_shift_min0 stops_shift_new offsets.

(* convert_linear / convert_radial: a gradient needs two stops; a radial one a valid radius *)
Inductive grad_result := GNone | GColor | GServer (stops : list xq) (r : option xq).
Definition convert_gradient (offsets : option (list xq)) (radial_r : option xq) : grad_result :=
  match offsets with
  | None => GNone
  | Some offs =>
      let stops := convert_stops offs in
      if (length stops <? GRADIENT_MIN_STOPS)%nat then (match stops with [] => GNone | _ => GColor end)
      else match radial_r with
           | None => GServer stops None
           | Some r => if is_valid_length r then GServer stops (Some r) else GColor
           end
  end.

(* ---------------------------------------------------------------- tiny-skia-path NonZeroRect *)
Definition nz_from_ltrb (l t r b : xq) : option xrect :=
  if xq_finite l && xq_finite t && xq_finite r && xq_finite b && xq_ltb l r && xq_ltb t b
     && xq_finite (xq_sub r l) && xq_finite (xq_sub b t)
  then Some {| xr_x := l; xr_y := t; xr_w := xq_sub r l; xr_h := xq_sub b t |} else None.
Definition nz_from_xywh (x y w h : xq) : option xrect := nz_from_ltrb x y (xq_add w x) (xq_add h y).

(* ---------------------------------------------------------------- shapes.rs: rx / ry *)
(* an rx / ry attribute: the parsed number (its sign decides whether it is used) and its converted value *)
Record radius_attr := { ra_number : xq; ra_value : xq }.
Definition drop_negative (o : option radius_attr) : option radius_attr :=
  match o with Some v => if xq_sign_negative (ra_number v) then None else Some v | None => None end.
Definition resolve_rx_ry (rx_opt ry_opt : option radius_attr) : xq * xq :=
  match drop_negative rx_opt, drop_negative ry_opt with
  | None, None => (Fin 0, Fin 0)
  | Some rx, None => (ra_value rx, ra_value rx)
  | None, Some ry => (ra_value ry, ra_value ry)
  | Some rx, Some ry => (ra_value rx, ra_value ry)
  end.
(* convert_rect: None unless width and height are valid lengths; else the clamped radii *)
Definition rect_radii (width height : xq) (rx_opt ry_opt : option radius_attr) : option (xq * xq) :=
  if negb (is_valid_length width) then None
  else if negb (is_valid_length height) then None
  else let '(rx, ry) := resolve_rx_ry rx_opt ry_opt in Some (clamp_radii rx ry width height).

(* ---------------------------------------------------------------- text.rs: chunk / span builder *)
(* One step per character: (utf8 length, starts a new chunk?, first character of its text node?).
   Lists are kept newest-first while building. *)
Local Open Scope N_scope.
Record chunk := { ck_lens : list N; ck_spans : list (N * N) }.
Record tstate := { tc_chunks : list chunk; tc_bytes : N }.
Definition tstate0 : tstate := {| tc_chunks := []; tc_bytes := 0 |}.
Definition tstep (st : tstate) (c : N * bool * bool) : tstate :=
  let '(len, nc, ns) := c in
  match tc_chunks st with
  | [] => {| tc_chunks := [ {| ck_lens := [len]; ck_spans := [(0, len)] |} ]; tc_bytes := len |}
  | ck :: rest =>
      if nc then {| tc_chunks := {| ck_lens := [len]; ck_spans := [(0, len)] |} :: ck :: rest; tc_bytes := len |}
      else if ns then
        {| tc_chunks := {| ck_lens := len :: ck_lens ck;
                           ck_spans := (tc_bytes st, tc_bytes st + len) :: ck_spans ck |} :: rest;
           tc_bytes := tc_bytes st + len |}
      else
        {| tc_chunks := {| ck_lens := len :: ck_lens ck;
                           ck_spans := match ck_spans ck with
                                       | (s, e) :: sp => (s, e + len) :: sp
                                       | [] => []
                                       end |} :: rest;
           tc_bytes := tc_bytes st + len |}
  end.
Definition collect_chunks_rev (chars : list (N * bool * bool)) : tstate := fold_left tstep chars tstate0.
(* final result in document order *)
Definition chunk_out (c : chunk) : chunk := {| ck_lens := rev (ck_lens c); ck_spans := rev (ck_spans c) |}.
Definition collect_chunks (chars : list (N * bool * bool)) : list chunk :=
  rev (map chunk_out (tc_chunks (collect_chunks_rev chars))).
Definition sumN (l : list N) : N := fold_right N.add 0 l.
(* positions that are character boundaries: sums of whole prefixes of the utf8 lengths *)
Fixpoint prefix_sums_from (acc : N) (l : list N) : list N :=
  match l with [] => [acc] | x :: r => acc :: prefix_sums_from (acc + x) r end.
Definition prefix_sums (l : list N) : list N := prefix_sums_from 0 l.
Definition chunk_ok (c : chunk) : bool :=
  spans_tile_from (ck_spans c) 0 (sumN (ck_lens c))
  && match ck_spans c with [] => false | _ => true end
  && forallb (fun p => existsb (N.eqb (fst p)) (prefix_sums (ck_lens c))
                       && existsb (N.eqb (snd p)) (prefix_sums (ck_lens c))) (ck_spans c).

(* ---------------------------------------------------------------- tiny-skia-path Transform::concat *)
(* Products of finite transforms as usvg stores them (abs_transform = parent.abs_transform x transform;
   `use`: transform x translate(x, y) x viewBox mapping; resolved gradient: definition transform x bbox
   mapping).  `mul_add_mul` works in f64 and casts once; the no-skew branch multiplies and adds in f32. *)
Local Open Scope Q_scope.
Definition ts_is_identity (t : ts) : bool :=
  Qeqb (t_sx t) 1 && Qeqb (t_ky t) 0 && Qeqb (t_kx t) 0 && Qeqb (t_sy t) 1 && Qeqb (t_tx t) 0 && Qeqb (t_ty t) 0.
Definition ts_has_skew (t : ts) : bool := negb (Qeqb (t_kx t) 0) || negb (Qeqb (t_ky t) 0).
Definition ts_fin (t : ts) : list xq := [Fin (t_sx t); Fin (t_ky t); Fin (t_kx t); Fin (t_sy t); Fin (t_tx t); Fin (t_ty t)].
Definition mul_add_mul (a b c d : Q) : xq := xq_norm (a * b + c * d).
Definition xts_concat (a b : ts) : list xq :=
  if ts_is_identity a then ts_fin b
  else if ts_is_identity b then ts_fin a
  else if negb (ts_has_skew a) && negb (ts_has_skew b) then
    [xq_norm (t_sx a * t_sx b); Fin 0; Fin 0; xq_norm (t_sy a * t_sy b);
     xq_add (xq_norm (t_sx a * t_tx b)) (Fin (t_tx a)); xq_add (xq_norm (t_sy a * t_ty b)) (Fin (t_ty a))]
  else
    [mul_add_mul (t_sx a) (t_sx b) (t_kx a) (t_ky b); mul_add_mul (t_ky a) (t_sx b) (t_sy a) (t_ky b);
     mul_add_mul (t_sx a) (t_kx b) (t_kx a) (t_sy b); mul_add_mul (t_ky a) (t_kx b) (t_sy a) (t_sy b);
     xq_add (mul_add_mul (t_sx a) (t_tx b) (t_kx a) (t_ty b)) (Fin (t_tx a));
     xq_add (mul_add_mul (t_ky a) (t_tx b) (t_sy a) (t_ty b)) (Fin (t_ty a))].
(* magnitude of a transform and the known class: the product may leave the f32 range *)
Definition Qabs_m (a : Q) : Q := if Qleb 0 a then a else - a.
Definition Qmax_m (a b : Q) : Q := if Qleb a b then b else a.
Definition ts_mag (t : ts) : Q :=
  Qmax_m (Qabs_m (t_sx t)) (Qmax_m (Qabs_m (t_ky t)) (Qmax_m (Qabs_m (t_kx t))
    (Qmax_m (Qabs_m (t_sy t)) (Qmax_m (Qabs_m (t_tx t)) (Qabs_m (t_ty t)))))).
Definition KnownClass_product_overflow (a b : ts) : bool :=
  negb (Qleb (2 * ts_mag a * ts_mag b + ts_mag a) F32_MAX).

(* ---------------------------------------------------------------- the `inherit` keyword *)
(* Hand-reviewed: the presentation attributes usvg reads whose grammar accepts the keyword `inherit` (SVG 1.1 property
   index + the SVG 2 / CSS text properties usvg supports).  svgtree resolves the keyword only for the attributes of
   `AId::allows_inherit_value` (Gen/LeafStyle.v allows_inherit_value_list); an attribute missing there keeps the literal
   text `inherit` as its value (font-family="inherit" becomes the family name `inherit`). *)
Local Open Scope string_scope.
Definition expected_inherit_attrs : list string :=
  ["AlignmentBaseline"; "BaselineShift"; "ClipPath"; "ClipRule"; "Color"; "ColorInterpolationFilters"; "Direction"; "Display";
   "DominantBaseline"; "Fill"; "FillOpacity"; "FillRule"; "Filter"; "FloodColor"; "FloodOpacity"; "FontFamily"; "FontKerning";
   "FontSize"; "FontStretch"; "FontStyle"; "FontVariant"; "FontWeight"; "ImageRendering"; "Kerning"; "LetterSpacing"; "MarkerEnd";
   "MarkerMid"; "MarkerStart"; "Mask"; "Opacity"; "Overflow"; "ShapeRendering"; "StopColor"; "StopOpacity"; "Stroke";
   "StrokeDasharray"; "StrokeDashoffset"; "StrokeLinecap"; "StrokeLinejoin"; "StrokeMiterlimit"; "StrokeOpacity"; "StrokeWidth";
   "TextAnchor"; "TextDecoration"; "TextRendering"; "Visibility"; "WordSpacing"; "WritingMode"].
Definition inherit_resolved (a : string) : bool := existsb (String.eqb a) allows_inherit_value_list.
Definition inherit_missing : list string := filter (fun a => negb (inherit_resolved a)) expected_inherit_attrs.
