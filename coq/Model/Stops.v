(* C08: the <stop> children of a written gradient (Gen/StopSites.v, tools/gen_stops.py).  A stop = (offset, colour, opacity);
   written = (offset, colour, stop-opacity attribute or nothing).  The reading here is the parser's per-stop reading
   (convert_stops BEFORE its offset normalisation; that normalisation is not idempotent on a hard edge - two stops it
   separated by f32::EPSILON are within 4 ulps and get shifted again: class stop-offset-shift-drift, found by the stop rows of enum-rt).  A loop that can skip an iteration guarantees nothing: modelled as writing no stop. *)
From RV Require Import Gen.StopSites.
From Coq Require Import String List Bool QArith NArith.
Import ListNotations.

Definition stop := (Q * N * Q)%type.
Definition wstop := (Q * N * option Q)%type.
Definition write_stop (s : stop) : wstop :=
  match s with (o, c, a) => (o, c, if Qeq_bool a 1 then None else Some a) end.
Definition read_stop (w : wstop) : stop :=
  match w with (o, c, a) => (o, c, match a with Some x => x | None => 1 end) end.
Definition stop_loop_plain : bool := match stop_loop_skips with [] => true | _ => false end.
Definition write_stops (l : list stop) : list wstop := if stop_loop_plain then map write_stop l else [].
Definition stop_eq (a b : stop) : Prop := fst (fst a) == fst (fst b) /\ snd (fst a) = snd (fst b) /\ snd a == snd b.
Definition chk_stop_fields : bool :=
  match stop_fields with
  | [(a1, f1); (a2, f2); (a3, f3)] =>
      String.eqb a1 "Offset" && String.eqb f1 "offset" && String.eqb a2 "StopColor" && String.eqb f2 "color" &&
      String.eqb a3 "StopOpacity" && String.eqb f3 "opacity"
  | _ => false
  end.
