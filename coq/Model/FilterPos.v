(* C13 (extension round 4): where filter primitives that depend on absolute position take their coordinates from.
   The leaf computations (turb_offset, turb_sample, point_light_xy, spot_light_xy, spot_points_at_xy,
   filter_canvas_draw_pos) are the SOURCE-DERIVED definitions of Gen/LeafFilterPos.v (tools/gen_filterpos.py, from
   crates/resvg/src/filter/{mod,turbulence}.rs); this file only says how two renderings of one filtered group relate.

   A filtered group is rendered into a layer with device origin (ox, oy); the filter runs with the layer-local
   transform t = T - (ox, oy) (T = accumulated device transform) and the region computed from t.  When the root moves
   by the integer vector (dx, dy), T moves by (dx, dy) and the layer origin by (dx - ex, dy - ey): (ex, ey) = (0, 0) when
   the layer follows its content, (ex, ey) = (dx, dy) when the layer box is clamped to max_bbox on that side.  Hence the
   layer-local transform becomes `ts_shift ex ey t` and the region (floor / ceil of t-mapped boxes: C13_floor_ceil_shift)
   `ishift ex ey region`.  Executable definitions only. *)
From RV Require Import Model.Base Model.RenderPrims Model.Render Gen.LeafFilterPos.
Local Open Scope Q_scope.

Definition ts_shift (ex ey : Z) (t : ts) : ts :=
  from_row (t_sx t) (t_ky t) (t_kx t) (t_sy t) (t_tx t + inject_Z ex) (t_ty t + inject_Z ey).

Definition qpair_eq (a b : Q * Q) : Prop := fst a == fst b /\ snd a == snd b.
Definition qpair_eqb (a b : Q * Q) : bool := Qeqb (fst a) (fst b) && Qeqb (snd a) (snd b).

(* the point of the noise lattice (in filter user space) that device pixel (px, py) shows: the layer is composited
   at its origin (C14_offset_consistent), the result image is drawn onto the layer at filter_canvas_draw_pos *)
Definition turb_device_sample (px py ox oy : Z) (region : irect) (t : ts) (sx sy : Q) : Q * Q :=
  turb_sample (inject_Z (px - ox - fst filter_canvas_draw_pos)) (inject_Z (py - oy - snd filter_canvas_draw_pos))
              (fst (turb_offset region t)) (snd (turb_offset region t)) sx sy.

(* correspondence with the real transform_light_source (harness op c13-light): all inputs are multiples of 1/4 of
   moderate size, so the f32 computation is exact; the implementation's values come in sixteenths *)
Definition chk_light (spot : bool) (lx ly px py : Q) (region : irect) (t : ts) (impl : list Z) : bool :=
  let m := if spot then
             [fst (spot_light_xy lx ly region t); snd (spot_light_xy lx ly region t);
              fst (spot_points_at_xy px py region t); snd (spot_points_at_xy px py region t)]
           else [fst (point_light_xy lx ly region t); snd (point_light_xy lx ly region t); 0; 0] in
  (Nat.eqb (length impl) 4) &&
  forallb (fun p => Qeqb (fst p * 16) (inject_Z (snd p))) (combine m impl).

(* model search: is the light / the turbulence phase the same in the two renderings? *)
Definition chk_spot_frame (lx ly : Q) (region : irect) (t : ts) (ex ey : Z) : bool :=
  qpair_eqb (spot_light_xy lx ly (ishift ex ey region) (ts_shift ex ey t)) (spot_light_xy lx ly region t).
Definition chk_turb_device (px py ox oy dx dy ex ey : Z) (region : irect) (t : ts) (sx sy : Q) : bool :=
  qpair_eqb (turb_device_sample (px + dx) (py + dy) (ox + dx - ex) (oy + dy - ey) (ishift ex ey region) (ts_shift ex ey t) sx sy)
            (turb_device_sample px py ox oy region t sx sy).
Definition chk_point_frame (lx ly : Q) (region : irect) (t : ts) (ex ey : Z) : bool :=
  qpair_eqb (point_light_xy lx ly (ishift ex ey region) (ts_shift ex ey t)) (point_light_xy lx ly region t).
Definition chk_offset_frame (region : irect) (t : ts) (ex ey : Z) : bool :=
  qpair_eqb (turb_offset (ishift ex ey region) (ts_shift ex ey t)) (turb_offset region t).
(* the four clauses on one frame move: 0 = holds; order: turbulence offset, point light, spot light,
   turbulence phase with an unclamped layer *)
Definition filterpos_verdicts (lx ly : Q) (region : irect) (t : ts) (ex ey dx dy : Z) : list N :=
  map (fun b : bool => if b then 0%N else 1%N)
      [chk_offset_frame region t ex ey; chk_point_frame lx ly region t ex ey; chk_spot_frame lx ly region t ex ey;
       chk_turb_device 10 10 (ix region) (iy region) dx dy 0 0 region t (t_sx t) (t_sy t)].

(* ------------------------------------------------------------------ second pass *)
(* device position of a feImage: layer origin + where the result lands on the layer + where the image lands in the result *)
Definition feimage_device_pos (ox oy : Z) (subregion region : irect) : Z * Z :=
  ((ox + fst filter_canvas_draw_pos + fst (feimage_pos subregion region))%Z,
   (oy + snd filter_canvas_draw_pos + snd (feimage_pos subregion region))%Z).
(* feOffset / feDropShadow: scale_coordinates with (sx, sy) = ts.get_scale(); tiny-skia's get_scale is
   (hyp sx kx, hyp ky sy) with hyp a b = sqrt(a^2 + b^2): a function of the linear part (any `hyp`) *)
Definition offset_of (hyp : Q -> Q -> Q) (dx dy : Q) (t : ts) : Q * Q :=
  scale_coordinates_q dx dy (hyp (t_sx t) (t_kx t)) (hyp (t_ky t) (t_sy t)).
(* a pattern-filled path: tiny-skia maps tile space to the device by (path transform) . (shader transform) *)
Definition pattern_device_ts (T pattern_ts : ts) (rect_x rect_y sx sy : Q) : ts :=
  ts_concat T (pattern_shader_ts pattern_ts rect_x rect_y sx sy).
Definition opt_irect_eqb (a b : option irect) : bool :=
  match a, b with
  | Some x, Some y => (ix x =? ix y)%Z && (iy x =? iy y)%Z && (iw x =? iw y)%Z && (ih x =? ih y)%Z
  | None, None => true | _, _ => false end.
(* second-pass clauses on one frame move (0 = holds): clip sub-region, tile origin, feImage device position *)
Definition filterpos_verdicts2 (sub region : irect) (ox oy dx dy ex ey : Z) : list N :=
  map (fun b : bool => if b then 0%N else 1%N)
      [opt_irect_eqb (translate_checked (ishift ex ey sub) (ishift ex ey region)) (translate_checked sub region);
       match tile_origin (ishift ex ey sub) (ishift ex ey region), tile_origin sub region with
       | Some a, Some b => (fst a =? fst b)%Z && (snd a =? snd b)%Z | None, None => true | _, _ => false end;
       let a := feimage_device_pos (ox + dx - ex) (oy + dy - ey) (ishift ex ey sub) (ishift ex ey region) in
       let b := feimage_device_pos ox oy sub region in
       (fst a =? fst b + dx)%Z && (snd a =? snd b + dy)%Z].
