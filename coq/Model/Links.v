(* C03 model: how usvg follows references after the svgtree has been built.

   (a) the svgtree pre-pass of svgtree/parse.rs: fix_recursive_patterns / fix_recursive_links /
       fix_recursive_fe_image (`while let Some(id) = find..(doc) { attribute := "none" }`)
   (b) (use expansion lives in Model/SvgBuild.v)
   (c) HrefIter (svgtree/mod.rs) and its two consumers find_pattern_with_children /
       find_filter_with_primitives
   (d) the converter's reference-following recursion (converter.rs convert_element / convert_group /
       convert_path, clippath.rs, mask.rs, filter.rs convert + convert_url + feImage, paint_server.rs
       convert + convert_pattern, marker.rs convert + resolve, use_node.rs) with State::parent_defs,
       State::parent_markers and the per-kind caches.
   Every guard is applied `if G_<name>` where G_<name> is read from the source by tools/gen_links.py
   (Gen/LinkGuards.v).  Geometry, paint values, text and images are abstracted away: a conversion
   yields the skeleton of the produced tree (which paths and groups exist, with their ids).
   Executable Gallina only. *)
From Coq Require Import ZArith NArith List Bool Lia.
From RV Require Import Gen.Consts Gen.LinkGuards Model.SvgBuild.
Import ListNotations.

Fixpoint find_map {A B} (f : A -> option B) (l : list A) : option B :=
  match l with
  | [] => None
  | x :: r => match f x with Some b => Some b | None => find_map f r end
  end.

(* SvgNode::node_attribute / attribute::<SvgNode>: parse the (Func)IRI, then doc.element_by_id *)
(* extension round 4, second pass: list-valued `filter` attributes.  The entries of filter="url(#a) blur(2) url(#b)"
   are the attribute entries with key AFilter, in order: Some n = url(#n), None = a filter function.  A value without
   any url entry is `none` / absent (function-only lists are outside the modelled fragment). *)
Definition is_filter_key (kv : akey * option N) : bool := akey_eqb AFilter (fst kv).
Definition flist (a : attrs) : list (option N) := map snd (filter is_filter_key a).
Definition is_flist (k : akey) (a : attrs) : bool := akey_eqb k AFilter && Nat.ltb 1 (length (flist a)).
Definition is_some {A} (o : option A) : bool := match o with Some _ => true | None => false end.

(* SvgNode::node_attribute parses the value with svgtypes::FuncIRI::from_str (IRI for href), which rejects a list:
   G_NODEATTR_FUNCIRI *)
Definition node_attr (d : snode) (k : akey) (n : snode) : option snode :=
  if G_NODEATTR_FUNCIRI && is_flist k (s_attrs n) then None else
  match attr_link k (s_attrs n) with Some nm => lookup d nm | None => None end.

Definition has_link (k : akey) (n : snode) : bool :=
  match attr_link k (s_attrs n) with Some _ => true | None => false end.

(* ------------------------------------------------------------------------------------------ *)
(* (a) pre-pass                                                                                *)
(* ------------------------------------------------------------------------------------------ *)

(* doc.attrs[attribute_id(aid)].value = "none": the whole value, i.e. every entry of a list *)
Fixpoint attrs_set_none (k : akey) (l : attrs) : attrs :=
  match l with
  | [] => []
  | (k', v) :: r => if akey_eqb k k' then (k', None) :: attrs_set_none k r else (k', v) :: attrs_set_none k r
  end.

Fixpoint set_none (id : nat) (k : akey) (x : snode) : snode :=
  match x with
  | SN i t n f a ks => SN i t n f (if Nat.eqb i id then attrs_set_none k a else a) (map (set_none id k) ks)
  end.

(* what the outer scans of find_recursive_link / find_recursive_pattern range over: the descendants of the
   element under test (G_PRE_*_SCOPE, read from the `for` headers); an unrecognised header = the whole document *)
Definition link_scope (d node : snode) : list snode := if G_PRE_LINK_SCOPE then sflat node else sflat d.
Definition pat_scope (d p : snode) : list snode := if G_PRE_PAT_SCOPE then sflat p else sflat d.

(* find_recursive_pattern(aid): ids are compared as strings (element_id) *)
Definition find_recursive_pattern (k : akey) (d : snode) : option nat :=
  find_map (fun p =>
    if tag_eqb (s_tag p) TPattern then
      find_map (fun node =>
        match attr_link k (s_attrs node) with
        | None => None
        | Some lid =>
            if optN_eqb (Some lid) (s_name p) then
              (if G_PRE_PAT_SELF then Some (s_id node) else None)
            else if G_PRE_PAT_TWO then
              match lookup d lid with
              | None => None
              | Some ln =>
                  find_map (fun n2 =>
                    match attr_link k (s_attrs n2) with
                    | Some l2 => if optN_eqb (Some l2) (s_name p) then Some (s_id n2) else None
                    | None => None
                    end) (sflat ln)
              end
            else None
        end) (pat_scope d p)
    else None) (sflat d).

(* find_recursive_link(eid, aid): nodes are compared by identity *)
Definition find_recursive_link (e : tagk) (k : akey) (d : snode) : option nat :=
  find_map (fun node =>
    if tag_eqb (s_tag node) e then
      find_map (fun child =>
        match node_attr d k child with
        | None => None
        | Some link =>
            if Nat.eqb (s_id link) (s_id node) then
              (if G_PRE_LINK_SELF then Some (s_id child) else None)
            else if G_PRE_LINK_TWO then
              find_map (fun n2 =>
                match node_attr d k n2 with
                | Some l2 => if Nat.eqb (s_id l2) (s_id node) then Some (s_id n2) else None
                | None => None
                end) (sflat link)
            else None
        end) (link_scope d node)
    else None) (sflat d).

(* `while let Some(id) = find(doc) { set none }`; the result says whether the loop left by itself *)
Fixpoint fix_loop (fuel : nat) (find : snode -> option nat) (k : akey) (d : snode) : snode * nat * bool :=
  match find d with
  | None => (d, O, true)
  | Some id =>
      match fuel with
      | O => (d, O, false)
      | S f => match fix_loop f find k (set_none id k d) with (d', n, fin) => (d', S n, fin) end
      end
  end.

Definition count_links (k : akey) (d : snode) : nat := length (filter (has_link k) (sflat d)).
Definition run_loop (find : snode -> option nat) (k : akey) (d : snode) : snode * nat * bool :=
  fix_loop (count_links k d) find k d.
Definition loop_doc (find : snode -> option nat) (k : akey) (d : snode) : snode :=
  fst (fst (run_loop find k d)).

(* fix_recursive_fe_image: the element an feImage links is compared with the id of the feImage's parent *)
Definition fe_image_ids (d : snode) : list nat :=
  flat_map (fun p =>
    flat_map (fun fe =>
      if tag_eqb (s_tag fe) TFeImage then
        match node_attr d AHref fe with
        | Some link =>
            (* FilterValueListParser: one push per url entry that names the filter *)
            flat_map (fun e => match e with
                               | Some u => if optN_eqb (Some u) (s_name p) then [s_id link] else []
                               | None => []
                               end) (flist (s_attrs link))
        | None => []
        end
      else []) (s_kids p)) (sflat d).
Definition fix_fe_image (d : snode) : snode :=
  if G_PRE_FEIMAGE then fold_left (fun d id => set_none id AFilter d) (fe_image_ids d) d else d.

Definition prepass_step (s : pstep) (d : snode) : snode :=
  match s with
  | PPatterns =>
      if G_PRE_PAT_LOOPS
      then loop_doc (find_recursive_pattern AStroke) AStroke (loop_doc (find_recursive_pattern AFill) AFill d)
      else d
  | PLinkClip => if G_PRE_LINK_LOOP then loop_doc (find_recursive_link TClipPath AClip) AClip d else d
  | PLinkMask => if G_PRE_LINK_LOOP then loop_doc (find_recursive_link TMask AMask) AMask d else d
  | PLinkFilter => if G_PRE_LINK_LOOP then loop_doc (find_recursive_link TFilter AFilter) AFilter d else d
  | PFeImage => fix_fe_image d
  | PUnknown => d
  end.
Definition prepass (d : snode) : snode := fold_left (fun d s => prepass_step s d) PREPASS d.

(* which (node, attribute) pairs carry a link: what the `prepass` correspondence compares *)
Definition link_table (d : snode) : list (nat * akey * N) :=
  flat_map (fun n => flat_map (fun kv => match kv with (k, Some v) => [(s_id n, k, v)] | _ => [] end) (s_attrs n)) (sflat d).

(* ------------------------------------------------------------------------------------------ *)
(* inherited attributes: fill / stroke / marker-* are looked up on the ancestors *in the tree*   *)
(* (ancestors().find(has_attribute), find_attribute); marker::is_valid rejects shapes with a     *)
(* clipPath ancestor.  The pass makes every node carry its effective values.                     *)
(* ------------------------------------------------------------------------------------------ *)
Definition inh_keys : list akey := [AFill; AStroke; AMStart; AMMid; AMEnd].
Definition is_inh (k : akey) : bool := existsb (akey_eqb k) inh_keys.
Definition is_marker_key (k : akey) : bool :=
  match k with AMStart | AMMid | AMEnd => true | _ => false end.

Definition eff_env (env own : attrs) : attrs :=
  flat_map (fun k => match attr_get k own with
                     | Some v => [(k, v)]
                     | None => match attr_get k env with Some v => [(k, v)] | None => [] end
                     end) inh_keys.

Fixpoint inherit (env : attrs) (under_clip : bool) (x : snode) : snode :=
  match x with
  | SN i t n f a ks =>
      let env' := eff_env env a in
      let uc := under_clip || tag_eqb t TClipPath in
      let shown := if uc then filter (fun kv => negb (is_marker_key (fst kv))) env' else env' in
      SN i t n f (filter (fun kv => negb (is_inh (fst kv))) a ++ shown) (map (inherit env' uc) ks)
  end.

(* ------------------------------------------------------------------------------------------ *)
(* (c) HrefIter                                                                                *)
(* ------------------------------------------------------------------------------------------ *)
(* -> (elements yielded after the first, ran out of fuel) *)
Fixpoint href_go (fuel : nat) (d : snode) (len : nat) (origin curr : snode) (steps : nat) : list snode * bool :=
  match node_attr d AHref curr with
  | None => ([], false)
  | Some link =>
      let steps' := S steps in
      if (G_HREF_SELF && Nat.eqb (s_id link) (s_id curr))
         || (G_HREF_ORIGIN && Nat.eqb (s_id link) (s_id origin))
         || (G_HREF_STEPS && Nat.ltb len steps')
      then ([], false)
      else match fuel with
           | O => ([], true)
           | S f => match href_go f d len origin link steps' with (l, o) => (link :: l, o) end
           end
  end.
Definition href_iter (d n : snode) : list snode * bool :=
  let len := length (sflat d) in
  match href_go (S len) d len n n O with (l, o) => (n :: l, o) end.

Definition has_kids (x : snode) : bool := match s_kids x with [] => false | _ => true end.
(* find_pattern_with_children / find_filter_with_primitives *)
Fixpoint first_with_children (t : tagk) (l : list snode) : option snode :=
  match l with
  | [] => None
  | x :: r => if negb (tag_eqb (s_tag x) t) then None else if has_kids x then Some x else first_with_children t r
  end.
Definition template_of (d : snode) (t : tagk) (n : snode) : option snode :=
  first_with_children t (fst (href_iter d n)).

(* ------------------------------------------------------------------------------------------ *)
(* (d) converter                                                                               *)
(* ------------------------------------------------------------------------------------------ *)
Inductive item := IPath (name : option N) | IGroup (name : option N) (body : list item).

Fixpoint item_has_path (i : item) : bool :=
  match i with IPath _ => true | IGroup _ b => existsb item_has_path b end.
Definition has_path (l : list item) : bool := existsb item_has_path l.
Definition nonempty {A} (l : list A) : bool := match l with [] => false | _ => true end.

Inductive defmode := MClip | MMask | MFilter | MPattern | MMarker.

Record cstate := { st_defs : list nat; st_markers : list nat; st_clip : bool }.
(* ca_log is a ghost trace: (kind, element, parent_defs, parent_markers) at every push *)
Record cache := { ca_clip : list N; ca_mask : list N; ca_filter : list N; ca_paint : list N;
                  ca_log : list (defmode * nat * list nat * list nat) }.
Inductive cres (A : Type) := Done (a : A) (c : cache) | Fuel.
Arguments Done {A} a c.
Arguments Fuel {A}.

Definition bind {A B} (r : cres A) (f : A -> cache -> cres B) : cres B :=
  match r with Done a c => f a c | Fuel => Fuel end.

Definition memN (n : N) (l : list N) : bool := existsb (N.eqb n) l.
Definition mem_nat (n : nat) (l : list nat) : bool := existsb (Nat.eqb n) l.
Definition cached (sel : cache -> list N) (n : option N) (c : cache) : bool :=
  match n with Some x => memN x (sel c) | None => false end.

Definition ins_clip (n : N) (c : cache) := {| ca_clip := n :: ca_clip c; ca_mask := ca_mask c; ca_filter := ca_filter c; ca_paint := ca_paint c; ca_log := ca_log c |}.
Definition ins_mask (n : N) (c : cache) := {| ca_clip := ca_clip c; ca_mask := n :: ca_mask c; ca_filter := ca_filter c; ca_paint := ca_paint c; ca_log := ca_log c |}.
Definition ins_filter (n : N) (c : cache) := {| ca_clip := ca_clip c; ca_mask := ca_mask c; ca_filter := n :: ca_filter c; ca_paint := ca_paint c; ca_log := ca_log c |}.
Definition ins_paint (n : N) (c : cache) := {| ca_clip := ca_clip c; ca_mask := ca_mask c; ca_filter := ca_filter c; ca_paint := n :: ca_paint c; ca_log := ca_log c |}.
Definition log_push (m : defmode) (id : nat) (st : cstate) (c : cache) :=
  {| ca_clip := ca_clip c; ca_mask := ca_mask c; ca_filter := ca_filter c; ca_paint := ca_paint c;
     ca_log := (m, id, st_defs st, st_markers st) :: ca_log c |}.

Definition in_stack (m : defmode) (st : cstate) (id : nat) : bool :=
  match m with MMarker => mem_nat id (st_markers st) | _ => mem_nat id (st_defs st) end.
Definition push (m : defmode) (st : cstate) (id : nat) : cstate :=
  match m with
  | MMarker => {| st_defs := st_defs st; st_markers := id :: st_markers st; st_clip := st_clip st |}
  | _ => {| st_defs := id :: st_defs st; st_markers := st_markers st; st_clip := st_clip st |}
  end.
Definition set_clip (st : cstate) : cstate :=
  {| st_defs := st_defs st; st_markers := st_markers st; st_clip := true |}.
Definition guard_check (m : defmode) : bool :=
  (* G_FLIST_VIA_URL: every url entry of a filter list goes through convert_url with the caller's state *)
  match m with MClip => G_CLIP_CHECK | MMask => G_MASK_CHECK | MFilter => G_FILTER_CHECK && G_FLIST_VIA_URL
             | MPattern => G_PATTERN_CHECK | MMarker => G_MARKER_CHECK end.
(* G_STATE_ROOTS: no State literal / reset outside convert_doc and resolve_svg_size, so whatever was pushed stays pushed *)
(* G_SWITCH_AS_GROUP: switch::convert hands the caller's state to the one child it converts (final pass) *)
Definition guard_push (m : defmode) : bool :=
  G_STATE_ROOTS && G_SWITCH_AS_GROUP &&
  match m with MClip => G_CLIP_PUSH | MMask => G_MASK_PUSH | MFilter => G_FILTER_PUSH
             | MPattern => G_PATTERN_PUSH | MMarker => G_MARKER_PUSH end.

Section Conv.
Variable d : snode.         (* the document all lookups go to *)

Section Elem.
(* the conversion of a referenced definition: (kind, element, state, object has a bbox, cache) -> valid? *)
Variable follow : defmode -> snode -> cstate -> bool -> cache -> cres bool.

(* style::convert_paint for fill / stroke: only a pattern recurses; the cache is consulted first *)
Definition paint (k : akey) (n : snode) (st : cstate) (c : cache) : cres unit :=
  if st_clip st then Done tt c          (* clipPath children: black fill, no stroke *)
  else match node_attr d k n with
       | Some l =>
           if tag_eqb (s_tag l) TPattern then
             if cached ca_paint (s_name l) c then Done tt c
             else bind (follow MPattern l st true c)
                       (fun ok c1 => Done tt (match ok, s_name l with true, Some nm => ins_paint nm c1 | _, _ => c1 end))
           else Done tt c
       | None => Done tt c
       end.

Definition marker1 (k : akey) (n : snode) (st : cstate) (c : cache) : cres unit :=
  match node_attr d k n with
  | Some l => if tag_eqb (s_tag l) TMarker then bind (follow MMarker l st true c) (fun _ c1 => Done tt c1) else Done tt c
  | None => Done tt c
  end.

(* converter::convert_path *)
Definition path (n : snode) (st : cstate) (c : cache) : cres (list item) :=
  bind (paint AFill n st c) (fun _ c1 =>
  bind (paint AStroke n st c1) (fun _ c2 =>
  bind (marker1 AMStart n st c2) (fun _ c3 =>
  bind (marker1 AMMid n st c3) (fun _ c4 =>
  bind (marker1 AMEnd n st c4) (fun _ c5 =>
  Done [IPath (match st_markers st with [] => s_name n | _ => None end)] c5))))).

(* converter::convert_group around already collected children *)
Definition is_g_or_use (n : snode) : bool := tag_eqb (s_tag n) TG || tag_eqb (s_tag n) TUse.
Definition group_empty (n : snode) (items : list item) : bool := negb (nonempty items) && negb (is_g_or_use n).

Definition g_finish (n : snode) (st : cstate) (items : list item) (hc hm hf : bool) (c : cache) : cres (list item) :=
  if negb (hc || hm || hf || is_g_or_use n) then Done items c          (* not required: children move to the parent *)
  else if group_empty n items && negb hf then Done [] c
  else Done [IGroup (match is_g_or_use n, st_markers st with true, [] => s_name n | _, _ => None end) items] c.

(* filter::convert: the loop over FilterValueListParser.  -> (a filter was produced, an url was invalid) *)
Fixpoint flist_conv (es : list (option N)) (st : cstate) (bbox : bool) (got inv : bool) (c : cache) : cres (bool * bool) :=
  match es with
  | [] => Done (got, inv) c
  | None :: r => flist_conv r st bbox (got || bbox) inv c        (* create_base_filter_func needs the object bbox *)
  | Some u :: r =>
      match lookup d u with
      | Some l => bind (follow MFilter l st bbox c)
                       (fun ok c' => if ok then flist_conv r st bbox true inv c' else flist_conv r st bbox got true c')
      | None => flist_conv r st bbox got true c
      end
  end.

(* converter::convert_group_filters + the tail of filter::convert: `if filters.is_empty() && has_invalid_urls { Err }`
   drops the element (G_FLIST_DROP_RULE) *)
Definition g_filter (n : snode) (st : cstate) (items : list item) (hc hm : bool) (c : cache) : cres (list item) :=
  if st_clip st then g_finish n st items hc hm false c else
  let es := flist (s_attrs n) in
  if negb (existsb is_some es) then g_finish n st items hc hm false c else
  bind (flist_conv es st (has_path items) false false c)
       (fun r c' => if (if G_FLIST_DROP_RULE then negb (fst r) && snd r else snd r) then Done [] c'
                    else g_finish n st items hc hm (fst r) c').

Definition g_mask (n : snode) (st : cstate) (items : list item) (hc : bool) (c : cache) : cres (list item) :=
  if st_clip st then g_filter n st items hc false c else
  match node_attr d AMask n with
  | Some l => bind (follow MMask l st (has_path items) c)
                   (fun ok c' => if ok then g_filter n st items hc true c' else Done [] c')
  | None => g_filter n st items hc false c
  end.

Definition group_tail (n : snode) (st : cstate) (items : list item) (c1 : cache) : cres (list item) :=
  if group_empty n items && negb (has_attr AFilter (s_attrs n)) then Done [] c1 else
  match node_attr d AClip n with
  | Some l => bind (follow MClip l st (has_path items) c1)
                   (fun ok c' => if ok then g_mask n st items true c' else Done [] c')
  | None => g_mask n st items false c1
  end.

(* converter::convert_element and convert_clip_path_elements (st_clip) on one element *)
Fixpoint elem (n : snode) (st : cstate) (c : cache) {struct n} : cres (list item) :=
  match n with
  | SN _ t _ _ _ ks =>
      let children :=
        (fix go (l : list snode) (c : cache) {struct l} : cres (list item) :=
           match l with
           | [] => Done [] c
           | k :: r => bind (elem k st c) (fun a c1 => bind (go r c1) (fun b c2 => Done (a ++ b) c2))
           end) in
      match t with
      | TShape => bind (path n st c) (fun items c1 => group_tail n st items c1)
      | TG | TSvg =>
          if st_clip st then Done [] c          (* not a graphic element: skipped inside a clipPath *)
          else bind (children ks c) (fun items c1 => group_tail n st items c1)
      | TUse =>
          match ks with
          | [] => Done [] c
          | SN si TSymbol sn sf sa sks :: _ =>
              if st_clip st then Done [] c else
              bind (paint AFill n st c) (fun _ c1 =>
              bind (paint AStroke n st c1) (fun _ c2 =>
              bind (children sks c2) (fun inner c3 =>
              bind (group_tail (SN si TSymbol sn sf sa sks) st inner c3) (fun items c4 =>
              group_tail n st items c4))))
          | _ =>
              bind (paint AFill n st c) (fun _ c1 =>
              bind (paint AStroke n st c1) (fun _ c2 =>
              bind (children ks c2) (fun items c3 => group_tail n st items c3)))
          end
      | _ => Done [] c
      end
  end.

Fixpoint children (l : list snode) (st : cstate) (c : cache) : cres (list item) :=
  match l with
  | [] => Done [] c
  | k :: r => bind (elem k st c) (fun a c1 => bind (children r st c1) (fun b c2 => Done (a ++ b) c2))
  end.

(* filter primitives: only feImage with an element reference converts something *)
Fixpoint primitives (l : list snode) (st : cstate) (c : cache) : cres nat :=
  match l with
  | [] => Done O c
  | p :: r =>
      match s_tag p with
      | TFeImage =>
          match node_attr d AHref p with
          | Some t => bind (elem t st c) (fun _ c1 => bind (primitives r st c1) (fun n c2 => Done (S n) c2))
          | None => bind (primitives r st c) (fun n c2 => Done (S n) c2)
          end
      | TFeOther => bind (primitives r st c) (fun n c2 => Done (S n) c2)
      | _ => primitives r st c
      end
  end.

(* clippath::convert, mask::convert, filter::convert_url, paint_server::convert_pattern, marker::resolve *)
Definition def_body (m : defmode) (link : snode) (st : cstate) (bbox : bool) (c : cache) : cres bool :=
  let id := s_id link in
  let want := match m with MClip => TClipPath | MMask => TMask | MFilter => TFilter | MPattern => TPattern | MMarker => TMarker end in
  (* filter::convert does not look at the tag before convert_url pushes; the href walk rejects it later *)
  if negb (tag_eqb (s_tag link) want) then Done false c else
  if guard_check m && in_stack m st id then Done false c else
  let st' := if guard_push m then push m st id else st in
  let c0 := log_push m id st' c in
  match m with
  | MClip =>
      if s_flag link && cached ca_clip (s_name link) c then Done true c else
      if negb (s_flag link) && negb bbox then Done false c else
      let rest (c1 : cache) : cres bool :=
        match s_name link with
        | None => Done false c1
        | Some nm => bind (children (s_kids link) (set_clip st') c1)
                          (fun items c2 => if nonempty items then Done true (ins_clip nm c2) else Done false c2)
        end in
      match node_attr d AClip link with
      | Some l2 => bind (follow MClip l2 st' bbox c0) (fun ok c1 => if ok then rest c1 else Done false c1)
      | None => rest c0
      end
  | MMask =>
      if s_flag link && cached ca_mask (s_name link) c then Done true c else
      match s_name link with
      | None => Done false c0
      | Some nm =>
          if negb (s_flag link) && negb bbox then Done true (ins_mask nm c0) else      (* mask_all *)
          let rest (c1 : cache) : cres bool :=
            bind (children (s_kids link) st' c1)
                 (fun items c2 => if nonempty items then Done true (ins_mask nm c2) else Done false c2) in
          match node_attr d AMask link with
          | Some l2 => bind (follow MMask l2 st' bbox c0) (fun ok c1 => if ok then rest c1 else Done false c1)
          | None => rest c0
          end
      end
  | MFilter =>
      if s_flag link && cached ca_filter (s_name link) c then Done true c else
      if negb (s_flag link) && negb bbox then Done false c0 else
      match template_of d TFilter link with
      | None => Done false c0
      | Some tpl =>
          bind (primitives (s_kids tpl) st' c0) (fun n c1 =>
            match n, s_name link with
            | S _, Some nm => Done true (ins_filter nm c1)
            | _, _ => Done false c1
            end)
      end
  | MPattern =>
      match template_of d TPattern link with
      | None => Done false c0
      | Some tpl =>
          match s_name link with
          | None => Done false c0
          | Some _ => bind (children (s_kids tpl) st' c0) (fun items c1 => Done (nonempty items) c1)
          end
      end
  | MMarker =>
      bind (children (s_kids link) st' c0) (fun items c1 => Done (nonempty items) c1)
  end.
End Elem.

Fixpoint conv_def (fuel : nat) (m : defmode) (link : snode) (st : cstate) (bbox : bool) (c : cache) {struct fuel} : cres bool :=
  match fuel with
  | O => Fuel
  | S f => def_body (conv_def f) m link st bbox c
  end.
End Conv.

Definition st0 : cstate := {| st_defs := []; st_markers := []; st_clip := false |}.
Definition cache0 : cache := {| ca_clip := []; ca_mask := []; ca_filter := []; ca_paint := []; ca_log := [] |}.

(* one unit of fuel per element that is pushed on parent_defs or parent_markers *)
Definition conv_fuel (d : snode) : nat := 2 * length (sflat d) + 1.

(* converter::convert_doc: convert_children(svg_doc.root()) *)
Definition convert (d : snode) : cres (list item) :=
  let di := inherit [] false d in
  children di (conv_def di (conv_fuel di)) (s_kids di) st0 cache0.

(* names of the paths / groups that exist in the produced tree *)
Fixpoint item_names1 (i : item) : list N :=
  match i with
  | IPath o => match o with Some n => [n] | None => [] end
  | IGroup o b => (match o with Some n => [n] | None => [] end) ++ flat_map item_names1 b
  end.
Definition item_names (l : list item) : list N := flat_map item_names1 l.

(* the whole front end on the abstract document *)
Inductive presult := POk (out : list item) (log : list (defmode * nat * list nat * list nat))
                   | PErr | POutOfFuel.
Definition parse_of (b : bstate * outcome snode) : presult :=
  match b with
  | (_, OOk s) =>
      match convert (prepass s) with
      | Done out c => POk out (ca_log c)
      | Fuel => POutOfFuel
      end
  | (_, OErr _) => PErr
  | (_, OOut) => POutOfFuel
  end.
Definition parse (x : xnode) : presult := parse_of (build x).

(* ------------------------------------------------------------------------------------------ *)
(* second pass: the chain walks of clippath::is_cacheable / mask::is_cacheable                  *)
(*   let mut chain = vec![node];                                                                *)
(*   while let Some(link) = chain.last().and_then(|n| n.attribute::<SvgNode>(AId::X)) {         *)
(*       if chain.contains(&link) { break; }  chain.push(link); }                               *)
(* and, for comparison, the same walk under the weaker guards found elsewhere (stop at the      *)
(* current element / at the first element only).  `chain` is kept last-first.                   *)
(* ------------------------------------------------------------------------------------------ *)
Inductive wguard := WVisited | WSelf | WOrigin | WNone.

Definition wstop (g : wguard) (origin curr link : snode) (chain : list snode) : bool :=
  match g with
  | WVisited => mem_nat (s_id link) (map s_id chain)
  | WSelf => Nat.eqb (s_id link) (s_id curr)
  | WOrigin => Nat.eqb (s_id link) (s_id curr) || Nat.eqb (s_id link) (s_id origin)
  | WNone => false
  end.

(* -> (chain, ran out of fuel) *)
Fixpoint chain_go (g : wguard) (fuel : nat) (d : snode) (k : akey) (origin curr : snode) (chain : list snode) : list snode * bool :=
  match node_attr d k curr with
  | None => (chain, false)
  | Some link =>
      if wstop g origin curr link chain then (chain, false)
      else match fuel with
           | O => (chain, true)
           | S f => chain_go g f d k origin link (link :: chain)
           end
  end.

Definition chain_guard (k : akey) : wguard :=
  match k with
  | AClip => if G_CLIP_CHAIN_VISITED then WVisited else WNone
  | AMask => if G_MASK_CHAIN_VISITED then WVisited else WNone
  | _ => WNone
  end.
(* is_cacheable's walk: fuel = number of elements of the document *)
Definition chain_walk (d : snode) (k : akey) (n : snode) : list snode * bool :=
  chain_go (chain_guard k) (length (sflat d)) d k n n [n].
