(* C14 (extension round 4): the 8-bit side of layer compositing.
   render_group composites a layer with `pixmap.draw_pixmap(x, y, sub_pixmap, &PixmapPaint { opacity, blend_mode,
   quality: Nearest }, identity, None)`.  For opacity 1 and normal blending tiny-skia runs its float pipeline and
   stores the exact source-over value rounded to the nearest byte: per channel  d' = s + round(d * (255 - sa) / 255)
   (`over_u8` of Model/Blend8.v; compared with the real tiny-skia on all 256 x 256 (s, sa) pairs for sampled d by
   the correspondence op `c14-drawpix`, and the shape of the paint literal is checked by tools/gen_filterpos.py).
   Executable definitions only. *)
From RV Require Import Model.Base Model.Blend8 Model.Compose.
Local Open Scope Z_scope.

Record px8 := { r8 : Z; g8 : Z; b8 : Z; a8 : Z }.
Definition clear8 : px8 := {| r8 := 0; g8 := 0; b8 := 0; a8 := 0 |}.
Definition byte_px8 (p : px8) : Prop := is_byte (r8 p) /\ is_byte (g8 p) /\ is_byte (b8 p) /\ is_byte (a8 p).
Definition px8_eqb (p q : px8) : bool :=
  (r8 p =? r8 q) && (g8 p =? g8 q) && (b8 p =? b8 q) && (a8 p =? a8 q).

(* draw_pixmap, SourceOver, opacity 1: the premultiplied source pixel s onto the destination pixel d *)
Definition over8 (s d : px8) : px8 :=
  {| r8 := over_u8 (r8 s) (a8 s) (r8 d); g8 := over_u8 (g8 s) (a8 s) (g8 d);
     b8 := over_u8 (b8 s) (a8 s) (b8 d); a8 := over_u8 (a8 s) (a8 s) (a8 d) |}.
Definition paint8 (ds : list px8) (bg : px8) : px8 := fold_left (fun acc d => over8 d acc) ds bg.

(* the rational pixel a byte pixel stands for *)
Definition q8 (p : px8) : px :=
  {| pr := inject_Z (r8 p) / 255; pg := inject_Z (g8 p) / 255; pb := inject_Z (b8 p) / 255; pa := inject_Z (a8 p) / 255 |}.

(* what is composited by draw_pixmap: `Leaf8 p` = the content of a child that is itself drawn by draw_pixmap
   (a raster image, a filtered / clipped / masked / isolated child group) seen from one pixel; `Layer8 ch` = an
   opacity-1 group rendered through an offscreen layer *)
Inductive node8 :=
| Leaf8 (p : px8)
| Layer8 (children : list node8).
Fixpoint render8 (n : node8) (bg : px8) {struct n} : px8 :=
  match n with
  | Leaf8 p => over8 p bg
  | Layer8 ch =>
    let fix go (l : list node8) (acc : px8) {struct l} : px8 :=
      match l with [] => acc | c :: r => go r (render8 c acc) end in
    over8 (go ch clear8) bg
  end.
(* k additional layers around a node (isolation injected k times: the oracle's nest2 .. nest4 modes) *)
Fixpoint wrap8 (k : nat) (n : node8) : node8 :=
  match k with O => n | S j => Layer8 [wrap8 j n] end.

(* per channel: one colour channel (c_i, a_i) of a draw list, composited in bytes and exactly *)
Fixpoint paintZ (l : list (Z * Z)) (x : Z) : Z :=
  match l with [] => x | d :: r => paintZ r (over_u8 (fst d) (snd d) x) end.
Definition alphas (l : list (Z * Z)) : list (Z * Z) := map (fun d => (snd d, snd d)) l.
Definition chan (f : px8 -> Z) (ds : list px8) : list (Z * Z) := map (fun d => (f d, a8 d)) ds.

(* largest channel difference of two byte pixels *)
Definition dist8 (p q : px8) : Z :=
  Z.max (Z.max (Z.abs (r8 p - r8 q)) (Z.abs (g8 p - g8 q))) (Z.max (Z.abs (b8 p - b8 q)) (Z.abs (a8 p - a8 q))).

(* correspondence: the table the harness op `c14-drawpix:<d>` returns, index sa * 256 + s, s clipped to sa *)
Definition seqZ (n : nat) : list Z := map Z.of_nat (seq 0 n).
Definition drawpix_table (f : Z -> Z -> Z) : list Z :=
  flat_map (fun sa => map (fun s => f (Z.min s sa) sa) (seqZ 256)) (seqZ 256).
