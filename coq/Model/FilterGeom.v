(* Geometry of filter application (crates/resvg/src/filter/mod.rs apply_inner, render.rs render_group):
   the device-space integer region, the layer, the four `fill_rect(Clear)` rectangles that crop a
   primitive result to its subregion, and the final draw of the layer onto the canvas.
   Exact integers / rationals; executable definitions and boolean checkers only. *)
From RV Require Import Model.Base.
From RV Require Import Model.GeomPrims.
From RV Require Import Gen.LeafFit.
From Coq Require Import Qround.
Local Open Scope Z_scope.

(* tiny_skia_path::Rect::from_xywh(x, y, w, h) = from_ltrb(x, y, w + x, h + y): Some iff left <= right and
   top <= bottom (all values here are integers below 2^24, exact in f32).  Result as (l, t, r, b). *)
Definition frect_from_xywh (x y w h : Z) : option (Z * Z * Z * Z) :=
  if (x <=? w + x) && (y <=? h + y) then Some (x, y, w + x, h + y) else None.

(* pixels touched by fill_rect of an integer-aligned rectangle (no anti-aliasing needed) *)
Definition in_frect (r : option (Z * Z * Z * Z)) (px py : Z) : bool :=
  match r with
  | Some (l, t, rr, b) => (l <=? px) && (px <? rr) && (t <=? py) && (py <? b)
  | None => false
  end.

(* the four rectangles of apply_inner's "Clip result" block, for a w x h pixmap and the region-relative
   subregion s (subregion2 in the source) *)
Definition clip_rects (w h : Z) (s : irect) : list (option (Z * Z * Z * Z)) :=
  [ frect_from_xywh 0 0 w (iy s);
    frect_from_xywh 0 0 (ix s) h;
    frect_from_xywh (i_right s) 0 w h;
    frect_from_xywh 0 (i_bottom s) w h ].
Definition cleared (w h : Z) (s : irect) (px py : Z) : bool :=
  existsb (fun r => in_frect r px py) (clip_rects w h s).
Definition in_irect (s : irect) (px py : Z) : bool :=
  (ix s <=? px) && (px <? i_right s) && (iy s <=? py) && (py <? i_bottom s).
Definition in_canvas (w h px py : Z) : bool := (0 <=? px) && (px <? w) && (0 <=? py) && (py <? h).

(* alpha survives the crop iff the pixel is not cleared *)
Definition crop_keeps (w h : Z) (s : irect) (px py : Z) : bool := negb (cleared w h s px py).

(* tiny_skia_path Rect::to_int_rect / NonZeroRect::to_int_rect over exact rationals *)
Definition to_int_rect (r : qrect) : irect :=
  {| ix := Qfloor (rx r); iy := Qfloor (ry r);
     iw := Z.max 1 (Qceiling (rw r)); ih := Z.max 1 (Qceiling (rh r)) |}.
(* the pixel hull of a device-space rectangle: every pixel the real rectangle touches *)
Definition hull_l (r : qrect) : Z := Qfloor (rx r).
Definition hull_t (r : qrect) : Z := Qfloor (ry r).
Definition hull_r (r : qrect) : Z := Qceiling (rx r + rw r).
Definition hull_b (r : qrect) : Z := Qceiling (ry r + rh r).
Definition in_hull (r : qrect) (px py : Z) : bool :=
  (hull_l r <=? px) && (px <? hull_r r) && (hull_t r <=? py) && (py <? hull_b r).

(* render_group for a group with filters: layer box = fit_to_rect (bbox.to_int_rect()) max_bbox
   (fit_to_rect is the SOURCE-DERIVED Gen.LeafFit.fit_to_rect) *)
Definition filter_layer (bbox : qrect) (max_bbox : irect) : option irect :=
  fit_to_rect (to_int_rect bbox) max_bbox.

(* pixmap.draw_pixmap(ibbox.x, ibbox.y, layer) in tiny-skia 0.11.4: a non-anti-aliased fill_rect of the layer
   rectangle with a Pad-mode pattern shader translated to (ibbox.x, ibbox.y).  The destination rectangle goes
   through Rect::round, whose saturate_round(x) = (x.floor() + 0.5) as i32 truncates toward zero: a NEGATIVE
   integer origin x becomes x + 1 (validated by the `draw` correspondence table).  The width is unchanged, so
   the rectangle reaches one pixel beyond the layer, where the pattern repeats the layer's last row / column. *)
Definition ts_round (x : Z) : Z := if x <? 0 then x + 1 else x.
Definition clampZ (lo hi v : Z) : Z := Z.max lo (Z.min hi v).
Definition drawn_rect (ib : irect) : irect :=
  {| ix := ts_round (ix ib); iy := ts_round (iy ib); iw := iw ib; ih := ih ib |}.
Definition draw_layer {A : Type} (blend : A -> A -> A) (canvas : Z -> Z -> A) (ib : irect)
           (layer : Z -> Z -> A) : Z -> Z -> A :=
  fun x y => if in_irect (drawn_rect ib) x y
             then blend (layer (clampZ 0 (iw ib - 1) (x - ix ib)) (clampZ 0 (ih ib - 1) (y - iy ib))) (canvas x y)
             else canvas x y.
(* KNOWN class: the layer starts left of / above the canvas origin *)
Definition layer_origin_negative (ib : irect) : bool := (ix ib <? 0) || (iy ib <? 0).
(* the pixel hull grown by one pixel on the right and at the bottom *)
Definition in_hull_plus1 (r : qrect) (px py : Z) : bool :=
  (hull_l r <=? px) && (px <? hull_r r + 1) && (hull_t r <=? py) && (py <? hull_b r + 1).
(* alpha bitmap of an opaque w x h pixmap drawn at (x, y) onto a transparent W x H canvas (correspondence) *)
Fixpoint zrangeZ (n : nat) (s : Z) : list Z := match n with O => [] | S k => s :: zrangeZ k (s + 1) end.
Definition draw_bitmap (W H : Z) (ib : irect) : list Z :=
  flat_map (fun y => map (fun x => if in_irect (drawn_rect ib) x y then 1 else 0) (zrangeZ (Z.to_nat W) 0))
           (zrangeZ (Z.to_nat H) 0).

(* list of all pixel coordinates of a w x h pixmap, row-major (for correspondence bitmaps) *)
Definition crop_bitmap (w h : Z) (s : irect) : list Z :=
  flat_map (fun y => map (fun x => if crop_keeps w h s x y then 1 else 0) (zrangeZ (Z.to_nat w) 0))
           (zrangeZ (Z.to_nat h) 0).
