(* Boolean checkers used by the C03 correspondence operations (evaluated with vm_compute on the
   documents the harness ran); no proofs. *)
From Coq Require Import ZArith NArith List Bool.
From RV Require Import Gen.Consts Gen.LinkGuards Model.SvgBuild Model.Links.
Import ListNotations.

Fixpoint bad_from {A} (f : A -> bool) (l : list A) (i : N) : list N :=
  match l with
  | [] => []
  | x :: r => if f x then bad_from f r (N.succ i) else i :: bad_from f r (N.succ i)
  end.
Definition bad_idx {A} (f : A -> bool) (l : list A) : list N := bad_from f l 0%N.

Definition entry_eqb (a b : nat * akey * N) : bool :=
  match a, b with (i, k, v), (i', k', v') => Nat.eqb i i' && akey_eqb k k' && N.eqb v v' end.
Definition table_eqb (t1 t2 : list (nat * akey * N)) : bool :=
  Nat.eqb (length t1) (length t2) && forallb (fun e => existsb (entry_eqb e) t2) t1.

(* svgtree after parse_tree: node count and which attributes still carry a reference *)
Definition model_prepass (x : xnode) : option (Z * list (nat * akey * N)) :=
  match build x with
  | (st, OOk s) => Some (b_count st, link_table (prepass s))
  | _ => None
  end.
Definition chk_prepass (p : xnode * option (Z * list (nat * akey * N))) : bool :=
  match model_prepass (fst p), snd p with
  | Some (n, t), Some (n', t') => Z.eqb n n' && table_eqb t t'
  | None, None => true
  | _, _ => false
  end.

(* ids of the paths and groups of the produced tree, in document order *)
Definition model_names (x : xnode) : option (list N) :=
  match parse x with
  | POk out _ => Some (item_names out)
  | _ => None
  end.
Fixpoint listN_eqb (a b : list N) : bool :=
  match a, b with
  | [], [] => true
  | x :: r, y :: s => N.eqb x y && listN_eqb r s
  | _, _ => false
  end.
Definition chk_names (p : xnode * option (list N)) : bool :=
  match model_names (fst p), snd p with
  | Some a, Some b => listN_eqb a b
  | None, None => true
  | _, _ => false
  end.

(* the model's verdict for one document: 0 = tree with the witness, 1 = tree without it, 2 = Err, 3 = out of fuel *)
Definition model_verdict (w : N) (x : xnode) : N :=
  match parse x with
  | POk out _ => if existsb (N.eqb w) (item_names out) then 0%N else 1%N
  | PErr => 2%N
  | POutOfFuel => 3%N
  end.

(* ---- the pre-pass clause checked on the IMPLEMENTATION's result, independently of the model's pre-pass:
   rebuild the svgtree after parse_tree from the model's build and the reference table the harness
   dumped, then look for a remaining cycle of length <= 2 with a direct (guard-free) boolean test ---- *)
Definition attrs_keep (id : nat) (t : list (nat * akey * N)) (a : attrs) : attrs :=
  map (fun kv => match kv with
                 | (k, Some v) => if existsb (entry_eqb (id, k, v)) t then kv else (k, None)
                 | _ => kv
                 end) a.
Fixpoint apply_table (t : list (nat * akey * N)) (x : snode) : snode :=
  match x with SN i tg n f a ks => SN i tg n f (attrs_keep i t a) (map (apply_table t) ks) end.

Definition short_link_cycle_b (e : tagk) (k : akey) (d : snode) : bool :=
  existsb (fun node =>
    tag_eqb (s_tag node) e &&
    existsb (fun child =>
      match node_attr d k child with
      | Some link =>
          Nat.eqb (s_id link) (s_id node) ||
          existsb (fun n2 => match node_attr d k n2 with Some l2 => Nat.eqb (s_id l2) (s_id node) | None => false end) (sflat link)
      | None => false
      end) (sflat node)) (sflat d).

Definition short_pattern_cycle_b (k : akey) (d : snode) : bool :=
  existsb (fun p =>
    tag_eqb (s_tag p) TPattern &&
    existsb (fun node =>
      match attr_link k (s_attrs node) with
      | Some lid =>
          optN_eqb (Some lid) (s_name p) ||
          match lookup d lid with
          | Some ln => existsb (fun n2 => match attr_link k (s_attrs n2) with Some l2 => optN_eqb (Some l2) (s_name p) | None => false end) (sflat ln)
          | None => false
          end
      | None => false
      end) (sflat p)) (sflat d).

Definition any_short_cycle (d : snode) : bool :=
  short_pattern_cycle_b AFill d || short_pattern_cycle_b AStroke d ||
  short_link_cycle_b TClipPath AClip d || short_link_cycle_b TMask AMask d || short_link_cycle_b TFilter AFilter d.

(* true = fine *)
Definition chk_impl_prepass (p : xnode * option (Z * list (nat * akey * N))) : bool :=
  match build (fst p), snd p with
  | (_, OOk s), Some (_, t) => negb (any_short_cycle (apply_table t s))
  | _, _ => true
  end.

(* ---- extension round 4: the frame clause of the pre-pass.  `on_short_cycle_b d id k`: the reference held by
   attribute k of element id lies on a cycle of length <= 2 of d (guard-free boolean test; Proofs/LinksFrame.v
   proves that it holds of everything the Prop version `on_short_cycle` holds of) ---- *)
Definition on_link_cycle_b (e : tagk) (k : akey) (d : snode) (id : nat) : bool :=
  existsb (fun node =>
    tag_eqb (s_tag node) e &&
    existsb (fun child =>
      match node_attr d k child with
      | Some link =>
          (Nat.eqb (s_id child) id && Nat.eqb (s_id link) (s_id node)) ||
          existsb (fun n2 => match node_attr d k n2 with
                             | Some l2 => Nat.eqb (s_id l2) (s_id node) && Nat.eqb (s_id n2) id
                             | None => false end) (sflat link)
      | None => false
      end) (sflat node)) (sflat d).

Definition on_pattern_cycle_b (k : akey) (d : snode) (id : nat) : bool :=
  existsb (fun p =>
    tag_eqb (s_tag p) TPattern &&
    existsb (fun node =>
      match attr_link k (s_attrs node) with
      | Some lid =>
          (Nat.eqb (s_id node) id && optN_eqb (Some lid) (s_name p)) ||
          match lookup d lid with
          | Some ln => existsb (fun n2 => match attr_link k (s_attrs n2) with
                                          | Some l2 => optN_eqb (Some l2) (s_name p) && Nat.eqb (s_id n2) id
                                          | None => false end) (sflat ln)
          | None => false
          end
      | None => false
      end) (sflat p)) (sflat d).

Definition on_feimage_cycle_b (d : snode) (id : nat) : bool :=
  existsb (fun p =>
    existsb (fun fe =>
      tag_eqb (s_tag fe) TFeImage &&
      match node_attr d AHref fe with
      | Some link =>
          Nat.eqb (s_id link) id &&
          existsb (fun e => match e with Some u => optN_eqb (Some u) (s_name p) | None => false end) (flist (s_attrs link))
      | None => false
      end) (s_kids p)) (sflat d).

Definition on_short_cycle_b (d : snode) (id : nat) (k : akey) : bool :=
  match k with
  | AFill => on_pattern_cycle_b AFill d id
  | AStroke => on_pattern_cycle_b AStroke d id
  | AClip => on_link_cycle_b TClipPath AClip d id
  | AMask => on_link_cycle_b TMask AMask d id
  | AFilter => on_link_cycle_b TFilter AFilter d id || on_feimage_cycle_b d id
  | _ => false
  end.

(* the IMPLEMENTATION's pre-pass removes nothing but references on a short cycle of the tree it was given, and
   adds nothing (independent of the model's pre-pass; true = fine) *)
Definition chk_impl_frame (p : xnode * option (Z * list (nat * akey * N))) : bool :=
  match build (fst p), snd p with
  | (_, OOk s), Some (_, t) =>
      let t0 := link_table s in
      forallb (fun e => existsb (entry_eqb e) t0) t &&
      forallb (fun e => existsb (entry_eqb e) t ||
                        match e with (id, k, _) => on_short_cycle_b s id k end) t0
  | _, _ => true
  end.
