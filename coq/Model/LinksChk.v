(* Boolean checkers used by the C03 correspondence operations (evaluated with vm_compute on the
   documents the harness ran); no proofs. *)
From Coq Require Import ZArith NArith List Bool.
From RV Require Import Gen.Consts Gen.LinkGuards Model.SvgBuild Model.Links.
Import ListNotations.

Fixpoint bad_from {A} (f : A -> bool) (l : list A) (i : N) : list N :=
  match l with
  | [] => []
  | x :: r => if f x then bad_from f r (N.succ i) else i :: bad_from f r (N.succ i)
  end.
Definition bad_idx {A} (f : A -> bool) (l : list A) : list N := bad_from f l 0%N.

Definition entry_eqb (a b : nat * akey * N) : bool :=
  match a, b with (i, k, v), (i', k', v') => Nat.eqb i i' && akey_eqb k k' && N.eqb v v' end.
Definition table_eqb (t1 t2 : list (nat * akey * N)) : bool :=
  Nat.eqb (length t1) (length t2) && forallb (fun e => existsb (entry_eqb e) t2) t1.

(* svgtree after parse_tree: node count and which attributes still carry a reference *)
Definition model_prepass (x : xnode) : option (Z * list (nat * akey * N)) :=
  match build x with
  | (st, OOk s) => Some (b_count st, link_table (prepass s))
  | _ => None
  end.
Definition chk_prepass (p : xnode * option (Z * list (nat * akey * N))) : bool :=
  match model_prepass (fst p), snd p with
  | Some (n, t), Some (n', t') => Z.eqb n n' && table_eqb t t'
  | None, None => true
  | _, _ => false
  end.

(* ids of the paths and groups of the produced tree, in document order *)
Definition model_names (x : xnode) : option (list N) :=
  match parse x with
  | POk out _ => Some (item_names out)
  | _ => None
  end.
Fixpoint listN_eqb (a b : list N) : bool :=
  match a, b with
  | [], [] => true
  | x :: r, y :: s => N.eqb x y && listN_eqb r s
  | _, _ => false
  end.
Definition chk_names (p : xnode * option (list N)) : bool :=
  match model_names (fst p), snd p with
  | Some a, Some b => listN_eqb a b
  | None, None => true
  | _, _ => false
  end.

(* the model's verdict for one document: 0 = tree with the witness, 1 = tree without it, 2 = Err, 3 = out of fuel;
   second component = KnownClass use_loop *)
Definition model_verdict (w : N) (x : xnode) : N * bool :=
  (match parse x with
   | POk out _ => if existsb (N.eqb w) (item_names out) then 0%N else 1%N
   | PErr => 2%N
   | POutOfFuel => 3%N
   end, use_loop x).
