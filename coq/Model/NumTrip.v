(* C08: write_num (Model/WriteNum.v) lifted to everything writer.rs prints through it: lists of numbers, the six
   numbers of `matrix(..)` (with the elided identity) and path data (command + coordinates per segment).
   The order of the six numbers and the command letter / coordinate count per segment kind are Gen/NumSites.v
   (tools/gen_numsites.py, from writer.rs).  Reading side (svgtypes / tiny-skia, external): `matrix(a b c d e f)` is
   Transform::from_row(sx = a, ky = b, kx = c, sy = d, tx = e, ty = f); M / L take 2, Q 4, C 6, Z 0 numbers;
   an absent `transform` is the identity.  Executable Gallina only. *)
From RV Require Import Gen.WriterNum.
From RV Require Import Gen.NumSites.
From RV Require Import Model.WriteNum.
From Coq Require Import String ZArith QArith List Bool.
Import ListNotations.

Fixpoint write_nums (p : Z) (l : list Q) : option (list Q) :=
  match l with
  | [] => Some []
  | x :: r => match write_num p x, write_nums p r with
              | WOk v, Some vs => Some (v :: vs)
              | _, _ => None
              end
  end.

(* transforms: [sx; ky; kx; sy; tx; ty] *)
Definition identity6 : list Q := [1; 0; 0; 1; 0; 0]%Q.
Fixpoint Qlist_eqb (a b : list Q) : bool :=
  match a, b with
  | [], [] => true
  | x :: r, y :: s => Qeq_bool x y && Qlist_eqb r s
  | _, _ => false
  end.
(* write_transform: `if !ts.is_default() { matrix(..) }`; None = attribute absent *)
Definition write_transform (p : Z) (ts : list Q) : option (option (list Q)) :=
  if Qlist_eqb ts identity6 then Some None
  else match write_nums p ts with Some vs => Some (Some vs) | None => None end.
(* what the parser gets *)
Definition read_transform (w : option (list Q)) : list Q := match w with Some vs => vs | None => identity6 end.

(* path data: (segment kind = index in Gen.NumSites.path_segs, coordinates) *)
Fixpoint write_segs (p : Z) (l : list (nat * list Q)) : option (list (nat * list Q)) :=
  match l with
  | [] => Some []
  | (k, cs) :: r => match write_nums p cs, write_segs p r with
                    | Some vs, Some rs => Some ((k, vs) :: rs)
                    | _, _ => None
                    end
  end.

(* reading side tables (hand, external crates) *)
Definition parser_matrix_order : list string := ["sx"; "ky"; "kx"; "sy"; "tx"; "ty"]%string.
Definition letter_arity (s : string) : option nat :=
  if String.eqb s "M" then Some 2%nat else if String.eqb s "L" then Some 2%nat else if String.eqb s "Q" then Some 4%nat
  else if String.eqb s "C" then Some 6%nat else if String.eqb s "Z" then Some 0%nat else None.
Definition kind_points (s : string) : option nat :=
  if String.eqb s "MoveTo" then Some 1%nat else if String.eqb s "LineTo" then Some 1%nat else if String.eqb s "QuadTo" then Some 2%nat
  else if String.eqb s "CubicTo" then Some 3%nat else if String.eqb s "Close" then Some 0%nat else None.

Fixpoint strs_eqb (a b : list string) : bool :=
  match a, b with
  | [], [] => true
  | x :: r, y :: s => String.eqb x y && strs_eqb r s
  | _, _ => false
  end.
Fixpoint pairs_eqb (a b : list (string * string)) : bool :=
  match a, b with
  | [], [] => true
  | x :: r, y :: s => String.eqb (fst x) (fst y) && String.eqb (snd x) (snd y) && pairs_eqb r s
  | _, _ => false
  end.
(* each segment kind (kind, letter, points bound by the match arm, coordinates written in order) writes the letter whose
   arity is the number of coordinates, the coordinates are x then y of every bound point in binding order, and the kind
   holds that many points; all five kinds of tiny_skia_path::PathSegment are there, once, in order *)
Definition seg_ok (s : string * string * list string * list (string * string)) : bool :=
  match s with
  | (kind, letter, binders, coords) =>
      match letter_arity letter, kind_points kind with
      | Some a, Some n => Nat.eqb a (length coords) && Nat.eqb n (length binders) &&
                          pairs_eqb coords (flat_map (fun b => [(b, "x"); (b, "y")]%string) binders)
      | _, _ => false
      end
  end.
Definition chk_num_sites : bool :=
  strs_eqb transform_order parser_matrix_order &&
  forallb seg_ok path_segs &&
  strs_eqb (map (fun s => fst (fst (fst s))) path_segs) ["MoveTo"; "LineTo"; "QuadTo"; "CubicTo"; "Close"]%string &&
  String.eqb transform_precision "transforms_precision" && String.eqb path_precision "coordinates_precision".
