(* Model of crates/usvg/src/parser/filter.rs: collect_children (the fold that wires filter primitive
   inputs to earlier results), resolve_input, parse_in, gen_result; the shape rules of
   convert_convolve_matrix / ConvolveMatrixData::new (tree/filter.rs), convert_color_matrix_kind,
   convert_specular_lighting.  Executable Gallina only.

   Result names: `RGen i` is the string "result<i>" (decimal, as `format!("result{}", idx)` prints it),
   `RStr s` any other string (interned; 0 = the empty string).  The harness maps a written name of the
   form result<canonical decimal> to RGen, so equality of rname is equality of strings. *)
From Coq Require Import NArith ZArith QArith List Bool.
Import ListNotations.
Local Open Scope N_scope.

Inductive rname := RGen (i : N) | RStr (s : N).
Definition rname_eqb (a b : rname) : bool :=
  match a, b with RGen x, RGen y => x =? y | RStr x, RStr y => x =? y | _, _ => false end.

(* filter::Input over result names *)
Inductive rinput := RSourceGraphic | RSourceAlpha | RRef (r : rname).
(* the value of an `in` / `in2` attribute *)
Inductive in_attr :=
| InSourceGraphic | InSourceAlpha
| InUnsupported                      (* BackgroundImage | BackgroundAlpha | FillPaint | StrokePaint *)
| InName (r : rname).

(* one child element of <filter> as collect_children sees it *)
Record fe_child := {
  fc_known : bool;                    (* tag is one of the 17 primitive kinds (else `continue`) *)
  fc_region_ok : bool;                (* resolve_primitive_region returned Some (else `break`) *)
  fc_ins : list (option in_attr);     (* the `in`/`in2` attributes resolve_input is called on, in order
                                         (feMerge: one per feMergeNode; feFlood/feImage/feTurbulence: none) *)
  fc_result : option rname }.         (* the `result` attribute *)

Record rprim := { rp_inputs : list rinput; rp_result : rname }.

(* parse_in *)
Definition parse_in (a : in_attr) : rinput :=
  match a with
  | InSourceGraphic => RSourceGraphic
  | InSourceAlpha => RSourceAlpha
  | InUnsupported => RSourceGraphic
  | InName r => RRef r
  end.

Definition has_result (r : rname) (prims : list rprim) : bool :=
  existsb (fun p => rname_eqb (rp_result p) r) prims.
(* `if let Some(prev) = primitives.last() { Reference(prev.result) } else { SourceGraphic }` *)
Definition fallback_input (prims : list rprim) : rinput :=
  match rev prims with p :: _ => RRef (rp_result p) | [] => RSourceGraphic end.

(* resolve_input *)
Definition resolve_input (a : option in_attr) (prims : list rprim) : rinput :=
  match a with
  | Some s =>
      match parse_in s with
      | RRef name => if has_result name prims then RRef name else fallback_input prims
      | other => other
      end
  | None => fallback_input prims
  end.

(* FilterResults { names, idx } *)
Record fresults := { fr_names : list rname; fr_idx : N }.

(* the `loop { name = "result{idx}"; idx += 1; if !names.contains(name) { return name } }` of gen_result,
   with explicit fuel (adequacy: Proofs/Filters.v, `gen_loop_fuel`) *)
Fixpoint gen_loop (fuel : nat) (names : list rname) (idx : N) : option (rname * N) :=
  match fuel with
  | O => None
  | S k => if existsb (rname_eqb (RGen idx)) names then gen_loop k names (idx + 1)
           else Some (RGen idx, idx + 1)
  end.

(* gen_result; None = the loop ran out of fuel (proved impossible) *)
Definition gen_result (a : option rname) (st : fresults) : option (rname * fresults) :=
  match a with
  | Some s => Some (s, {| fr_names := s :: fr_names st; fr_idx := fr_idx st + 1 |})
  | None =>
      match gen_loop (S (length (fr_names st))) (fr_names st) (fr_idx st) with
      | Some (nm, idx') => Some (nm, {| fr_names := fr_names st; fr_idx := idx' |})
      | None => None
      end
  end.

(* collect_children: `for child in filter.children() { .. }` *)
Fixpoint collect_children_from (cs : list fe_child) (prims : list rprim) (st : fresults) : option (list rprim) :=
  match cs with
  | [] => Some prims
  | c :: r =>
      if negb (fc_known c) then collect_children_from r prims st          (* continue *)
      else if negb (fc_region_ok c) then Some prims                        (* break *)
      else
        let ins := map (fun a => resolve_input a prims) (fc_ins c) in
        match gen_result (fc_result c) st with
        | Some (nm, st') => collect_children_from r (prims ++ [{| rp_inputs := ins; rp_result := nm |}]) st'
        | None => None
        end
  end.
Definition collect_children (cs : list fe_child) : option (list rprim) :=
  collect_children_from cs [] {| fr_names := []; fr_idx := 1 |}.

(* every Reference input of primitive i names the result of some primitive j < i *)
Fixpoint wired_from (before : list rprim) (l : list rprim) : bool :=
  match l with
  | [] => true
  | p :: r =>
      forallb (fun i => match i with RRef nm => has_result nm before | _ => true end) (rp_inputs p) &&
      wired_from (before ++ [p]) r
  end.
Definition wired (l : list rprim) : bool := wired_from [] l.

(* ------------------------------------------------------------------------------------------------ *)
(* feConvolveMatrix shape (convert_convolve_matrix + ConvolveMatrixData::new)                        *)
Local Open Scope Z_scope.
Record kernel := { k_cols : Z; k_rows : Z; k_tx : Z; k_ty : Z; k_len : Z }.

Definition USIZE_MAX : Z := 18446744073709551615.
Definition checked_mul_usize (a b : Z) : option Z := if a * b <=? USIZE_MAX then Some (a * b) else None.

(* `order`: x, y are the list entries after `as i32` (None = absent / not a number) *)
Definition conv_order (ord : option (option Z * option Z)) : Z * Z :=
  match ord with
  | None => (3, 3)
  | Some (ox, oy) =>
      let x := match ox with Some v => v | None => 3 end in
      let y := match oy with Some v => v | None => x end in
      if (0 <? x) && (0 <? y) then (x, y) else (3, 3)
  end.

(* parse_target; `target` is the attribute after `as i32` *)
Definition parse_target (target : option Z) (order : Z) : option Z :=
  let default_target := order / 2 in      (* (order as f32 / 2.0).floor() as u32, exact for order < 2^24 *)
  let t := match target with Some v => v | None => default_target end in
  if (t <? 0) || (order <=? t) then None else Some t.

(* ConvolveMatrixData::new *)
Definition kernel_new (tx ty cols rows len : Z) : option kernel :=
  match checked_mul_usize cols rows with
  | Some n => if negb (n =? len) || (cols <=? tx) || (rows <=? ty) then None
              else Some {| k_cols := cols; k_rows := rows; k_tx := tx; k_ty := ty; k_len := len |}
  | None => None
  end.

(* convert_convolve_matrix up to the kernel; `mlen` = number of kernelMatrix entries (None = absent),
   `div_zero` = the divisor (attribute or rounded kernel sum, with 0 sum replaced by 1) is approx zero *)
Definition convolve_kernel (ord : option (option Z * option Z)) (mlen : option Z) (div_zero : bool)
    (tx ty : option Z) : option kernel :=
  let '(ox, oy) := conv_order ord in
  let len := match mlen with
             | Some n => match checked_mul_usize ox oy with
                         | Some k => if n =? k then n else 0
                         | None => 0
                         end
             | None => 0
             end in
  if div_zero then None else
  match parse_target tx ox with
  | None => None
  | Some txv =>
      match parse_target ty oy with
      | None => None
      | Some tyv => kernel_new txv tyv ox oy len
      end
  end.

Definition kernel_ok (k : kernel) : bool :=
  (k_len k =? k_cols k * k_rows k) && (0 <=? k_tx k) && (k_tx k <? k_cols k) &&
  (0 <=? k_ty k) && (k_ty k <? k_rows k) && (0 <? k_cols k) && (0 <? k_rows k).

(* convert_color_matrix_kind, `_` arm: a matrix is kept only with exactly 20 values *)
Definition color_matrix_len (values : option Z) : option Z :=
  match values with Some n => if n =? 20 then Some n else None | None => None end.

(* convert_specular_lighting: `if !(1.0..=128.0).contains(&e) { return None }` then `f32_bound(1.0, e, 128.0)`;
   `e` is the specularExponent attribute (1 when absent); None = the primitive is replaced by the dummy flood *)
Local Open Scope Q_scope.
Definition q_bound (lo x hi : Q) : Q := if Qle_bool x lo then lo else if Qle_bool hi x then hi else x.
Definition specular_exponent (attr : option Q) : option Q :=
  let e := match attr with Some v => v | None => 1 end in
  if Qle_bool 1 e && Qle_bool e 128 then Some (q_bound 1 e 128) else None.
