(* C09: CSS rule lists.  Selector matching (simplecss 0.2.1 `Selector::matches` / `matches_impl` / `match_selector` /
   `AttributeOperator::matches` / `specificity`, over usvg's `impl simplecss::Element for XmlNode` in
   svgtree/parse.rs), the rule order (`StyleSheet::parse_more`: one stable sort by specificity over injected sheet ++
   document sheets) and the declaration list an element receives from a sheet (the `for rule in &style_sheet.rules`
   loop of parse_svg_element).  This turns `x_css` of Model/Cascade.v - until now an input - into a function of the
   rule list and the element's position.

   Tie: the five methods of the `Element` impl are anchored textually by tools/gen_svgtree.py (Gen/SvgTables.v:
   `xmlnode_pseudo_first_child`, `xmlnode_pseudo_default`); matcher + sort + cascade are compared with the implementation by the `selector`
   correspondence (documents with one style sheet over all selector forms -> svgtree dump vs `sel_case_ok`).
   No proofs in this file. *)
From Coq Require Import String Ascii.
From RV Require Import Model.Base Gen.SvgTables Gen.Units Model.CascadeBase Gen.SvgInsert Model.Cascade.
Local Open Scope string_scope.

(* what the matcher sees of an XML element: local name and the attributes without a namespace *)
Record einfo := { ei_tag : string; ei_attrs : list (string * string) }.
(* an element with its previous sibling ELEMENTS (nearest first); a position = the element, its parent, ..., the root element *)
Definition level := (einfo * list einfo)%type.
Definition epos := list level.

(* ---- usvg: impl simplecss::Element for XmlNode ---- *)
Definition parent_element (e : epos) : option epos :=
  match e with _ :: l :: r => Some (l :: r) | _ => None end.
Definition prev_sibling_element (e : epos) : option epos :=
  match e with (_, p :: ps) :: up => Some ((p, ps) :: up) | _ => None end.
Definition has_local_name (e : epos) (n : string) : bool :=
  match e with (i, _) :: _ => String.eqb (ei_tag i) n | [] => false end.
Fixpoint assoc_str (k : string) (l : list (string * string)) : option string :=
  match l with [] => None | (a, v) :: r => if String.eqb a k then Some v else assoc_str k r end.
Definition xml_attribute (e : epos) (name : string) : option string :=
  match e with (i, _) :: _ => assoc_str name (ei_attrs i) | [] => None end.

(* ---- simplecss: AttributeOperator::matches ---- *)
Inductive attr_op := OpExists | OpMatches (v : string) | OpContains (v : string) | OpStartsWith (v : string).
(* str::split(' ') *)
Fixpoint split_space (s cur : string) : list string :=
  match s with
  | EmptyString => [cur]
  | String c r => if Ascii.eqb c " "%char then cur :: split_space r EmptyString
                  else split_space r (cur ++ String c EmptyString)
  end.
Definition op_matches (op : attr_op) (value : string) : bool :=
  match op with
  | OpExists => true
  | OpMatches v => String.eqb value v
  | OpContains v => existsb (fun s => String.eqb s v) (split_space value EmptyString)
  | OpStartsWith v =>
      if String.eqb value v then true
      else if prefix v value then String.eqb (substring (String.length v) 1 value) "-" else false
  end.
Definition attribute_matches (e : epos) (name : string) (op : attr_op) : bool :=
  match xml_attribute e name with Some v => op_matches op v | None => false end.

Inductive pseudo := PFirstChild | PLink | PVisited | PHover | PActive | PFocus | PLang (l : string).
(* XmlNode::pseudo_class_matches: FirstChild => no previous sibling element; everything else => false *)
Definition pseudo_class_matches (e : epos) (c : pseudo) : bool :=
  match c with
  | PFirstChild => if xmlnode_pseudo_first_child
                   then match prev_sibling_element e with None => true | Some _ => false end
                   else xmlnode_pseudo_default
  | _ => xmlnode_pseudo_default
  end.

(* ---- simplecss: selectors ---- *)
Inductive sub := SubAttr (name : string) (op : attr_op) | SubPseudo (c : pseudo).
Record simple := { s_type : option string; s_subs : list sub }.
Inductive comb := CNone | CDescendant | CChild | CAdjacent.
Record comp := { c_comb : comb; c_sel : simple }.
Definition selector := list comp.          (* components[0] first; its combinator is CNone *)

Definition sub_matches (e : epos) (sb : sub) : bool :=
  match sb with SubAttr n op => attribute_matches e n op | SubPseudo c => pseudo_class_matches e c end.
Definition match_selector (s : simple) (e : epos) : bool :=
  (match s_type s with Some t => has_local_name e t | None => true end) && forallb (sub_matches e) (s_subs s).

(* proper ancestors, nearest first: the `while let Some(e) = parent` loop of the descendant combinator *)
Fixpoint ancestors_of (e : epos) : list epos :=
  match e with
  | [] => []
  | _ :: up => match up with [] => [] | _ :: _ => up :: ancestors_of up end
  end.
(* matches_impl(idx, element) with rcs = components[idx], components[idx-1], ..., components[0] *)
Fixpoint matches_impl (rcs : list comp) (e : epos) : bool :=
  match rcs with
  | [] => false
  | c :: rest =>
      match_selector (c_sel c) e &&
      match c_comb c with
      | CNone => true
      | CDescendant => existsb (matches_impl rest) (ancestors_of e)
      | CChild => match parent_element e with Some p => matches_impl rest p | None => false end
      | CAdjacent => match prev_sibling_element e with Some p => matches_impl rest p | None => false end
      end
  end.
Definition sel_matches (s : selector) (e : epos) : bool := matches_impl (rev s) e.

(* ---- simplecss: specificity ([u8; 3], saturating; compared lexicographically = as one number) ---- *)
Definition sat_succ (n : N) : N := if (n <? 255)%N then (n + 1)%N else 255%N.
Definition spec_sub (acc : N * N * N) (sb : sub) : N * N * N :=
  let '(a, b, c) := acc in
  match sb with
  | SubAttr n _ => if String.eqb n "id" then (sat_succ a, b, c) else (a, sat_succ b, c)
  | SubPseudo _ => (a, sat_succ b, c)
  end.
Definition spec_comp (acc : N * N * N) (cp : comp) : N * N * N :=
  let '(a, b, c) := acc in
  let c' := match s_type (c_sel cp) with Some _ => sat_succ c | None => c end in
  fold_left spec_sub (s_subs (c_sel cp)) (a, b, c').
Definition specificity (s : selector) : N :=
  let '(a, b, c) := fold_left spec_comp s (0, 0, 0)%N in (a * 65536 + b * 256 + c)%N.

(* ---- rules: stable sort by specificity, then the matching rules' declarations in that order ---- *)
Record rule := { r_sel : selector; r_decls : list decl }.
Definition rule_key (r : rule) : N := specificity (r_sel r).
Fixpoint insert_rule (r : rule) (l : list rule) : list rule :=
  match l with
  | [] => [r]
  | y :: t => if (rule_key r <=? rule_key y)%N then r :: y :: t else y :: insert_rule r t
  end.
Definition sort_rules (l : list rule) : list rule := fold_right insert_rule [] l.
Definition matching_rules (rules : list rule) (e : epos) : list rule :=
  filter (fun r => sel_matches (r_sel r) e) (sort_rules rules).
Definition sheet_css (rules : list rule) (e : epos) : list decl := flat_map r_decls (matching_rules rules e).

Definition set_css (x : xelem) (l : list decl) : xelem :=
  {| x_tag := x_tag x; x_ignore_ids := x_ignore_ids x; x_attrs := x_attrs x; x_css := l; x_style := x_style x |}.

(* ---- the declarative winner of a declaration sequence for one name: the first !important candidate if there is one,
   otherwise the last candidate ---- *)
Fixpoint last_opt {A} (l : list A) : option A :=
  match l with [] => None | [x] => Some x | _ :: r => last_opt r end.
Definition winner (l : list attr) : option attr :=
  match find a_imp l with Some d => Some d | None => last_opt l end.

(* ---- whole documents for the `selector` correspondence: elements in pre-order with the parent's index ---- *)
(* si_tree = false: an XML element that is a sibling for the matcher but is not copied into the svgtree (`style`) *)
Record sitem := { si_parent : option nat; si_info : einfo; si_x : xelem; si_tree : bool }.
Definition opt_nat_eqb (a b : option nat) : bool :=
  match a, b with Some x, Some y => Nat.eqb x y | None, None => true | _, _ => false end.
Fixpoint positions_from (seen : list sitem) (acc : list epos) (rest : list sitem) : list epos :=
  match rest with
  | [] => acc
  | it :: r =>
      let up := match si_parent it with Some j => nth j acc [] | None => [] end in
      let prevs := rev (map si_info (filter (fun d => opt_nat_eqb (si_parent d) (si_parent it)) seen)) in
      positions_from (seen ++ [it]) (acc ++ [(si_info it, prevs) :: up]) r
  end.
Definition positions (items : list sitem) : list epos := positions_from [] [] items.
Definition tree_idx (items : list sitem) (j : nat) : nat := length (filter si_tree (firstn j items)).
Definition doc_items (rules : list rule) (items : list sitem) : list (option nat * xelem) :=
  flat_map (fun ip => if si_tree (fst ip)
                      then [(option_map (tree_idx items) (si_parent (fst ip)), set_css (si_x (fst ip)) (sheet_css rules (snd ip)))]
                      else [])
           (combine items (positions items)).
(* (rules in source order: injected sheet, then the document's; elements; the implementation's resolved lists) *)
Definition sel_case_ok (c : list rule * list sitem * list (list attr)) : bool :=
  let '(rules, items, impl) := c in doc_case_ok (doc_items rules items, impl).
