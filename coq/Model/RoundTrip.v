(* C08: the strings the writer puts into `id`, `url(#..)` and `xlink:href="#.."` attributes, and what the parser
   takes out of them again.  The write sites are Gen/IdSites.v (tools/gen_roundtrip.py, from writer.rs on every run):
   for each site the token list of the written value.  Executable Gallina only.

   Reading side (svgtypes, an external crate - hand model, validated by the `id-once` correspondence and the
   rendering oracle): an IRI is `#` + everything after it; a FuncIRI is `url(#` + everything up to the first
   space or `)`. *)
From RV Require Import Gen.IdSites.
From Coq Require Import String List Bool Ascii.
Import ListNotations.
Local Open Scope string_scope.

Definition emit_tok (prefix id : string) (t : idtok) : string :=
  match t with KPrefix => prefix | KRaw => id | KLit s => s end.
Fixpoint emit (prefix id : string) (l : list idtok) : string :=
  match l with [] => "" | t :: r => emit_tok prefix id t ++ emit prefix id r end.

(* what must be written at a site of each kind for the element whose tree id is `id` *)
Definition expected (k : sitekind) (prefix id : string) : string :=
  match k with
  | SDef => prefix ++ id
  | SIri => "url(#" ++ prefix ++ id ++ ")"
  | SHref => "#" ++ prefix ++ id
  end.
Definition canon (k : sitekind) : list idtok :=
  match k with
  | SDef => [KPrefix; KRaw]
  | SIri => [KLit "url(#"; KPrefix; KRaw; KLit ")"]
  | SHref => [KLit "#"; KPrefix; KRaw]
  end.

Definition idtok_eqb (a b : idtok) : bool :=
  match a, b with
  | KPrefix, KPrefix | KRaw, KRaw => true
  | KLit s, KLit t => String.eqb s t
  | _, _ => false
  end.
Fixpoint toks_eqb (l m : list idtok) : bool :=
  match l, m with
  | [], [] => true
  | a :: r, b :: s => idtok_eqb a b && toks_eqb r s
  | _, _ => false
  end.
Definition site_ok (s : string * sitekind * list idtok) : bool := toks_eqb (snd s) (canon (snd (fst s))).
Definition chk_id_sites : bool := forallb site_ok id_sites.
(* the first site that does not write prefix ++ id exactly once (search phase) *)
Definition bad_id_sites : list (string * sitekind * list idtok) := filter (fun s => negb (site_ok s)) id_sites.
Definition is_def (s : string * sitekind * list idtok) : bool := match snd (fst s) with SDef => true | _ => false end.

(* ---- reading *)
Fixpoint strip (p s : string) : option string :=
  match p with
  | EmptyString => Some s
  | String c p' => match s with String d s' => if Ascii.eqb c d then strip p' s' else None | EmptyString => None end
  end.
Definition iri_stop (c : ascii) : bool := Ascii.eqb c " " || Ascii.eqb c ")".
Fixpoint take_iri (s : string) : string :=
  match s with
  | EmptyString => ""
  | String c r => if iri_stop c then "" else String c (take_iri r)
  end.
Fixpoint clean (s : string) : bool :=
  match s with EmptyString => true | String c r => negb (iri_stop c) && clean r end.
(* svgtypes::IRI / FuncIRI *)
Definition parse_href (s : string) : option string := strip "#" s.
Definition parse_func_iri (s : string) : option string := option_map take_iri (strip "url(#" s).
Definition link_target (k : sitekind) (s : string) : option string :=
  match k with SDef => None | SIri => parse_func_iri s | SHref => parse_href s end.
