(* C04, second pass: hand-modelled names used by the filter-parameter slices of Gen/LeafFilterPar.v, over the
   special-value domain xq (finite rational, +-inf, NaN; arithmetic overflows to an infinity beyond f32::MAX). *)
From Coq Require Import Qround.
From RV Require Import Model.Base Model.StylePrims.
Local Open Scope Q_scope.

(* f32::round: half away from zero; infinities and NaN unchanged *)
Definition Qround_haz (q : Q) : Z := if Qleb 0 q then Qfloor (q + (1 # 2)) else (- Qfloor (- q + (1 # 2)))%Z.
Definition xq_round (x : xq) : xq := match x with Fin q => Fin (inject_Z (Qround_haz q)) | o => o end.
(* usvg ApproxZeroUlps *)
Definition xq_approx_zero (x : xq) (ulps : Z) : bool := xq_approx_eq_ulps x (Fin 0) ulps.
(* strict_num::PositiveF32::new: finite and >= 0 *)
Definition xq_positive_new (x : xq) : option xq := match x with Fin q => if Qleb 0 q then Some x else None | _ => None end.
Definition XQ_POSITIVE_ZERO : xq := Fin 0.
Definition xq_unwrap_or_x (o : option xq) (d : xq) : xq := match o with Some v => v | None => d end.
(* usvg NonZeroF32::new (tree/mod.rs): rejects only values within 4 ulps of zero *)
Definition xq_sz_w (s : xq * xq) : xq := fst s.
Definition xq_sz_h (s : xq * xq) : xq := snd s.
