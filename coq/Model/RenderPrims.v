(* Primitives that the source-derived layer geometry (Gen/LeafRender.v) calls: Rust float->int casts,
   saturating integer operations, floor/ceil, and tiny_skia_path::Rect::to_int_rect.
   Executable definitions only.  f32 values are exact rationals; `floor`/`ceil` of an f32 are exact. *)
From RV Require Import Model.Base.
From Coq Require Import Qround.
Local Open Scope Z_scope.

(* f32::floor / f32::ceil, result kept as the integer it denotes *)
Definition f32_floor (q : Q) : Z := Qfloor q.
Definition f32_ceil (q : Q) : Z := Qceiling q.
(* f32::trunc, f32::round (half away from zero); only reachable after a source edit *)
Definition f32_trunc (q : Q) : Z := if Qleb 0 q then Qfloor q else Qceiling q.
Definition f32_round (q : Q) : Z :=
  if Qleb 0 q then Qfloor (q + (1 # 2))%Q else Qceiling (q - (1 # 2))%Q.

(* `x as i32` / `x as u32` for an integral float value x: saturating *)
Definition as_i32 (z : Z) : Z := Z.max I32_MIN (Z.min I32_MAX z).
Definition as_u32 (z : Z) : Z := Z.max 0 (Z.min U32_MAX z).
(* `u as i32` for u : u32 (wraps) *)
Definition u32_as_i32 (z : Z) : Z := if z <=? I32_MAX then z else z - 4294967296.
Definition wrap_i32 (z : Z) : Z := u32_as_i32 (z mod 4294967296).
Definition i32_saturating_sub (a b : Z) : Z := as_i32 (a - b).
Definition u32_saturating_add (a b : Z) : Z := as_u32 (a + b).
Definition u32_saturating_mul (a b : Z) : Z := as_u32 (a * b).
Definition i32_wrapping_sub (a b : Z) : Z := wrap_i32 (a - b).
Definition u32_wrapping_add (a b : Z) : Z := (a + b) mod 4294967296.

(* tiny_skia_path::Rect::to_int_rect:
     IntRect::from_xywh(x.floor() as i32, y.floor() as i32, max(1, w.ceil() as u32), max(1, h.ceil() as u32)).unwrap() *)
Definition rect_to_int_rect_opt (r : qrect) : option irect :=
  irect_from_xywh (as_i32 (f32_floor (rx r))) (as_i32 (f32_floor (ry r)))
                  (Z.max 1 (as_u32 (f32_ceil (rw r)))) (Z.max 1 (as_u32 (f32_ceil (rh r)))).
Definition irect_dummy : irect := {| ix := 0; iy := 0; iw := 0; ih := 0 |}.
(* total version used inside the source-derived code; the `unwrap` panic is made explicit by
   Model/Render.v `layer_box` (result LPanic) through `to_int_rect_panics` *)
Definition rect_to_int_rect (r : qrect) : irect :=
  match rect_to_int_rect_opt r with Some i => i | None => irect_dummy end.
Definition to_int_rect_panics (r : qrect) : bool :=
  match rect_to_int_rect_opt r with Some _ => false | None => true end.

(* tiny_skia_path::IntRect::translate: IntRect::from_xywh(x + tx, y + ty, w, h) *)
Definition irect_translate (r : irect) (tx ty : Z) : option irect :=
  irect_from_xywh (ix r + tx) (iy r + ty) (iw r) (ih r).
Definition opt_unwrap_or {A : Type} (o : option A) (d : A) : A := match o with Some x => x | None => d end.

Definition Qfloor_q (q : Q) : Q := inject_Z (Qfloor q).
Definition Qceil_q (q : Q) : Q := inject_Z (Qceiling q).
Definition ts_post_concat (a b : ts) : ts := ts_concat b a.
