(* Model of id generation in crates/usvg/src/parser/converter.rs: Cache::gen_*_id, Cache::all_ids and its
   population in convert_doc.  The kinds, their literal prefixes, whether each retry loop tests all_ids
   and which elements populate all_ids come from Gen/IdTables.v (source-derived).
   `h` stands for string_hash (DefaultHasher): the set holds hashes, not strings.  Executable Gallina only. *)
From RV Require Import Gen.IdTables.
From Coq Require Import NArith List Bool String DecimalString.
Import ListNotations.
Local Open Scope N_scope.

(* `format!("{}", n)` for an unsigned counter *)
Definition dec (i : N) : string := NilEmpty.string_of_uint (N.to_uint i).
(* `format!("<prefix>{}", index)` *)
Definition gen_name (k : idkind) (i : N) : string := (id_prefix k ++ dec i)%string.

(* the (tag, id) pairs of all elements of the source document, in document order *)
Definition doc_ids := list (string * string).

(* `for node in svg_doc.descendants() { [if matches!(tag, ..)] if !id.is_empty() { all_ids.insert(hash(id)) } }` *)
Definition populate (flt : option (list string)) (doc : doc_ids) : list string :=
  map snd (filter (fun e => negb (String.eqb (snd e) "") &&
                            match flt with
                            | None => true
                            | Some tags => existsb (String.eqb (fst e)) tags
                            end) doc).

Record cache := { c_hashes : list N; c_idx : idkind -> N }.

Section Hash.
  Variable h : string -> N.

  Definition new_cache (doc : doc_ids) : cache :=
    {| c_hashes := map h (populate all_ids_filter doc); c_idx := fun _ => 0 |}.

  Definition mem_hash (x : N) (l : list N) : bool := existsb (N.eqb x) l.

  (* `loop { self.idx += 1; let id = format!(..); if !self.all_ids.contains(&hash(id)) { return id } }` *)
  Fixpoint id_loop (fuel : nat) (k : idkind) (hashes : list N) (idx : N) : option (string * N) :=
    match fuel with
    | O => None
    | S f =>
        let idx := idx + 1 in
        let nm := gen_name k idx in
        if gen_checks_all_ids k && mem_hash (h nm) hashes then id_loop f k hashes idx else Some (nm, idx)
    end.

  Definition set_idx (c : cache) (k : idkind) (v : N) : cache :=
    {| c_hashes := c_hashes c; c_idx := fun k' => if idkind_eqb k' k then v else c_idx c k' |}.

  (* Cache::gen_<kind>_id; None = out of fuel (impossible when h is injective: Proofs/Ids.v) *)
  Definition gen_id (k : idkind) (c : cache) : option (string * cache) :=
    match id_loop (S (List.length (c_hashes c))) k (c_hashes c) (c_idx c k) with
    | Some (nm, idx) => Some (nm, set_idx c k idx)
    | None => None
    end.

  (* how the ids of a tree come about: kept from a source element, or generated *)
  Inductive ev := Keep (s : string) | Gen (k : idkind).
  Fixpoint run (evs : list ev) (c : cache) : option (list string) :=
    match evs with
    | [] => Some []
    | Keep s :: r => option_map (cons s) (run r c)
    | Gen k :: r =>
        match gen_id k c with
        | Some (nm, c') => option_map (cons nm) (run r c')
        | None => None
        end
    end.
  Fixpoint kept (evs : list ev) : list string :=
    match evs with [] => [] | Keep s :: r => s :: kept r | Gen _ :: r => kept r end.
End Hash.
