(* C01 / C03 model: construction of usvg's intermediate tree (svgtree) from the XML tree.

   Mirrors crates/usvg/src/parser/svgtree/parse.rs:
     parse_xml_node           depth check `depth > DEPTH_LIMIT => Err`, tag filter, element creation,
                              then text / use / children
     parse_svg_element        node-count check `nodes.len() > NODES_LIMIT => Err`, append
     parse_svg_use_element    resolve_href through the id map (first occurrence of an id wins),
                              guards `link == node || origin.contains(link)` (origin = in-progress list), the "is an SVG element" test,
                              the scan of the strict descendants of the link for `use` elements
                              that point back to the `use` or to the link, then
                              parse_xml_node(link, origin ++ ancestors(use) ++ [link], ignore_ids := true, depth + USE_DEPTH_STEP)
   XML is abstracted to what these functions look at: a node identity (`uid`, roxmltree's node
   equality), the tag class, the `id` attribute, link-valued attributes, children.
   Executable Gallina only; DEPTH_LIMIT / NODES_LIMIT come from Gen/Consts.v (regenerated from
   the source on every run).  Fuel is used only because the recursion through `use` is not
   structural; Proofs/SvgBuild.v shows that the code's own depth counter makes the fuel adequate. *)
From Coq Require Import ZArith NArith List Bool Lia.
From RV Require Import Gen.Consts Gen.LinkGuards.
Import ListNotations.
Local Open Scope Z_scope.

(* element classes the parser / converter distinguish *)
Inductive tagk :=
  | TSvg | TG | TShape | TUse | TSymbol | TClipPath | TMask | TFilter | TFeImage | TFeOther
  | TPattern | TGradient | TStop | TMarker | TText | TTspan | TStyle | TOther
  | TNonSvg.      (* parse_tag_name = None: not an element, foreign namespace or unknown name *)

Definition tag_eqb (a b : tagk) : bool :=
  match a, b with
  | TSvg, TSvg | TG, TG | TShape, TShape | TUse, TUse | TSymbol, TSymbol | TClipPath, TClipPath
  | TMask, TMask | TFilter, TFilter | TFeImage, TFeImage | TFeOther, TFeOther | TPattern, TPattern
  | TGradient, TGradient | TStop, TStop | TMarker, TMarker | TText, TText | TTspan, TTspan | TStyle, TStyle
  | TOther, TOther | TNonSvg, TNonSvg => true
  | _, _ => false
  end.

(* link-valued attributes (AId::Href, Fill, Stroke, ClipPath, Mask, Filter, MarkerStart/Mid/End) *)
Inductive akey := AHref | AFill | AStroke | AClip | AMask | AFilter | AMStart | AMMid | AMEnd.
Definition akey_eqb (a b : akey) : bool :=
  match a, b with
  | AHref, AHref | AFill, AFill | AStroke, AStroke | AClip, AClip | AMask, AMask
  | AFilter, AFilter | AMStart, AMStart | AMMid, AMMid | AMEnd, AMEnd => true
  | _, _ => false
  end.

(* attribute value: Some n = `url(#n)` / `#n`;  None = `none` (or any non-link value) *)
Definition attrs := list (akey * option N).

Fixpoint attr_get (k : akey) (l : attrs) : option (option N) :=
  match l with
  | [] => None
  | (k', v) :: r => if akey_eqb k k' then Some v else attr_get k r
  end.
Definition attr_link (k : akey) (l : attrs) : option N :=
  match attr_get k l with Some (Some n) => Some n | _ => None end.
Definition has_attr (k : akey) (l : attrs) : bool :=
  match attr_get k l with Some _ => true | None => false end.

(* XML element: uid = node identity; flag = "units are userSpaceOnUse" (only read by the converter) *)
Inductive xnode := XN (uid : nat) (tag : tagk) (name : option N) (flag : bool) (at_ : attrs) (kids : list xnode).
Definition xuid (x : xnode) := match x with XN u _ _ _ _ _ => u end.
Definition xtag (x : xnode) := match x with XN _ t _ _ _ _ => t end.
Definition xname (x : xnode) := match x with XN _ _ n _ _ _ => n end.
Definition xflag (x : xnode) := match x with XN _ _ _ f _ _ => f end.
Definition xattrs (x : xnode) := match x with XN _ _ _ _ a _ => a end.
Definition xkids (x : xnode) := match x with XN _ _ _ _ _ k => k end.

(* roxmltree's descendants(): the node itself, then its subtree in document order *)
Fixpoint xflat (x : xnode) : list xnode :=
  match x with XN _ _ _ _ _ ks => x :: flat_map xflat ks end.

Definition optN_eqb (a b : option N) : bool :=
  match a, b with Some x, Some y => N.eqb x y | None, None => true | _, _ => false end.

(* id_map: the first element carrying the id wins *)
Definition xfind (doc : xnode) (n : N) : option xnode :=
  find (fun x => optN_eqb (xname x) (Some n)) (xflat doc).

Definition resolve_href (doc x : xnode) : option xnode :=
  match attr_link AHref (xattrs x) with Some n => xfind doc n | None => None end.

Definition is_svg_tag (t : tagk) : bool := negb (tag_eqb t TNonSvg).

(* the three reasons for which parse_svg_use_element refuses to expand (besides a missing link) *)
(* each guard is applied only if tools/gen_links.py found it in parse_svg_use_element (Gen/LinkGuards.v) *)
(* `origin`: node ids of the `use` elements that are being resolved, of their ancestors and of their targets *)
Definition mem_uid (u : nat) (l : list nat) : bool := existsb (Nat.eqb u) l.
Definition use_self_or_origin (node : xnode) (origin : list nat) (link : xnode) : bool :=
  (G_USE_SELF && Nat.eqb (xuid link) (xuid node)) ||
  (G_USE_ORIGIN && mem_uid (xuid link) origin).

(* node.ancestors(): the node and its ancestors, found by identity *)
Fixpoint xpath (target : nat) (x : xnode) : option (list nat) :=
  match x with
  | XN u _ _ _ _ ks =>
      if Nat.eqb u target then Some [u]
      else match (fix go (l : list xnode) : option (list nat) :=
                    match l with
                    | [] => None
                    | k :: r => match xpath target k with Some p => Some p | None => go r end
                    end) ks with
           | Some p => Some (u :: p)
           | None => None
           end
  end.
Definition xancestors (doc : xnode) (u : nat) : list nat := match xpath u doc with Some p => p | None => [] end.
Definition origin_push (doc node link : xnode) (origin : list nat) : list nat :=
  if G_USE_PUSH then xuid link :: xancestors doc (xuid node) ++ origin else origin.
Definition use_scan_recursive (doc node link : xnode) : bool :=
  existsb (fun c => tag_eqb (xtag c) TUse &&
                    match resolve_href doc c with
                    | Some l2 => (G_USE_SCAN_NODE && Nat.eqb (xuid l2) (xuid node)) ||
                                 (G_USE_SCAN_LINK && Nat.eqb (xuid l2) (xuid link))
                    | None => false
                    end) (tl (xflat link)).
Definition use_skipped (doc node : xnode) (origin : list nat) (link : xnode) : bool :=
  use_self_or_origin node origin link || (G_USE_SVG_ONLY && negb (is_svg_tag (xtag link))) ||
  use_scan_recursive doc node link.

(* the svgtree: NodeId = index in `nodes` at the time of the append *)
Inductive snode := SN (id : nat) (tag : tagk) (name : option N) (flag : bool) (at_ : attrs) (kids : list snode).
Definition s_id (x : snode) := match x with SN u _ _ _ _ _ => u end.
Definition s_tag (x : snode) := match x with SN _ t _ _ _ _ => t end.
Definition s_name (x : snode) := match x with SN _ _ n _ _ _ => n end.
Definition s_flag (x : snode) := match x with SN _ _ _ f _ _ => f end.
Definition s_attrs (x : snode) := match x with SN _ _ _ _ a _ => a end.
Definition s_kids (x : snode) := match x with SN _ _ _ _ _ k => k end.

(* both limits are reported as Error::NodesLimitReached by the code; the model keeps them apart *)
Inductive errk := EDepth | ENodes.
Inductive outcome (A : Type) := OOk (a : A) | OErr (k : errk) | OOut.
Arguments OOk {A} a.
Arguments OErr {A} k.
Arguments OOut {A}.

(* b_count = doc.nodes.len(); b_maxdepth = largest `depth` any parse_xml_node call was entered with *)
(* b_next = b_count as a unary number (the NodeId of the next node), kept apart so that no conversion is needed *)
Record bstate := { b_count : Z; b_maxdepth : Z; b_next : nat }.
Definition note_depth (st : bstate) (depth : Z) : bstate :=
  {| b_count := b_count st; b_maxdepth := Z.max (b_maxdepth st) depth; b_next := b_next st |}.
Definition bump (st : bstate) : bstate :=
  {| b_count := b_count st + 1; b_maxdepth := b_maxdepth st; b_next := S (b_next st) |}.
(* parse(): nodes = [Root] *)
Definition bstate0 : bstate := {| b_count := 1; b_maxdepth := 0; b_next := 1 |}.

Section Limits.
(* the limits are parameters so that theorems can also speak about "any limits";
   `build` instantiates them with the source-derived constants *)
Variable depth_limit nodes_limit : Z.

Fixpoint bkids (rec : xnode -> bstate -> bstate * outcome (list snode)) (l : list xnode) (st : bstate)
  : bstate * outcome (list snode) :=
  match l with
  | [] => (st, OOk [])
  | k :: r =>
      match rec k st with
      | (st1, OOk a) =>
          match bkids rec r st1 with
          | (st2, OOk b) => (st2, OOk (a ++ b))
          | (st2, e) => (st2, e)
          end
      | (st1, e) => (st1, e)
      end
  end.

(* svgtree/text.rs parse_svg_text_element_impl(parent := x, depth): the depth test first, then the children;
   only tspan / tref / textPath / a (class TTspan) become elements (with their own ids: ignore_ids is false
   there), everything else is skipped; character data is not modelled. *)
Fixpoint btext (fuel : nat) (x : xnode) (depth : Z) (st : bstate) {struct fuel} : bstate * outcome (list snode) :=
  let st := note_depth st depth in
  if G_TEXT_DEPTH && (depth >? depth_limit) then (st, OErr EDepth) else
  match fuel with
  | O => (st, OOut)
  | S f =>
      bkids (fun k s =>
               match xtag k with
               | TTspan =>
                   if G_NODES_BEFORE_APPEND && (b_count s >? nodes_limit) then (s, OErr ENodes) else
                   match btext f k (depth + TEXT_DEPTH_STEP) (bump s) with
                   | (s2, OOk ks) => (s2, OOk [SN (b_next s) TTspan (xname k) (xflag k) (xattrs k) ks])
                   | (s2, e) => (s2, e)
                   end
               | _ => (s, OOk [])
               end) (xkids x) st
  end.

Fixpoint bnode (fuel : nat) (doc x : xnode) (origin : list nat) (ignore_ids : bool) (depth : Z) (st : bstate)
  {struct fuel} : bstate * outcome (list snode) :=
  let st := note_depth st depth in
  if G_DEPTH_FIRST && (depth >? depth_limit) then (st, OErr EDepth) else
  match fuel with
  | O => (st, OOut)
  | S f =>
      match xtag x with
      | TNonSvg | TStyle => (st, OOk [])
      | tag =>
          (* parse_svg_element: the limit is tested before the append *)
          if G_NODES_BEFORE_APPEND && (b_count st >? nodes_limit) then (st, OErr ENodes) else
          let id := b_next st in
          let st1 := bump st in
          let nm := if ignore_ids then None else xname x in
          let mk ks := SN id tag nm (xflag x) (xattrs x) ks in
          match tag with
          | TText =>
              match btext f x (depth + TEXT_DEPTH_STEP) st1 with
              | (st2, OOk ks) => (st2, OOk [mk ks])
              | (st2, e) => (st2, e)
              end
          | TUse =>
              match resolve_href doc x with
              | None => (st1, OOk [mk []])
              | Some link =>
                  if use_skipped doc x origin link then (st1, OOk [mk []])
                  else match bnode f doc link (origin_push doc x link origin) true (depth + USE_DEPTH_STEP) st1 with
                       | (st2, OOk ks) => (st2, OOk [mk ks])
                       | (st2, e) => (st2, e)
                       end
              end
          | _ =>
              match bkids (fun k s => bnode f doc k origin ignore_ids (depth + KID_DEPTH_STEP) s) (xkids x) st1 with
              | (st2, OOk ks) => (st2, OOk [mk ks])
              | (st2, e) => (st2, e)
              end
          end
      end
  end.

(* parse(): the Root node is nodes[0]; the document element is parsed at depth 0 with an empty in-progress list. *)
Definition build_with (fuel : nat) (doc : xnode) : bstate * outcome snode :=
  match bnode fuel doc doc [] false 0 bstate0 with
  | (st, OOk ks) => (st, OOk (SN 0 TOther None false [] ks))
  | (st, OErr k) => (st, OErr k)
  | (st, OOut) => (st, OOut)
  end.
End Limits.

(* ---- what bounds the use expansion: every expansion puts a new element of the document on `origin` ---- *)
Fixpoint xheight (x : xnode) : nat :=
  match x with XN _ _ _ _ _ ks => S (fold_right (fun k m => Nat.max (xheight k) m) O ks) end.
Definition fresh_count (doc : xnode) (origin : list nat) : nat :=
  length (filter (fun y => negb (mem_uid (xuid y) origin)) (xflat doc)).
(* fuel / depth that no document can exhaust, whatever its references look like *)
Definition expansion_fuel (doc : xnode) : nat := S (length (xflat doc)) * (xheight doc + 2) + xheight doc + 1.

Definition build_fuel : nat := Z.to_nat DEPTH_LIMIT + 2.
Definition build (doc : xnode) : bstate * outcome snode := build_with DEPTH_LIMIT NODES_LIMIT build_fuel doc.

(* ---- descendants(), doc.links ---- *)
Fixpoint sflat (x : snode) : list snode :=
  match x with SN _ _ _ _ _ ks => x :: flat_map sflat ks end.
Definition sflat_list (l : list snode) : list snode := flat_map sflat l.

(* doc.links is filled by `insert` in document order: the LAST element carrying an id wins *)
Definition lookup (d : snode) (n : N) : option snode :=
  find (fun x => optN_eqb (s_name x) (Some n)) (rev (sflat d)).
