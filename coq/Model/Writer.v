(* Model of the reference structure produced by crates/usvg/src/writer.rs (`Tree::to_string`):
   which elements are written, in which order, which of them carry an `id`, and which attributes refer to
   ids (`url(#..)`, `xlink:href="#.."`).  Everything else (geometry, colours, numbers, escaping,
   indentation) is outside this model; numbers are in Model/WriteNum.v.

   Rust anchors, in order: convert, write_defs (gradients, patterns, text-path paths, filters with their
   feImage elements, clip paths, masks), write_text_path_paths, write_filters, write_elements /
   write_element, write_group_element (incl. the clipPath-child special case), write_path, write_fill /
   write_stroke / write_paint, write_func_iri, write_id_attribute, has_xlink.  Executable Gallina only. *)
From RV Require Import Model.Tree.
From Coq Require Import NArith List Bool.
Import ListNotations.
Local Open Scope N_scope.

Inductive xtag :=
| Tsvg | Tdefs | TlinearGradient | TradialGradient | Tpattern | Tfilter
| Tfe (kind : N)            (* filter primitive element, kind = index in usvg::filter::Kind *)
| TfeMergeNode | TclipPath | Tmask | Tg | Tpath | Timage | Ttext | TtextPath | Ttspan.

(* attribute kinds that hold one url(#..) *)
Definition K_CLIP : N := 1.  Definition K_MASK : N := 2.  Definition K_FILL : N := 3.  Definition K_STROKE : N := 4.

Inductive aval :=
| AId (p i : N)               (* id="<p><i>"                          write_id_attribute *)
| AUrl (k : N) (p i : N)      (* <k>="url(#<p><i>)"                   write_func_iri     *)
| AUrls (l : list (N * N))    (* filter="url(#<p><i>) url(#..) .."    write_group_element *)
| AHref (p i : N)             (* xlink:href="#<p><i>"                 feImage, textPath  *)
| AHrefData                   (* xlink:href="data:.."                 write_image_data   *)
| AIn (k : N) (r : finput)    (* in (k = 1) / in2 (k = 2)             write_filter_input *)
| AResult (r : N)             (* result=".."                                             *)
| ASub (mask : N)             (* which of x / y / width / height a filter primitive writes (bits 1, 2, 4, 8):
                                 write_filter_primitive_attrs writes each one iff it differs from the filter region *)
| AStyle                      (* style="mix-blend-mode:..;isolation:.." on a group: ONE attribute *)
| AXmlns | AXlink.            (* xmlns / xmlns:xlink on the root                         *)

Inductive xout := XE (tag : xtag) (attrs : list aval) (kids : list xout).

(* WriteOptions: id_prefix (0 = None or empty), preserve_text *)
Record wopts := { w_prefix : N; w_preserve_text : bool }.

(* what makes has_xlink answer true at one node *)
Definition xlink_trigger (n : node) : bool :=
  match n with
  | NGroup g => existsb (fun f => existsb (fun pr => match p_img pr with Some _ => true | None => false end) (f_prims f))
                        (g_filters g)
  | NImage _ _ => true
  | NText _ _ chunks => existsb (fun c => match c with CH (Some _) _ => true | _ => false end) chunks
  | NPath _ _ _ _ => false
  end.

(* writer.rs::has_xlink with its early returns; hx_gsub = Group::subroots, hx_paint = Path::subroots *)
Fixpoint hx_node (n : node) {struct n} : bool :=
  match n with
  | NGroup g =>
      xlink_trigger n                                             (* filters containing an feImage *)
      || match g with G _ _ _ m _ _ => match m with Some d => hx_maskchain_d d | None => false end end
                                                                  (* `while let Some(m) = mask { has_xlink(&m.root) .. }` *)
      || hx_group g                                               (* `if has_xlink(g) { return true }` *)
      || hx_gsub g                                                (* node.subroots(..) *)
  | NPath _ _ fl st => hx_paint fl || hx_paint st                   (* only the sub-roots *)
  | NImage _ _ => true                                            (* `Node::Image(_) => return true` *)
  | NText _ flat chunks => xlink_trigger n || hx_group flat       (* textPath chunk; Text::subroots = flattened *)
  end
with hx_group (g : group) {struct g} : bool :=
  match g with
  | G _ _ _ _ _ kids => (fix go (l : list node) : bool := match l with [] => false | k :: r => hx_node k || go r end) kids
  end
with hx_gsub (g : group) {struct g} : bool :=
  match g with
  | G _ _ clip mask filters _ =>
      match clip with Some c => hx_clipchain c | None => false end ||
      match mask with Some m => hx_maskchain_d m | None => false end ||
      (fix go (l : list filterdef) : bool := match l with [] => false | f :: r => hx_filter f || go r end) filters
  end
with hx_maskchain_d (m : maskdef) {struct m} : bool :=
  match m with MD _ _ nx r => hx_group r || match nx with Some m' => hx_maskchain_d m' | None => false end end
with hx_clipchain (c : clipdef) {struct c} : bool :=
  match c with CD _ _ nx r => hx_group r || match nx with Some c' => hx_clipchain c' | None => false end end
with hx_filter (f : filterdef) {struct f} : bool :=
  match f with
  | FD _ _ prims => (fix go (l : list prim) : bool :=
                       match l with [] => false | p :: r => (match p with PR _ _ _ _ img => match img with Some g => hx_group g | None => false end end) || go r end) prims
  end
with hx_paint (p : paint) {struct p} : bool := match p with PPat _ _ r => hx_group r | _ => false end.

Section Write.
  Variable o : wopts.
  Let p := w_prefix o.

  (* `if !id.is_empty() { write_id_attribute(id) }` *)
  Definition id_attr (i : N) : list aval := if i =? 0 then [] else [AId p i].
  (* write_paint: only paint servers produce a reference *)
  Definition paint_attr (k : N) (pa : paint) : list aval :=
    match pa with
    | PLin _ i | PRad _ i | PPat _ i _ => [AUrl k p i]
    | _ => []
    end.
  Definition opt_url {D} (k : N) (idf : D -> N) (d : option D) : list aval :=
    match d with Some x => [AUrl k p (idf x)] | None => [] end.

  (* write_path(path, is_clip_path, _, clip_path) *)
  Definition write_path (i : N) (fl st : paint) (clip_ref : option N) : xout :=
    XE Tpath (id_attr i ++ paint_attr K_FILL fl ++ paint_attr K_STROKE st ++
              match clip_ref with Some c => [AUrl K_CLIP p c] | None => [] end) [].

  (* the tspans of one chunk, flattened: one per decoration and one per span, each with fill/stroke *)
  Definition write_ppair (pp : ppair) : xout :=
    match pp with PP fl st => XE Ttspan (paint_attr K_FILL fl ++ paint_attr K_STROKE st) [] end.
  Definition write_chunk (c : chunk) : xout :=
    match c with
    | CH tp spans =>
        let inner := XE Ttspan [] (map write_ppair spans) in
        match tp with
        | Some (_, i) => XE TtextPath [AHref p i] [inner]
        | None => inner
        end
    end.

  (* write_element / write_group_element; `clip` = is_clip_path *)
  Fixpoint write_node (n : node) (clip : bool) {struct n} : list xout :=
    match n with
    | NPath i _ fl st => [write_path i fl st None]
    | NImage i _ => [XE Timage (id_attr i ++ [AHrefData]) []]
    | NGroup g => write_group g clip
    | NText i flat chunks =>
        if w_preserve_text o then [XE Ttext (id_attr i) (map write_chunk chunks)]
        else write_group flat clip
    end
  with write_group (g : group) (clip : bool) {struct g} : list xout :=
    match g with
    | G i sy c m fs kids =>
        if clip then
          (* write_clip_path_children(g, g.transform, g.clip_path id): the same loop as write_clipkids below, with the group's own clip id *)
          (fix go (l : list node) : list xout :=
             match l with
             | [] => []
             | NPath pi _ fl st :: r => write_path pi fl st (option_map c_id c) :: go r
             | NGroup inner :: r =>
                 (match option_map c_id c, option_map c_id (g_clip inner) with
                  | Some _, Some _ => []
                  | cid, ic => write_clipkids inner (match cid with Some x => Some x | None => ic end)
                  end) ++ go r
             | NText _ flat _ :: r => write_clipkids flat (option_map c_id c) ++ go r
             | NImage _ _ :: r => go r
             end) kids
        else
          [XE Tg (id_attr i ++ opt_url K_CLIP c_id c ++ opt_url K_MASK m_id m ++
                  match fs with [] => [] | _ => [AUrls (map (fun f => (p, f_id f)) fs)] end ++
                  (* `if g.blend_mode != Normal || g.isolate { style="mix-blend-mode:..;isolation:.." }` *)
                  (if sy then [AStyle] else []))
              ((fix go (l : list node) : list xout :=
                  match l with [] => [] | k :: r => write_node k false ++ go r end) kids)]
    end
  (* write_clip_path_children(g, ts, clip_id) (since 5d8487d): direct paths carry `clip_id`; a child group is entered (transforms are
     concatenated - not modelled) unless BOTH levels have a clip-path (`continue`), with `clip_id.or(inner clip id)`; a child text is
     written as its flattened paths, also under preserve_text; images are skipped *)
  with write_clipkids (g : group) (cid : option N) {struct g} : list xout :=
    match g with
    | G _ _ _ _ _ kids =>
        (fix go (l : list node) : list xout :=
           match l with
           | [] => []
           | NPath pi _ fl st :: r => write_path pi fl st cid :: go r
           | NGroup inner :: r =>
               (match cid, option_map c_id (g_clip inner) with
                | Some _, Some _ => []
                | _, ic => write_clipkids inner (match cid with Some x => Some x | None => ic end)
                end) ++ go r
           | NText _ flat _ :: r => write_clipkids flat cid ++ go r
           | NImage _ _ :: r => go r
           end) kids
    end.

  (* write_elements(parent, is_clip_path) *)
  Definition write_elements (parent : group) (clip : bool) : list xout :=
    flat_map (fun n => write_node n clip) (g_kids parent).

  (* ---- write_defs *)
  Definition write_lin (d : paint) : xout := XE TlinearGradient [AId p (pa_id d)] [].
  Definition write_rad (d : paint) : xout := XE TradialGradient [AId p (pa_id d)] [].
  Definition write_pat (d : paint) : xout :=
    XE Tpattern [AId p (pa_id d)] (match d with PPat _ _ r => write_elements r false | _ => [] end).

  (* write_text_path_paths: `for node { Group => rec, Text => one <path id=..> per chunk on a path };
     node.subroots(rec)`  = the sub_first = false walk *)
  Definition text_path_defs (n : node) : list xout :=
    match n with
    | NText _ _ chunks =>
        flat_map (fun c => match c with CH (Some (_, i)) _ => [XE Tpath (id_attr i) []] | _ => [] end) chunks
    | _ => []
    end.
  Definition write_text_path_paths (root : group) : list xout :=
    walk_group false (fun n acc => acc ++ text_path_defs n) root [].

  (* Tree::has_text_nodes as written in tree/mod.rs: the loop only ever returns `true`, and so does the
     fall-through at the end; kept as a function of the tree so that the tie notices a change *)
  Definition has_text_nodes (root : group) : bool := true.

  (* one filter primitive *)
  Definition write_prim (pr : prim) : xout :=
    match pr with
    | PR k sb res ins img =>
        let href := match img with
                    | Some r => match g_kids r with c :: _ => [AHref p (node_id c)] | [] => [] end
                    | None => []
                    end in
        if k =? 12 then                                           (* Kind::Merge: inputs on feMergeNode children *)
          XE (Tfe k) [ASub sb; AResult res] (map (fun i => XE TfeMergeNode [AIn 1 i] []) ins)
        else
          XE (Tfe k) (ASub sb ::
                      (fix go (l : list finput) (j : N) : list aval :=
                         match l with [] => [] | i :: r => AIn j i :: go r (j + 1) end) ins 1
                      ++ href ++ [AResult res]) []
    end.

  (* write_filters: `written_fe_image_nodes` holds the ids of feImage children already written *)
  Definition fe_children (f : filterdef) : list node :=
    flat_map (fun pr => match p_img pr with
                        | Some r => match g_kids r with c :: _ => [c] | [] => [] end
                        | None => []
                        end) (f_prims f).
  Fixpoint write_fe_children (cs : list node) (written : list N) : list xout * list N :=
    match cs with
    | [] => ([], written)
    | c :: r =>
        if existsb (N.eqb (node_id c)) written then write_fe_children r written
        else let '(out, w') := write_fe_children r (written ++ [node_id c]) in (write_node c false ++ out, w')
    end.
  Fixpoint write_filters (fs : list filterdef) (written : list N) : list xout :=
    match fs with
    | [] => []
    | f :: r =>
        let '(pre, w') := write_fe_children (fe_children f) written in
        pre ++ XE Tfilter [AId p (f_id f)] (map write_prim (f_prims f)) :: write_filters r w'
    end.

  Definition write_clip (c : clipdef) : xout :=
    XE TclipPath ([AId p (c_id c)] ++ opt_url K_CLIP c_id (c_next c)) (write_elements (c_root c) true).
  Definition write_mask (m : maskdef) : xout :=
    XE Tmask ([AId p (m_id m)] ++ opt_url K_MASK m_id (m_next m)) (write_elements (m_root m) false).

  Definition write_defs (t : tree) : list xout :=
    map write_lin (t_lins t) ++ map write_rad (t_rads t) ++ map write_pat (t_pats t) ++
    (if has_text_nodes (t_root t) then write_text_path_paths (t_root t) else []) ++
    write_filters (t_filts t) [] ++
    map write_clip (t_clips t) ++ map write_mask (t_masks t).

  (* has_xlink, statement by statement (a `return true` inside the loop is the left operand of `||`):
       for node in &parent.children {
           match node {
               Group(g) => { filters with an feImage primitive -> true;
                             for every mask of the chain: has_xlink(&m.root) -> true;
                             has_xlink(g) -> true }
               Image(_) => return true,
               Text(t)  => a chunk on a text path -> true,
               _ => {}
           }
           node.subroots(|root| present |= has_xlink(root)); present -> true
       }
       false *)
  Definition has_xlink (root : group) : bool := hx_group root.

  (* convert *)
  Definition write (t : tree) : xout :=
    XE Tsvg (AXmlns :: if has_xlink (t_root t) then [AXlink] else [])
       (XE Tdefs [] (write_defs t) :: write_elements (t_root t) false).
End Write.

(* ---------------------------------------------------------------------------------------------- *)
(* reading an output tree                                                                          *)
Definition attr_defs (a : aval) : list (N * N) := match a with AId p i => [(p, i)] | _ => [] end.
Definition attr_refs (a : aval) : list (N * N) :=
  match a with
  | AUrl _ p i => [(p, i)]
  | AUrls l => l
  | AHref p i => [(p, i)]
  | _ => []
  end.
Definition attr_xlink (a : aval) : bool := match a with AHref _ _ | AHrefData => true | _ => false end.

Fixpoint defs_of (x : xout) : list (N * N) :=
  match x with
  | XE _ attrs kids =>
      flat_map attr_defs attrs ++
      (fix go (l : list xout) : list (N * N) := match l with [] => [] | k :: r => defs_of k ++ go r end) kids
  end.
Fixpoint refs_of (x : xout) : list (N * N) :=
  match x with
  | XE _ attrs kids =>
      flat_map attr_refs attrs ++
      (fix go (l : list xout) : list (N * N) := match l with [] => [] | k :: r => refs_of k ++ go r end) kids
  end.
Fixpoint uses_xlink (x : xout) : bool :=
  match x with
  | XE _ attrs kids =>
      existsb attr_xlink attrs ||
      (fix go (l : list xout) : bool := match l with [] => false | k :: r => uses_xlink k || go r end) kids
  end.
Definition declares_xlink (x : xout) : bool :=
  match x with XE _ attrs _ => existsb (fun a => match a with AXlink => true | _ => false end) attrs end.
Definition root_is_svg (x : xout) : bool :=
  match x with XE Tsvg (AXmlns :: _) _ => true | _ => false end.

(* ---------------------------------------------------------------------------------------------- *)
(* comparison with the skeleton of the real output                                                 *)
Definition finput_eqb (a b : finput) : bool :=
  match a, b with
  | ISourceGraphic, ISourceGraphic | ISourceAlpha, ISourceAlpha => true
  | IRef x, IRef y => x =? y
  | _, _ => false
  end.
Definition xtag_eqb (a b : xtag) : bool :=
  match a, b with
  | Tsvg, Tsvg | Tdefs, Tdefs | TlinearGradient, TlinearGradient | TradialGradient, TradialGradient
  | Tpattern, Tpattern | Tfilter, Tfilter | TfeMergeNode, TfeMergeNode | TclipPath, TclipPath | Tmask, Tmask
  | Tg, Tg | Tpath, Tpath | Timage, Timage | Ttext, Ttext | TtextPath, TtextPath | Ttspan, Ttspan => true
  | Tfe x, Tfe y => x =? y
  | _, _ => false
  end.
Definition pair_eqb (a b : N * N) : bool := (fst a =? fst b) && (snd a =? snd b).
Definition aval_eqb (a b : aval) : bool :=
  match a, b with
  | AId p i, AId q j => (p =? q) && (i =? j)
  | AUrl k p i, AUrl l q j => (k =? l) && (p =? q) && (i =? j)
  | AUrls l, AUrls m => list_eqb pair_eqb l m
  | AHref p i, AHref q j => (p =? q) && (i =? j)
  | AHrefData, AHrefData | AXmlns, AXmlns | AXlink, AXlink | AStyle, AStyle => true
  | AIn k r, AIn l s => (k =? l) && finput_eqb r s
  | AResult r, AResult s => r =? s
  | ASub r, ASub s => r =? s
  | _, _ => false
  end.
Fixpoint xout_eqb (a b : xout) {struct a} : bool :=
  match a, b with
  | XE ta aa ka, XE tb ab kb =>
      xtag_eqb ta tb && list_eqb aval_eqb aa ab &&
      (fix go (l : list xout) (m : list xout) : bool :=
         match l, m with
         | [], [] => true
         | x :: l', y :: m' => xout_eqb x y && go l' m'
         | _, _ => false
         end) ka kb
  end.

(* boolean form of the closure property, evaluated on model outputs in the search phase *)
Definition count_pair (r : N * N) (l : list (N * N)) : nat := length (filter (pair_eqb r) l).
Definition chk_refs_closed (x : xout) : bool :=
  forallb (fun r => Nat.eqb (count_pair r (defs_of x)) 1) (refs_of x).
