(* C13 (round 5): the REGISTERED ways a node can be skipped between render_nodes and the rasteriser (the table
   tools/gen_filterpos.py derives from crates/resvg/src/{render,path,image}.rs into Gen/RenderExits.v, as of /repo 7272c32).
   Per function: every `if` / `match` head, for render_node every arm (each a plain call), and the number of
   return / continue / break / `?` exits.  Registered skips: invisible path / image (`!is_visible()`), a fill of a zero-width
   or zero-height path, missing paint / failed shader or pattern conversion (`?`), undecodable image.  None of them is a
   geometric test against the target; a new cull changes the generated table and C13_render_exits_registered fails. *)
From Coq Require Import String List.
Import ListNotations.
Local Open Scope string_scope.

Definition render_exits_expected : list (string * list string * nat) := [
  ("render.rs::render_nodes", ["body: { for node in parent.children() { render_node(node, ctx, transform, pixmap); } }"], 0%nat);
  ("render.rs::render_node", ["match node"; "arm Group: render_group(group, ctx, transform, pixmap);"; "arm Path: crate::path::render( path, tiny_skia::BlendMode::SourceOver, ctx, transform, pixmap, );"; "arm Image: crate::image::render(image, transform, pixmap);"; "arm Text: render_group(text.flattened(), ctx, transform, pixmap);"], 0%nat);
  ("path.rs::render", ["!path.is_visible()"; "path.paint_order() == usvg::PaintOrder::FillAndStroke"], 1%nat);
  ("path.rs::fill_path", ["path.data().bounds().width() == 0.0 || path.data().bounds().height() == 0.0"; "match fill.rule()"; "match fill.paint()"], 5%nat);
  ("path.rs::stroke_path", ["match stroke.paint()"], 4%nat);
  ("image.rs::render", ["!image.is_visible()"], 1%nat);
  ("image.rs::render_inner", ["match image_kind"], 0%nat);
  ("image.rs::render_vector", [], 0%nat);
  ("image.rs::render_raster", ["match rendering_mode"], 3%nat)
].
