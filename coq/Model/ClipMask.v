(* Per-pixel model of clipping, masking and group opacity (crates/resvg/src/clip.rs, mask.rs, render.rs).
   One channel (alpha / coverage) over exact rationals in [0,1]; the exact u8 scaling of
   tiny-skia's apply_mask is Model/Blend8.v scale_u8; the exact binary32 luminance coefficient of
   tiny_skia::Mask::from_pixmap is lum_mask_u8 below.
   The blend modes and the buffer initialisation are the SOURCE-DERIVED constants of Gen/ClipTables.v
   (clip_buffer_initial_opaque, clip_children_mode, clip_group_children_mode, clip_group_merge_mode). *)
From RV Require Import Model.Base.
From RV Require Import Model.F32.
From RV Require Import Gen.ClipTables.
From RV Require Import Model.Blend8.
From Flocq Require Import Core BinarySingleNaN.
Local Open Scope Q_scope.

(* drawing an opaque black shape whose anti-aliasing coverage of this pixel is e onto buffer alpha b *)
Definition blend_cov (mode : blend) (b e : Q) : Q :=
  match mode with
  | BClear => b * (1 - e)
  | BSourceOver => e + b * (1 - e)
  | BXor => e * (1 - b) + b * (1 - e)
  | BOther => b
  end.

(* A child of a clipPath as seen by one pixel: (has its own clip-path?, effective coverage).
   A plain path is drawn with the children mode; a child with clip-path is rendered into a fresh buffer,
   clipped, and merged by draw_pixmap with clip_group_merge_mode (clip_group). *)
Definition kid := (bool * Q)%type.
Definition kid_step (plain_mode : blend) (b : Q) (k : kid) : Q :=
  if fst k then blend_cov clip_group_merge_mode b (snd k) else blend_cov plain_mode b (snd k).
Definition buffer_after (plain_mode : blend) (kids : list kid) (b0 : Q) : Q :=
  fold_left (kid_step plain_mode) kids b0.
(* clip::apply: buffer starts opaque, children clear it *)
Definition clip_buffer (kids : list kid) : Q :=
  buffer_after clip_children_mode kids (if clip_buffer_initial_opaque then 1 else 0).
(* the factor applied to the target pixel: inverted buffer, after the clipPath's own clip-path *)
Definition clip_factor (kids : list kid) (nested : Q) : Q := (1 - clip_buffer kids) * nested.
(* clip_group: children drawn into a transparent buffer with the group children mode *)
Definition group_cov (kids : list kid) (own_clip : Q) : Q :=
  buffer_after clip_group_children_mode kids 0 * own_clip.

(* the intended semantics: every child clears by its coverage *)
Definition clear_only (kids : list kid) (b0 : Q) : Q := fold_left (fun b k => b * (1 - snd k)) kids b0.

(* recursive clip trees, evaluated to the flat form (used by the correspondence op `clip-algebra`) *)
Inductive cchild := CPath (cov : Q) | CGroup (kids : list cchild) (clip : cclip)
with cclip := CClip (kids : list cchild) (nested : option cclip).
Fixpoint eff (c : cchild) : kid :=
  match c with
  | CPath cov => (false, cov)
  | CGroup ks cl => (true, group_cov (map eff ks) (eval_clip cl))
  end
with eval_clip (cl : cclip) : Q :=
  match cl with
  | CClip ks n => clip_factor (map eff ks) (match n with Some m => eval_clip m | None => 1 end)
  end.

Definition unit_q (x : Q) : Prop := 0 <= x /\ x <= 1.
Definition kids_ok (kids : list kid) : Prop := Forall (fun k => unit_q (snd k)) kids.

(* KNOWN class (F16): a child with its own clip-path contributes (e > 0) at a pixel that an earlier child
   has already (partly) cleared: Xor re-opaques the buffer there *)
Fixpoint xor_hazard_from (kids : list kid) (b : Q) : bool :=
  match kids with
  | [] => false
  | k :: r => (fst k && Qltb 0 (snd k) && Qltb b 1) || xor_hazard_from r (kid_step clip_children_mode b k)
  end.
Definition xor_hazard (kids : list kid) : bool := xor_hazard_from kids 1.

(* ------------------------------------------------------------------ masks *)
(* the target pixel is multiplied by coefficient(mask content pixel) * coverage of the mask region, after
   the mask's own mask *)
Definition mask_factor (coef region_cov nested : Q) : Q := coef * region_cov * nested.
(* group opacity / mask / clip all act as p * f on premultiplied channels *)
Definition apply_factor (p f : Q) : Q := p * f.

(* tiny_skia::Mask::from_pixmap, MaskType::Luminance, on one premultiplied pixel, exact binary32 *)
Local Open Scope Z_scope.
Definition ceil_u8 (x : f32) : Z :=
  match x with
  | B754_zero _ => 0
  | B754_infinity s => if s then 0 else 255
  | B754_nan => 0
  | B754_finite s m e _ =>
      if s then 0 else
      let t := trunc_me m e in
      let exact := match e with Zneg p => Z.eqb (Z.shiftl t (Zpos p)) (Zpos m) | _ => true end in
      Z.min 255 (if exact then t else t + 1)
  end.
Definition fclamp (lo x hi : f32) : f32 := if flt x lo then lo else if fgt x hi then hi else x.   (* f32::clamp, x not NaN *)
Definition lum_mask_u8 (r g b a : Z) : Z :=
  let c255 := flit 255 1 in
  let fa := fdiv (of_Z a) c255 in
  let dem (c : Z) := let x := fdiv (of_Z c) c255 in if a =? 0 then x else fdiv x fa in
  let luma := fadd (fadd (fmul (dem r) (flit 2126 10000)) (fmul (dem g) (flit 7152 10000))) (fmul (dem b) (flit 722 10000)) in
  ceil_u8 (fclamp fzero (fmul (fmul luma fa) c255) c255).
Definition alpha_mask_u8 (r g b a : Z) : Z := a.
(* clip: Mask::from_pixmap(.., Alpha) then invert *)
Definition invert_u8 (m : Z) : Z := 255 - m.
Definition lum_table : list Z :=
  flat_map (fun a => map (fun c => lum_mask_u8 (Z.min c a) (Z.min c a) (Z.min c a) a) bytes) bytes.   (* index = a * 256 + c *)

(* ------------------------------------------------------------------ extension round 4: nesting to any depth *)
(* mask.rs::apply on one pixel: `mask="..."` on a <mask> is applied to the TARGET first (recursively), then the mask's own
   coefficient; coef = coefficient of the rendered mask content, region = coverage of the mask rectangle *)
Local Open Scope Q_scope.
Inductive mtree := MMask (coef region : Q) (nested : option mtree).
Fixpoint eval_mask (m : mtree) : Q :=
  match m with MMask c r n => mask_factor c r (match n with Some k => eval_mask k | None => 1 end) end.
Fixpoint wf_mask (m : mtree) : Prop :=
  match m with MMask c r n => unit_q c /\ unit_q r /\ match n with Some k => wf_mask k | None => True end end.
(* a group inside a group inside ...: every level multiplies by its clip factor, mask factor and opacity *)
Definition apply_factors (p : Q) (fs : list Q) : Q := fold_left apply_factor fs p.

(* the same in exact u8 / binary32, as tiny-skia computes it: the rendered mask content pixel (r, g, b, a) is scaled by the
   coverage rc of the mask rectangle (apply_mask), converted to a coefficient (Mask::from_pixmap), and the target channel -
   already treated by the nested mask - is scaled by it (apply_mask) *)
Local Open Scope Z_scope.
Inductive umask := UMask (luminance : bool) (r g b a rc : Z) (nested : option umask).
Definition umask_coef (luminance : bool) (r g b a rc : Z) : Z :=
  if luminance then lum_mask_u8 (scale_u8 r rc) (scale_u8 g rc) (scale_u8 b rc) (scale_u8 a rc)
  else alpha_mask_u8 (scale_u8 r rc) (scale_u8 g rc) (scale_u8 b rc) (scale_u8 a rc).
Fixpoint umask_apply (m : umask) (c : Z) : Z :=
  match m with
  | UMask lum r g b a rc n =>
      scale_u8 (match n with Some k => umask_apply k c | None => c end) (umask_coef lum r g b a rc)
  end.
Fixpoint umask_wf (m : umask) : Prop :=
  match m with
  | UMask _ r g b a rc n => is_byte r /\ is_byte g /\ is_byte b /\ is_byte a /\ is_byte rc /\
                            match n with Some k => umask_wf k | None => True end
  end.
(* some level of the chain has no coverage of its mask rectangle at this pixel *)
Fixpoint umask_outside (m : umask) : Prop :=
  match m with UMask _ _ _ _ _ rc n => rc = 0 \/ match n with Some k => umask_outside k | None => False end end.

(* ------------------------------------------------------------------ second pass: group opacity, exact binary32.
   render_group draws the layer with PixmapPaint { opacity: group.opacity().get(), quality: Nearest } (source-derived flag
   group_paint_is_opacity_nearest).  tiny-skia runs this on its highp pipeline (the pattern `gather` stage has no lowp version):
   load_8888 `c as f32 * (1.0 / 255.0)`, scale_1_float `* opacity`, source_over onto the destination, store_8888 =
   unnorm = round-to-nearest-even of clamp(v, 0, 1) * 255.  Compared with the real crate on all 256 x 256 (channel, opacity
   byte) pairs plus random f32 opacities, destination transparent. *)
Definition ts_factor : f32 := fdiv (flit 1 1) (flit 255 1).
Definition round_ne_u8 (x : f32) : Z :=
  match x with
  | B754_finite false m e _ =>
      match e with
      | Zneg p =>
          let q := Z.shiftr (Zpos m) (Zpos p) in
          let r := Zpos m - Z.shiftl q (Zpos p) in
          let h := Z.shiftl 1 (Zpos p - 1) in
          if h <? r then q + 1 else if r =? h then (if Z.even q then q else q + 1) else q
      | _ => trunc_me m e
      end
  | _ => 0
  end.
Definition ts_unnorm (v : f32) : Z :=
  let lo := if flt v fzero then fzero else v in                 (* v.max(0) *)
  let cl := if fgt lo (flit 1 1) then flit 1 1 else lo in       (* .min(1) *)
  round_ne_u8 (fmul cl (flit 255 1)).
Definition opacity_u8 (c : Z) (o : f32) : Z := ts_unnorm (fmul (fmul (of_Z c) ts_factor) o).
Definition opacity_of_byte (k : Z) : f32 := fdiv (of_Z k) (flit 255 1).
(* clip-path on a clipPath, clip then mask then ...: the target channel is scaled (apply_mask) by one byte per level *)
Definition scale_chain (c : Z) (ms : list Z) : Z := fold_left scale_u8 ms c.
