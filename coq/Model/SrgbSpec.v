(* The sRGB transfer functions as a specification for the two lookup tables of filter/mod.rs, in exact
   rational arithmetic.  v is THE byte nearest to 255 * f(c / 255) iff (v - 1/2)/255 <= f(c/255) <= (v + 1/2)/255.
     sRGB -> linear:  f(x) = x / 12.92                      if x <= 0.04045,   ((x + 0.055) / 1.055) ^ (12/5)  otherwise
     linear -> sRGB:  g(x) = 12.92 * x                      if x <= 0.0031308, 1.055 * x ^ (5/12) - 0.055      otherwise
   For non-negative reals y <= b ^ (12/5) <-> y ^ 5 <= b ^ 12, and 1.055 * x^(5/12) - 0.055 >= y <-> x ^ 5 >= ((y + 0.055) / 1.055) ^ 12,
   so both conditions are decided with integer powers of rationals. *)
From RV Require Import Model.Base.
From RV Require Import Model.F32.
From RV Require Import Gen.PixelTables.
Local Open Scope Q_scope.

Definition qpow (x : Q) (n : positive) : Q := Qpower_positive x n.

Definition into_linear_ok (c v : Z) : bool :=
  let x := c # 255 in
  let lo := (2 * v - 1) # 510 in let hi := (2 * v + 1) # 510 in
  if Qle_bool x (4045 # 100000)
  then let y := x / (1292 # 100) in Qle_bool lo y && Qle_bool y hi
  else let b := (x + (55 # 1000)) / (1055 # 1000) in
       (Qle_bool lo 0 || Qle_bool (qpow lo 5) (qpow b 12)) && Qle_bool (qpow b 12) (qpow hi 5).

Definition from_linear_ok (c v : Z) : bool :=
  let x := c # 255 in
  let lo := (2 * v - 1) # 510 in let hi := (2 * v + 1) # 510 in
  if Qle_bool x (31308 # 10000000)
  then let y := x * (1292 # 100) in Qle_bool lo y && Qle_bool y hi
  else let l := (lo + (55 # 1000)) / (1055 # 1000) in let h := (hi + (55 # 1000)) / (1055 # 1000) in
       (Qle_bool l 0 || Qle_bool (qpow l 12) (qpow x 5)) && Qle_bool (qpow x 5) (qpow h 12).

Definition into_linear_spec_sweep : bool :=
  forallb (fun c => into_linear_ok c (lut_into_linear_ch c)) bytes.
Definition from_linear_spec_sweep : bool :=
  forallb (fun c => from_linear_ok c (lut_from_linear_ch c)) bytes.
(* failing entries, for the search when the proof no longer checks *)
Definition into_linear_bad : list Z := filter (fun c => negb (into_linear_ok c (lut_into_linear_ch c))) bytes.
Definition from_linear_bad : list Z := filter (fun c => negb (from_linear_ok c (lut_from_linear_ch c))) bytes.
