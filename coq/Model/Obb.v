(* C18 model: how usvg turns objectBoundingBox definitions into user-space ones.

   Leaf expressions (`checked_bbox_transform`, `resolve_gradient_ts`, `resolve_pattern_rect`,
   `pattern_content_ts`, `clip_resolve_ts`, `*_cacheable`, `prim_region_*`) are the SOURCE-DERIVED
   definitions of Gen/LeafObb.v.  This file adds the stateful skeletons around them:

     paint_server.rs  update_paint_servers / process_paint / Paint::to_user_coordinates as a pass over a
                      heap of definitions and a list of users: a definition is rewritten in place iff its
                      reference count is 1 (Arc::get_mut), otherwise the user gets a clone under a generated
                      id; the content of a pattern is visited only when the pattern is uniquely held
     clippath.rs      convert with the converted-definition cache (`cacheable`, generated id on re-use)
     filter.rs        resolve_primitive_region (which leaf applies to which primitive kind)

   Executable definitions only (proofs: Proofs/Obb.v). *)
From RV Require Import Model.Base Model.GeomPrims Model.StylePrims Model.ObbPrims Gen.LeafObb.
Local Open Scope Q_scope.

(* ---------------------------------------------------------------- generated ids *)
(* Cache::gen_*_id: bump the counter until the candidate is not an id of the document.  Ids are numbers
   here (generated `linearGradientK` <-> K); `taken` are the ids present in the document. *)
Local Open Scope N_scope.
Fixpoint gen_id_fuel (fuel : nat) (taken : list N) (c : N) : N :=
  match fuel with
  | O => c + 1
  | S f => if existsb (N.eqb (c + 1)) taken then gen_id_fuel f taken (c + 1) else c + 1
  end.
Definition gen_id (taken : list N) (c : N) : N := gen_id_fuel (length taken) taken c.
Local Open Scope Q_scope.

(* ---------------------------------------------------------------- paint servers: heap + users *)
(* a gradient-like paint server: id, units, transform (the part objectBoundingBox resolution rewrites) *)
Record gdef := { g_id : N; g_units : units_; g_ts : ts }.
Definition resolve_def (d : gdef) (B : qrect) (id : N) : gdef :=
  {| g_id := id; g_units := UserSpaceOnUse; g_ts := resolve_gradient_ts (g_ts d) B |}.
(* a user: which heap cell its paint points to (None = no paint / removed), and its bounding box as usvg
   computes it (possibly without area) *)
Record user := { u_h : option nat; u_box : qrect }.
Definition set_h (u : user) (h : option nat) : user := {| u_h := h; u_box := u_box u |}.
Definition points_to (h : nat) (u : user) : bool := match u_h u with Some k => Nat.eqb k h | None => false end.
Definition refcount (h : nat) (us : list user) : nat := length (filter (points_to h) us).
Fixpoint heap_set (heap : list gdef) (h : nat) (d : gdef) : list gdef :=
  match heap, h with
  | [], _ => []
  | _ :: r, O => d :: r
  | x :: r, S k => x :: heap_set r k d
  end.

Record pstate := { ps_heap : list gdef; ps_ctr : N }.

(* one user: process_paint + Paint::to_user_coordinates.  `done` are the users already visited, `rest` the
   ones still to come: every one of them holds a reference. *)
Definition process_user (taken : list N) (st : pstate) (done : list user) (u : user) (rest : list user)
  : pstate * user :=
  match u_h u with
  | None => (st, u)
  | Some h =>
      match nth_error (ps_heap st) h with
      | None => (st, u)
      | Some d =>
          if units_eqb (g_units d) ObjectBoundingBox then
            match to_non_zero_rect (u_box u) with
            | None => (st, set_h u None)                       (* zero-sized shape: paint removed *)
            | Some B =>
                if Nat.eqb (refcount h (done ++ u :: rest)) 1
                then ({| ps_heap := heap_set (ps_heap st) h (resolve_def d B (g_id d)); ps_ctr := ps_ctr st |}, u)
                else let id := gen_id taken (ps_ctr st) in
                     ({| ps_heap := ps_heap st ++ [resolve_def d B id]; ps_ctr := id |},
                      set_h u (Some (length (ps_heap st))))
            end
          else (st, u)
      end
  end.

Fixpoint run_users (taken : list N) (st : pstate) (done : list user) (todo : list user) : pstate * list user :=
  match todo with
  | [] => (st, done)
  | u :: rest =>
      let '(st', u') := process_user taken st done u rest in
      run_users taken st' (done ++ [u']) rest
  end.
Definition postpass (taken : list N) (heap : list gdef) (ctr : N) (users : list user) : pstate * list user :=
  run_users taken {| ps_heap := heap; ps_ctr := ctr |} [] users.

(* what a user sees at the end *)
Definition user_def (st : pstate) (u : user) : option gdef :=
  match u_h u with Some h => nth_error (ps_heap st) h | None => None end.

(* ---------------------------------------------------------------- nested content (patterns) *)
(* Two levels: the users of the main tree point to patterns; the content of a pattern holds users of
   gradients.  process_paint descends into a pattern's content only when the pattern is uniquely held. *)
Record pattern := { pt_units : units_; pt_content : list user }.    (* content users point into the gradient heap *)
Record puser := { pu_pat : nat; pu_box : qrect }.                    (* a main-tree user of pattern #pu_pat *)
Definition pat_refcount (p : nat) (us : list puser) : nat := length (filter (fun u => Nat.eqb (pu_pat u) p) us).
Fixpoint pats_set (ps : list pattern) (k : nat) (p : pattern) : list pattern :=
  match ps, k with
  | [], _ => []
  | _ :: r, O => p :: r
  | x :: r, S j => x :: pats_set r j p
  end.
(* a user-space pattern is never cloned, so its reference count is the number of its users in the tree *)
Definition process_puser (taken : list N) (all : list puser) (acc : pstate * list pattern) (u : puser)
  : pstate * list pattern :=
  let '(st, pats) := acc in
  match nth_error pats (pu_pat u) with
  | None => acc
  | Some p =>
      if units_eqb (pt_units p) UserSpaceOnUse then
        if Nat.eqb (pat_refcount (pu_pat u) all) 1
        then let '(st', content') := run_users taken st [] (pt_content p) in
             (st', pats_set pats (pu_pat u) {| pt_units := pt_units p; pt_content := content' |})
        else acc                                                (* Arc::get_mut fails: content not visited *)
      else acc                                                  (* objectBoundingBox patterns: not modelled here *)
  end.
Definition postpass_nested (taken : list N) (heap : list gdef) (ctr : N) (pats : list pattern) (users : list puser)
  : pstate * list pattern :=
  fold_left (process_puser taken users) users ({| ps_heap := heap; ps_ctr := ctr |}, pats).
(* every gradient reachable through a used pattern's content is in user space *)
Definition content_resolved (st : pstate) (p : pattern) : bool :=
  forallb (fun u => match user_def st u with Some d => units_eqb (g_units d) UserSpaceOnUse | None => true end)
          (pt_content p).
Definition nested_resolved (res : pstate * list pattern) (users : list puser) : bool :=
  forallb (fun u => match nth_error (snd res) (pu_pat u) with Some p => content_resolved (fst res) p | None => true end) users.
(* known class (F25): a user-space pattern with two or more users whose content holds an objectBoundingBox paint *)
Definition content_has_obb (heap : list gdef) (p : pattern) : bool :=
  existsb (fun u => match u_h u with
                    | Some h => match nth_error heap h with Some d => units_eqb (g_units d) ObjectBoundingBox | None => false end
                    | None => false end) (pt_content p).
Definition KnownClass_shared_nested (heap : list gdef) (pats : list pattern) (users : list puser) : bool :=
  existsb (fun u => match nth_error pats (pu_pat u) with
                    | Some p => negb (Nat.eqb (pat_refcount (pu_pat u) users) 1) && content_has_obb heap p
                    | None => false end) users.

(* ---------------------------------------------------------------- clip paths: conversion with a cache *)
(* a clipPath element, and a chain: the element followed by the chain of its `clip-path` link *)
Record celem := { ce_id : N; ce_units : units_; ce_ts : ts }.
Definition csrc := list celem.
(* a converted clip path chain *)
Record cvelem := { cv_id : N; cv_ts : ts }.
Definition cconv := list cvelem.
Definition cache := list (N * cconv).
Fixpoint cache_get (c : cache) (id : N) : option cconv :=
  match c with [] => None | (k, v) :: r => if N.eqb k id then Some v else cache_get r id end.
Record cstate := { cs_cache : cache; cs_ctr : N }.
Definition clip_elem_ts (e : celem) (bbox : option qrect) : option ts :=
  if units_eqb (ce_units e) ObjectBoundingBox
  then match bbox with Some B => Some (clip_resolve_ts (ce_ts e) B) | None => None end
  else Some (ce_ts e).

(* clippath::is_cacheable (since 18adf92): no clipPath of the whole link chain is objectBoundingBox *)
Definition chain_cacheable (c : csrc) : bool := forallb (fun e => clip_cacheable (ce_units e)) c.

(* clippath::convert: cache lookup only for `cacheable` chains; objectBoundingBox transform from the user's
   box; the link is converted with the same box; a generated id when a non-cacheable element is
   converted again; every converted element goes into the cache *)
Fixpoint clip_convert (taken : list N) (c : csrc) (bbox : option qrect) (st : cstate) : option cconv * cstate :=
  match c with
  | [] => (Some [], st)
  | e :: link =>
      let cacheable := chain_cacheable (e :: link) in
      match (if cacheable then cache_get (cs_cache st) (ce_id e) else None) with
      | Some v => (Some v, st)
      | None =>
          match clip_elem_ts e bbox with
          | None => (None, st)
          | Some t' =>
              match clip_convert taken link bbox st with
              | (None, st1) => (None, st1)
              | (Some lk, st1) =>
                  let regen := negb cacheable && (match cache_get (cs_cache st1) (ce_id e) with Some _ => true | None => false end) in
                  let id' := if regen then gen_id taken (cs_ctr st1) else ce_id e in
                  let ctr' := if regen then gen_id taken (cs_ctr st1) else cs_ctr st1 in
                  let v := {| cv_id := id'; cv_ts := t' |} :: lk in
                  (Some v, {| cs_cache := (id', v) :: cs_cache st1; cs_ctr := ctr' |})
              end
          end
      end
  end.

(* the user-space transforms the element with box `bbox` must be clipped with, along the chain *)
Fixpoint clip_expected (c : csrc) (bbox : option qrect) : option (list ts) :=
  match c with
  | [] => Some []
  | e :: link =>
      match clip_elem_ts e bbox with
      | None => None
      | Some t' => match clip_expected link bbox with Some r => Some (t' :: r) | None => None end
      end
  end.
Definition cconv_ts (v : cconv) : list ts := map cv_ts v.
Fixpoint ts_list_eqb (a b : list ts) : bool :=
  match a, b with
  | [], [] => true
  | x :: r, y :: s => ts_eqb' x y && ts_list_eqb r s
  | _, _ => false
  end.
Definition chain_has_obb (c : csrc) : bool := existsb (fun e => units_eqb (ce_units e) ObjectBoundingBox) c.
(* convert for a sequence of users *)
Fixpoint clip_users (taken : list N) (us : list (csrc * option qrect)) (st : cstate) : list (option cconv) :=
  match us with
  | [] => []
  | (c, b) :: r => let '(v, st') := clip_convert taken c b st in v :: clip_users taken r st'
  end.

(* ---------------------------------------------------------------- Group::calculate_object_bbox *)
(* the box a group's clip path / mask / filter is resolved with: the union of the children's boxes (a child group's box
   already mapped through its transform), zero-width / zero-height boxes included; only a child group without any
   content is skipped; no area in the end = no box *)
Record gchild := { gc_box : qrect; gc_empty_group : bool }.
Definition Qmin_o (a b : Q) : Q := if Qleb a b then a else b.
Definition Qmax_o (a b : Q) : Q := if Qleb a b then b else a.
Definition rect_union (a b : qrect) : qrect :=
  let x1 := Qmin_o (rx a) (rx b) in let y1 := Qmin_o (ry a) (ry b) in
  let x2 := Qmax_o (r_right a) (r_right b) in let y2 := Qmax_o (r_bottom a) (r_bottom b) in
  {| rx := x1; ry := y1; rw := x2 - x1; rh := y2 - y1 |}.
Fixpoint union_children (acc : option qrect) (cs : list gchild) : option qrect :=
  match cs with
  | [] => acc
  | c :: r => if gc_empty_group c then union_children acc r
              else union_children (Some (match acc with Some a => rect_union a (gc_box c) | None => gc_box c end)) r
  end.
Definition object_bbox (cs : list gchild) : option qrect :=
  match union_children None cs with Some u => to_non_zero_rect u | None => None end.
Definition rect_inside (a b : qrect) : Prop :=
  rx b <= rx a /\ ry b <= ry a /\ r_right a <= r_right b /\ r_bottom a <= r_bottom b.

(* ---------------------------------------------------------------- filter primitive sub-regions *)
Inductive prim_kind := PK_FloodOrImage | PK_Other.
Definition resolve_primitive_region (kind : prim_kind) (units : units_) (x y w h : option Q)
                                    (bbox : option qrect) (filter_region : qrect) : option qrect :=
  match kind, units with
  | PK_FloodOrImage, ObjectBoundingBox =>
      match bbox with Some B => prim_region_flood_obb x y w h B | None => None end
  | _, ObjectBoundingBox => prim_region_other_obb x y w h filter_region
  | _, UserSpaceOnUse => prim_region_user x y w h filter_region
  end.
(* the sub-region the SVG rules give under primitiveUnits=objectBoundingBox: x, y, width, height are fractions
   of the bounding box; missing ones default to the filter region *)
Definition prim_region_spec_obb (x y w h : option Q) (B filter_region : qrect) : option qrect :=
  nzrect_from_xywh (match x with Some v => v * rw B + rx B | None => rx filter_region end)
                   (match y with Some v => v * rh B + ry B | None => ry filter_region end)
                   (match w with Some v => v * rw B | None => rw filter_region end)
                   (match h with Some v => v * rh B | None => rh filter_region end).
(* known class (F41): explicit sub-region on a primitive other than feFlood/feImage under objectBoundingBox units *)
Definition KnownClass_prim_subregion (kind : prim_kind) (units : units_) (x y w h : option Q) : bool :=
  match kind, units with
  | PK_Other, ObjectBoundingBox =>
      match x, y, w, h with None, None, None, None => false | _, _, _, _ => true end
  | _, _ => false
  end.
