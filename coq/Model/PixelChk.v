(* Checkers used only by the correspondence evaluations of tools/props/c16.py / c15.py (vm_compute in
   scratch files): model tables with the per-row float shared, comparison of implementation pixel
   lists with the model, failing-index extraction.  Never used by proofs. *)
From RV Require Import Model.F32.
From RV Require Import Gen.PixelTables.
From RV Require Import Model.Pixel.
Local Open Scope Z_scope.

Definition pair_table_let {T : Type} (F : Z -> T) (P : Z -> T -> Z) : list Z :=
  flat_map (fun a => let fa := F a in map (fun c => P c fa) bytes) bytes.     (* index = a * 256 + c *)
Definition pair_rows_let {T : Type} (F : Z -> T) (P : Z -> T -> Z) (lo : Z) (n : nat) : list Z :=
  flat_map (fun a => let fa := F a in map (fun c => P c fa) bytes) (zrange n lo).     (* rows lo .. lo+n-1 *)
Definition mul_rows := pair_rows_let multiply_alpha_a multiply_alpha_ch.
Definition demul_rows := pair_rows_let demultiply_alpha_a demultiply_alpha_ch.
Definition mul_table : list Z := pair_table_let multiply_alpha_a multiply_alpha_ch.
Definition demul_table : list Z := pair_table_let demultiply_alpha_a demultiply_alpha_ch.
Definition lin_table : list Z := map lut_into_linear_ch bytes.
Definition srgb_table : list Z := map lut_from_linear_ch bytes.
Definition mask_table : list Z := flat_map (fun m => map (fun c => scale_u8 c m) bytes) bytes.   (* index = m * 256 + c *)
Definition over_table (d : Z) : list Z :=
  flat_map (fun sa => map (fun s => over_u8 (Z.min s sa) sa d) bytes) bytes.                     (* index = sa * 256 + s *)
Definition over_alpha_table (d : Z) : list Z :=
  flat_map (fun sa => map (fun s => over_u8 sa sa d) bytes) bytes.

(* implementation lists [r; a; r; a; ...] of grey pixels (r = g = b) against a pixel function *)
Fixpoint chk_ra (f : px -> px) (src out : list Z) (i : N) : list N :=
  match src, out with
  | [], [] => []
  | r :: a :: s', r' :: a' :: o' =>
      let q := f (grey r a) in
      if (pr q =? r') && (pg q =? r') && (pb q =? r') && (pa q =? a') then chk_ra f s' o' (N.succ i)
      else i :: chk_ra f s' o' (N.succ i)
  | _, _ => [i]
  end.
(* implementation lists [r; g; b; a; ...] *)
Fixpoint chk_rgba (f : px -> px) (src out : list Z) (i : N) : list N :=
  match src, out with
  | [], [] => []
  | r :: g :: b :: a :: s', r' :: g' :: b' :: a' :: o' =>
      let q := f {| pr := r; pg := g; pb := b; pa := a |} in
      if (pr q =? r') && (pg q =? g') && (pb q =? b') && (pa q =? a') then chk_rgba f s' o' (N.succ i)
      else i :: chk_rgba f s' o' (N.succ i)
  | _, _ => [i]
  end.
Fixpoint to_pxs (l : list Z) : list px :=
  match l with
  | r :: g :: b :: a :: t => {| pr := r; pg := g; pb := b; pa := a |} :: to_pxs t
  | _ => []
  end.
Definition of_pxs (l : list px) : list Z := flat_map px_list l.


(* ------------------------------------------------------------------ model-level search (used when a proof no longer checks):
   the byte pairs / bytes at which the statement of an exhaustive lemma is false *)
Definition bad_pairs_let {T : Type} (F : Z -> T) (P : Z -> Z -> T -> bool) : list (Z * Z) :=
  firstn 5 (flat_map (fun a => let fa := F a in
                       flat_map (fun c => if P c a fa then [] else [(c, a)]) bytes) bytes).
Definition search_mul_valid : list (Z * Z) :=
  bad_pairs_let multiply_alpha_a (fun c a fa => multiply_alpha_ch c fa <=? a).
Definition search_roundtrip : list (Z * Z) :=
  bad_pairs_let (fun a => (multiply_alpha_a a, demultiply_alpha_a a))
                (fun c a f => (a <? c) || (multiply_alpha_ch (demultiply_alpha_ch c (snd f)) (fst f) =? c)).
Definition search_bytes (P : Z -> bool) : list Z := firstn 5 (filter (fun c => negb (P c)) bytes).
Definition search_from_to_normalized : list Z := search_bytes (fun c => cm_from_normalized (cm_to_normalized c) =? c).
Definition search_identity_matrix : list Z :=
  search_bytes (fun c => px_eqb (cm_kernel (CMMatrix identity_matrix) (grey c c)) (grey c c)).
Definition search_identity_transfer : list Z :=
  search_bytes (fun c => (transfer (TFLinear f1 fzero) c =? c) && (transfer (TFTable [fzero; f1]) c =? c)).
(* second pass: opaque grey bytes that saturate(1) / hueRotate(0) change: [kind (0 = saturate, 1 = hueRotate); c] *)
Definition search_identity_saturate_hue : list Z :=
  match search_bytes (fun c => px_eqb (cm_kernel (CMSaturate f1) (grey c 255)) (grey c 255)) with
  | c :: _ => [0; c]
  | [] => match search_bytes (fun c => px_eqb (cm_kernel (CMHueRotate f1 fzero) (grey c 255)) (grey c 255)) with
          | c :: _ => [1; c] | [] => [] end
  end.
Definition search_lut_monotone : list Z :=
  search_bytes (fun c => (c =? 255) || ((lut_into_linear_ch c <=? lut_into_linear_ch (c + 1)) && (lut_from_linear_ch c <=? lut_from_linear_ch (c + 1)))).

(* feConvolveMatrix (extension round 4): a grid of 1x1 kernels k4/4, divisors div4/4, biases bias4/4, both preserveAlpha values, grey
   pixels: the first [preserve; k4; div4; bias4; c; a] at which the source-derived closure stores a colour channel above alpha *)
Definition cvq (n : Z) : f32 := fdiv (of_Z n) (of_Z 4).
Definition cv_case (pv : bool) (k4 d4 b4 c a : Z) : list (list Z) :=
  if valid_pxb (px_convolve_uniform pv (cvq d4) (cvq b4) [cvq k4] (grey c a)) then []
  else [[if pv then 1 else 0; k4; d4; b4; c; a]].
Definition cv_grid : list (bool * Z * Z * Z * Z) :=
  flat_map (fun pv : bool => flat_map (fun k4 : Z => flat_map (fun d4 : Z => flat_map (fun b4 : Z => map (fun a : Z => (pv, k4, d4, b4, a))
    [255; 200; 128; 64; 1]) [0; 2; 4; -2]) [4; 2; 8; -4]) [2; 4; 8; 3; -4]) [false; true].
Definition search_convolve_valid : list Z :=
  hd [] (flat_map (fun t : bool * Z * Z * Z * Z => let '(pv, k4, d4, b4, a) := t in
                   cv_case pv k4 d4 b4 0 a ++ cv_case pv k4 d4 b4 (a / 2) a ++ cv_case pv k4 d4 b4 a a) cv_grid).

(* draw_pixmap with BlendMode::Xor (clip_group), alpha channel: nearest integer of the exact value *)
Definition xor_alpha_table (d : Z) : list Z := flat_map (fun sa => map (fun s => xor_alpha_u8 sa d) bytes) bytes.

(* ------------------------------------------------------------------ hand-written SPECIFICATION kernels (SVG 1.1 sect. 15.10 / 15.11), same operation order
   as the source today: the correspondence compares the implementation with these, so a mis-wired channel or coefficient index in the
   source is caught with a concrete pixel even though the source-derived model follows the source *)
Definition spec_row (m : list f32) (i : nat) (r g b a : f32) : f32 :=
  fadd (fadd (fadd (fadd (fmul r (nth (5 * i) m fzero)) (fmul g (nth (5 * i + 1) m fzero))) (fmul b (nth (5 * i + 2) m fzero)))
             (fmul a (nth (5 * i + 3) m fzero))) (nth (5 * i + 4) m fzero).
Definition cm_matrix_spec (m : list f32) (p : px) : px :=
  let r := cm_to_normalized (pr p) in let g := cm_to_normalized (pg p) in
  let b := cm_to_normalized (pb p) in let a := cm_to_normalized (pa p) in
  {| pr := cm_from_normalized (spec_row m 0 r g b a); pg := cm_from_normalized (spec_row m 1 r g b a);
     pb := cm_from_normalized (spec_row m 2 r g b a); pa := cm_from_normalized (spec_row m 3 r g b a) |}.
Definition px_color_matrix_spec (m : list f32) (p : px) : px := px_multiply (cm_matrix_spec m (px_demultiply p)).
Definition ct_kernel_spec (fs : list tf) (p : px) : px :=
  let ap (i : Z) (c : Z) := let f := nthZ fs i TFIdentity in if tf_dummy f then c else transfer f c in
  {| pr := ap 0 (pr p); pg := ap 1 (pg p); pb := ap 2 (pb p); pa := ap 3 (pa p) |}.
Definition px_component_transfer_spec (fs : list tf) (p : px) : px := px_multiply (ct_kernel_spec fs (px_demultiply p)).
