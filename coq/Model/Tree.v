(* Model of the reference structure of a usvg::Tree (crates/usvg/src/tree/mod.rs, tree/text.rs,
   tree/filter.rs) and of the functions that compute its definition collections.

   Only what carries identity or references is kept: element ids, `Arc` identities (ptr) and ids of
   definitions, and every field that holds a sub-tree.  Strings are interned by the harness: an id
   is an `N` token, 0 is the empty string.  Executable Gallina only, no proofs.

   Rust anchors (kept in the same order as the code):
     Node::subroots / Group::subroots / Path::subroots / Image::subroots / Text::subroots
     Group::collect_clip_paths / collect_masks / collect_filters   (whole-chain walk, as fixed)
     Tree::collect_paint_servers / loop_over_paint_servers
     Tree::node_by_id / node_by_id                                                              *)
From Coq Require Import NArith List Bool.
Import ListNotations.
Local Open Scope N_scope.

(* filter::Input *)
Inductive finput := ISourceGraphic | ISourceAlpha | IRef (name : N).

Inductive node :=
| NGroup (g : group)
| NPath (id : N) (vis : bool) (fill stroke : paint)       (* Path: id, visible, fill.paint, stroke.paint *)
| NImage (id : N) (sub : option group)                    (* ImageKind::SVG(tree) => Some tree.root *)
| NText (id : N) (flat : group) (chunks : list chunk)     (* Text: id, flattened, chunks *)
with group :=     (* styled: blend_mode != Normal || isolate (the writer then emits one `style` attribute) *)
| G (id : N) (styled : bool) (clip : option clipdef) (mask : option maskdef) (filters : list filterdef) (kids : list node)
with clipdef := CD (ptr id : N) (next : option clipdef) (root : group)      (* ClipPath *)
with maskdef := MD (ptr id : N) (next : option maskdef) (root : group)      (* Mask *)
with filterdef := FD (ptr id : N) (prims : list prim)                       (* filter::Filter *)
with prim := PR (kind : N) (sub : N) (result : N) (inputs : list finput) (img : option group)
                                                          (* filter::Primitive; Kind::Image => Some root *)
with paint :=
| PNone | PColor
| PLin (ptr id : N) | PRad (ptr id : N)
| PPat (ptr id : N) (root : group)
with chunk := CH (tpath : option (N * N)) (spans : list ppair)   (* TextFlow::Path => Some (ptr, id) *)
with ppair := PP (fill stroke : paint).                  (* fill/stroke of a span or of one decoration *)

Record tree := T {
  t_root : group;
  t_lins : list paint; t_rads : list paint; t_pats : list paint;
  t_clips : list clipdef; t_masks : list maskdef; t_filts : list filterdef }.

(* ---------------------------------------------------------------- accessors *)
Definition g_id (g : group) := match g with G i sy _ _ _ _ => i end.
Definition g_styled (g : group) := match g with G _ s _ _ _ _ => s end.
Definition g_clip (g : group) := match g with G _ _ c _ _ _ => c end.
Definition g_mask (g : group) := match g with G _ _ _ m _ _ => m end.
Definition g_filters (g : group) := match g with G _ _ _ _ f _ => f end.
Definition g_kids (g : group) := match g with G _ _ _ _ _ k => k end.
Definition c_ptr (c : clipdef) := match c with CD p _ _ _ => p end.
Definition c_id (c : clipdef) := match c with CD _ i _ _ => i end.
Definition c_next (c : clipdef) := match c with CD _ _ n _ => n end.
Definition c_root (c : clipdef) := match c with CD _ _ _ r => r end.
Definition m_ptr (c : maskdef) := match c with MD p _ _ _ => p end.
Definition m_id (c : maskdef) := match c with MD _ i _ _ => i end.
Definition m_next (c : maskdef) := match c with MD _ _ n _ => n end.
Definition m_root (c : maskdef) := match c with MD _ _ _ r => r end.
Definition f_ptr (f : filterdef) := match f with FD p _ _ => p end.
Definition f_id (f : filterdef) := match f with FD _ i _ => i end.
Definition f_prims (f : filterdef) := match f with FD _ _ p => p end.
Definition p_kind (p : prim) := match p with PR k _ _ _ _ => k end.
Definition p_result (p : prim) := match p with PR _ _ r _ _ => r end.
Definition p_inputs (p : prim) := match p with PR _ _ _ i _ => i end.
(* sub: which of x / y / width / height of the primitive's subregion differ from the filter region (bits 1, 2, 4, 8) *)
Definition p_sub (p : prim) := match p with PR _ s _ _ _ => s end.
Definition p_img (p : prim) := match p with PR _ _ _ _ g => g end.
Definition pa_ptr (p : paint) : N :=
  match p with PLin q _ | PRad q _ | PPat q _ _ => q | _ => 0 end.
Definition pa_id (p : paint) : N :=
  match p with PLin _ i | PRad _ i | PPat _ i _ => i | _ => 0 end.
Definition is_lin (p : paint) := match p with PLin _ _ => true | _ => false end.
Definition is_rad (p : paint) := match p with PRad _ _ => true | _ => false end.
Definition is_pat (p : paint) := match p with PPat _ _ _ => true | _ => false end.
Definition is_server (p : paint) := is_lin p || is_rad p || is_pat p.
(* Node::id *)
Definition node_id (n : node) : N :=
  match n with NGroup g => g_id g | NPath i _ _ _ => i | NImage i _ => i | NText i _ _ => i end.

(* ---------------------------------------------------------------- chains *)
Fixpoint clip_chain (c : clipdef) : list clipdef :=
  match c with CD _ _ nx _ => c :: match nx with Some c' => clip_chain c' | None => [] end end.
Fixpoint mask_chain (m : maskdef) : list maskdef :=
  match m with MD _ _ nx _ => m :: match nx with Some m' => mask_chain m' | None => [] end end.
Definition ochain {A} (f : A -> list A) (o : option A) : list A :=
  match o with Some x => f x | None => [] end.
Definition olist {A} (o : option A) : list A := match o with Some x => [x] | None => [] end.

(* ---------------------------------------------------------------- subroots (one level) *)
Definition prim_roots (ps : list prim) : list group := flat_map (fun p => olist (p_img p)) ps.
(* Group::subroots: roots of the whole clip chain, of the whole mask chain, then feImage roots *)
Definition group_subroots (g : group) : list group :=
  map c_root (ochain clip_chain (g_clip g)) ++ map m_root (ochain mask_chain (g_mask g)) ++
  flat_map (fun f => prim_roots (f_prims f)) (g_filters g).
Definition paint_root (p : paint) : list group := match p with PPat _ _ r => [r] | _ => [] end.
(* Node::subroots *)
Definition node_subroots (n : node) : list group :=
  match n with
  | NGroup g => group_subroots g
  | NPath _ _ f s => paint_root f ++ paint_root s
  | NImage _ sub => olist sub
  | NText _ flat _ => [flat]
  end.

(* ---------------------------------------------------------------- the traversal skeleton
   `for node in parent.children { f(node); node.subroots(|r| rec(r)); if group { rec(group) } }`
   (sub_first = true: collect_clip_paths / collect_masks / collect_filters) and
   `for node in parent.children { match node { Group => rec(group), .. => f(node) }; node.subroots(|r| rec(r)) }`
   (sub_first = false: loop_over_paint_servers).  Sub-roots are inlined so that the recursion is
   structural; `walk_gsub` is Group::subroots, `walk_paint` the pattern part of Path::subroots. *)
Section Walk.
  Context {A : Type} (sub_first : bool) (f : node -> A -> A).

  Fixpoint walk_node (n : node) (a : A) {struct n} : A :=
    match n with
    | NGroup g =>
        let a := f n a in
        if sub_first then walk_group g (walk_gsub g a) else walk_gsub g (walk_group g a)
    | NPath _ _ fl st => walk_paint st (walk_paint fl (f n a))
    | NImage _ sub => let a := f n a in match sub with Some r => walk_group r a | None => a end
    | NText _ flat _ => walk_group flat (f n a)
    end
  with walk_group (g : group) (a : A) {struct g} : A :=
    match g with
    | G _ _ _ _ _ kids =>
        (fix go (l : list node) (a : A) : A :=
           match l with [] => a | n :: r => go r (walk_node n a) end) kids a
    end
  with walk_gsub (g : group) (a : A) {struct g} : A :=
    match g with
    | G _ _ clip mask filters _ =>
        let a := match clip with Some c => walk_clip c a | None => a end in
        let a := match mask with Some m => walk_mask m a | None => a end in
        (fix go (l : list filterdef) (a : A) : A :=
           match l with [] => a | fd :: r => go r (walk_filter fd a) end) filters a
    end
  with walk_clip (c : clipdef) (a : A) {struct c} : A :=
    match c with
    | CD _ _ nx r =>
        let a := walk_group r a in
        match nx with Some c' => walk_clip c' a | None => a end
    end
  with walk_mask (m : maskdef) (a : A) {struct m} : A :=
    match m with
    | MD _ _ nx r =>
        let a := walk_group r a in
        match nx with Some m' => walk_mask m' a | None => a end
    end
  with walk_filter (fd : filterdef) (a : A) {struct fd} : A :=
    match fd with
    | FD _ _ prims =>
        (fix go (l : list prim) (a : A) : A :=
           match l with [] => a | p :: r => go r (walk_prim p a) end) prims a
    end
  with walk_prim (p : prim) (a : A) {struct p} : A :=
    match p with
    | PR _ _ _ _ img => match img with Some r => walk_group r a | None => a end
    end
  with walk_paint (p : paint) (a : A) {struct p} : A :=
    match p with PPat _ _ r => walk_group r a | _ => a end.

  Definition walk_nodes (l : list node) (a : A) : A := fold_left (fun a n => walk_node n a) l a.
  Definition walk_filters (l : list filterdef) (a : A) : A := fold_left (fun a x => walk_filter x a) l a.
  Definition walk_prims (l : list prim) (a : A) : A := fold_left (fun a x => walk_prim x a) l a.
End Walk.

(* ---------------------------------------------------------------- collectors *)
Definition has_ptr {D} (ptr : D -> N) (p : N) (l : list D) : bool := existsb (fun d => ptr d =? p) l.
(* `if !v.iter().any(|o| Arc::ptr_eq(x, o)) { v.push(x.clone()) }` *)
Definition push_new {D} (ptr : D -> N) (d : D) (l : list D) : list D :=
  if has_ptr ptr (ptr d) l then l else l ++ [d].
Definition push_all {D} (ptr : D -> N) (ds : list D) (l : list D) : list D :=
  fold_left (fun a d => push_new ptr d a) ds l.

(* what one loop iteration pushes, per collector:
     collect_clip_paths:  `if let Node::Group(g) = node { walk g.clip_path chain, push each }`
     collect_masks:       same over g.mask
     collect_filters:     `for filter in g.filters() { push }`
     collect_paint_servers (per kind `sel`): `Node::Path(p) => { push(fill.paint); push(stroke.paint) }`
       - the arm has no guard: `path.visible` is NOT consulted.  A visibility=hidden/collapse path stays in the
         tree with its fill and stroke (parser/converter.rs::convert_path only clears `visible`), the writer emits
         its `fill="url(#id)"`, so its paint servers must be in the collections like those of any other path
         (Gen/CollectTables.v re-derives the arm list of loop_over_paint_servers from the source; see
         Proofs/Collect.v `paint_loop_arms_as_modelled`). *)
Definition node_clips (n : node) : list clipdef :=
  match n with NGroup g => ochain clip_chain (g_clip g) | _ => [] end.
Definition node_masks (n : node) : list maskdef :=
  match n with NGroup g => ochain mask_chain (g_mask g) | _ => [] end.
Definition node_filters (n : node) : list filterdef :=
  match n with NGroup g => g_filters g | _ => [] end.
Definition node_paints (sel : paint -> bool) (n : node) : list paint :=
  match n with NPath _ _vis fl st => filter sel [fl; st] | _ => [] end.
(* Path::is_visible *)
Definition path_hidden (n : node) : bool := match n with NPath _ v _ _ => negb v | _ => false end.

Definition collect_defs {D} (ptr : D -> N) (defs : node -> list D) (sub_first : bool)
    (root : group) (acc : list D) : list D :=
  walk_group sub_first (fun n a => push_all ptr (defs n) a) root acc.

Definition collect_clips := collect_defs c_ptr node_clips true.
Definition collect_masks := collect_defs m_ptr node_masks true.
Definition collect_filters := collect_defs f_ptr node_filters true.
(* Tree::collect_paint_servers: one traversal pushing into three vectors = three traversals, one per kind *)
Definition collect_paints (sel : paint -> bool) := collect_defs pa_ptr (node_paints sel) false.

(* what parser/converter.rs::convert_doc does after conversion *)
Definition with_collections (root : group) : tree :=
  T root (collect_paints is_lin root []) (collect_paints is_rad root []) (collect_paints is_pat root [])
    (collect_clips root []) (collect_masks root []) (collect_filters root []).

(* ---------------------------------------------------------------- node_by_id *)
Fixpoint node_by_id (parent : group) (i : N) {struct parent} : option node :=
  match parent with
  | G _ _ _ _ _ kids =>
      (fix go (l : list node) : option node :=
         match l with
         | [] => None
         | child :: r =>
             if node_id child =? i then Some child
             else match child with
                  | NGroup g => match node_by_id g i with Some n => Some n | None => go r end
                  | _ => go r
                  end
         end) kids
  end.
(* Tree::node_by_id *)
Definition tree_node_by_id (t : tree) (i : N) : option node :=
  if i =? 0 then None else node_by_id (t_root t) i.

(* ---------------------------------------------------------------- specification side: plain enumeration
   of everything a tree holds, field by field (no accumulator, no identity test, no sub-root shortcut).
   Text spans are a second representation of `flat`; their paints are enumerated separately. *)
Fixpoint all_node (n : node) {struct n} : list node :=
  n :: match n with
       | NGroup g => all_group g ++ all_gdefs g
       | NPath _ _ fl st => all_paint fl ++ all_paint st
       | NImage _ sub => match sub with Some r => all_group r | None => [] end
       | NText _ flat _ => all_group flat
       end
with all_group (g : group) {struct g} : list node :=
  match g with
  | G _ _ _ _ _ kids => (fix go (l : list node) : list node :=
                         match l with [] => [] | n :: r => all_node n ++ go r end) kids
  end
with all_gdefs (g : group) {struct g} : list node :=
  match g with
  | G _ _ clip mask filters _ =>
      match clip with Some c => all_clip c | None => [] end ++
      match mask with Some m => all_mask m | None => [] end ++
      (fix go (l : list filterdef) : list node :=
         match l with [] => [] | fd :: r => all_filter fd ++ go r end) filters
  end
with all_clip (c : clipdef) {struct c} : list node :=
  match c with CD _ _ nx r => all_group r ++ match nx with Some c' => all_clip c' | None => [] end end
with all_mask (m : maskdef) {struct m} : list node :=
  match m with MD _ _ nx r => all_group r ++ match nx with Some m' => all_mask m' | None => [] end end
with all_filter (fd : filterdef) {struct fd} : list node :=
  match fd with
  | FD _ _ prims => (fix go (l : list prim) : list node :=
                       match l with [] => [] | p :: r => all_prim p ++ go r end) prims
  end
with all_prim (p : prim) {struct p} : list node :=
  match p with PR _ _ _ _ img => match img with Some r => all_group r | None => [] end end
with all_paint (p : paint) {struct p} : list node :=
  match p with PPat _ _ r => all_group r | _ => [] end.

(* definitions attached to the enumerated nodes: node_clips / node_masks / node_filters / node_paints above *)
Definition span_paints_of (n : node) : list paint :=
  match n with
  | NText _ _ chunks =>
      flat_map (fun c => match c with CH _ sp =>
        flat_map (fun pp => match pp with PP fl st => filter is_server [fl; st] end) sp end) chunks
  | _ => []
  end.
Definition reach_defs {D} (defs : node -> list D) (root : group) : list D := flat_map defs (all_group root).
Definition reach_clips := reach_defs node_clips.
Definition reach_masks := reach_defs node_masks.
Definition reach_filters := reach_defs node_filters.
Definition reach_paints := reach_defs (node_paints is_server).
Definition reach_span_paints (root : group) : list paint := flat_map span_paints_of (all_group root).

(* ---------------------------------------------------------------- boolean checkers used on real dumps *)
Definition list_eqb {X} (e : X -> X -> bool) :=
  fix go (a b : list X) : bool :=
    match a, b with
    | [], [] => true
    | x :: a', y :: b' => e x y && go a' b'
    | _, _ => false
    end.
Definition ptrs_eqb (a b : list N) : bool := list_eqb N.eqb a b.
(* the collections stored in the tree are what the model collectors compute from the root (as ptr sequences) *)
Definition chk_collections (t : tree) : bool :=
  let r := t_root t in
  ptrs_eqb (map pa_ptr (t_lins t)) (map pa_ptr (collect_paints is_lin r [])) &&
  ptrs_eqb (map pa_ptr (t_rads t)) (map pa_ptr (collect_paints is_rad r [])) &&
  ptrs_eqb (map pa_ptr (t_pats t)) (map pa_ptr (collect_paints is_pat r [])) &&
  ptrs_eqb (map c_ptr (t_clips t)) (map c_ptr (collect_clips r [])) &&
  ptrs_eqb (map m_ptr (t_masks t)) (map m_ptr (collect_masks r [])) &&
  ptrs_eqb (map f_ptr (t_filts t)) (map f_ptr (collect_filters r [])).
(* which of the six collections disagree (1..6), for the report *)
Definition bad_collections (t : tree) : list N :=
  let r := t_root t in
  (if ptrs_eqb (map pa_ptr (t_lins t)) (map pa_ptr (collect_paints is_lin r [])) then [] else [1]) ++
  (if ptrs_eqb (map pa_ptr (t_rads t)) (map pa_ptr (collect_paints is_rad r [])) then [] else [2]) ++
  (if ptrs_eqb (map pa_ptr (t_pats t)) (map pa_ptr (collect_paints is_pat r [])) then [] else [3]) ++
  (if ptrs_eqb (map c_ptr (t_clips t)) (map c_ptr (collect_clips r [])) then [] else [4]) ++
  (if ptrs_eqb (map m_ptr (t_masks t)) (map m_ptr (collect_masks r [])) then [] else [5]) ++
  (if ptrs_eqb (map f_ptr (t_filts t)) (map f_ptr (collect_filters r [])) then [] else [6]).

Definition mem_N (x : N) (l : list N) : bool := existsb (N.eqb x) l.
Fixpoint nodup_N (l : list N) : bool :=
  match l with [] => true | x :: r => negb (mem_N x r) && nodup_N r end.
Definition subset_N (a b : list N) : bool := forallb (fun x => mem_N x b) a.
(* completeness / uniqueness of the stored collections against the field-by-field enumeration *)
Definition chk_complete (t : tree) : bool :=
  let r := t_root t in
  subset_N (map c_ptr (reach_clips r)) (map c_ptr (t_clips t)) &&
  subset_N (map m_ptr (reach_masks r)) (map m_ptr (t_masks t)) &&
  subset_N (map f_ptr (reach_filters r)) (map f_ptr (t_filts t)) &&
  subset_N (map pa_ptr (filter is_lin (reach_paints r))) (map pa_ptr (t_lins t)) &&
  subset_N (map pa_ptr (filter is_rad (reach_paints r))) (map pa_ptr (t_rads t)) &&
  subset_N (map pa_ptr (filter is_pat (reach_paints r))) (map pa_ptr (t_pats t)).
Definition chk_nodup (t : tree) : bool :=
  nodup_N (map pa_ptr (t_lins t)) && nodup_N (map pa_ptr (t_rads t)) && nodup_N (map pa_ptr (t_pats t)) &&
  nodup_N (map c_ptr (t_clips t)) && nodup_N (map m_ptr (t_masks t)) && nodup_N (map f_ptr (t_filts t)).
(* span paint servers that are in no collection (defect class `text-span-paint`) *)
Definition span_paints_missing (t : tree) : list N :=
  let have := map pa_ptr (t_lins t ++ t_rads t ++ t_pats t) in
  filter (fun p => negb (mem_N p have)) (map pa_ptr (reach_span_paints (t_root t))).
