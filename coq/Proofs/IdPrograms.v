(* At most one emitted node carries the source element's id: for every control path of the generated table
   (complete enumeration), and a necessity example for each copying construct. *)
From RV Require Import Gen.IdPrograms.
From RV Require Import Model.IdPrograms.
From Coq Require Import String List Bool Arith Lia.
Import ListNotations.
Local Open Scope string_scope.

Lemma id_programs_ok_true : id_programs_ok = true.
Proof. vm_compute. reflexivity. Qed.

Lemma source_id_at_most_once name p : In (name, p) id_programs -> (src_count (emitted p) <= 1)%nat.
Proof.
  intro H. pose proof id_programs_ok_true as A. unfold id_programs_ok in A.
  rewrite forallb_forall in A. specialize (A (name, p) H). simpl in A. unfold program_ok in A.
  apply Nat.leb_le. exact A.
Qed.

(* the table is not empty and has the three sites (a lost anchor is a broken tie; this pins the shape) *)
Lemma id_programs_sites :
  existsb (fun np => String.eqb (fst np) "image::convert_inner/slice") id_programs = true /\
  existsb (fun np => String.eqb (fst np) "use_node::convert/clip-rect") id_programs = true /\
  (5 <= List.length (filter (fun np => prefix "convert_path/" (fst np)) id_programs))%nat.
Proof. vm_compute. repeat split; lia. Qed.

(* every program of the table does assign the source id (the bound is not met vacuously) and the slice / markers /
   clip-rect paths emit more than one node *)
Lemma id_programs_nonvacuous :
  forallb (fun np => existsb is_assign (snd np)) id_programs = true /\
  existsb (fun np => Nat.leb 3 (List.length (emitted (snd np))) && Nat.eqb (src_count (emitted (snd np))) 1) id_programs = true.
Proof. vm_compute. split; reflexivity. Qed.

(* necessity: what the two seeded edits do.  Copying the id instead of swapping it (seed C05-15), or not clearing
   the clone's id (seed C05-13), emits the source id twice. *)
Example clone_instead_of_swap_refuted :
  program_ok [OpNew "g"; OpAssignSrc "g"; OpEmitNew; OpNew "g2"; OpCloneId "g2" "g"; OpEmit "g"; OpEmit "g2"] = false.
Proof. reflexivity. Qed.
Example unclear_clone_refuted :
  program_ok [OpAssignSrc "path"; OpCloneNode "fill_path" "path"; OpEmit "fill_path";
              OpCloneNode "stroke_path" "path"; OpClear "stroke_path"; OpEmit "stroke_path"; OpEmitClone "path"] = false.
Proof. reflexivity. Qed.
