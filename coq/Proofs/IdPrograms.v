(* At most one emitted node carries the source element's id: for every control path of the generated table
   (complete enumeration), and a necessity example for each copying construct. *)
From RV Require Import Gen.IdPrograms.
From RV Require Import Model.IdPrograms.
From Coq Require Import String List Bool Arith Lia.
Import ListNotations.
Local Open Scope string_scope.

Lemma id_programs_ok_true : id_programs_ok = true.
Proof. vm_compute. reflexivity. Qed.

Lemma source_id_at_most_once name p : In (name, p) id_programs -> (src_count (emitted p) <= 1)%nat.
Proof.
  intro H. pose proof id_programs_ok_true as A. unfold id_programs_ok in A.
  rewrite forallb_forall in A. specialize (A (name, p) H). simpl in A. unfold program_ok in A.
  apply Nat.leb_le. exact A.
Qed.

(* the table is not empty and has the three sites (a lost anchor is a broken tie; this pins the shape) *)
Lemma id_programs_sites :
  existsb (fun np => String.eqb (fst np) "image::convert_inner/slice") id_programs = true /\
  existsb (fun np => String.eqb (fst np) "use_node::convert/clip-rect") id_programs = true /\
  (5 <= List.length (filter (fun np => prefix "convert_path/" (fst np)) id_programs))%nat.
Proof. vm_compute. repeat split; lia. Qed.

(* every program of the table does assign the source id (the bound is not met vacuously) and the slice / markers /
   clip-rect paths emit more than one node *)
Lemma id_programs_nonvacuous :
  forallb (fun np => existsb is_assign (snd np)) id_programs = true /\
  existsb (fun np => Nat.leb 3 (List.length (emitted (snd np))) && Nat.eqb (src_count (emitted (snd np))) 1) id_programs = true.
Proof. vm_compute. split; reflexivity. Qed.

(* necessity: what the two seeded edits do.  Copying the id instead of swapping it (seed C05-15), or not clearing
   the clone's id (seed C05-13), emits the source id twice. *)
Example clone_instead_of_swap_refuted :
  program_ok [OpNew "g"; OpAssignSrc "g"; OpEmitNew; OpNew "g2"; OpCloneId "g2" "g"; OpEmit "g"; OpEmit "g2"] = false.
Proof. reflexivity. Qed.
Example unclear_clone_refuted :
  program_ok [OpAssignSrc "path"; OpCloneNode "fill_path" "path"; OpEmit "fill_path";
              OpCloneNode "stroke_path" "path"; OpClear "stroke_path"; OpEmit "stroke_path"; OpEmitClone "path"] = false.
Proof. reflexivity. Qed.

(* ------------------------------------------------------------------------------------------------ *)
(* General theorem: ANY straight-line program that only moves the id (no clone of an id or of a node, no copying push),
   assigns the source id at most once and starts with no variable holding it, emits the source id at most once.      *)
Definition no_holder (e : env) : Prop := forall x, e x = KEmpty.
Definition one_holder (e : env) : Prop := forall x y, e x = KSrc -> e y = KSrc -> x = y.

Lemma set_same x k e : set x k e x = k.
Proof. unfold set. rewrite String.eqb_refl. reflexivity. Qed.
Lemma set_other x k e y : y <> x -> set x k e y = e y.
Proof. intro H. unfold set. apply String.eqb_neq in H. rewrite H. reflexivity. Qed.

Lemma no_holder_set_empty x e : no_holder e -> no_holder (set x KEmpty e).
Proof. intros H y. unfold set. destruct (String.eqb y x); auto. Qed.
Lemma one_holder_of_none e : no_holder e -> one_holder e.
Proof. intros H x y Hx. rewrite H in Hx. discriminate. Qed.
Lemma one_holder_set_empty x e : one_holder e -> one_holder (set x KEmpty e).
Proof.
  intros H a b Ha Hb. unfold set in *. destruct (String.eqb a x); [discriminate|]. destruct (String.eqb b x); [discriminate|]. auto.
Qed.
Lemma assign_one_holder x e : no_holder e -> one_holder (set x KSrc e).
Proof.
  intros H a b Ha Hb. unfold set in *.
  destruct (String.eqb a x) eqn:Ea; [|rewrite H in Ha; discriminate].
  destruct (String.eqb b x) eqn:Eb; [|rewrite H in Hb; discriminate].
  apply String.eqb_eq in Ea, Eb. congruence.
Qed.
Lemma swap_no_holder x y e : no_holder e -> no_holder (set x (lookup y e) (set y (lookup x e) e)).
Proof. intros H z. unfold set, lookup. rewrite !H. destruct (String.eqb z x), (String.eqb z y); auto. Qed.
Lemma swap_one_holder x y e : one_holder e -> one_holder (set x (lookup y e) (set y (lookup x e) e)).
Proof.
  intros H a b Ha Hb. unfold set, lookup in *.
  destruct (String.eqb a x) eqn:Ax, (String.eqb b x) eqn:Bx;
    try (apply String.eqb_eq in Ax); try (apply String.eqb_eq in Bx); subst.
  - reflexivity.
  - destruct (String.eqb b y) eqn:By.
    + apply String.eqb_eq in By. subst b. pose proof (H _ _ Ha Hb) as E. subst. rewrite String.eqb_refl in Bx. discriminate.
    + pose proof (H _ _ Ha Hb) as E. subst. rewrite String.eqb_refl in By. discriminate.
  - destruct (String.eqb a y) eqn:Ay.
    + apply String.eqb_eq in Ay. subst a. pose proof (H _ _ Ha Hb) as E. subst. rewrite String.eqb_refl in Ax. discriminate.
    + pose proof (H _ _ Ha Hb) as E. subst. rewrite String.eqb_refl in Ay. discriminate.
  - destruct (String.eqb a y) eqn:Ay, (String.eqb b y) eqn:By;
      try (apply String.eqb_eq in Ay); try (apply String.eqb_eq in By); subst; auto.
    + pose proof (H _ _ Ha Hb) as E. subst. rewrite String.eqb_refl in Bx. discriminate.
    + pose proof (H _ _ Ha Hb) as E. subst. rewrite String.eqb_refl in Ax. discriminate.
Qed.

Lemma src_count_app a b : src_count (a ++ b) = (src_count a + src_count b)%nat.
Proof. unfold src_count. rewrite filter_app, app_length. reflexivity. Qed.

(* phase 3: nobody holds the id and it will not be assigned again: nothing is emitted with it *)
Lemma run_no_holder p : forall e,
  forallb (fun o => negb (is_copy o)) p = true -> n_assign p = O -> no_holder e -> src_count (run p e) = O.
Proof.
  induction p as [|o r IH]; intros e Hc Ha He; [reflexivity|].
  simpl in Hc. apply andb_true_iff in Hc. destruct Hc as [Ho Hc].
  unfold n_assign in Ha. simpl in Ha.
  destruct o; simpl in Ho; try discriminate; simpl in Ha; try discriminate; cbn [run step]; rewrite ?src_count_app.
  - apply IH; auto. apply no_holder_set_empty; auto.
  - apply IH; auto. apply no_holder_set_empty; auto.
  - apply IH; auto. apply swap_no_holder; auto.
  - unfold lookup. rewrite (He x). simpl. apply IH; auto. apply no_holder_set_empty; auto.
  - simpl. apply IH; auto.
Qed.
(* phase 2: at most one variable holds it, no assignment left *)
Lemma run_one_holder p : forall e,
  forallb (fun o => negb (is_copy o)) p = true -> n_assign p = O -> one_holder e -> (src_count (run p e) <= 1)%nat.
Proof.
  induction p as [|o r IH]; intros e Hc Ha He; [cbv; lia|].
  simpl in Hc. apply andb_true_iff in Hc. destruct Hc as [Ho Hc].
  unfold n_assign in Ha. simpl in Ha.
  destruct o; simpl in Ho; try discriminate; simpl in Ha; try discriminate; cbn [run step]; rewrite ?src_count_app.
  - apply IH; auto. apply one_holder_set_empty; auto.
  - apply IH; auto. apply one_holder_set_empty; auto.
  - apply IH; auto. apply swap_one_holder; auto.
  - unfold lookup. destruct (e x) eqn:Ex.
    + (* the holder is moved into the tree: nobody holds the id afterwards *)
      assert (N : no_holder (set x KEmpty e)).
      { intro z. unfold set. destruct (String.eqb z x) eqn:Ez; [reflexivity|].
        destruct (e z) eqn:Z; [|reflexivity]. pose proof (He _ _ Z Ex) as E. subst. rewrite String.eqb_refl in Ez. discriminate. }
      rewrite (run_no_holder r _ Hc Ha N). simpl. lia.
    + simpl. apply IH; auto. apply one_holder_set_empty; auto.
  - simpl. apply IH; auto.
Qed.
(* phase 1: nobody holds it yet, at most one assignment to come *)
Lemma run_copy_free p : forall e,
  forallb (fun o => negb (is_copy o)) p = true -> (n_assign p <= 1)%nat -> no_holder e -> (src_count (run p e) <= 1)%nat.
Proof.
  induction p as [|o r IH]; intros e Hc Ha He; [cbv; lia|].
  simpl in Hc. apply andb_true_iff in Hc. destruct Hc as [Ho Hc].
  unfold n_assign in Ha. simpl in Ha.
  destruct o; simpl in Ho; try discriminate; simpl in Ha; cbn [run step]; rewrite ?src_count_app.
  - apply IH; auto. apply no_holder_set_empty; auto.
  - apply run_one_holder; auto; [unfold n_assign; lia|]. apply assign_one_holder; auto.
  - apply IH; auto. apply no_holder_set_empty; auto.
  - apply IH; auto. apply swap_no_holder; auto.
  - unfold lookup. rewrite (He x). simpl. apply IH; auto. apply no_holder_set_empty; auto.
  - simpl. apply IH; auto.
Qed.

Theorem copy_free_at_most_once p :
  copy_free p = true -> (src_count (run p (fun _ => KEmpty)) <= 1)%nat.
Proof.
  unfold copy_free. intro H. apply andb_true_iff in H. destruct H as [H1 H2]. apply Nat.leb_le in H2.
  apply run_copy_free; auto. intro x. reflexivity.
Qed.

(* the image programs of the generated table are instances (they introduce every variable they use, so the starting
   environment does not matter); the other sites copy (path.clone(), text.id.clone()) or assign twice (use: clip group + use group) *)
Lemma table_instances :
  forallb (fun np => implb (prefix "image::" (fst np))
                       (copy_free (snd np) &&
                        Nat.eqb (src_count (run (snd np) (fun _ => KEmpty))) (src_count (emitted (snd np))))) id_programs = true /\
  existsb (fun np => prefix "image::" (fst np)) id_programs = true.
Proof. vm_compute. split; reflexivity. Qed.
