(* The enumeration `all_group root` is closed: it contains, with every node, everything below that node
   (children, and the content of every definition the node holds).  Used to show that whatever the
   writer serialises is part of what the collectors have seen. *)
From RV Require Import Model.Tree.
From RV Require Import Proofs.Tree.
From RV Require Import Proofs.Collect.
From Coq Require Import NArith List Bool.
Import ListNotations.
Local Open Scope N_scope.

Definition closed_under (L : list node) : Prop := forall m, In m L -> incl (all_node m) L.

Lemma closed_app A B : closed_under A -> closed_under B -> closed_under (A ++ B).
Proof.
  intros HA HB m Hm. apply in_app_or in Hm. destruct Hm as [Hm|Hm].
  - eapply incl_tran; [apply HA; exact Hm|apply incl_appl, incl_refl].
  - eapply incl_tran; [apply HB; exact Hm|apply incl_appr, incl_refl].
Qed.
Lemma closed_nil : closed_under [].
Proof. intros m []. Qed.
Lemma closed_flat_map {X} (f : X -> list node) xs :
  Forall (fun x => closed_under (f x)) xs -> closed_under (flat_map f xs).
Proof.
  induction 1 as [|x r Hx Hr IH]; simpl; [apply closed_nil|]. apply closed_app; auto.
Qed.
Lemma closed_cons n L : closed_under L -> all_node n = n :: L -> closed_under (all_node n).
Proof.
  intros HL E m Hm. rewrite E in Hm. destruct Hm as [<-|Hm]; [apply incl_refl|].
  rewrite E. apply incl_tl. apply HL. exact Hm.
Qed.

Lemma all_closed :
  (forall n, closed_under (all_node n)) /\
  (forall g, closed_under (all_group g) /\ closed_under (all_gdefs g)) /\
  (forall c, closed_under (all_clip c)) /\ (forall m, closed_under (all_mask m)) /\
  (forall f, closed_under (all_filter f)) /\ (forall p, closed_under (all_prim p)) /\
  (forall p, closed_under (all_paint p)).
Proof.
  apply tree_mutind.
  - intros g [H1 H2]. apply (closed_cons _ (all_group g ++ all_gdefs g)); [apply closed_app; auto|apply all_node_group].
  - intros i vz fl st H1 H2. apply (closed_cons _ (all_paint fl ++ all_paint st)); [apply closed_app; auto|apply all_node_path].
  - intros i sub Hs. apply (closed_cons _ (match sub with Some r => all_group r | None => [] end)); [|apply all_node_image].
    destruct sub as [r|]; [apply Hs|apply closed_nil].
  - intros i flat ch [H1 _]. apply (closed_cons _ (all_group flat)); auto.
  - intros i sy c m fs ks Hc Hm Hfs Hks. split.
    + rewrite all_group_eq. apply closed_flat_map. exact Hks.
    + rewrite all_gdefs_eq. apply closed_app; [destruct c; [apply Hc|apply closed_nil]|].
      apply closed_app; [destruct m; [apply Hm|apply closed_nil]|]. apply closed_flat_map. exact Hfs.
  - intros p i nx r Hnx [Hr _]. rewrite all_clip_eq. apply closed_app; auto. destruct nx; [apply Hnx|apply closed_nil].
  - intros p i nx r Hnx [Hr _]. rewrite all_mask_eq. apply closed_app; auto. destruct nx; [apply Hnx|apply closed_nil].
  - intros p i ps Hps. rewrite all_filter_eq. apply closed_flat_map. exact Hps.
  - intros k sb r ins img Hi. rewrite all_prim_eq. destruct img; [apply Hi|apply closed_nil].
  - apply closed_nil.
  - apply closed_nil.
  - intros; apply closed_nil.
  - intros; apply closed_nil.
  - intros p i r [Hr _]. rewrite all_paint_pat. exact Hr.
Qed.

Lemma all_group_closed g : closed_under (all_group g).
Proof. destruct all_closed as (_ & H & _). apply H. Qed.

Lemma self_in_all_node n : In n (all_node n).
Proof. destruct n; simpl; auto. Qed.

Lemma kid_in_all_group g k : In k (g_kids g) -> In k (all_group g).
Proof.
  destruct g as [i sy c m fs ks]. simpl g_kids. rewrite all_group_eq. intro H.
  apply in_flat_map. exists k. split; auto. apply self_in_all_node.
Qed.

(* chains *)
Lemma clip_chain_incl c0 c : In c (clip_chain c0) -> incl (all_group (c_root c)) (all_clip c0).
Proof.
  revert c. assert (H : forall c0, (fun c0 => forall c, In c (clip_chain c0) -> incl (all_group (c_root c)) (all_clip c0)) c0).
  { destruct (tree_mutind (fun _ => True) (fun _ => True)
                (fun c0 => forall c, In c (clip_chain c0) -> incl (all_group (c_root c)) (all_clip c0))
                (fun _ => True) (fun _ => True) (fun _ => True) (fun _ => True)) as (_ & _ & H & _); auto.
    intros p i nx r Hnx _ c Hc. rewrite all_clip_eq. simpl in Hc. destruct Hc as [<-|Hc].
    - simpl. apply incl_appl, incl_refl.
    - destruct nx as [c'|]; [|destruct Hc]. simpl in Hnx. apply incl_appr. apply Hnx. exact Hc. }
  apply H.
Qed.
Lemma mask_chain_incl c0 c : In c (mask_chain c0) -> incl (all_group (m_root c)) (all_mask c0).
Proof.
  revert c. assert (H : forall c0, (fun c0 => forall c, In c (mask_chain c0) -> incl (all_group (m_root c)) (all_mask c0)) c0).
  { destruct (tree_mutind (fun _ => True) (fun _ => True) (fun _ => True)
                (fun c0 => forall c, In c (mask_chain c0) -> incl (all_group (m_root c)) (all_mask c0))
                (fun _ => True) (fun _ => True) (fun _ => True)) as (_ & _ & _ & H & _); auto.
    intros p i nx r Hnx _ c Hc. rewrite all_mask_eq. simpl in Hc. destruct Hc as [<-|Hc].
    - simpl. apply incl_appl, incl_refl.
    - destruct nx as [c'|]; [|destruct Hc]. simpl in Hnx. apply incl_appr. apply Hnx. exact Hc. }
  apply H.
Qed.
(* the successor of a link of a chain is a link of the chain *)
Lemma clip_chain_succ c0 c c' : In c (clip_chain c0) -> c_next c = Some c' -> In c' (clip_chain c0).
Proof.
  revert c c'.
  destruct (tree_mutind (fun _ => True) (fun _ => True)
              (fun c0 => forall c c', In c (clip_chain c0) -> c_next c = Some c' -> In c' (clip_chain c0))
              (fun _ => True) (fun _ => True) (fun _ => True) (fun _ => True)) as (_ & _ & H & _); auto;
    [|intros c c' Hc E; eapply H; eauto].
  intros p i nx r Hnx _ c c' Hc E. simpl in Hc. destruct Hc as [<-|Hc].
  - simpl in E. subst nx. simpl. right. apply clip_chain_head.
  - destruct nx as [c1|]; [|destruct Hc]. simpl in Hnx. simpl. right. eapply Hnx; eauto.
Qed.
Lemma mask_chain_succ c0 c c' : In c (mask_chain c0) -> m_next c = Some c' -> In c' (mask_chain c0).
Proof.
  revert c c'.
  destruct (tree_mutind (fun _ => True) (fun _ => True) (fun _ => True)
              (fun c0 => forall c c', In c (mask_chain c0) -> m_next c = Some c' -> In c' (mask_chain c0))
              (fun _ => True) (fun _ => True) (fun _ => True)) as (_ & _ & _ & H & _); auto;
    [|intros c c' Hc E; eapply H; eauto].
  intros p i nx r Hnx _ c c' Hc E. simpl in Hc. destruct Hc as [<-|Hc].
  - simpl in E. subst nx. simpl. right. apply mask_chain_head.
  - destruct nx as [c1|]; [|destruct Hc]. simpl in Hnx. simpl. right. eapply Hnx; eauto.
Qed.

Section Universe.
  Variable root : group.
  Let U := all_group root.

  Lemma U_closed : closed_under U.
  Proof. apply all_group_closed. Qed.

  Lemma U_kid g k : In (NGroup g) U -> In k (g_kids g) -> In k U.
  Proof.
    intros Hg Hk. apply (U_closed _ Hg). rewrite all_node_group. right. apply in_or_app. left.
    apply kid_in_all_group. exact Hk.
  Qed.
  Lemma U_gdefs g : In (NGroup g) U -> incl (all_gdefs g) U.
  Proof.
    intros Hg m Hm. apply (U_closed _ Hg). rewrite all_node_group. right. apply in_or_app. right. exact Hm.
  Qed.
  Lemma U_clip_kid g c k : In (NGroup g) U -> In c (ochain clip_chain (g_clip g)) -> In k (g_kids (c_root c)) -> In k U.
  Proof.
    intros Hg Hc Hk. apply (U_gdefs g Hg). destruct g as [i sy cl m fs ks]. rewrite all_gdefs_eq. simpl in Hc.
    destruct cl as [c0|]; [|destruct Hc]. apply in_or_app. left. apply (clip_chain_incl c0 c Hc).
    apply kid_in_all_group. exact Hk.
  Qed.
  Lemma U_mask_kid g c k : In (NGroup g) U -> In c (ochain mask_chain (g_mask g)) -> In k (g_kids (m_root c)) -> In k U.
  Proof.
    intros Hg Hc Hk. apply (U_gdefs g Hg). destruct g as [i sy cl m fs ks]. rewrite all_gdefs_eq. simpl in Hc.
    destruct m as [c0|]; [|destruct Hc]. apply in_or_app. right. apply in_or_app. left.
    apply (mask_chain_incl c0 c Hc). apply kid_in_all_group. exact Hk.
  Qed.
  Lemma U_feimage_kid g f pr r k :
    In (NGroup g) U -> In f (g_filters g) -> In pr (f_prims f) -> p_img pr = Some r -> In k (g_kids r) -> In k U.
  Proof.
    intros Hg Hf Hp Hi Hk. apply (U_gdefs g Hg). destruct g as [i sy cl m fs ks]. rewrite all_gdefs_eq. simpl in Hf.
    apply in_or_app. right. apply in_or_app. right. apply in_flat_map. exists f. split; auto.
    destruct f as [fp fi ps]. rewrite all_filter_eq. simpl in Hp. apply in_flat_map. exists pr. split; auto.
    destruct pr as [kd sb rs ins img]. simpl in Hi. subst img. rewrite all_prim_eq. apply kid_in_all_group. exact Hk.
  Qed.
  Lemma U_pattern_kid i vz fl st q j r k :
    In (NPath i vz fl st) U -> (fl = PPat q j r \/ st = PPat q j r) -> In k (g_kids r) -> In k U.
  Proof.
    intros Hn Hp Hk. apply (U_closed _ Hn). rewrite all_node_path. right. apply in_or_app.
    destruct Hp as [->| ->]; [left|right]; rewrite all_paint_pat; apply kid_in_all_group; exact Hk.
  Qed.
  Lemma U_text_kid i flat ch k : In (NText i flat ch) U -> In k (g_kids flat) -> In k U.
  Proof.
    intros Hn Hk. apply (U_closed _ Hn). rewrite all_node_text. right. apply kid_in_all_group. exact Hk.
  Qed.
  Lemma U_root_kid k : In k (g_kids root) -> In k U.
  Proof. apply kid_in_all_group. Qed.
End Universe.
