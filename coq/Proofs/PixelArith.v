(* feComposite arithmetic keeps pixels valid: every stored colour channel is at most the stored alpha,
   for ALL coefficients k1..k4 (infinite and NaN ones included) and ALL input pixels.  The proof is by monotonicity
   of binary32 rounding (Flocq), not by enumeration. *)
From RV Require Import Model.F32.
From RV Require Import Gen.PixelTables.
From RV Require Import Model.Pixel.
From RV Require Import Proofs.PixelBase.
From Coq Require Import Reals Lra.
From Flocq Require Import Core BinarySingleNaN.
From Coq Require Import SpecFloat.
Local Open Scope Z_scope.

(* ------------------------------------------------------------------ truncation of a finite value *)
Lemma trunc_me_floor : forall m e, trunc_me m e = Zfloor (F2R (Float radix2 (Zpos m) e)).
Proof.
  intros m e. unfold trunc_me, F2R. cbn [Fnum Fexp]. destruct e as [|p|p].
  - simpl bpow. rewrite Rmult_1_r. symmetry. apply Zfloor_IZR.
  - rewrite Z.shiftl_mul_pow2 by lia. simpl bpow. rewrite <- mult_IZR, Zfloor_IZR. reflexivity.
  - rewrite Z.shiftr_div_pow2 by lia. simpl bpow.
    change (IZR (Z.pos m) * / IZR (Z.pow_pos 2 p))%R with (IZR (Z.pos m) / IZR (Z.pow_pos 2 p))%R.
    rewrite Zfloor_div; [reflexivity|]. change (Z.pow_pos 2 p) with (2 ^ Z.pos p). apply Z.pow_nonzero; lia.
Qed.

(* `as u8` is monotone on finite values *)
Lemma to_u8_mono : forall x y : f32, is_finite x = true -> is_finite y = true ->
  (B2R x <= B2R y)%R -> to_u8 x <= to_u8 y.
Proof.
  intros x y Fx Fy H.
  destruct x as [sx|sx| |sx mx ex Hx]; try discriminate Fx;
  destruct y as [sy|sy| |sy my ey Hy]; try discriminate Fy; unfold to_u8.
  - lia.
  - destruct sy; [lia|]. pose proof (trunc_me_nonneg my ey). lia.
  - destruct sx; [lia|]. exfalso. cbn [B2R] in H.
    assert (0 < F2R (Float radix2 (cond_Zopp false (Z.pos mx)) ex))%R by (apply F2R_gt_0; reflexivity). lra.
  - destruct sx.
    + destruct sy; [lia|]. pose proof (trunc_me_nonneg my ey). lia.
    + destruct sy.
      * exfalso. cbn [B2R] in H.
        assert (0 < F2R (Float radix2 (cond_Zopp false (Z.pos mx)) ex))%R by (apply F2R_gt_0; reflexivity).
        assert (F2R (Float radix2 (cond_Zopp true (Z.pos my)) ey) < 0)%R by (apply F2R_lt_0; reflexivity). lra.
      * rewrite !trunc_me_floor. cbn [B2R cond_Zopp] in H. apply Zfloor_le in H. lia.
Qed.

(* ------------------------------------------------------------------ the constants 0, 1, 255 *)
Notation RN := (round radix2 (SpecFloat.fexp 24 128) (round_mode mode_NE)).
Definition c255 : f32 := flit 255 1.
Definition c1 : f32 := flit 1 1.
Definition c0 : f32 := flit 0 1.

Lemma c255_val : B2R c255 = 255%R /\ is_finite c255 = true.
Proof.
  split; [|vm_compute; reflexivity].
  rewrite <- SF2R_B2SF.
  assert (E : B2SF c255 = S754_finite false 16711680 (-16)) by (vm_compute; reflexivity).
  rewrite E. unfold SF2R, F2R. cbn [Fnum Fexp cond_Zopp]. simpl bpow.
  change (Z.pow_pos 2 16) with 65536. lra.
Qed.
Lemma c1_val : B2R c1 = 1%R /\ is_finite c1 = true.
Proof.
  split; [|vm_compute; reflexivity].
  rewrite <- SF2R_B2SF.
  assert (E : B2SF c1 = S754_finite false 8388608 (-23)) by (vm_compute; reflexivity).
  rewrite E. unfold SF2R, F2R. cbn [Fnum Fexp cond_Zopp]. simpl bpow.
  change (Z.pow_pos 2 23) with 8388608. lra.
Qed.
Lemma c0_val : c0 = B754_zero false.
Proof.
  assert (E : B2SF c0 = S754_zero false) by (vm_compute; reflexivity).
  destruct c0 as [s|s| |s m e H]; try discriminate E. injection E as ->. reflexivity.
Qed.

Lemma RN_255 : RN 255 = 255%R.
Proof.
  rewrite <- (proj1 c255_val). apply round_generic; [apply valid_rnd_round_mode|apply generic_format_B2R].
Qed.

(* x * 255 for 0 <= x <= 1: finite, correctly rounded *)
Lemma fmul255 : forall x : f32, is_finite x = true -> (0 <= B2R x <= 1)%R ->
  B2R (fmul x c255) = RN (B2R x * 255) /\ is_finite (fmul x c255) = true.
Proof.
  intros x Fx [H0 H1]. unfold fmul.
  pose proof (Bmult_correct 24 128 Hp24 Hpe24 mode_NE x c255) as H.
  rewrite (proj1 c255_val), (proj2 c255_val), Fx in H.
  assert (0 <= RN (B2R x * 255) <= 255)%R as [L U].
  { split.
    - rewrite <- (round_0 radix2 (SpecFloat.fexp 24 128) (round_mode mode_NE)).
      apply round_le; [apply fexp_correct; reflexivity|apply valid_rnd_round_mode|lra].
    - apply Rle_trans with (RN 255); [|rewrite RN_255; lra].
      apply round_le; [apply fexp_correct; reflexivity|apply valid_rnd_round_mode|lra]. }
  rewrite Rlt_bool_true in H.
  - destruct H as (E & F & _). split; [exact E|exact F].
  - rewrite Rabs_pos_eq by exact L. apply Rle_lt_trans with 255%R; [exact U|].
    apply Rlt_le_trans with (bpow radix2 8); [simpl; lra|apply bpow_le; lia].
Qed.

Lemma store_mono : forall x y : f32, is_finite x = true -> is_finite y = true ->
  (0 <= B2R x)%R -> (B2R x <= B2R y)%R -> (B2R y <= 1)%R ->
  to_u8 (fmul x c255) <= to_u8 (fmul y c255).
Proof.
  intros x y Fx Fy H0 Hxy H1.
  destruct (fmul255 x Fx) as [Ex Gx]; [lra|]. destruct (fmul255 y Fy) as [Ey Gy]; [lra|].
  apply to_u8_mono; [exact Gx|exact Gy|]. rewrite Ex, Ey.
  apply round_le; [apply fexp_correct; reflexivity|apply valid_rnd_round_mode|]. nra.
Qed.

(* ------------------------------------------------------------------ comparisons *)
Lemma fgt_false_finite : forall x y : f32, is_finite x = true -> is_finite y = true -> fgt x y = false -> (B2R x <= B2R y)%R.
Proof.
  intros x y Fx Fy H. unfold fgt, fcmp in H. rewrite (Bcompare_correct 24 128 x y Fx Fy) in H.
  destruct (Rcompare_spec (B2R x) (B2R y)); try lra; try discriminate H.
Qed.
Lemma flt_false_finite : forall x y : f32, is_finite x = true -> is_finite y = true -> flt x y = false -> (B2R y <= B2R x)%R.
Proof.
  intros x y Fx Fy H. unfold flt, fcmp in H. rewrite (Bcompare_correct 24 128 x y Fx Fy) in H.
  destruct (Rcompare_spec (B2R x) (B2R y)); try lra; try discriminate H.
Qed.
Lemma fgt_pinf_finite : forall a : f32, is_finite a = true -> fgt (B754_infinity false) a = true.
Proof. intros a Fa. destruct a as [s|s| |s m e H]; try discriminate Fa; reflexivity. Qed.
Lemma flt_ninf_c0 : flt (B754_infinity true) c0 = true.
Proof. vm_compute. reflexivity. Qed.
Lemma fgt_pinf_c1 : fgt (B754_infinity false) c1 = true.
Proof. vm_compute. reflexivity. Qed.
Lemma B2R_c0 : B2R c0 = 0%R /\ is_finite c0 = true.
Proof. rewrite c0_val. split; reflexivity. Qed.
Lemma store_c0 : to_u8 (fmul c0 c255) = 0.
Proof. vm_compute. reflexivity. Qed.

(* the new alpha: f32_bound(0, result, 1) of a non-NaN result is a finite number in [0, 1] *)
Lemma alpha_range : forall ra : f32, is_nan ra = false ->
  is_finite (f32_bound c0 ra c1) = true /\ (0 <= B2R (f32_bound c0 ra c1) <= 1)%R.
Proof.
  intros ra Hn. unfold f32_bound.
  destruct (fgt ra c1) eqn:G.
  - rewrite (proj1 c1_val). split; [exact (proj2 c1_val)|lra].
  - destruct (flt ra c0) eqn:L.
    + rewrite (proj1 B2R_c0). split; [exact (proj2 B2R_c0)|lra].
    + destruct ra as [s|s| |s m e H].
      * split; [reflexivity|simpl; lra].
      * destruct s; [rewrite flt_ninf_c0 in L; discriminate L|rewrite fgt_pinf_c1 in G; discriminate G].
      * discriminate Hn.
      * assert (F : is_finite (B754_finite s m e H) = true) by reflexivity.
        pose proof (fgt_false_finite _ _ F (proj2 c1_val) G) as H1. rewrite (proj1 c1_val) in H1.
        pose proof (flt_false_finite _ _ F (proj2 B2R_c0) L) as H0. rewrite (proj1 B2R_c0) in H0.
        split; [reflexivity|lra].
Qed.

(* every colour channel, whatever its own result (NaN and infinities included), is stored at most as large as alpha *)
Lemma colour_le_alpha : forall res a : f32, is_finite a = true -> (0 <= B2R a <= 1)%R ->
  to_u8 (fmul (f32_bound c0 res a) c255) <= to_u8 (fmul a c255).
Proof.
  intros res a Fa [A0 A1]. unfold f32_bound.
  destruct (fgt res a) eqn:G; [lia|].
  destruct (flt res c0) eqn:L.
  - rewrite store_c0. pose proof (to_u8_byte (fmul a c255)) as B. unfold is_byte in B. lia.
  - destruct res as [s|s| |s m e H].
    + apply store_mono; [reflexivity|exact Fa|simpl; lra|simpl; lra|exact A1].
    + destruct s; [rewrite flt_ninf_c0 in L; discriminate L|rewrite (fgt_pinf_finite a Fa) in G; discriminate G].
    + assert (E : fmul B754_nan c255 = B754_nan) by (unfold fmul; destruct c255; reflexivity).
      rewrite E. pose proof (to_u8_byte (fmul a c255)) as B. unfold is_byte in B. cbn [to_u8]. lia.
    + assert (F : is_finite (B754_finite s m e H) = true) by reflexivity.
      pose proof (fgt_false_finite _ _ F Fa G) as H1.
      pose proof (flt_false_finite _ _ F (proj2 B2R_c0) L) as H0. rewrite (proj1 B2R_c0) in H0.
      apply store_mono; [exact F|exact Fa|exact H0|exact H1|exact A1].
Qed.

Lemma px0_valid' : valid_px px0.
Proof. unfold valid_px, px0; cbn; lia. Qed.

(* composite.rs `calc` as it is now: a non-finite result (overflowed sum, or NaN from an infinite coefficient)
   is replaced by `max` (positive) or 0.0 before f32_bound *)
Lemma ar_bound_alpha : forall ra : f32,
  is_finite (ar_bound ra c1) = true /\ (0 <= B2R (ar_bound ra c1) <= 1)%R.
Proof.
  intros ra. unfold ar_bound, ffinite. fold c0.
  destruct (is_finite ra) eqn:F; cbn [negb].
  - apply alpha_range. destruct ra; try discriminate F; reflexivity.
  - destruct (fgt ra c0).
    + rewrite (proj1 c1_val). split; [exact (proj2 c1_val)|lra].
    + rewrite (proj1 B2R_c0). split; [exact (proj2 B2R_c0)|lra].
Qed.

Lemma ar_bound_colour : forall res a : f32, is_finite a = true -> (0 <= B2R a <= 1)%R ->
  to_u8 (fmul (ar_bound res a) c255) <= to_u8 (fmul a c255).
Proof.
  intros res a Fa Ra. unfold ar_bound, ffinite. fold c0.
  destruct (is_finite res) eqn:F; cbn [negb].
  - apply colour_le_alpha; assumption.
  - destruct (fgt res c0); [lia|].
    rewrite store_c0. pose proof (to_u8_byte (fmul a c255)) as B. unfold is_byte in B. lia.
Qed.

(* every coefficient (finite, infinite, NaN) and every pair of input pixels *)
Theorem arithmetic_valid : forall k1 k2 k3 k4 p1 p2, valid_px (px_arithmetic k1 k2 k3 k4 p1 p2).
Proof.
  intros k1 k2 k3 k4 p1 p2. unfold px_arithmetic.
  set (a := ar_calc k1 k2 k3 k4 (pa p1) (pa p2) ar_alpha_max).
  destruct (approx_zero4 a); [apply px0_valid'|].
  assert (Ha : is_finite a = true /\ (0 <= B2R a <= 1)%R).
  { unfold a, ar_calc, ar_alpha_max. apply ar_bound_alpha. }
  destruct Ha as [Fa Ra].
  unfold valid_px. cbn [pr pg pb pa]. unfold ar_store_c, ar_store_a, ar_calc.
  repeat split; apply (ar_bound_colour _ a Fa Ra).
Qed.
