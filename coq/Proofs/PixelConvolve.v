(* feConvolveMatrix keeps pixels valid (extension round 4): every stored colour channel is at most the stored alpha for
   ALL kernels, kernel sizes, targets, edge modes, divisors, biases (finite, infinite, NaN), both preserveAlpha values
   and all images - the four window sums are universally quantified binary32 values.  Stated over the SOURCE-DERIVED
   leaf expressions cv_* of Gen/PixelTables.v; proved by monotonicity of binary32 rounding (Flocq) and NaN propagation. *)
From Coq Require Import Reals Lra.
From Flocq Require Import Core BinarySingleNaN.
From Coq Require Import SpecFloat.
From RV Require Import Model.F32.
From RV Require Import Gen.PixelTables.
From RV Require Import Model.Pixel.
From RV Require Import Proofs.PixelBase.
From RV Require Import Proofs.PixelArith.
Local Open Scope Z_scope.

Notation RN := (round radix2 (SpecFloat.fexp 24 128) (round_mode mode_NE)).
Definition chalf : f32 := flit 1 2.

Lemma chalf_val : B2R chalf = (1 / 2)%R /\ is_finite chalf = true.
Proof.
  split; [|vm_compute; reflexivity].
  rewrite <- SF2R_B2SF.
  assert (E : B2SF chalf = S754_finite false 8388608 (-24)) by (vm_compute; reflexivity).
  rewrite E. unfold SF2R, F2R. cbn [Fnum Fexp cond_Zopp]. simpl bpow.
  change (Z.pow_pos 2 24) with 16777216. lra.
Qed.

Lemma RN_mono : forall x y : R, (x <= y)%R -> (RN x <= RN y)%R.
Proof. intros. apply round_le; [apply fexp_correct; reflexivity|apply valid_rnd_round_mode|assumption]. Qed.
Lemma RN_0 : RN 0 = 0%R.
Proof. apply round_0. apply valid_rnd_round_mode. Qed.
Lemma RN_B2R : forall x : f32, RN (B2R x) = B2R x.
Proof. intro x. apply round_generic; [apply valid_rnd_round_mode|apply generic_format_B2R]. Qed.

(* (x * 255.0 + 0.5) for 0 <= x <= 1: finite, both operations correctly rounded *)
Lemma store2_val : forall x : f32, is_finite x = true -> (0 <= B2R x <= 1)%R ->
  B2R (fadd (fmul x c255) chalf) = RN (RN (B2R x * 255) + 1 / 2) /\ is_finite (fadd (fmul x c255) chalf) = true.
Proof.
  intros x Fx Hx. destruct (fmul255 x Fx Hx) as [E F].
  assert (0 <= RN (B2R x * 255) <= 255)%R as [L U].
  { split.
    - apply Rle_trans with (RN 0); [rewrite RN_0; lra|apply RN_mono; lra].
    - apply Rle_trans with (RN 255); [apply RN_mono; lra|rewrite RN_255; lra]. }
  unfold fadd.
  pose proof (Bplus_correct 24 128 Hp24 Hpe24 mode_NE (fmul x c255) chalf F (proj2 chalf_val)) as H.
  rewrite E, (proj1 chalf_val) in H.
  assert (0 <= RN (RN (B2R x * 255) + 1 / 2) <= 256)%R as [L2 U2].
  { split.
    - apply Rle_trans with (RN 0); [rewrite RN_0; lra|apply RN_mono; lra].
    - assert (G : RN 256 = 256%R).
      { apply round_generic; [apply valid_rnd_round_mode|].
        replace 256%R with (bpow radix2 8) by (simpl; lra). apply generic_format_bpow. unfold SpecFloat.fexp, SpecFloat.emin. lia. }
      apply Rle_trans with (RN 256); [apply RN_mono; lra|rewrite G; lra]. }
  rewrite Rlt_bool_true in H.
  - destruct H as (E2 & F2 & _). split; assumption.
  - rewrite Rabs_pos_eq by exact L2. apply Rle_lt_trans with 256%R; [exact U2|].
    apply Rlt_le_trans with (bpow radix2 9); [simpl; lra|apply bpow_le; lia].
Qed.

Lemma store2_mono : forall x y : f32, is_finite x = true -> is_finite y = true ->
  (0 <= B2R x)%R -> (B2R x <= B2R y)%R -> (B2R y <= 1)%R ->
  to_u8 (fadd (fmul x c255) chalf) <= to_u8 (fadd (fmul y c255) chalf).
Proof.
  intros x y Fx Fy H0 Hxy H1.
  destruct (store2_val x Fx) as [Ex Gx]; [lra|]. destruct (store2_val y Fy) as [Ey Gy]; [lra|].
  apply to_u8_mono; [exact Gx|exact Gy|]. rewrite Ex, Ey.
  apply RN_mono. apply Rplus_le_compat_r. apply RN_mono. nra.
Qed.

(* NaN propagates through every operation the closure performs *)
Lemma fmul_nan_l : forall y, fmul B754_nan y = B754_nan.
Proof. intro y. unfold fmul. destruct y; reflexivity. Qed.
Lemma fmul_nan_r : forall x, fmul x B754_nan = B754_nan.
Proof. intro x. unfold fmul. destruct x; reflexivity. Qed.
Lemma fadd_nan_l : forall y, fadd B754_nan y = B754_nan.
Proof. intro y. unfold fadd. destruct y; reflexivity. Qed.
Lemma fadd_nan_r : forall x, fadd x B754_nan = B754_nan.
Proof. intro x. unfold fadd. destruct x; reflexivity. Qed.
Lemma fbound_nan : forall lo hi, f32_bound lo B754_nan hi = B754_nan.
Proof. intros lo hi. unfold f32_bound, fgt, flt, fcmp. destruct hi, lo; reflexivity. Qed.
Lemma store2_nan : to_u8 (fadd (fmul B754_nan c255) chalf) = 0.
Proof. rewrite fmul_nan_l, fadd_nan_l. reflexivity. Qed.
Lemma store2_c0 : to_u8 (fadd (fmul c0 c255) chalf) = 0.
Proof. vm_compute. reflexivity. Qed.
Lemma is_nan_true : forall x : f32, is_nan x = true -> x = B754_nan.
Proof. intros x H. destruct x; try discriminate H. reflexivity. Qed.

(* plain branch: f32_bound(0.0, x, bounded_new_a), whatever x *)
Lemma colour_le_alpha2 : forall res a : f32, is_finite a = true -> (0 <= B2R a <= 1)%R ->
  to_u8 (fadd (fmul (f32_bound c0 res a) c255) chalf) <= to_u8 (fadd (fmul a c255) chalf).
Proof.
  intros res a Fa [A0 A1]. unfold f32_bound.
  destruct (fgt res a) eqn:G; [lia|].
  destruct (flt res c0) eqn:L.
  - rewrite store2_c0. pose proof (to_u8_byte (fadd (fmul a c255) chalf)) as B. unfold is_byte in B. lia.
  - destruct res as [s|s| |s m e H].
    + apply store2_mono; [reflexivity|exact Fa|simpl; lra|simpl; lra|exact A1].
    + destruct s; [rewrite flt_ninf_c0 in L; discriminate L|rewrite (fgt_pinf_finite a Fa) in G; discriminate G].
    + rewrite store2_nan. pose proof (to_u8_byte (fadd (fmul a c255) chalf)) as B. unfold is_byte in B. lia.
    + assert (F : is_finite (B754_finite s m e H) = true) by reflexivity.
      pose proof (fgt_false_finite _ _ F Fa G) as H1.
      pose proof (flt_false_finite _ _ F (proj2 B2R_c0) L) as H0. rewrite (proj1 B2R_c0) in H0.
      apply store2_mono; [exact F|exact Fa|exact H0|exact H1|exact A1].
Qed.

(* preserveAlpha branch: f32_bound(0.0, x, 1.0) * bounded_new_a, whatever x *)
Lemma colour_le_alpha_mul : forall res a : f32, is_finite a = true -> (0 <= B2R a <= 1)%R ->
  to_u8 (fadd (fmul (fmul (f32_bound c0 res c1) a) c255) chalf) <= to_u8 (fadd (fmul a c255) chalf).
Proof.
  intros res a Fa [A0 A1].
  destruct (is_nan res) eqn:N.
  - apply is_nan_true in N. subst res. rewrite fbound_nan, !fmul_nan_l, fadd_nan_l. cbn [to_u8].
    pose proof (to_u8_byte (fadd (fmul a c255) chalf)) as B. unfold is_byte in B. lia.
  - destruct (alpha_range res N) as [Ft [T0 T1]]. set (t := f32_bound c0 res c1) in *.
    pose proof (Bmult_correct 24 128 Hp24 Hpe24 mode_NE t a) as H. rewrite Ft, Fa in H.
    assert (0 <= RN (B2R t * B2R a) <= B2R a)%R as [L U].
    { split.
      - apply Rle_trans with (RN 0); [rewrite RN_0; lra|apply RN_mono; nra].
      - apply Rle_trans with (RN (B2R a)); [apply RN_mono; nra|rewrite RN_B2R; lra]. }
    rewrite Rlt_bool_true in H.
    + destruct H as (E & F & _). cbn [andb] in F. fold (fmul t a) in E, F.
      apply store2_mono; [exact F|exact Fa|rewrite E; exact L|rewrite E; exact U|exact A1].
    + rewrite Rabs_pos_eq by exact L. apply Rle_lt_trans with 1%R; [lra|].
      apply Rlt_le_trans with (bpow radix2 1); [simpl; lra|apply bpow_le; lia].
Qed.

(* every kernel / divisor / bias / preserveAlpha / window content: the four sums and the centre alpha are arbitrary *)
Theorem convolve_out_valid : forall preserve divisor bias sr sg sb sa in_a,
  valid_px (cv_out preserve divisor bias sr sg sb sa in_a).
Proof.
  intros preserve divisor bias sr sg sb sa in_a. unfold cv_out.
  set (new_a := if preserve then cv_alpha_preserve in_a else cv_alpha_plain sa divisor bias).
  unfold valid_px. cbn [pr pg pb pa]. unfold cv_store, cv_store_a, cv_bounded_a, cv_calc_preserve, cv_calc_plain, cv_x.
  fold c0 c1 c255 chalf.
  destruct (is_nan new_a) eqn:N.
  - apply is_nan_true in N. rewrite N. rewrite fbound_nan.
    destruct preserve.
    + rewrite !fmul_nan_r, store2_nan. lia.
    + rewrite !fmul_nan_r, !fadd_nan_r, !fbound_nan, store2_nan. lia.
  - destruct (alpha_range new_a N) as [Fa Ra].
    destruct preserve.
    + repeat split; apply colour_le_alpha_mul; assumption.
    + repeat split; apply colour_le_alpha2; assumption.
Qed.

Theorem convolve_valid : forall preserve divisor bias win in_p,
  valid_px (cv_pixel preserve divisor bias win in_p).
Proof. intros. unfold cv_pixel. apply convolve_out_valid. Qed.

Lemma cv_pixel_byte : forall preserve divisor bias win in_p, byte_px (cv_pixel preserve divisor bias win in_p).
Proof.
  intros. unfold cv_pixel, cv_out, byte_px. cbn [pr pg pb pa]. unfold cv_store, cv_store_a.
  repeat split; apply to_u8_byte.
Qed.

(* the composition apply_convolve_matrix performs (demultiply first under preserveAlpha, NO multiply afterwards) on an
   image whose window is uniform: valid and byte-valued for every input pixel *)
Theorem convolve_uniform_valid : forall preserve divisor bias ks p,
  valid_px (px_convolve_uniform preserve divisor bias ks p) /\ byte_px (px_convolve_uniform preserve divisor bias ks p).
Proof.
  intros. unfold px_convolve_uniform, apply_convolve_steps.
  destruct preserve; unfold run_steps; cbn [fold_left run_step]; split; try apply convolve_valid; apply cv_pixel_byte.
Qed.
