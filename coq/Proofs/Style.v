(* C04 lemmas: post-conditions of the value producers modelled in Model/Style.v over the source-derived
   leaves of Gen/LeafStyle.v.  Conclusions are the validity predicates of Model/TreeValid.v. *)
From RV Require Import Model.Base Model.StylePrims Gen.LeafStyle Model.TreeValid Model.Style.
Local Open Scope Q_scope.

(* ------------------------------------------------------------------ basic facts about xq *)
Lemma F32_MAX_pos : 0 < F32_MAX.
Proof. unfold F32_MAX. reflexivity. Qed.

Lemma xq_norm_small q : - F32_MAX <= q -> q <= F32_MAX -> xq_norm q = Fin q.
Proof.
  intros H1 H2. unfold xq_norm.
  destruct (Qltb F32_MAX q) eqn:E1. { apply Qltb_true in E1. lra. }
  destruct (Qltb q (- F32_MAX)) eqn:E2. { apply Qltb_true in E2. lra. }
  reflexivity.
Qed.

Lemma F32_MAX_big : 2 <= F32_MAX.
Proof. unfold F32_MAX. unfold Qle. simpl. lia. Qed.

Definition I01 (x : xq) : Prop := exists q, x = Fin q /\ 0 <= q /\ q <= 1.
Definition xle (x y : xq) : Prop := exists p q, x = Fin p /\ y = Fin q /\ p <= q.

Lemma I01_b x : I01 x -> xq_in01 x = true.
Proof.
  intros (q & -> & H0 & H1). simpl. apply andb_true_intro; split; apply Qleb_true; assumption.
Qed.
Lemma b_I01 x : xq_in01 x = true -> I01 x.
Proof.
  destruct x; simpl; try discriminate. intro H. apply andb_prop in H as [A B].
  exists q. repeat split; try apply Qleb_true; assumption.
Qed.
Lemma xle_b x y : xle x y -> xq_leb x y = true.
Proof.
  intros (p & q & -> & -> & H). unfold xq_leb, xq_ltb, xq_eqb.
  destruct (Qltb p q) eqn:E; [reflexivity|]. apply Qltb_false in E. simpl.
  apply Qeqb_true. lra.
Qed.

Lemma new_clamped_I01 x : I01 (new_clamped x).
Proof.
  destruct x; simpl; try (exists 0; repeat split; lra).
  destruct (Qltb q 0) eqn:E0. { exists 0. repeat split; lra. }
  destruct (Qltb 1 q) eqn:E1. { exists 1. repeat split; lra. }
  apply Qltb_false in E0, E1. exists q. repeat split; assumption.
Qed.
Lemma new_clamped_id x : I01 x -> new_clamped x = x.
Proof.
  intros (q & -> & H0 & H1). simpl.
  destruct (Qltb q 0) eqn:E0. { apply Qltb_true in E0. lra. }
  destruct (Qltb 1 q) eqn:E1. { apply Qltb_true in E1. lra. }
  reflexivity.
Qed.
(* new_clamped is monotone on finite values *)
Lemma new_clamped_between q lo hi :
  0 <= lo -> lo <= hi -> hi <= 1 -> lo <= q -> q <= hi ->
  exists q', new_clamped (Fin q) = Fin q' /\ lo <= q' /\ q' <= hi.
Proof.
  intros. assert (I01 (Fin q)) by (exists q; repeat split; lra).
  rewrite new_clamped_id by assumption. exists q. repeat split; assumption.
Qed.

(* ------------------------------------------------------------------ stroke: miter limit *)
Lemma miter_clamp_ge1 raw : exists q, miter_clamp raw = Fin q /\ 1 <= q.
Proof.
  unfold miter_clamp, xq_unwrap_or.
  destruct raw as [[q| | |]|]; simpl.
  - destruct (Qltb q 1) eqn:E.
    + exists 1. split; [reflexivity|lra].
    + apply Qltb_false in E. exists q. split; [reflexivity|assumption].
  - exists 4. split; [reflexivity|lra].
  - exists 4. split; [reflexivity|lra].
  - exists 4. split; [reflexivity|lra].
  - exists 4. split; [reflexivity|lra].
Qed.

Lemma miter_new_id q : 1 <= q -> stroke_miterlimit_new (Fin q) = Fin q.
Proof.
  intro H. unfold stroke_miterlimit_new, xq_geb, xq_leb. simpl.
  destruct (Qltb 1 q) eqn:E1; simpl; [reflexivity|].
  destruct (Qeqb 1 q) eqn:E2; simpl; [reflexivity|].
  apply Qltb_false in E1. exfalso.
  assert (Qeqb 1 q = true) by (apply Qeqb_true; lra). congruence.
Qed.

Lemma miter_post raw : valid_miter (stroke_miterlimit_new (miter_clamp raw)) = true.
Proof.
  destruct (miter_clamp_ge1 raw) as (q & -> & H). rewrite miter_new_id by exact H.
  simpl. apply Qleb_true. exact H.
Qed.
(* the clamp of resolve_stroke alone already gives a finite value >= 1 (StrokeMiterlimit::new's
   debug assertions `is_finite` and `>= 1.0` cannot fire) *)
Lemma miter_clamp_valid raw : valid_miter (miter_clamp raw) = true.
Proof.
  destruct (miter_clamp_ge1 raw) as (q & -> & H). simpl. apply Qleb_true. exact H.
Qed.

(* ------------------------------------------------------------------ stroke: width *)
Lemma nz_positive_post x w : nz_positive_new x = Some w -> valid_width w = true.
Proof.
  unfold nz_positive_new. destruct x; simpl; try discriminate.
  destruct (Qltb 0 q) eqn:E; simpl; [|discriminate]. intro H. inversion H. subst. simpl. exact E.
Qed.

(* ------------------------------------------------------------------ stroke: dash list *)
Lemma dash_ok_elem n : dash_reject n = false -> xq_nonneg n = true.
Proof.
  unfold dash_reject. destruct n; simpl; try discriminate.
  intro H. apply orb_false_elim in H as [H _]. apply Qltb_false in H. apply Qleb_true. exact H.
Qed.

Lemma sum_all_zero l : forall acc,
  acc == 0 ->
  (forall x, In x l -> xq_nonneg x = true /\ xq_pos x = false) ->
  exists s, fold_left xq_add l (Fin acc) = Fin s /\ s == 0.
Proof.
  induction l as [|x r IH]; intros acc Hacc Hall; simpl.
  - exists acc. split; [reflexivity|assumption].
  - destruct (Hall x (or_introl eq_refl)) as [Hn Hp].
    destruct x as [q| | |]; simpl in Hn, Hp; try discriminate.
    apply Qleb_true in Hn. apply Qltb_false in Hp.
    assert (Hq : q == 0) by lra.
    simpl. rewrite xq_norm_small.
    + apply IH; [lra|]. intros y Hy. apply Hall. right. exact Hy.
    + pose proof F32_MAX_pos. lra.
    + pose proof F32_MAX_pos. lra.
Qed.

Lemma dash_zero_sum s : s == 0 -> dash_sum_is_zero (Fin s) = true.
Proof.
  intro H. unfold dash_sum_is_zero, xq_approx_eq_ulps, xq_eqb.
  assert (E : Qeqb s (0 # 1) = true) by (apply Qeqb_true; exact H). rewrite E. reflexivity.
Qed.

Lemma even_double n : Nat.even (n + n) = true.
Proof.
  replace (n + n)%nat with (2 * n)%nat by lia. apply Nat.even_spec. exists n. reflexivity.
Qed.

Lemma forallb_app {A} (f : A -> bool) l1 l2 : forallb f (l1 ++ l2) = forallb f l1 && forallb f l2.
Proof. induction l1; simpl; [reflexivity|]. rewrite IHl1. apply andb_assoc. Qed.

Lemma dasharray_post l d : conv_dasharray l = Some d -> valid_dash (Some d) = true.
Proof.
  unfold conv_dasharray. destruct l as [list|]; [|discriminate].
  destruct (existsb dash_reject list) eqn:Erej; [discriminate|].
  destruct (dash_sum_is_zero (fold_left xq_add list (Fin 0))) eqn:Esum; [discriminate|].
  assert (Hnn : forallb xq_nonneg list = true).
  { apply forallb_forall. intros x Hx. apply dash_ok_elem.
    destruct (dash_reject x) eqn:E; [|reflexivity].
    assert (existsb dash_reject list = true) by (apply existsb_exists; exists x; split; assumption). congruence. }
  assert (Hpos : existsb xq_pos list = true).
  { destruct (existsb xq_pos list) eqn:E; [reflexivity|]. exfalso.
    destruct (sum_all_zero list 0) as (s & Hs & Hs0); [lra| |].
    - intros x Hx. split.
      + rewrite forallb_forall in Hnn. apply Hnn. exact Hx.
      + destruct (xq_pos x) eqn:Ex; [|reflexivity].
        assert (existsb xq_pos list = true) by (apply existsb_exists; exists x; split; assumption). congruence.
    - rewrite Hs in Esum. rewrite dash_zero_sum in Esum by exact Hs0. discriminate. }
  unfold dash_needs_doubling.
  destruct (Nat.eqb (Nat.modulo (length list) 2) 0) eqn:Epar; simpl; intro H; inversion H; subst; simpl.
  - apply Nat.eqb_eq in Epar.
    assert (Nat.even (length d) = true).
    { apply Nat.even_spec. exists (length d / 2)%nat.
      pose proof (Nat.div_mod (length d) 2). lia. }
    rewrite H0, Hnn, Hpos. reflexivity.
  - rewrite app_length, even_double, forallb_app, Hnn, existsb_app, Hpos. reflexivity.
Qed.

Lemma dash_finite l d : conv_dasharray l = Some d -> all_finite d = true.
Proof.
  intro H. apply dasharray_post in H. simpl in H.
  apply andb_prop in H as [H _]. apply andb_prop in H as [_ H].
  unfold all_finite. apply forallb_forall. intros x Hx.
  rewrite forallb_forall in H. specialize (H x Hx). destruct x; simpl in *; congruence.
Qed.

Lemma stroke_post i s : resolve_stroke i = Some s ->
  valid_stroke (so_width s) (so_miter s) (so_dash s) = true.
Proof.
  unfold resolve_stroke. destruct (nz_positive_new (si_width i)) as [w|] eqn:Ew; [|discriminate].
  intro H. inversion H. subst. simpl. unfold valid_stroke.
  rewrite (nz_positive_post _ _ Ew), miter_post. simpl.
  destruct (conv_dasharray (si_dash i)) as [d|] eqn:Ed; [|reflexivity].
  apply dasharray_post in Ed. exact Ed.
Qed.

(* ------------------------------------------------------------------ gradient stops *)
Local Arguments new_clamped : simpl never.
Section StopsProofs.
  Variable dup3 : xq -> xq -> xq -> bool.
  Variable zero2 : xq -> xq -> bool.
  Variable zero_new : xq -> xq.
  Variable shift_cond : xq -> xq -> bool.
  Variable shift_min0 : xq.
  Variable shift_new : xq -> xq -> xq.

  (* what the third pass needs from its leaf expressions *)
  Hypothesis Hmin0 : exists qm, shift_min0 = Fin qm /\ qm == 0.
  Hypothesis Hcond : forall p q, shift_cond (Fin p) (Fin q) = false -> p <= q.
  Hypothesis Hshift : forall a m, 0 <= m -> m <= a -> a <= 1 ->
    exists q, new_clamped (shift_new (Fin a) (Fin m)) = Fin q /\ m <= q /\ q <= a.

  Lemma p1_I01 r : forall a b, I01 a -> I01 b -> Forall I01 r -> Forall I01 (p1 dup3 a b r).
  Proof.
    induction r as [|c r IH]; intros a b Ha Hb Hr; simpl.
    - repeat constructor; assumption.
    - inversion Hr; subst. destruct (dup3 a b c).
      + apply IH; assumption.
      + constructor; [assumption|]. apply IH; assumption.
  Qed.
  Lemma pass1_I01 l : Forall I01 l -> Forall I01 (pass1 dup3 l).
  Proof.
    destruct l as [|a [|b r]]; simpl; intro H; try assumption.
    inversion H; subst. inversion H3; subst. apply p1_I01; assumption.
  Qed.
  Lemma p1_length r : forall a b, (length (p1 dup3 a b r) <= 2 + length r)%nat.
  Proof.
    induction r as [|c r IH]; intros a b; simpl; [lia|].
    destruct (dup3 a b c); [specialize (IH a c)|specialize (IH b c); simpl]; lia.
  Qed.

  Lemma p2_I01 r : forall a, I01 a -> Forall I01 r -> Forall I01 (p2 zero2 zero_new a r).
  Proof.
    induction r as [|b r IH]; intros a Ha Hr; simpl.
    - repeat constructor; assumption.
    - inversion Hr; subst. constructor; [assumption|]. apply IH; [|assumption].
      destruct (zero2 a b); [apply new_clamped_I01|assumption].
  Qed.
  Lemma pass2_I01 l : Forall I01 l -> Forall I01 (pass2 zero2 zero_new l).
  Proof. destruct l; simpl; intro H; [constructor|]. inversion H; subst. apply p2_I01; assumption. Qed.
  Lemma p2_length r : forall a, length (p2 zero2 zero_new a r) = S (length r).
  Proof. induction r as [|b r IH]; intro a; simpl; [reflexivity|]. rewrite IH. reflexivity. Qed.

  (* sortedness as a proposition over the finite values *)
  Inductive Sorted_x : list xq -> Prop :=
  | Sx_nil : Sorted_x []
  | Sx_one x : Sorted_x [x]
  | Sx_cons x y r : xle x y -> Sorted_x (y :: r) -> Sorted_x (x :: y :: r).

  Lemma Sorted_x_b l : Sorted_x l -> sorted_xq l = true.
  Proof.
    induction 1; simpl; try reflexivity. rewrite (xle_b _ _ H). simpl. exact IHSorted_x.
  Qed.

  (* third pass: from a list of values in [0,1] to a sorted list of values in [0,1] whose head is >= m *)
  Lemma p3_sorted r : forall m a qm qa,
    m = Fin qm -> a = Fin qa -> 0 <= qm -> qm <= qa -> qa <= 1 -> Forall I01 r ->
    exists h t, p3 shift_cond shift_new m a r = h :: t /\ xle m h /\ Sorted_x (h :: t) /\ Forall I01 (h :: t).
  Proof.
    induction r as [|b r IH]; intros m a qm qa -> -> H0 H1 H2 Hr; simpl.
    - exists (Fin qa), []. repeat split.
      + exists qm, qa. repeat split; assumption.
      + constructor.
      + constructor; [|constructor]. exists qa. repeat split; lra.
    - inversion Hr as [|b' r' Hb Hr']; subst. destruct Hb as (qb & -> & Hb0 & Hb1).
      destruct (shift_cond (Fin qa) (Fin qb)) eqn:Ec.
      + destruct (Hshift qa qm H0 H1 H2) as (q & Eq & Hq1 & Hq2).
        rewrite Eq.
        assert (Ea : new_clamped (Fin qa) = Fin qa).
        { apply new_clamped_id. exists qa. repeat split; lra. }
        rewrite Ea.
        destruct (IH (Fin q) (Fin qa) q qa eq_refl eq_refl) as (h & t & Ep & Hle & Hs & Hi); try lra; try assumption.
        rewrite Ep. exists (Fin q), (h :: t). repeat split.
        * exists qm, q. repeat split; assumption.
        * constructor; assumption.
        * constructor; [|assumption]. exists q. repeat split; lra.
      + apply Hcond in Ec.
        destruct (IH (Fin qa) (Fin qb) qa qb eq_refl eq_refl) as (h & t & Ep & Hle & Hs & Hi); try lra; try assumption.
        rewrite Ep. exists (Fin qa), (h :: t). repeat split.
        * exists qm, qa. repeat split; assumption.
        * constructor; assumption.
        * constructor; [|assumption]. exists qa. repeat split; lra.
  Qed.

  Lemma pass3_post l : Forall I01 l ->
    Sorted_x (pass3 shift_cond shift_min0 shift_new l) /\ Forall I01 (pass3 shift_cond shift_min0 shift_new l).
  Proof.
    destruct l as [|a r]; simpl; intro H; [split; constructor|].
    inversion H as [|a' r' Ha Hr]; subst. destruct Ha as (qa & -> & Ha0 & Ha1).
    destruct Hmin0 as (qm & Em & Hm0).
    destruct (p3_sorted r shift_min0 (Fin qa) qm qa Em eq_refl) as (h & t & Ep & _ & Hs & Hi); try lra; try assumption.
    rewrite Ep. split; assumption.
  Qed.
End StopsProofs.

Lemma Forall_I01_b l : Forall I01 l -> valid_stops_range l = true.
Proof.
  intro H. unfold valid_stops_range. apply forallb_forall. intros x Hx.
  rewrite Forall_forall in H. apply I01_b. apply H. exact Hx.
Qed.

Lemma init_I01 offs : Forall I01 (map (fun o => new_clamped (stop_offset_bound o)) offs).
Proof. induction offs; simpl; constructor; [apply new_clamped_I01|assumption]. Qed.

(* generic statement: any leaf expressions satisfying the three hypotheses *)
Lemma convert_stops_with_post dup3 zero2 zero_new shift_cond shift_min0 shift_new :
  (exists qm, shift_min0 = Fin qm /\ qm == 0) ->
  (forall p q, shift_cond (Fin p) (Fin q) = false -> p <= q) ->
  (forall a m, 0 <= m -> m <= a -> a <= 1 ->
     exists q, new_clamped (shift_new (Fin a) (Fin m)) = Fin q /\ m <= q /\ q <= a) ->
  forall offs,
    let s := convert_stops_with dup3 zero2 zero_new shift_cond shift_min0 shift_new offs in
    valid_stops_range s = true /\ sorted_xq s = true.
Proof.
  intros Hm Hc Hs offs. cbv zeta. unfold convert_stops_with.
  destruct (pass3_post shift_cond shift_min0 shift_new Hm Hc Hs
              (pass2 zero2 zero_new (pass1 dup3 (map (fun o => new_clamped (stop_offset_bound o)) offs)))) as [A B].
  { apply pass2_I01. apply pass1_I01. apply init_I01. }
  split; [apply Forall_I01_b; exact B|apply Sorted_x_b; exact A].
Qed.

(* the third-pass replacement value `max (sub_eps a) m` for ANY implementation of `a - EPSILON` that
   returns a finite value not above `a` on [0,1] (exact rationals, or f32 round-to-nearest) *)
Lemma shift_new_any_eps (sub_eps : xq -> xq) :
  (forall a, 0 <= a -> a <= 1 -> exists q, sub_eps (Fin a) = Fin q /\ q <= a) ->
  forall a m, 0 <= m -> m <= a -> a <= 1 ->
    exists q, new_clamped (xq_max (sub_eps (Fin a)) (Fin m)) = Fin q /\ m <= q /\ q <= a.
Proof.
  intros He a m H0 H1 H2. destruct (He a) as (e & Ee & Hle); try lra. rewrite Ee.
  unfold xq_max, xq_ltb.
  destruct (Qltb e m) eqn:E.
  - apply new_clamped_between; lra.
  - apply Qltb_false in E. apply new_clamped_between; lra.
Qed.

Lemma sub_eps_exact a : 0 <= a -> a <= 1 -> exists q, xq_sub (Fin a) (Fin F32_EPS) = Fin q /\ q <= a.
Proof.
  intros H0 H1. unfold xq_sub, xq_neg, xq_add.
  assert (He : 0 < F32_EPS /\ F32_EPS <= 1) by (unfold F32_EPS; split; [reflexivity|unfold Qle; simpl; lia]).
  rewrite xq_norm_small.
  - exists (a + - F32_EPS). split; [reflexivity|lra].
  - pose proof F32_MAX_big. lra.
  - pose proof F32_MAX_big. lra.
Qed.

Lemma stops_shift_cond_le p q : stops_shift_cond (Fin p) (Fin q) = false -> p <= q.
Proof.
  unfold stops_shift_cond, xq_gtb, xq_ltb. intro H. apply orb_false_elim in H as [H _].
  apply Qltb_false in H. exact H.
Qed.

Lemma stops_shift_new_ok a m : 0 <= m -> m <= a -> a <= 1 ->
  exists q, new_clamped (stops_shift_new (Fin a) (Fin m)) = Fin q /\ m <= q /\ q <= a.
Proof.
  unfold stops_shift_new.
  exact (shift_new_any_eps (fun x => xq_sub x (Fin F32_EPS)) sub_eps_exact a m).
Qed.

Lemma stops_min0_zero : exists qm, stops_shift_min0 = Fin qm /\ qm == 0.
Proof. exists (0 # 1). split; reflexivity. Qed.

Lemma convert_stops_post offs :
  valid_stops_range (convert_stops offs) = true /\ sorted_xq (convert_stops offs) = true.
Proof.
  unfold convert_stops.
  exact (convert_stops_with_post stops_dup3 stops_zero2 stops_zero_new stops_shift_cond stops_shift_min0
           stops_shift_new stops_min0_zero stops_shift_cond_le stops_shift_new_ok offs).
Qed.

(* the same with `x - EPSILON` replaced by any finite, non-increasing implementation *)
Lemma convert_stops_any_eps (sub_eps : xq -> xq) :
  (forall a, 0 <= a -> a <= 1 -> exists q, sub_eps (Fin a) = Fin q /\ q <= a) ->
  forall offs,
    let s := convert_stops_with stops_dup3 stops_zero2 stops_zero_new stops_shift_cond stops_shift_min0
               (fun a m => xq_max (sub_eps a) m) offs in
    valid_stops_range s = true /\ sorted_xq s = true.
Proof.
  intros He. apply convert_stops_with_post.
  - exact stops_min0_zero.
  - exact stops_shift_cond_le.
  - exact (shift_new_any_eps sub_eps He).
Qed.

(* gradients: a paint server has at least two stops, all valid; a radial one a positive finite radius *)
Lemma gradient_post offs rr stops r :
  convert_gradient offs rr = GServer stops r ->
  valid_stops stops = true /\ match r with Some v => valid_radius v = true | None => True end.
Proof.
  unfold convert_gradient. destruct offs as [o|]; [|discriminate].
  destruct (length (convert_stops o) <? GRADIENT_MIN_STOPS)%nat eqn:El.
  { destruct (convert_stops o); discriminate. }
  apply Nat.ltb_ge in El. unfold GRADIENT_MIN_STOPS in El.
  destruct (convert_stops_post o) as [A B].
  assert (V : valid_stops (convert_stops o) = true).
  { unfold valid_stops, valid_stops_count. rewrite A, B.
    assert ((2 <=? length (convert_stops o))%nat = true) by (apply Nat.leb_le; exact El).
    rewrite H. reflexivity. }
  destruct rr as [v|].
  - destruct (is_valid_length v) eqn:Ev; [|discriminate].
    intro H. inversion H; subst. split; [exact V|].
    unfold is_valid_length in Ev. apply andb_prop in Ev as [Eg Ef].
    destruct v; simpl in *; try discriminate. exact Eg.
  - intro H. inversion H; subst. split; [exact V|exact I].
Qed.

(* ------------------------------------------------------------------ regions *)
Lemma xq_ltb_sub_pos l r : xq_finite l = true -> xq_finite r = true -> xq_ltb l r = true ->
  xq_finite (xq_sub r l) = true -> xq_pos (xq_sub r l) = true.
Proof.
  destruct l as [p| | |], r as [q| | |]; simpl; try discriminate. intros _ _ Hlt.
  apply Qltb_true in Hlt. unfold xq_sub, xq_neg, xq_add, xq_norm.
  destruct (Qltb F32_MAX (q + - p)); [discriminate|].
  destruct (Qltb (q + - p) (- F32_MAX)); [discriminate|].
  intros _. simpl. apply Qltb_true. lra.
Qed.

Lemma from_ltrb_post l t r b rc : nz_from_ltrb l t r b = Some rc -> valid_region rc = true.
Proof.
  unfold nz_from_ltrb.
  destruct (xq_finite l) eqn:E1; simpl; [|discriminate].
  destruct (xq_finite t) eqn:E2; simpl; [|discriminate].
  destruct (xq_finite r) eqn:E3; simpl; [|discriminate].
  destruct (xq_finite b) eqn:E4; simpl; [|discriminate].
  destruct (xq_ltb l r) eqn:E5; simpl; [|discriminate].
  destruct (xq_ltb t b) eqn:E6; simpl; [|discriminate].
  destruct (xq_finite (xq_sub r l)) eqn:E7; simpl; [|discriminate].
  destruct (xq_finite (xq_sub b t)) eqn:E8; simpl; [|discriminate].
  intro H. inversion H; subst. unfold valid_region. simpl.
  rewrite E1, E2, (xq_ltb_sub_pos l r), (xq_ltb_sub_pos t b); try assumption. reflexivity.
Qed.

Lemma from_xywh_post x y w h rc : nz_from_xywh x y w h = Some rc -> valid_region rc = true.
Proof. unfold nz_from_xywh. apply from_ltrb_post. Qed.

(* for finite arguments: accepted only if width and height are positive, and the stored size is the given one *)
Lemma from_xywh_fin x y w h rc : nz_from_xywh (Fin x) (Fin y) (Fin w) (Fin h) = Some rc ->
  0 < w /\ 0 < h /\ exists w' h', xr_w rc = Fin w' /\ xr_h rc = Fin h' /\ w' == w /\ h' == h
                                  /\ xr_x rc = Fin x /\ xr_y rc = Fin y.
Proof.
  unfold nz_from_xywh, nz_from_ltrb. simpl.
  destruct (xq_norm (w + x)) as [r| | |] eqn:Er; simpl; try discriminate.
  destruct (xq_norm (h + y)) as [b| | |] eqn:Eb; simpl; try discriminate.
  destruct (Qltb x r) eqn:E5; simpl; [|discriminate].
  destruct (Qltb y b) eqn:E6; simpl; [|discriminate].
  unfold xq_sub, xq_neg, xq_add.
  destruct (xq_norm (r + - x)) as [w'| | |] eqn:Ew; simpl; try discriminate.
  destruct (xq_norm (b + - y)) as [h'| | |] eqn:Eh; simpl; try discriminate.
  intro H. inversion H; subst. simpl.
  assert (Hn : forall a c, xq_norm a = Fin c -> c = a).
  { intros a c. unfold xq_norm. destruct (Qltb F32_MAX a); [discriminate|].
    destruct (Qltb a (- F32_MAX)); [discriminate|]. intro K. inversion K. reflexivity. }
  apply Hn in Er, Eb, Ew, Eh. subst.
  apply Qltb_true in E5, E6.
  split; [lra|]. split; [lra|].
  exists (w + x + - x), (h + y + - y). repeat split; try reflexivity; lra.
Qed.

(* conversely, positive finite sizes are accepted as long as nothing overflows f32 *)
Lemma from_xywh_accepts x y w h :
  0 < w -> 0 < h -> - F32_MAX <= x -> - F32_MAX <= y -> w + x <= F32_MAX -> h + y <= F32_MAX ->
  w <= F32_MAX -> h <= F32_MAX ->
  exists rc, nz_from_xywh (Fin x) (Fin y) (Fin w) (Fin h) = Some rc.
Proof.
  intros. unfold nz_from_xywh, nz_from_ltrb. simpl.
  rewrite (xq_norm_small (w + x)) by lra. rewrite (xq_norm_small (h + y)) by lra. simpl.
  assert (E5 : Qltb x (w + x) = true) by (apply Qltb_true; lra).
  assert (E6 : Qltb y (h + y) = true) by (apply Qltb_true; lra).
  rewrite E5, E6. simpl. unfold xq_sub, xq_neg, xq_add.
  pose proof F32_MAX_pos.
  rewrite (xq_norm_small (w + x + - x)) by lra. rewrite (xq_norm_small (h + y + - y)) by lra. simpl.
  eexists. reflexivity.
Qed.

(* ------------------------------------------------------------------ rect radii *)
Lemma clamp_one r half :
  xq_is_nan r = false ->
  xq_leb (if xq_gtb r half then half else r) half = true \/ xq_is_nan half = true.
Proof.
  intros Hr. destruct (xq_gtb r half) eqn:E.
  - destruct half; simpl; auto; left; unfold xq_leb, xq_ltb, xq_eqb.
    + assert (Qeqb q q = true) by (apply Qeqb_true; lra). rewrite H. apply orb_true_r.
  - unfold xq_gtb in E. destruct r as [p| | |], half as [q| | |]; simpl in *; try discriminate; auto; left.
    unfold xq_leb, xq_ltb, xq_eqb. apply Qltb_false in E.
    destruct (Qltb p q) eqn:E1; [reflexivity|]. apply Qltb_false in E1. simpl. apply Qeqb_true. lra.
Qed.

Lemma clamp_radii_post rx ry w h :
  xq_is_nan rx = false -> xq_is_nan ry = false ->
  xq_pos w = true -> xq_pos h = true ->
  let '(rx', ry') := clamp_radii rx ry w h in
  xq_leb rx' (xq_div w (Fin 2)) = true /\ xq_leb ry' (xq_div h (Fin 2)) = true.
Proof.
  intros Hx Hy Hw Hh. unfold clamp_radii.
  destruct w as [qw| | |]; simpl in Hw; try discriminate.
  destruct h as [qh| | |]; simpl in Hh; try discriminate.
  split.
  - destruct (clamp_one rx (xq_div (Fin qw) (Fin (2 # 1))) Hx) as [A|A]; [exact A|].
    exfalso. simpl in A. unfold xq_norm in A.
    destruct (Qltb F32_MAX (qw / (2 # 1))); [discriminate|].
    destruct (Qltb (qw / (2 # 1)) (- F32_MAX)); discriminate.
  - destruct (clamp_one ry (xq_div (Fin qh) (Fin (2 # 1))) Hy) as [A|A]; [exact A|].
    exfalso. simpl in A. unfold xq_norm in A.
    destruct (Qltb F32_MAX (qh / (2 # 1))); [discriminate|].
    destruct (Qltb (qh / (2 # 1)) (- F32_MAX)); discriminate.
Qed.

Lemma rect_radii_post w h rxo ryo rx ry :
  rect_radii w h rxo ryo = Some (rx, ry) ->
  (forall a, rxo = Some a -> xq_is_nan (ra_value a) = false) ->
  (forall a, ryo = Some a -> xq_is_nan (ra_value a) = false) ->
  xq_pos w = true /\ xq_pos h = true /\
  xq_leb rx (xq_div w (Fin 2)) = true /\ xq_leb ry (xq_div h (Fin 2)) = true.
Proof.
  unfold rect_radii.
  destruct (is_valid_length w) eqn:Ew; simpl; [|discriminate].
  destruct (is_valid_length h) eqn:Eh; simpl; [|discriminate].
  assert (Pw : xq_pos w = true).
  { unfold is_valid_length in Ew. apply andb_prop in Ew as [A B]. destruct w; simpl in *; try discriminate. exact A. }
  assert (Ph : xq_pos h = true).
  { unfold is_valid_length in Eh. apply andb_prop in Eh as [A B]. destruct h; simpl in *; try discriminate. exact A. }
  destruct (resolve_rx_ry rxo ryo) as [rx0 ry0] eqn:Er.
  intros H Hx Hy. assert (H1 : clamp_radii rx0 ry0 w h = (rx, ry)) by congruence. clear H.
  assert (Nx : xq_is_nan rx0 = false /\ xq_is_nan ry0 = false).
  { unfold resolve_rx_ry, drop_negative in Er.
    destruct rxo as [a|], ryo as [b|]; simpl in Er;
      repeat match type of Er with context [if ?c then _ else _] => destruct c end;
      inversion Er; subst; simpl; repeat split; try reflexivity;
      try (apply Hx; reflexivity); try (apply Hy; reflexivity). }
  destruct Nx as [Nx Ny].
  pose proof (clamp_radii_post rx0 ry0 w h Nx Ny Pw Ph) as K. rewrite H1 in K.
  destruct K as [K1 K2]. repeat split; assumption.
Qed.

(* `auto` rules of rx / ry: a missing (or negative) one takes the value of the other *)
Lemma rx_ry_auto a : xq_sign_negative (ra_number a) = false ->
  resolve_rx_ry (Some a) None = (ra_value a, ra_value a) /\ resolve_rx_ry None (Some a) = (ra_value a, ra_value a).
Proof. intro H. unfold resolve_rx_ry, drop_negative. rewrite H. split; reflexivity. Qed.

(* ------------------------------------------------------------------ text chunks / spans *)
Local Open Scope N_scope.
Fixpoint tile_rev (l : list (N * N)) (e : N) : bool :=
  match l with
  | [] => e =? 0
  | (s, e') :: r => (e' =? e) && (s <? e') && tile_rev r s
  end.
(* boundary positions of a newest-first length list: sums of its suffixes *)
Definition Inb (x : N) (lens : list N) : Prop := exists k, x = sumN (skipn k lens).
Definition cinv (ck : chunk) : Prop :=
  ck_spans ck <> [] /\ tile_rev (ck_spans ck) (sumN (ck_lens ck)) = true /\
  forall s e, In (s, e) (ck_spans ck) -> Inb s (ck_lens ck) /\ Inb e (ck_lens ck).
Definition sinv (st : tstate) : Prop :=
  Forall cinv (tc_chunks st) /\
  match tc_chunks st with ck :: _ => tc_bytes st = sumN (ck_lens ck) | [] => True end.

Lemma Inb_cons x len lens : Inb x lens -> Inb x (len :: lens).
Proof. intros (k & ->). exists (S k). reflexivity. Qed.
Lemma Inb_total lens : Inb (sumN lens) lens.
Proof. exists 0%nat. reflexivity. Qed.
Lemma Inb_zero lens : Inb 0 lens.
Proof. exists (length lens). rewrite skipn_all. reflexivity. Qed.

Lemma cinv_new len : 1 <= len -> cinv {| ck_lens := [len]; ck_spans := [(0, len)] |}.
Proof.
  intro H. unfold cinv. simpl. repeat split.
  - discriminate.
  - rewrite N.add_0_r, N.eqb_refl. simpl.
    assert (0 <? len = true) by (apply N.ltb_lt; lia). rewrite H0. reflexivity.
  - destruct H0 as [H0|[]]. inversion H0; subst. apply Inb_zero.
  - destruct H0 as [H0|[]]. inversion H0; subst. exists 0%nat. simpl. lia.
Qed.

Lemma tstep_inv st c : 1 <= fst (fst c) -> sinv st -> sinv (tstep st c).
Proof.
  destruct c as [[len nc] ns]. simpl. intros Hlen [Hall Hb]. unfold tstep.
  destruct (tc_chunks st) as [|ck rest] eqn:Ec.
  - split; simpl; [constructor; [apply cinv_new; exact Hlen|constructor]|lia].
  - inversion Hall as [|ck' rest' Hck Hrest]; subst.
    destruct nc.
    + split; simpl; [constructor; [apply cinv_new; exact Hlen|exact Hall]|lia].
    + destruct Hck as (Hne & Htile & Hin).
      destruct ns.
      * split; simpl; [|lia]. constructor; [|exact Hrest].
        unfold cinv. simpl. rewrite Hb. repeat split.
        -- discriminate.
        -- rewrite (N.add_comm len), N.eqb_refl. simpl.
           assert (sumN (ck_lens ck) <? sumN (ck_lens ck) + len = true) by (apply N.ltb_lt; lia).
           rewrite H. exact Htile.
        -- destruct H as [H|H].
           ++ inversion H; subst. apply Inb_cons. apply Inb_total.
           ++ apply Inb_cons. apply (Hin s e H).
        -- destruct H as [H|H].
           ++ inversion H; subst. exists 0%nat. simpl. lia.
           ++ apply Inb_cons. apply (Hin s e H).
      * split; simpl; [|lia]. constructor; [|exact Hrest].
        destruct (ck_spans ck) as [|[s0 e0] sp] eqn:Es; [congruence|].
        unfold cinv. simpl. simpl in Htile.
        apply andb_prop in Htile as [Ht1 Ht3]. apply andb_prop in Ht1 as [Ht1 Ht2].
        apply N.eqb_eq in Ht1. apply N.ltb_lt in Ht2. repeat split.
        -- discriminate.
        -- simpl. subst e0. rewrite (N.add_comm len), N.eqb_refl. simpl.
           assert (s0 <? sumN (ck_lens ck) + len = true) by (apply N.ltb_lt; lia).
           rewrite H. exact Ht3.
        -- destruct H as [H|H].
           ++ inversion H; subst. apply Inb_cons. apply (proj1 (Hin _ _ (or_introl eq_refl))).
           ++ apply Inb_cons. apply (Hin s e). right. exact H.
        -- destruct H as [H|H].
           ++ inversion H; subst. exists 0%nat. simpl. lia.
           ++ apply Inb_cons. apply (Hin s e). right. exact H.
Qed.

Lemma fold_inv chars : forall st, Forall (fun c => 1 <= fst (fst c)) chars -> sinv st ->
  sinv (fold_left tstep chars st).
Proof.
  induction chars as [|c r IH]; intros st Hc Hs; simpl; [exact Hs|].
  inversion Hc; subst. apply IH; [assumption|]. apply tstep_inv; assumption.
Qed.

Lemma sumN_app a b : sumN (a ++ b) = sumN a + sumN b.
Proof. induction a; simpl; [reflexivity|]. rewrite IHa. lia. Qed.
Lemma sumN_rev l : sumN (rev l) = sumN l.
Proof. induction l; simpl; [reflexivity|]. rewrite sumN_app, IHl. simpl. lia. Qed.

Lemma tile_rev_from l : forall e k n,
  tile_rev l e = true -> spans_tile_from k e n = true -> spans_tile_from (rev l ++ k) 0 n = true.
Proof.
  induction l as [|[s e'] r IH]; intros e k n Ht Hk; simpl in *.
  - apply N.eqb_eq in Ht. subst. exact Hk.
  - apply andb_prop in Ht as [Ht1 Ht3]. apply andb_prop in Ht1 as [Ht1 Ht2].
    apply N.eqb_eq in Ht1. subst e'. rewrite <- app_assoc. simpl.
    apply (IH s); [exact Ht3|]. simpl. rewrite N.eqb_refl, Ht2. exact Hk.
Qed.

Lemma prefix_from_In m : forall acc j, In (acc + sumN (firstn j m)) (prefix_sums_from acc m).
Proof.
  induction m as [|x m IH]; intros acc j; simpl.
  - left. destruct j; simpl; lia.
  - destruct j; simpl.
    + left. lia.
    + right. replace (acc + (x + sumN (firstn j m))) with ((acc + x) + sumN (firstn j m)) by lia. apply IH.
Qed.

Lemma Inb_prefix x lens : Inb x lens -> In x (prefix_sums (rev lens)).
Proof.
  intros (k & ->). unfold prefix_sums.
  rewrite <- (sumN_rev (skipn k lens)).
  destruct (Nat.le_gt_cases k (length lens)) as [Hk|Hk].
  - replace (rev (skipn k lens)) with (firstn (length lens - k) (rev lens)).
    + apply (prefix_from_In (rev lens) 0 (length lens - k)%nat).
    + rewrite firstn_rev. f_equal. f_equal. lia.
  - rewrite skipn_all2 by lia. simpl. apply (prefix_from_In (rev lens) 0 0%nat).
Qed.

Lemma existsb_eqb x l : In x l -> existsb (N.eqb x) l = true.
Proof. intro H. apply existsb_exists. exists x. split; [exact H|apply N.eqb_refl]. Qed.

Lemma cinv_ok ck : cinv ck -> chunk_ok (chunk_out ck) = true.
Proof.
  intros (Hne & Ht & Hin). unfold chunk_ok, chunk_out. simpl.
  rewrite sumN_rev.
  assert (A : spans_tile_from (rev (ck_spans ck)) 0 (sumN (ck_lens ck)) = true).
  { rewrite <- (app_nil_r (rev (ck_spans ck))).
    apply (tile_rev_from _ (sumN (ck_lens ck))); [exact Ht|]. simpl. apply N.eqb_refl. }
  rewrite A. simpl.
  assert (B : match rev (ck_spans ck) with [] => false | _ => true end = true).
  { destruct (rev (ck_spans ck)) eqn:E; [|reflexivity].
    apply (f_equal (@rev _)) in E. rewrite rev_involutive in E. simpl in E. congruence. }
  rewrite B. simpl.
  apply forallb_forall. intros [s e] Hp. apply in_rev in Hp.
  destruct (Hin s e Hp) as [Hs He]. simpl.
  rewrite (existsb_eqb s), (existsb_eqb e); [reflexivity| |]; apply Inb_prefix; assumption.
Qed.

Lemma collect_chunks_post chars :
  Forall (fun c => 1 <= fst (fst c)) chars ->
  Forall (fun ck => chunk_ok ck = true) (collect_chunks chars).
Proof.
  intro Hc. unfold collect_chunks, collect_chunks_rev.
  assert (S0 : sinv tstate0) by (split; simpl; [constructor|exact I]).
  destruct (fold_inv chars tstate0 Hc S0) as [Hall _].
  apply Forall_rev. apply Forall_map. revert Hall. apply Forall_impl. intros ck. apply cinv_ok.
Qed.
Local Open Scope Q_scope.

(* ------------------------------------------------------------------ units *)
(* every unit resolves to a plain number by the table of the SVG specification (1in = 2.54cm = 25.4mm =
   72pt = 6pc = dpi px; 1ex = em/2; percentages of an objectBoundingBox quantity are fractions) *)
Definition mk_state (dpi vbw vbh : Q) : state_ :=
  {| st_opt := {| opt_dpi := Fin dpi; opt_font_size := Fin 12 |};
     st_view_box := {| xr_x := Fin 0; xr_y := Fin 0; xr_w := Fin vbw; xr_h := Fin vbh |} |}.
Definition mk_len (n : Q) (u : unit_) : length_ := {| len_number := Fin n; len_unit := u |}.
Definition units_table_ok (sq : xq -> xq) (n dpi fs vbw vbh : Q) (aid : aid_) : bool :=
  let st := mk_state dpi vbw vbh in
  let nd := {| nd_font_size := Fin fs |} in
  let cl u un := convert_length sq (mk_len n u) nd aid un st in
  xq_eqb (cl U_None UserSpaceOnUse) (Fin n) && xq_eqb (cl U_Px UserSpaceOnUse) (Fin n)
  && xq_eqb (cl U_In UserSpaceOnUse) (xq_norm (n * dpi))
  && xq_eqb (cl U_Cm UserSpaceOnUse) (convert_length sq (mk_len (n * 10) U_Mm) nd aid UserSpaceOnUse st)
  && xq_eqb (cl U_Pc UserSpaceOnUse) (convert_length sq (mk_len (n * 12) U_Pt) nd aid UserSpaceOnUse st)
  && xq_eqb (convert_length sq (mk_len (n * (254 # 100)) U_Cm) nd aid UserSpaceOnUse st) (cl U_In UserSpaceOnUse)
  && xq_eqb (convert_length sq (mk_len (n * 72) U_Pt) nd aid UserSpaceOnUse st) (cl U_In UserSpaceOnUse)
  && xq_eqb (cl U_Em UserSpaceOnUse) (xq_norm (n * fs))
  && xq_eqb (convert_length sq (mk_len (n * 2) U_Ex) nd aid UserSpaceOnUse st) (cl U_Em UserSpaceOnUse)
  && xq_eqb (cl U_Percent ObjectBoundingBox) (Fin (n / 100)).

Lemma units_percent_obb sq n nd aid st :
  convert_length sq {| len_number := n; len_unit := U_Percent |} nd aid ObjectBoundingBox st = xq_div n (Fin 100).
Proof. reflexivity. Qed.

Lemma units_percent_x sq n nd st :
  convert_length sq {| len_number := n; len_unit := U_Percent |} nd A_Width UserSpaceOnUse st
  = xq_div (xq_mul (xr_w (st_view_box st)) n) (Fin 100)
  /\ convert_length sq {| len_number := n; len_unit := U_Percent |} nd A_Height UserSpaceOnUse st
  = xq_div (xq_mul (xr_h (st_view_box st)) n) (Fin 100).
Proof. split; reflexivity. Qed.

(* absolute units never look at the object units, the attribute or the view box *)
Lemma units_absolute_context_free sq sq' n u nd aid aid' un un' dpi vb vb' :
  u <> U_Percent ->
  convert_length sq {| len_number := n; len_unit := u |} nd aid un
     {| st_opt := dpi; st_view_box := vb |}
  = convert_length sq' {| len_number := n; len_unit := u |} nd aid' un'
     {| st_opt := dpi; st_view_box := vb' |}.
Proof. intro H. destruct u; try reflexivity. congruence. Qed.

(* ------------------------------------------------------------------ products of finite transforms *)
Lemma Qabs_m_bounds x : - Qabs_m x <= x /\ x <= Qabs_m x /\ 0 <= Qabs_m x.
Proof.
  unfold Qabs_m. destruct (Qleb 0 x) eqn:E.
  - apply Qleb_true in E. repeat split; lra.
  - apply Qleb_false in E. repeat split; lra.
Qed.
Lemma Qmax_m_l a b : a <= Qmax_m a b.
Proof. unfold Qmax_m. destruct (Qleb a b) eqn:E; [apply Qleb_true in E; lra|lra]. Qed.
Lemma Qmax_m_r a b : b <= Qmax_m a b.
Proof. unfold Qmax_m. destruct (Qleb a b) eqn:E; [lra|apply Qleb_false in E; lra]. Qed.

Lemma ts_mag_bounds t :
  let M := ts_mag t in
  0 <= M /\ (- M <= t_sx t <= M) /\ (- M <= t_ky t <= M) /\ (- M <= t_kx t <= M)
  /\ (- M <= t_sy t <= M) /\ (- M <= t_tx t <= M) /\ (- M <= t_ty t <= M).
Proof.
  cbv zeta. unfold ts_mag.
  pose proof (Qabs_m_bounds (t_sx t)) as (A1 & A2 & A3). pose proof (Qabs_m_bounds (t_ky t)) as (B1 & B2 & B3).
  pose proof (Qabs_m_bounds (t_kx t)) as (C1 & C2 & C3). pose proof (Qabs_m_bounds (t_sy t)) as (D1 & D2 & D3).
  pose proof (Qabs_m_bounds (t_tx t)) as (E1 & E2 & E3). pose proof (Qabs_m_bounds (t_ty t)) as (F1 & F2 & F3).
  set (m5 := Qmax_m (Qabs_m (t_tx t)) (Qabs_m (t_ty t))).
  set (m4 := Qmax_m (Qabs_m (t_sy t)) m5). set (m3 := Qmax_m (Qabs_m (t_kx t)) m4).
  set (m2 := Qmax_m (Qabs_m (t_ky t)) m3). set (m1 := Qmax_m (Qabs_m (t_sx t)) m2).
  pose proof (Qmax_m_l (Qabs_m (t_tx t)) (Qabs_m (t_ty t))). pose proof (Qmax_m_r (Qabs_m (t_tx t)) (Qabs_m (t_ty t))).
  pose proof (Qmax_m_l (Qabs_m (t_sy t)) m5). pose proof (Qmax_m_r (Qabs_m (t_sy t)) m5).
  pose proof (Qmax_m_l (Qabs_m (t_kx t)) m4). pose proof (Qmax_m_r (Qabs_m (t_kx t)) m4).
  pose proof (Qmax_m_l (Qabs_m (t_ky t)) m3). pose proof (Qmax_m_r (Qabs_m (t_ky t)) m3).
  pose proof (Qmax_m_l (Qabs_m (t_sx t)) m2). pose proof (Qmax_m_r (Qabs_m (t_sx t)) m2).
  fold m5 in H, H0. fold m4 in H1, H2. fold m3 in H3, H4. fold m2 in H5, H6. fold m1 in H7, H8.
  repeat split; lra.
Qed.

Lemma mul_bound x y A B : - A <= x <= A -> - B <= y <= B -> - (A * B) <= x * y /\ x * y <= A * B.
Proof. intros [H1 H2] [H3 H4]. split; nra. Qed.

Lemma norm_fin q : - F32_MAX <= q <= F32_MAX -> xq_norm q = Fin q.
Proof. intros [H1 H2]. apply xq_norm_small; assumption. Qed.

Lemma concat_finite_guarded a b :
  KnownClass_product_overflow a b = false -> all_finite (xts_concat a b) = true.
Proof.
  unfold KnownClass_product_overflow. intro H. apply negb_false_iff in H. apply Qleb_true in H.
  pose proof (ts_mag_bounds a) as (A0 & Asx & Aky & Akx & Asy & Atx & Aty).
  pose proof (ts_mag_bounds b) as (B0 & Bsx & Bky & Bkx & Bsy & Btx & Bty).
  set (A := ts_mag a) in *. set (B := ts_mag b) in *.
  assert (AB0 : 0 <= A * B) by nra.
  unfold xts_concat.
  destruct (ts_is_identity a); [reflexivity|].
  destruct (ts_is_identity b); [reflexivity|].
  destruct (negb (ts_has_skew a) && negb (ts_has_skew b)).
  - pose proof (mul_bound _ _ A B Asx Bsx). pose proof (mul_bound _ _ A B Asy Bsy).
    pose proof (mul_bound _ _ A B Asx Btx). pose proof (mul_bound _ _ A B Asy Bty).
    rewrite (norm_fin (t_sx a * t_sx b)) by lra. rewrite (norm_fin (t_sy a * t_sy b)) by lra.
    rewrite (norm_fin (t_sx a * t_tx b)) by lra. rewrite (norm_fin (t_sy a * t_ty b)) by lra.
    unfold xq_add. rewrite (norm_fin (t_sx a * t_tx b + t_tx a)) by lra.
    rewrite (norm_fin (t_sy a * t_ty b + t_ty a)) by lra. reflexivity.
  - unfold mul_add_mul.
    pose proof (mul_bound _ _ A B Asx Bsx). pose proof (mul_bound _ _ A B Akx Bky).
    pose proof (mul_bound _ _ A B Aky Bsx). pose proof (mul_bound _ _ A B Asy Bky).
    pose proof (mul_bound _ _ A B Asx Bkx). pose proof (mul_bound _ _ A B Akx Bsy).
    pose proof (mul_bound _ _ A B Aky Bkx). pose proof (mul_bound _ _ A B Asy Bsy).
    pose proof (mul_bound _ _ A B Asx Btx). pose proof (mul_bound _ _ A B Akx Bty).
    pose proof (mul_bound _ _ A B Aky Btx). pose proof (mul_bound _ _ A B Asy Bty).
    rewrite (norm_fin (t_sx a * t_sx b + t_kx a * t_ky b)) by lra.
    rewrite (norm_fin (t_ky a * t_sx b + t_sy a * t_ky b)) by lra.
    rewrite (norm_fin (t_sx a * t_kx b + t_kx a * t_sy b)) by lra.
    rewrite (norm_fin (t_ky a * t_kx b + t_sy a * t_sy b)) by lra.
    rewrite (norm_fin (t_sx a * t_tx b + t_kx a * t_ty b)) by lra.
    rewrite (norm_fin (t_ky a * t_tx b + t_sy a * t_ty b)) by lra.
    unfold xq_add.
    rewrite (norm_fin (t_sx a * t_tx b + t_kx a * t_ty b + t_tx a)) by lra.
    rewrite (norm_fin (t_ky a * t_tx b + t_sy a * t_ty b + t_ty a)) by lra. reflexivity.
Qed.

(* witness: scale(1e30) under scale(1e30) *)
Definition big_scale : ts := from_row (1000000000000000000000000000000 # 1) 0 0 (1000000000000000000000000000000 # 1) 0 0.
Lemma concat_finite_refuted :
  exists a b, KnownClass_product_overflow a b = true /\ all_finite (xts_concat a b) = false.
Proof. exists big_scale, big_scale. vm_compute. split; reflexivity. Qed.
