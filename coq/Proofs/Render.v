(* Lemmas about the layer geometry of render_group (Model/Render.v over the source-derived
   Gen/LeafRender.v and Gen/LeafFit.v). *)
From RV Require Import Model.Base Model.RenderPrims Gen.Consts Gen.LeafFit Gen.LeafRender Model.Render.
From Coq Require Import Qround.
Local Open Scope Z_scope.

Ltac consts := unfold I32_MIN, I32_MAX, U32_MAX, RANGE in *.
Ltac boolz :=
  repeat match goal with
         | H : _ && _ = true |- _ => apply andb_true_iff in H; destruct H
         | H : (_ <=? _) = true |- _ => apply Z.leb_le in H
         | H : (_ <? _) = true |- _ => apply Z.ltb_lt in H
         | H : (_ <=? _) = false |- _ => apply Z.leb_gt in H
         | H : (_ <? _) = false |- _ => apply Z.ltb_ge in H
         | H : (_ =? _) = true |- _ => apply Z.eqb_eq in H
         end.

(* ---------------------------------------------------------------- IntRect constructors *)
Lemma irect_from_xywh_Some x y w h r :
  irect_from_xywh x y w h = Some r <->
  (r = mk_irect x y w h /\ I32_MIN <= x /\ I32_MIN <= y /\ 0 < w <= I32_MAX /\ 0 < h <= I32_MAX /\
   x + w <= I32_MAX /\ y + h <= I32_MAX).
Proof.
  unfold irect_from_xywh, in_i32, mk_irect. split.
  - match goal with |- context [if ?c then _ else _] => destruct c eqn:C end; [|discriminate].
    intro H; inversion H; subst; clear H. boolz. consts. repeat split; lia.
  - intros [-> H]. consts.
    match goal with |- context [if ?c then _ else _] => replace c with true end; [reflexivity|].
    symmetry. rewrite !andb_true_iff, !Z.leb_le, !Z.ltb_lt. lia.
Qed.

Lemma irect_from_xywh_valid x y w h r : irect_from_xywh x y w h = Some r -> valid_irect r.
Proof.
  intro H. apply irect_from_xywh_Some in H. destruct H as [-> H]. unfold valid_irect, mk_irect; simpl. lia.
Qed.

Lemma valid_irect_iff r : valid_irectb r = true <-> valid_irect r.
Proof.
  unfold valid_irectb, valid_irect. rewrite !andb_true_iff, !Z.leb_le, !Z.ltb_lt. lia.
Qed.

Lemma irect_from_ltrb_Some l t r b q :
  irect_from_ltrb l t r b = Some q <->
  (q = mk_irect l t (r - l) (b - t) /\ I32_MIN <= l /\ I32_MIN <= t /\ l < r /\ t < b /\
   r <= I32_MAX /\ b <= I32_MAX /\ r - l <= I32_MAX /\ b - t <= I32_MAX).
Proof.
  unfold irect_from_ltrb, in_i32. split.
  - match goal with |- context [if ?c then _ else _] => destruct c eqn:C end; [|discriminate].
    intro H. apply irect_from_xywh_Some in H. boolz. consts. intuition lia.
  - intros [-> H]. consts.
    match goal with |- context [if ?c then _ else _] => replace c with true end.
    + apply irect_from_xywh_Some. consts. intuition lia.
    + symmetry. rewrite !andb_true_iff, !Z.leb_le. lia.
Qed.

(* ---------------------------------------------------------------- fit_to_rect (source-derived) *)
Lemma fit_to_rect_eq r b :
  fit_to_rect r b = irect_from_ltrb (Z.max (ix r) (ix b)) (Z.max (iy r) (iy b))
                                    (Z.min (i_right r) (i_right b)) (Z.min (i_bottom r) (i_bottom b)).
Proof.
  unfold fit_to_rect. cbv zeta. rewrite !Z.gtb_ltb.
  destruct (ix r <? ix b) eqn:E1; destruct (iy r <? iy b) eqn:E2;
    destruct (i_right b <? i_right r) eqn:E3; destruct (i_bottom b <? i_bottom r) eqn:E4;
    boolz; f_equal; lia.
Qed.

Lemma fit_to_rect_Some r b q : valid_irect r -> valid_irect b ->
  (fit_to_rect r b = Some q <->
   q = mk_irect (Z.max (ix r) (ix b)) (Z.max (iy r) (iy b))
                (Z.min (i_right r) (i_right b) - Z.max (ix r) (ix b))
                (Z.min (i_bottom r) (i_bottom b) - Z.max (iy r) (iy b)) /\
   Z.max (ix r) (ix b) < Z.min (i_right r) (i_right b) /\
   Z.max (iy r) (iy b) < Z.min (i_bottom r) (i_bottom b)).
Proof.
  intros Vr Vb. rewrite fit_to_rect_eq, irect_from_ltrb_Some.
  unfold valid_irect, i_right, i_bottom in *. consts. intuition lia.
Qed.

Lemma fit_to_rect_pixels r b q : valid_irect r -> valid_irect b -> fit_to_rect r b = Some q ->
  valid_irect q /\ inside q r /\ inside q b /\
  forall px py, in_irect q px py <-> (in_irect r px py /\ in_irect b px py).
Proof.
  intros Vr Vb H. apply (fit_to_rect_Some r b q Vr Vb) in H. destruct H as [-> [H1 H2]].
  unfold valid_irect, inside, in_irect, i_right, i_bottom, mk_irect in *; simpl. consts.
  repeat split; try lia.
Qed.

Lemma fit_to_rect_None r b : valid_irect r -> valid_irect b ->
  (fit_to_rect r b = None <-> forall px py, ~ (in_irect r px py /\ in_irect b px py)).
Proof.
  intros Vr Vb. split.
  - intros H px py [A B].
    destruct (Z_lt_dec (Z.max (ix r) (ix b)) (Z.min (i_right r) (i_right b))) as [L1|L1];
      [destruct (Z_lt_dec (Z.max (iy r) (iy b)) (Z.min (i_bottom r) (i_bottom b))) as [L2|L2]|].
    + assert (S : fit_to_rect r b = Some (mk_irect (Z.max (ix r) (ix b)) (Z.max (iy r) (iy b))
                (Z.min (i_right r) (i_right b) - Z.max (ix r) (ix b))
                (Z.min (i_bottom r) (i_bottom b) - Z.max (iy r) (iy b)))).
      { apply fit_to_rect_Some; auto. }
      congruence.
    + unfold in_irect in *. lia.
    + unfold in_irect in *. lia.
  - intro H. destruct (fit_to_rect r b) as [q|] eqn:E; [|reflexivity]. exfalso.
    destruct (fit_to_rect_pixels r b q Vr Vb E) as [Vq [_ [_ P]]].
    apply (H (ix q) (iy q)). apply P. unfold valid_irect, in_irect, i_right, i_bottom in *. lia.
Qed.

Lemma fit_to_rect_inside_id r b : valid_irect r -> valid_irect b -> inside r b -> fit_to_rect r b = Some r.
Proof.
  intros Vr Vb I. apply fit_to_rect_Some; auto.
  unfold valid_irect, inside, i_right, i_bottom, mk_irect in *. destruct r as [x y w h]; simpl in *.
  repeat split; try lia; try (f_equal; lia).
Qed.

Lemma fit_to_rect_shift dx dy r b :
  valid_irect r -> valid_irect b -> valid_irect (ishift dx dy r) -> valid_irect (ishift dx dy b) ->
  fit_to_rect (ishift dx dy r) (ishift dx dy b) = option_map (ishift dx dy) (fit_to_rect r b).
Proof.
  intros Vr Vb Vr' Vb'.
  destruct (fit_to_rect r b) as [q|] eqn:E; simpl.
  - apply (fit_to_rect_Some r b q Vr Vb) in E. destruct E as [-> [H1 H2]].
    apply fit_to_rect_Some; auto.
    unfold ishift, i_right, i_bottom, mk_irect in *; simpl in *. repeat split; try lia; try (f_equal; lia).
  - apply fit_to_rect_None; auto. intros px py [A B].
    apply (proj1 (fit_to_rect_None r b Vr Vb) E (px - dx) (py - dy)).
    unfold in_irect, ishift, i_right, i_bottom in *; simpl in *. lia.
Qed.

Lemma insideb_iff_early a b : insideb a b = true <-> inside a b.
Proof. unfold insideb, inside. rewrite !andb_true_iff, !Z.leb_le. tauto. Qed.

(* ---------------------------------------------------------------- max_bbox *)
Definition CANVAS_MAX : Z := 268435456. (* 2^28 *)
Lemma max_bbox_spec W H : 1 <= W <= CANVAS_MAX -> 1 <= H <= CANVAS_MAX ->
  max_bbox W H = Some (mk_irect (- W * MAXBB_OFF_X) (- H * MAXBB_OFF_Y) (W * MAXBB_MUL_W) (H * MAXBB_MUL_H)).
Proof.
  intros HW HH. unfold max_bbox, max_bbox_args, u32_as_i32, CANVAS_MAX in *. simpl fst. simpl snd.
  replace (W <=? I32_MAX) with true by (symmetry; apply Z.leb_le; consts; lia).
  replace (H <=? I32_MAX) with true by (symmetry; apply Z.leb_le; consts; lia).
  apply irect_from_xywh_Some. unfold MAXBB_OFF_X, MAXBB_OFF_Y, MAXBB_MUL_W, MAXBB_MUL_H, mk_irect. consts.
  repeat split; try lia; try (f_equal; lia).
Qed.

Lemma canvas_in_max_bbox W H : 1 <= W <= CANVAS_MAX -> 1 <= H <= CANVAS_MAX ->
  exists m, max_bbox W H = Some m /\ valid_irect m /\ inside (canvas_rect W H) m /\
            iw m = MAXBB_MUL_W * W /\ ih m = MAXBB_MUL_H * H.
Proof.
  intros HW HH. eexists. split; [apply max_bbox_spec; assumption|].
  unfold valid_irect, inside, canvas_rect, i_right, i_bottom, mk_irect, CANVAS_MAX,
    MAXBB_OFF_X, MAXBB_OFF_Y, MAXBB_MUL_W, MAXBB_MUL_H in *; cbn [ix iy iw ih]. consts. repeat split; lia.
Qed.

(* ---------------------------------------------------------------- casts *)
Lemma as_i32_id z : I32_MIN <= z <= I32_MAX -> as_i32 z = z.
Proof. unfold as_i32. consts. lia. Qed.
Lemma as_u32_id z : 0 <= z <= U32_MAX -> as_u32 z = z.
Proof. unfold as_u32. consts. lia. Qed.
Lemma as_i32_range z : I32_MIN <= as_i32 z <= I32_MAX.
Proof. unfold as_i32. consts. lia. Qed.
Lemma as_u32_range z : 0 <= as_u32 z <= U32_MAX.
Proof. unfold as_u32. consts. lia. Qed.

(* ---------------------------------------------------------------- the layer box *)
Lemma to_int_rect_small b : small_bbox b -> rect_to_int_rect_opt b = Some (raw_box b false).
Proof.
  intros [[X1 X2] [[Y1 Y2] [[W1 W2] [H1 H2]]]]. unfold rect_to_int_rect_opt, raw_box.
  rewrite !as_i32_id, !as_u32_id by (consts; lia).
  apply irect_from_xywh_Some. unfold mk_irect. consts. repeat split; lia.
Qed.

Lemma geom_to_int_rect_small b : small_bbox b -> geom_to_int_rect b = Some (raw_box b false).
Proof.
  intros [[X1 X2] [[Y1 Y2] [[W1 W2] [H1 H2]]]]. unfold geom_to_int_rect, raw_box.
  rewrite !as_i32_id, !as_u32_id by (consts; lia).
  apply irect_from_xywh_Some. unfold mk_irect. consts. repeat split; lia.
Qed.
Lemma filter_to_int_rect_small b : small_bbox b -> filter_to_int_rect b = Some (raw_box b false).
Proof. intro S. unfold filter_to_int_rect. apply geom_to_int_rect_small. exact S. Qed.

Lemma raw_box_valid b nf : small_bbox b -> valid_irect (raw_box b nf).
Proof.
  intros [[X1 X2] [[Y1 Y2] [[W1 W2] [H1 H2]]]]. unfold valid_irect, raw_box. consts.
  destruct nf; simpl; lia.
Qed.

Lemma layer_panics_small b nf : small_bbox b -> layer_panics b nf = false.
Proof.
  intro S. unfold layer_panics, to_int_rect_panics. rewrite (to_int_rect_small b S).
  destruct nf, layer_to_int_rect_unwraps; reflexivity.
Qed.

Lemma layer_ibbox_small b nf m : small_bbox b ->
  layer_ibbox b nf m = fit_to_rect (raw_box b nf) m.
Proof.
  intros S. pose proof S as [[X1 X2] [[Y1 Y2] [[W1 W2] [H1 H2]]]].
  unfold layer_ibbox. destruct nf.
  - unfold i32_saturating_sub, u32_saturating_add.
    rewrite !(as_i32_id (f32_floor _)), !(as_u32_id (f32_ceil _)) by (consts; lia).
    rewrite !as_i32_id, !as_u32_id by (consts; lia).
    match goal with |- context [irect_from_xywh ?x ?y ?w ?h] =>
      replace (irect_from_xywh x y w h) with (Some (raw_box b true)) end.
    + destruct (fit_to_rect (raw_box b true) m); reflexivity.
    + symmetry. apply irect_from_xywh_Some. unfold raw_box, mk_irect. consts. repeat split; lia.
  - cbv zeta. rewrite (geom_to_int_rect_small b S).
    destruct (fit_to_rect (raw_box b false) m); reflexivity.
Qed.

Lemma layer_box_small b nf m : small_bbox b ->
  layer_box b nf m = match fit_to_rect (raw_box b nf) m with Some r => LBox r | None => LSkip end.
Proof.
  intro S. unfold layer_box. rewrite (layer_panics_small b nf S), (layer_ibbox_small b nf m S). reflexivity.
Qed.

(* whatever the numbers: a layer that is allocated lies inside max_bbox *)
Lemma layer_within_max b nf m r : valid_irect m -> layer_box b nf m = LBox r ->
  valid_irect r /\ inside r m.
Proof.
  intros Vm. unfold layer_box. destruct (layer_panics b nf) eqn:P; [discriminate|].
  destruct (layer_ibbox b nf m) as [q|] eqn:E; [|discriminate]. intro H; inversion H; subst q; clear H.
  unfold layer_ibbox in E. destruct nf.
  - match type of E with context [irect_from_xywh ?x ?y ?w ?h] =>
      destruct (irect_from_xywh x y w h) as [i|] eqn:E1 end; [|discriminate].
    destruct (fit_to_rect i m) as [j|] eqn:E2; [|discriminate]. inversion E; subst j.
    pose proof (irect_from_xywh_valid _ _ _ _ _ E1) as Vi.
    destruct (fit_to_rect_pixels i m r Vi Vm E2) as [A [_ [B _]]]. split; assumption.
  - cbv zeta in E.
    destruct (geom_to_int_rect b) as [i|] eqn:E1; [|discriminate].
    pose proof (irect_from_xywh_valid _ _ _ _ _ E1) as Vi.
    destruct (fit_to_rect i m) as [j|] eqn:E2; [|discriminate]. inversion E; subst j.
    destruct (fit_to_rect_pixels i m r Vi Vm E2) as [A [_ [B _]]]. split; assumption.
Qed.

Lemma inside_size r m : inside r m -> valid_irect r -> iw r <= iw m /\ ih r <= ih m /\ iw r * ih r <= iw m * ih m.
Proof.
  unfold inside, valid_irect, i_right, i_bottom. intros I V.
  assert (iw r <= iw m) by lia. assert (ih r <= ih m) by lia. repeat split; try assumption. nia.
Qed.

(* pixels of the layer = pixels of the unclamped box that lie in max_bbox *)
Lemma layer_pixels_small b nf m px py : small_bbox b -> valid_irect m ->
  (in_lres (layer_box b nf m) px py <-> in_irect (raw_box b nf) px py /\ in_irect m px py).
Proof.
  intros S Vm. rewrite (layer_box_small b nf m S). pose proof (raw_box_valid b nf S) as Vr.
  destruct (fit_to_rect (raw_box b nf) m) as [q|] eqn:E; simpl.
  - destruct (fit_to_rect_pixels _ _ _ Vr Vm E) as [_ [_ [_ P]]]. apply P.
  - split; [tauto|]. intro H. exact (proj1 (fit_to_rect_None _ _ Vr Vm) E px py H).
Qed.

(* ---------------------------------------------------------------- floor / ceil under integer shifts *)
Lemma Qfloor_unique x z : (inject_Z z <= x)%Q -> (x < inject_Z (z + 1))%Q -> Qfloor x = z.
Proof.
  intros A B. pose proof (Qfloor_le x) as C. pose proof (Qlt_floor x) as D.
  assert (z < Qfloor x + 1). { rewrite Zlt_Qlt. eapply Qle_lt_trans; eassumption. }
  assert (Qfloor x < z + 1). { rewrite Zlt_Qlt. eapply Qle_lt_trans; eassumption. }
  lia.
Qed.
Lemma floor_shift x d : f32_floor (x + inject_Z d) = f32_floor x + d.
Proof.
  unfold f32_floor. apply Qfloor_unique.
  - rewrite inject_Z_plus. pose proof (Qfloor_le x). lra.
  - replace (Qfloor x + d + 1) with ((Qfloor x + 1) + d) by lia. rewrite inject_Z_plus.
    pose proof (Qlt_floor x). lra.
Qed.
Lemma ceil_shift x d : f32_ceil (x + inject_Z d) = f32_ceil x + d.
Proof.
  unfold f32_ceil, Qceiling.
  assert (E : (- (x + inject_Z d) == - x + inject_Z (- d))%Q) by (rewrite inject_Z_opp; ring).
  rewrite (Qfloor_comp _ _ E). pose proof (floor_shift (- x) (- d)) as F. unfold f32_floor in F.
  rewrite F. lia.
Qed.

Lemma raw_box_shift dx dy b nf : raw_box (qshift dx dy b) nf = ishift dx dy (raw_box b nf).
Proof.
  unfold raw_box, qshift, ishift. destruct nf; cbn [rx ry rw rh ix iy iw ih]; rewrite !floor_shift; f_equal; lia.
Qed.

(* equivariance of the source-derived layer box when the maximum box moves along *)
Lemma layer_ibbox_equivariant dx dy b nf m :
  small_bbox b -> small_bbox (qshift dx dy b) -> valid_irect m -> valid_irect (ishift dx dy m) ->
  layer_ibbox (qshift dx dy b) nf (ishift dx dy m) = option_map (ishift dx dy) (layer_ibbox b nf m).
Proof.
  intros S S' Vm Vm'. rewrite !layer_ibbox_small by assumption. rewrite raw_box_shift.
  apply fit_to_rect_shift; auto.
  - apply raw_box_valid; assumption.
  - rewrite <- raw_box_shift. apply raw_box_valid; assumption.
Qed.

(* clamping to max_bbox never changes what is visible on the canvas *)
Lemma clamp_visible_part r m W H px py :
  valid_irect r -> valid_irect m -> inside (canvas_rect W H) m -> in_irect (canvas_rect W H) px py ->
  (in_irect r px py <-> exists q, fit_to_rect r m = Some q /\ in_irect q px py).
Proof.
  intros Vr Vm I C.
  assert (M : in_irect m px py).
  { unfold inside, in_irect, canvas_rect, i_right, i_bottom in *; simpl in *. lia. }
  split.
  - intro R. destruct (fit_to_rect r m) as [q|] eqn:E.
    + exists q. split; [reflexivity|]. apply (fit_to_rect_pixels r m q Vr Vm E). tauto.
    + exfalso. exact (proj1 (fit_to_rect_None r m Vr Vm) E px py (conj R M)).
  - intros [q [E Q]]. apply (fit_to_rect_pixels r m q Vr Vm E) in Q. tauto.
Qed.

(* the shifted and the unshifted rendering allocate layers that agree on every pixel that is on the
   canvas in both *)
Lemma layers_agree_on_canvas dx dy b nf m W H px py :
  small_bbox b -> small_bbox (qshift dx dy b) -> valid_irect m -> inside (canvas_rect W H) m ->
  in_irect (canvas_rect W H) px py -> in_irect (canvas_rect W H) (px + dx) (py + dy) ->
  (in_lres (layer_box b nf m) px py <-> in_lres (layer_box (qshift dx dy b) nf m) (px + dx) (py + dy)).
Proof.
  intros S S' Vm I C C'. rewrite !layer_pixels_small by assumption. rewrite raw_box_shift.
  assert (in_irect m px py /\ in_irect m (px + dx) (py + dy)).
  { unfold inside, in_irect, canvas_rect, i_right, i_bottom in *; simpl in *. lia. }
  unfold in_irect, ishift, i_right, i_bottom in *; simpl in *. lia.
Qed.

(* ---------------------------------------------------------------- shift_ts and the draw position *)
Local Open Scope Q_scope.
Lemma layer_shift_ts_spec b i :
  ts_eq (layer_shift_ts b i) (from_translate (- inject_Z (ix i)) (- inject_Z (iy i))).
Proof. unfold layer_shift_ts, ts_eq, from_translate, from_row; simpl. repeat split; ring. Qed.

Lemma layer_content_ts_spec b i t :
  ts_eq (layer_content_ts b i t) (ts_concat (from_translate (- inject_Z (ix i)) (- inject_Z (iy i))) t).
Proof.
  unfold layer_content_ts, layer_ts, layer_shift_ts, ts_eq, ts_concat, from_translate, from_row; simpl.
  repeat split; ring.
Qed.

Lemma offset_consistent b i t x y :
  map_x layer_draw_ts (map_x (layer_content_ts b i t) x y) (map_y (layer_content_ts b i t) x y)
    + inject_Z (fst (layer_draw_pos i)) == map_x t x y /\
  map_y layer_draw_ts (map_x (layer_content_ts b i t) x y) (map_y (layer_content_ts b i t) x y)
    + inject_Z (snd (layer_draw_pos i)) == map_y t x y.
Proof.
  unfold layer_content_ts, layer_ts, layer_shift_ts, layer_draw_ts, layer_draw_pos, ts_identity,
    map_x, map_y, ts_concat, from_translate, from_row; simpl. split; ring.
Qed.

Lemma layer_size_spec i : layer_size i = (iw i, ih i).
Proof. reflexivity. Qed.

(* the layer transform differs from the group transform by whole pixels: sub-pixel phase preserved,
   linear part untouched - with or without clamping *)
Lemma shift_ts_integer b i t :
  t_tx (layer_content_ts b i t) == t_tx t - inject_Z (ix i) /\
  t_ty (layer_content_ts b i t) == t_ty t - inject_Z (iy i) /\
  t_sx (layer_content_ts b i t) == t_sx t /\ t_ky (layer_content_ts b i t) == t_ky t /\
  t_kx (layer_content_ts b i t) == t_kx t /\ t_sy (layer_content_ts b i t) == t_sy t.
Proof.
  unfold layer_content_ts, layer_ts, layer_shift_ts, ts_concat, from_translate, from_row; simpl.
  repeat split; ring.
Qed.

(* under a whole-pixel root translation the content of an (equally clamped) layer is rendered with
   exactly the same transform *)
Lemma shift_ts_equivariant dx dy b i t :
  ts_eq (layer_content_ts (qshift dx dy b) (ishift dx dy i)
                          (ts_concat (from_translate (inject_Z dx) (inject_Z dy)) t))
        (layer_content_ts b i t).
Proof.
  unfold layer_content_ts, layer_ts, layer_shift_ts, ts_eq, ts_concat, from_translate, from_row, qshift, ishift;
    simpl. rewrite !inject_Z_plus. repeat split; ring.
Qed.

(* ---------------------------------------------------------------- the layer covers the content *)
Local Open Scope Z_scope.
Lemma Zlt_of_Q a b : (inject_Z a < inject_Z b)%Q -> a < b.
Proof. rewrite <- Zlt_Qlt. tauto. Qed.

(* content box b (device space); a pixel whose square meets the box grown by `margin` on every side *)
Definition touches (b : qrect) (margin : Q) (px py : Z) : Prop :=
  (rx b - margin < inject_Z (px + 1) /\ inject_Z px < rx b + rw b + margin /\
   ry b - margin < inject_Z (py + 1) /\ inject_Z py < ry b + rh b + margin)%Q.

Lemma touches_raw_box b px py : touches b 1%Q px py -> in_irect (raw_box b true) px py.
Proof.
  unfold touches. intros [A [B [C D]]].
  pose proof (Qfloor_le (rx b)) as F1. pose proof (Qlt_floor (rx b)) as F2.
  pose proof (Qfloor_le (ry b)) as G1. pose proof (Qlt_floor (ry b)) as G2.
  pose proof (Qle_ceiling (rw b)) as W1. pose proof (Qle_ceiling (rh b)) as H1.
  rewrite inject_Z_plus in A, C, F2, G2. change (inject_Z 1) with 1%Q in *.
  set (fx := Qfloor (rx b)) in *. set (fy := Qfloor (ry b)) in *.
  set (cw := Qceiling (rw b)) in *. set (ch := Qceiling (rh b)) in *.
  assert (fx < px + 2)
    by (apply Zlt_of_Q; rewrite inject_Z_plus; change (inject_Z 2) with (2 # 1)%Q; lra).
  assert (px < fx + cw + 2)
    by (apply Zlt_of_Q; rewrite !inject_Z_plus; change (inject_Z 2) with (2 # 1)%Q; lra).
  assert (fy < py + 2)
    by (apply Zlt_of_Q; rewrite inject_Z_plus; change (inject_Z 2) with (2 # 1)%Q; lra).
  assert (py < fy + ch + 2)
    by (apply Zlt_of_Q; rewrite !inject_Z_plus; change (inject_Z 2) with (2 # 1)%Q; lra).
  unfold in_irect, raw_box, i_right, i_bottom, f32_floor, f32_ceil; cbn [ix iy iw ih].
  fold fx fy cw ch. lia.
Qed.

Lemma layer_covers_content b m W H px py :
  small_bbox b -> valid_irect m -> inside (canvas_rect W H) m ->
  in_irect (canvas_rect W H) px py -> touches b 1%Q px py ->
  in_lres (layer_box b true m) px py.
Proof.
  intros S Vm I C T. apply layer_pixels_small; auto. split.
  - apply touches_raw_box; assumption.
  - unfold inside, in_irect, canvas_rect, i_right, i_bottom in *; simpl in *. lia.
Qed.

Lemma layer_covers_content_canvas b W H m px py :
  small_bbox b -> 1 <= W <= CANVAS_MAX -> 1 <= H <= CANVAS_MAX -> max_bbox W H = Some m ->
  in_irect (canvas_rect W H) px py -> touches b 1%Q px py ->
  in_lres (layer_box b true m) px py.
Proof.
  intros S HW HH Hm C T.
  destruct (canvas_in_max_bbox W H HW HH) as [m' [E [V [I _]]]].
  rewrite Hm in E. inversion E; subst m'. eapply layer_covers_content; eassumption.
Qed.

(* ---------------------------------------------------------------- nested layers (any depth) *)
Lemma layer_child_max_spec m P : valid_irect m -> valid_irect P -> inside P m ->
  layer_child_max m P = ishift (- ix P) (- iy P) m /\ valid_irect (ishift (- ix P) (- iy P) m).
Proof.
  intros Vm VP I. unfold layer_child_max, irect_translate.
  assert (V : valid_irect (ishift (- ix P) (- iy P) m)).
  { unfold valid_irect, inside, ishift, i_right, i_bottom in *; cbn [ix iy iw ih]. consts. lia. }
  split; [|exact V].
  assert (E : irect_from_xywh (ix m + - ix P) (iy m + - iy P) (iw m) (ih m) = Some (ishift (- ix P) (- iy P) m)).
  { apply irect_from_xywh_Some. unfold valid_irect, ishift, mk_irect in *; cbn [ix iy iw ih] in *. consts.
    repeat split; try lia. }
  rewrite E. reflexivity.
Qed.

(* in every frame reachable through nested layers the clamp box is max_bbox seen from that frame *)
Lemma frame_inv m0 ox oy m : valid_irect m0 -> frame m0 ox oy m ->
  m = ishift (- ox) (- oy) m0 /\ valid_irect m.
Proof.
  intros V0 F. induction F as [|ox oy m b nf P F IH L].
  - split; [|exact V0]. unfold ishift. destruct m0; simpl. f_equal; lia.
  - destruct IH as [E Vm]. destruct (layer_within_max b nf m P Vm L) as [VP IP].
    destruct (layer_child_max_spec m P Vm VP IP) as [E' V']. split; [|rewrite E'; exact V'].
    rewrite E', E. unfold ishift; cbn [ix iy iw ih]. f_equal; lia.
Qed.

Lemma frame_pixel m0 ox oy m W H px py : valid_irect m0 -> inside (canvas_rect W H) m0 -> frame m0 ox oy m ->
  in_irect (canvas_rect W H) px py -> in_irect m (px - ox) (py - oy) /\ valid_irect m.
Proof.
  intros V0 I F C. destruct (frame_inv m0 ox oy m V0 F) as [E Vm]. split; [|exact Vm]. subst m.
  unfold inside, in_irect, canvas_rect, ishift, i_right, i_bottom in *; cbn [ix iy iw ih] in *. lia.
Qed.

(* a group nested in any number of layers: every canvas pixel its content (+ 1 px fringe) touches is in its layer *)
Lemma nested_layer_covers_content b m0 W H ox oy m px py :
  small_bbox b -> 1 <= W <= CANVAS_MAX -> 1 <= H <= CANVAS_MAX -> max_bbox W H = Some m0 -> frame m0 ox oy m ->
  in_irect (canvas_rect W H) px py -> touches b 1%Q (px - ox) (py - oy) ->
  in_lres (layer_box b true m) (px - ox) (py - oy).
Proof.
  intros S HW HH Hm F C T.
  destruct (canvas_in_max_bbox W H HW HH) as [m' [E [V [I _]]]]. rewrite Hm in E. inversion E; subst m'.
  destruct (frame_pixel m0 ox oy m W H px py V I F C) as [M Vm].
  apply layer_pixels_small; auto. split; [apply touches_raw_box; assumption | exact M].
Qed.

(* whole-pixel root translation with nesting: the two renderings may reach the group through differently clamped
   (differently placed) enclosing layers - frames (ox,oy,m) and (ox',oy',m') - the content box moves by (dx,dy) in
   device space, i.e. by (dx - (ox'-ox), dy - (oy'-oy)) in local coordinates; the layers still agree on every
   pixel that is on the canvas in both *)
Lemma nested_layers_agree dx dy b nf m0 W H ox oy m ox' oy' m' px py :
  let b' := qshift (dx - (ox' - ox)) (dy - (oy' - oy)) b in
  small_bbox b -> small_bbox b' ->
  1 <= W <= CANVAS_MAX -> 1 <= H <= CANVAS_MAX -> max_bbox W H = Some m0 ->
  frame m0 ox oy m -> frame m0 ox' oy' m' ->
  in_irect (canvas_rect W H) px py -> in_irect (canvas_rect W H) (px + dx) (py + dy) ->
  (in_lres (layer_box b nf m) (px - ox) (py - oy) <->
   in_lres (layer_box b' nf m') (px + dx - ox') (py + dy - oy')).
Proof.
  intros b' S S' HW HH Hm F F' C C'.
  destruct (canvas_in_max_bbox W H HW HH) as [m1 [E [V [I _]]]]. rewrite Hm in E. inversion E; subst m1.
  destruct (frame_pixel m0 ox oy m W H px py V I F C) as [M Vm].
  destruct (frame_pixel m0 ox' oy' m' W H (px + dx) (py + dy) V I F' C') as [M' Vm'].
  rewrite !layer_pixels_small by assumption. unfold b'. rewrite raw_box_shift.
  unfold in_irect, ishift, i_right, i_bottom in *; cbn [ix iy iw ih] in *. lia.
Qed.

(* ---------------------------------------------------------------- outside the i32 range *)
(* a group whose device box does not fit i32 arithmetic: the isolated group is skipped (`?` on
   IntRect::from_xywh) although it covers the canvas; the filter branch panics in to_int_rect().unwrap() *)
Definition huge_bbox : qrect := mk_qrect (-(1073741824 # 1)) 0 (2147483648 # 1) (10 # 1).
Lemma huge_group_skipped :
  exists b W H px py, small_bboxb b = false /\ max_bbox W H <> None /\
    in_irect (canvas_rect W H) px py /\ touches b 0%Q px py /\
    forall m, max_bbox W H = Some m -> layer_box b true m = LSkip.
Proof.
  exists huge_bbox, 100, 100, 5, 5. split; [vm_compute; reflexivity|]. split; [vm_compute; discriminate|].
  split; [vm_compute; intuition discriminate|]. split.
  - unfold touches, huge_bbox, mk_qrect; simpl. unfold Qlt; simpl. lia.
  - intros m Hm. vm_compute in Hm. inversion Hm; subst. vm_compute. reflexivity.
Qed.
(* the filtered branch: since geom::to_int_rect is checked, such a group is skipped as well *)
Lemma huge_filter_group_skipped :
  exists b m, valid_irect m /\ small_bboxb b = false /\ layer_box b false m = LSkip.
Proof.
  exists huge_bbox, (mk_irect (-200) (-200) 500 500). split.
  - unfold valid_irect, mk_irect; simpl. consts. lia.
  - split; vm_compute; reflexivity.
Qed.
Lemma filter_region_checked : filter_to_int_rect_unwraps = false /\ layer_to_int_rect_unwraps = false.
Proof. split; reflexivity. Qed.
Lemma layer_total b nf m : layer_box b nf m <> LPanic.
Proof.
  unfold layer_box, layer_panics. change layer_to_int_rect_unwraps with false. simpl.
  destruct (layer_ibbox b nf m); discriminate.
Qed.
Lemma small_bbox_iff b : small_bboxb b = true <-> small_bbox b.
Proof.
  unfold small_bboxb, small_bbox. rewrite !andb_true_iff, !Z.leb_le. tauto.
Qed.

(* ---------------------------------------------------------------- filter region vs layer size (F4) *)
Lemma insideb_iff a b : insideb a b = true <-> inside a b.
Proof. unfold insideb, inside. rewrite !andb_true_iff, !Z.leb_le. tauto. Qed.

Lemma filter_sizes_agree_unclamped b m :
  small_bbox b -> valid_irect m -> filter_layer_clamped b m = false -> filter_sizes_agree b m = true.
Proof.
  intros S Vm C. unfold filter_layer_clamped in C. apply negb_false_iff, insideb_iff in C.
  unfold filter_sizes_agree. rewrite (layer_box_small b false m S).
  rewrite (fit_to_rect_inside_id _ _ (raw_box_valid b false S) Vm C).
  unfold filter_region.
  assert (S' : small_bbox (qshift (- ix (raw_box b false)) (- iy (raw_box b false)) b)).
  { destruct S as [[X1 X2] [[Y1 Y2] [W H]]]. unfold small_bbox, qshift; cbn [rx ry rw rh].
    rewrite !floor_shift. unfold raw_box; cbn [ix iy]. consts. repeat split; lia. }
  rewrite (filter_to_int_rect_small _ S'). rewrite raw_box_shift. unfold ishift; simpl.
  rewrite !Z.eqb_refl. reflexivity.
Qed.
Lemma filter_sizes_agree_refuted :
  exists b m, valid_irect m /\ small_bboxb b = true /\ filter_layer_clamped b m = true /\
              filter_sizes_agree b m = false.
Proof.
  (* a 100x100 canvas, filter region 0..1000: layer clamped to 300 px, region recomputed as 1000 px *)
  exists (mk_qrect 0 0 (1000 # 1) (50 # 1)), (mk_irect (-200) (-200) 500 500). split.
  - unfold valid_irect, mk_irect; simpl. consts. lia.
  - repeat split; vm_compute; reflexivity.
Qed.

(* ---------------------------------------------------------------- C13 extras *)
Lemma floor_ceil_shift x d :
  f32_floor (x + inject_Z d)%Q = f32_floor x + d /\ f32_ceil (x + inject_Z d)%Q = f32_ceil x + d.
Proof. split; [apply floor_shift | apply ceil_shift]. Qed.

Lemma layers_agree_on_canvas_max dx dy b nf W H m px py :
  small_bbox b -> small_bbox (qshift dx dy b) ->
  1 <= W <= CANVAS_MAX -> 1 <= H <= CANVAS_MAX -> max_bbox W H = Some m ->
  in_irect (canvas_rect W H) px py -> in_irect (canvas_rect W H) (px + dx) (py + dy) ->
  (in_lres (layer_box b nf m) px py <-> in_lres (layer_box (qshift dx dy b) nf m) (px + dx) (py + dy)).
Proof.
  intros S S' HW HH Hm C C'.
  destruct (canvas_in_max_bbox W H HW HH) as [m' [E [V [I _]]]].
  rewrite Hm in E. inversion E; subst m'. eapply layers_agree_on_canvas; eassumption.
Qed.

Lemma layer_box_unclamped b m : small_bbox b -> valid_irect m -> filter_layer_clamped b m = false ->
  layer_box b false m = LBox (raw_box b false).
Proof.
  intros S Vm C. unfold filter_layer_clamped in C. apply negb_false_iff, insideb_iff in C.
  rewrite (layer_box_small b false m S).
  rewrite (fit_to_rect_inside_id _ _ (raw_box_valid b false S) Vm C). reflexivity.
Qed.

Lemma filter_region_unclamped b : small_bbox b ->
  filter_region b (raw_box b false) = Some (mk_irect 0 0 (iw (raw_box b false)) (ih (raw_box b false))).
Proof.
  intro S. unfold filter_region.
  assert (S' : small_bbox (qshift (- ix (raw_box b false)) (- iy (raw_box b false)) b)).
  { destruct S as [[X1 X2] [[Y1 Y2] [W H]]]. unfold small_bbox, qshift; cbn [rx ry rw rh].
    rewrite !floor_shift. unfold raw_box; cbn [ix iy]. consts. repeat split; lia. }
  rewrite (filter_to_int_rect_small _ S'). rewrite raw_box_shift. unfold ishift, mk_irect; cbn [ix iy iw ih].
  f_equal. f_equal; lia.
Qed.

Lemma filter_region_equivariant dx dy b m :
  small_bbox b -> small_bbox (qshift dx dy b) -> valid_irect m ->
  filter_layer_clamped b m = false -> filter_layer_clamped (qshift dx dy b) m = false ->
  forall i i', layer_box b false m = LBox i -> layer_box (qshift dx dy b) false m = LBox i' ->
  i' = ishift dx dy i /\ filter_region (qshift dx dy b) i' = filter_region b i.
Proof.
  intros S S' Vm C C' i i' H H'.
  rewrite (layer_box_unclamped b m S Vm C) in H. rewrite (layer_box_unclamped _ m S' Vm C') in H'.
  assert (Hi : raw_box b false = i) by congruence.
  assert (Hi' : raw_box (qshift dx dy b) false = i') by congruence.
  rewrite <- Hi, <- Hi'. split.
  - apply raw_box_shift.
  - rewrite (filter_region_unclamped _ S'), (filter_region_unclamped _ S). rewrite raw_box_shift.
    reflexivity.
Qed.

(* everything filter::apply receives - the layer transform, the source pixmap size and the region it recomputes -
   is unchanged by a whole-pixel root translation (unclamped layer): light sources, turbulence offsets
   (region.x - ts.tx), primitive sub-regions are functions of exactly these *)
Lemma filter_inputs_invariant dx dy b m t :
  small_bbox b -> small_bbox (qshift dx dy b) -> valid_irect m ->
  filter_layer_clamped b m = false -> filter_layer_clamped (qshift dx dy b) m = false ->
  forall i i', layer_box b false m = LBox i -> layer_box (qshift dx dy b) false m = LBox i' ->
  ts_eq (layer_content_ts (qshift dx dy b) i' (ts_concat (from_translate (inject_Z dx) (inject_Z dy)) t))
        (layer_content_ts b i t) /\
  layer_size i' = layer_size i /\
  filter_region (qshift dx dy b) i' = filter_region b i.
Proof.
  intros S S' Vm C C' i i' H H'.
  destruct (filter_region_equivariant dx dy b m S S' Vm C C' i i' H H') as [E R].
  subst i'. split; [apply shift_ts_equivariant|]. split; [reflexivity | exact R].
Qed.

(* ---------------------------------------------------------------- C02 extras *)
Lemma fit_to_rect_spec r b : valid_irect r -> valid_irect b ->
  (forall q, fit_to_rect r b = Some q ->
     valid_irect q /\ inside q r /\ inside q b /\
     forall px py, in_irect q px py <-> (in_irect r px py /\ in_irect b px py)) /\
  (fit_to_rect r b = None <-> forall px py, ~ (in_irect r px py /\ in_irect b px py)).
Proof.
  intros Vr Vb. split.
  - intros q H. apply fit_to_rect_pixels; assumption.
  - apply fit_to_rect_None; assumption.
Qed.

Lemma layer_bounded b nf W H m r :
  1 <= W <= CANVAS_MAX -> 1 <= H <= CANVAS_MAX -> max_bbox W H = Some m -> layer_box b nf m = LBox r ->
  valid_irect r /\ inside r m /\ layer_size r = (iw r, ih r) /\
  iw r <= MAXBB_MUL_W * W /\ ih r <= MAXBB_MUL_H * H /\
  iw r * ih r <= (MAXBB_MUL_W * MAXBB_MUL_H) * (W * H).
Proof.
  intros HW HH Hm L.
  destruct (canvas_in_max_bbox W H HW HH) as [m' [E [V [I [Ew Eh]]]]].
  rewrite Hm in E. inversion E; subst m'.
  destruct (layer_within_max b nf m r V L) as [Vr Ir].
  destruct (inside_size r m Ir Vr) as [A [B C]].
  rewrite Ew, Eh in *. unfold MAXBB_MUL_W, MAXBB_MUL_H in *.
  split; [exact Vr|]. split; [exact Ir|]. split; [reflexivity|]. lia.
Qed.

Lemma unfiltered_layer_total b m : layer_box b true m <> LPanic.
Proof. unfold layer_box, layer_panics. simpl. destruct (layer_ibbox b true m); discriminate. Qed.

Lemma small_layer_no_panic b nf m : small_bbox b -> layer_box b nf m <> LPanic.
Proof.
  intro S. rewrite (layer_box_small b nf m S). destruct (fit_to_rect (raw_box b nf) m); discriminate.
Qed.
