(* C02 (extension round 4, second pass): index expressions of the lighting, displacement-map and component-transfer kernels
   are in range for ALL inputs; the integer part of create_box_gauss; the bounds handed to filter::f32_bound.
   All definitions are SOURCE-DERIVED (Gen/LeafKernels.v, tools/gen_c02.py gen_kernels). *)
From RV Require Import Model.Base Model.RenderPrims Gen.LeafKernels.
From Coq Require Import String List Lia ZArith QArith.
Import ListNotations.
Local Open Scope Z_scope.

Definition in_img (w h : Z) (p : Z * Z) : Prop := 0 <= fst p < w /\ 0 <= snd p < h.
Definition i32R (z : Z) : Prop := I32_MIN <= z <= I32_MAX.

(* ImageRef::alpha_at / pixel_at_mut: data[(width * y + x)] with data.len() = width * height *)
Lemma in_img_index w h p : in_img w h p -> 0 <= w * snd p + fst p < w * h.
Proof. unfold in_img. destruct p as [x y]; cbn [fst snd]. nia. Qed.

(* ------------------------------------------------------------------ lighting *)
Definition light_call_ok (w h x y : Z) (c : string * ((bool * bool) * (Z * Z)) * list (Z * Z)) : Prop :=
  let '(_, ((xl, yl), pos), samples) := c in
  (xl = true -> 1 <= x < w - 1) -> (yl = true -> 1 <= y < h - 1) ->
  in_img w h pos /\ Forall (in_img w h) samples.

Lemma lighting_indices_ok w h x y : light_guard w h = false ->
  0 <= w - 2 /\ 0 <= h - 2 /\ length (light_calls w h x y) = 9%nat /\ Forall (light_call_ok w h x y) (light_calls w h x y).
Proof.
  unfold light_guard. intro G. apply Bool.orb_false_iff in G. destruct G as [G1 G2].
  apply Z.ltb_ge in G1. apply Z.ltb_ge in G2.
  split; [lia|]. split; [lia|]. split; [reflexivity|].
  unfold light_calls.
  repeat (apply Forall_cons; [
    unfold light_call_ok; intros Hx Hy;
    try (specialize (Hx eq_refl)); try (specialize (Hy eq_refl));
    split; [unfold in_img; cbn [fst snd]; lia |
            cbv [ls_top_left_normal ls_top_right_normal ls_bottom_left_normal ls_bottom_right_normal ls_top_row_normal
                 ls_bottom_row_normal ls_left_column_normal ls_right_column_normal ls_interior_normal];
            repeat (apply Forall_cons; [unfold in_img; cbn [fst snd]; lia|]); apply Forall_nil] |]).
  apply Forall_nil.
Qed.

(* ------------------------------------------------------------------ displacement map *)
Lemma displacement_indices_ok w h x y ox oy :
  1 <= w -> 1 <= h -> w * h <= I32_MAX -> 0 <= x -> 0 <= y -> dm_guard w h x y ox oy = true ->
  0 <= dm_idx w h x y ox oy < w * h /\ 0 <= dm_idx1 w h x y ox oy < w * h /\ Forall i32R (dm_idx_steps w h x y ox oy).
Proof.
  intros Hw Hh Hwh Hx Hy G. unfold dm_guard in G.
  repeat (apply Bool.andb_true_iff in G; destruct G as [G ?]).
  repeat match goal with
         | H : (_ <? _) = true |- _ => apply Z.ltb_lt in H
         | H : (_ >=? _) = true |- _ => apply Z.geb_le in H
         end.
  unfold dm_idx, dm_idx1, dm_idx_steps, i32R, I32_MIN, I32_MAX in *.
  split; [nia|]. split; [nia|].
  repeat (apply Forall_cons; [nia|]). apply Forall_nil.
Qed.

(* ------------------------------------------------------------------ component transfer *)
Lemma as_usize_nonneg z : 0 <= as_usize z.
Proof. unfold as_usize. lia. Qed.

Lemma transfer_indices_ok len c : 1 <= len ->
  Forall (fun i => 0 <= i < len) (ct_table_indices len c) /\ Forall (fun s => 0 <= s) (ct_table_usize_steps len) /\
  Forall (fun i => 0 <= i < len) (ct_discrete_indices len c) /\ Forall (fun s => 0 <= s) (ct_discrete_usize_steps len).
Proof.
  intro H. unfold ct_table_indices, ct_table_usize_steps, ct_discrete_indices, ct_discrete_usize_steps. cbv zeta.
  pose proof (as_usize_nonneg (f32_floor (c * inject_Z (len - 1)))) as K1.
  pose proof (as_usize_nonneg (f32_floor (c * inject_Z len))) as K2.
  set (k1 := as_usize (f32_floor (c * inject_Z (len - 1)))) in *.
  set (k2 := as_usize (f32_floor (c * inject_Z len))) in *.
  split; [|split; [|split]].
  - destruct (Z.eqb_spec (Z.min k1 (len - 1)) (len - 1)).
    + apply Forall_cons; [lia | apply Forall_nil].
    + apply Forall_cons; [lia|]. apply Forall_cons; [lia | apply Forall_nil].
  - apply Forall_cons; [lia | apply Forall_nil].
  - apply Forall_cons; [lia | apply Forall_nil].
  - apply Forall_cons; [lia | apply Forall_nil].
Qed.

(* ------------------------------------------------------------------ create_box_gauss *)
Lemma box_gauss_ok wf : 1 <= wf <= I32_MAX ->
  1 <= bg_wl wf <= I32_MAX - 2 /\ Z.rem (bg_wl wf) 2 = 1 /\ bg_wu (bg_wl wf) <= I32_MAX /\
  0 <= bg_radius (bg_wl wf) /\ 0 <= bg_radius (bg_wu (bg_wl wf)) <= 1073741823 /\ bg_radius 1 = 0.
Proof.
  intro H. unfold bg_wl, bg_wu, bg_radius, I32_MAX in *. cbv zeta.
  destruct (Z.eqb_spec (Z.rem (Z.min wf (2147483647 - 2)) 2) 0) as [E | E];
    repeat split; try reflexivity; Z.to_euclidean_division_equations; lia.
Qed.

(* ------------------------------------------------------------------ f32_bound *)
Definition f32_bound_args_ok (c : string * string * string) : bool :=
  let '(f, mn, mx) := c in
  String.eqb mn "0.0" &&
  (String.eqb mx "1.0" || String.eqb mx "255.0" ||
   (* convolve_matrix: bounded_new_a = f32_bound(0.0, new_a, 1.0); composite: max is 1.0 or the alpha a = calc(.., 1.0) *)
   (String.eqb f "convolve_matrix.rs" && String.eqb mx "bounded_new_a") || (String.eqb f "composite.rs" && String.eqb mx "max")).
Lemma f32_bound_calls_ok : forallb f32_bound_args_ok f32_bound_calls = true /\ f32_bound_calls <> [].
Proof. split; [vm_compute; reflexivity | discriminate]. Qed.
