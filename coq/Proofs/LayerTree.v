(* C14 (second pass): the layer box of a group contains everything the group paints, from the leaves up. *)
From Coq Require Import QArith Lqa Lia List.
From RV Require Import Model.Base Model.BBox Gen.BBoxTables Proofs.BBox Model.LayerTree.
Import ListNotations.
Local Open Scope Q_scope.

(* induction over ltree with the hypothesis for all children *)
Section ltree_ind2.
  Variable P : ltree -> Prop.
  Hypothesis Hleaf : forall b, P (LLeaf b).
  Hypothesis Hgroup : forall t fs ch, Forall P ch -> P (LGroup t fs ch).
  Fixpoint ltree_ind2 (n : ltree) : P n :=
    match n with
    | LLeaf b => Hleaf b
    | LGroup t fs ch =>
        Hgroup t fs ch ((fix go (l : list ltree) : Forall P l :=
                           match l with [] => Forall_nil P | c :: r => Forall_cons c (ltree_ind2 c) (go r) end) ch)
    end.
End ltree_ind2.

Lemma nz_transform_bounds t r r' x y :
  nz_transform t r = Some r' -> inside r x y -> inside r' (map_x t x y) (map_y t x y).
Proof.
  unfold nz_transform. destruct (ts_is_identity t) eqn:E; intros H Hin.
  - inversion H; subst; clear H. destruct (map_identity t x y (ts_is_identity_spec t E)) as [Ex Ey].
    unfold inside in *. rewrite Ex, Ey. exact Hin.
  - destruct (box_nonzero (map_box t r)); inversion H; subst. apply map_box_bounds, Hin.
Qed.

Lemma inside_proper b x y x' y' : x == x' -> y == y' -> inside b x' y' -> inside b x y.
Proof. intros Ex Ey. unfold inside. rewrite Ex, Ey. tauto. Qed.

Lemma layer_of_group t fs ch :
  layer_of (LGroup t fs ch) =
  match filters_bounding_box fs with Some f => Some f | None => to_nonzero (union_opt c_layer (map to_child ch)) end.
Proof. reflexivity. Qed.

Lemma to_child_live c : (match c with LLeaf _ => True | LGroup _ fs' ch' => is_nil ch' && is_nil fs' = false end) ->
  is_live (to_child c) = true.
Proof. destruct c as [b|t' fs' ch']; cbn [to_child]; [reflexivity|]. intro H. rewrite H. reflexivity. Qed.

Lemma in_live_map c ch : In c ch -> is_live (to_child c) = true -> In (to_child c) (live (map to_child ch)).
Proof. intros Hin Hl. unfold live. apply filter_In. split; [apply in_map; exact Hin | exact Hl]. Qed.

(* the any-disjunction of `inner` as an existential *)
Lemma inner_any ch q :
  (fix any (l : list ltree) : Prop :=
     match l with
     | [] => False
     | c :: r => match c with
                 | LLeaf b => inside b (fst q) (snd q)
                 | LGroup t' _ _ => exists q', inner c q' /\ qpt_eq q (apply_ts t' q')
                 end \/ any r
     end) ch -> exists c, In c ch /\ painted c q.
Proof.
  induction ch as [|c r IH]; [intros []|]. intros [H|H].
  - exists c. split; [left; reflexivity | destruct c; exact H].
  - destruct (IH H) as (c' & Hin & Hp). exists c'. split; [right; exact Hin | exact Hp].
Qed.

Lemma inner_group_nil t q : ~ inner (LGroup t [] []) q.
Proof. cbn. tauto. Qed.

(* MAIN: whatever a (well-formed) node paints, in its own coordinates, lies in its layer box - any depth *)
Theorem layer_contains_inner : forall n L q,
  okb n = true -> layer_of n = Some L -> inner n q -> inside L (fst q) (snd q).
Proof.
  induction n as [b | t fs ch IH] using ltree_ind2; intros L q Hok HL Hin.
  - cbn in HL. inversion HL; subst. exact Hin.
  - rewrite layer_of_group in HL. cbn [inner] in Hin.
    destruct (filters_bounding_box fs) as [f|] eqn:Ef.
    + inversion HL; subst. exact Hin.
    + apply to_nonzero_some in HL.
      destruct (inner_any ch q Hin) as (c & Hc & Hp).
      cbn [okb] in Hok. rewrite forallb_forall in Hok. specialize (Hok c Hc).
      apply andb_prop in Hok. destruct Hok as [Hokc Hgrp].
      rewrite Forall_forall in IH. specialize (IH c Hc).
      destruct c as [b | t' fs' ch'].
      * (* leaf child: its stroke box is one of the united boxes *)
        assert (C : contains L b).
        { eapply (union_opt_contains c_layer (map to_child ch) L (to_child (LLeaf b)));
            [exact HL | apply in_live_map; [exact Hc | reflexivity] | reflexivity]. }
        eapply inside_of_contains; [exact C | exact Hp].
      * destruct Hp as (q' & Hq' & Eq).
        destruct (is_nil ch' && is_nil fs') eqn:Eempty.
        { (* an empty group paints nothing *)
          apply andb_prop in Eempty. destruct Eempty as [E1 E2].
          destruct ch'; [|discriminate]. destruct fs'; [|discriminate]. exfalso. exact (inner_group_nil t' q' Hq'). }
        cbn [orb] in Hgrp.
        destruct (layer_of (LGroup t' fs' ch')) as [l'|] eqn:El; [|discriminate].
        destruct (nz_transform t' l') as [r'|] eqn:Er; [|discriminate].
        assert (I' : inside l' (fst q') (snd q')) by (apply (IH l' q' Hokc eq_refl Hq')).
        assert (C : contains L r').
        { eapply (union_opt_contains c_layer (map to_child ch) L (to_child (LGroup t' fs' ch')));
            [exact HL | apply in_live_map; [exact Hc | apply to_child_live; exact Eempty] |].
          cbn [to_child]. rewrite Eempty, El. cbn [c_layer gb_of_layer gb_layer]. exact Er. }
        destruct Eq as [Ex Ey]. cbn [apply_ts fst snd] in Ex, Ey.
        eapply inside_of_contains; [exact C|].
        eapply inside_proper; [exact Ex | exact Ey | apply (nz_transform_bounds t' l' r'); assumption].
Qed.

(* in device space: render_group maps the layer box by the accumulated transform T (which includes the group's own) *)
Theorem device_layer_contains_painted : forall n T L B q,
  okb n = true -> layer_of n = Some L -> nz_transform T L = Some B -> inner n q ->
  inside B (map_x T (fst q) (snd q)) (map_y T (fst q) (snd q)).
Proof.
  intros n T L B q Hok HL HB Hin. eapply nz_transform_bounds; [exact HB|]. eapply layer_contains_inner; eassumption.
Qed.

(* the same function as C12's calculate_bounding_boxes: whenever that call succeeds on the children as `to_child`
   presents them, the layer field it stores is layer_of *)
Theorem layer_of_is_calculate_bounding_boxes : forall t fs ch abs_ts prev g,
  calculate_bounding_boxes abs_ts fs prev (map to_child ch) = (g, true) ->
  layer_of (LGroup t fs ch) = Some (gb_layer g).
Proof.
  intros t fs ch abs_ts prev g. rewrite layer_of_group. unfold calculate_bounding_boxes.
  set (cs := map to_child ch).
  destruct (to_rect (union_of c_obj cs)) as [o|];
    [destruct (to_rect (union_of c_abs cs)) as [a|];
      [destruct (to_rect (union_of c_stroke cs)) as [s|];
        [destruct (to_rect (union_of c_abs_stroke cs)) as [sa|]|]|]|]; cbn [negb];
  try (intro H; discriminate H);
  destruct (filters_bounding_box fs) as [f|];
  try (destruct (to_nonzero (union_opt c_layer cs)) as [l|]; [|intro H; discriminate H]);
  match goal with |- context [nz_transform abs_ts ?l] => destruct (nz_transform abs_ts l) end;
  intro H; inversion H; subst; reflexivity.
Qed.
