(* Guard lemmas: each validated constructor succeeds exactly on the stated set of values. *)
From Coq Require Import QArith Bool Lqa.
From RV Require Import Model.Base Model.Xq.
Local Open Scope Q_scope.

Lemma positive_iff x : x_positive x = true <-> exists q, x = XFin q /\ 0 <= q.
Proof.
  destruct x as [q| | |]; simpl; split; try discriminate; try (intros (q0 & H & _); discriminate).
  - intro H. exists q. split; [reflexivity|apply Qleb_true, H].
  - intros (q0 & [= <-] & H). apply Qleb_true, H.
Qed.

Lemma nonzero_positive_iff x : x_nonzero_positive x = true <-> exists q, x = XFin q /\ 0 < q.
Proof.
  destruct x as [q| | |]; simpl; split; try discriminate; try (intros (q0 & H & _); discriminate).
  - intro H. exists q. split; [reflexivity|apply Qltb_true, H].
  - intros (q0 & [= <-] & H). apply Qltb_true, H.
Qed.

Lemma normalized_iff x : x_normalized x = true <-> exists q, x = XFin q /\ 0 <= q /\ q <= 1.
Proof.
  destruct x as [q| | |]; simpl; split; try discriminate; try (intros (q0 & H & _); discriminate).
  - intro H. apply andb_true_iff in H. destruct H as [H1 H2]. exists q. repeat split; apply Qleb_true; assumption.
  - intros (q0 & [= <-] & H1 & H2). apply andb_true_iff. split; apply Qleb_true; assumption.
Qed.

Lemma size_iff w h : x_size w h = true <-> exists p q, w = XFin p /\ h = XFin q /\ 0 < p /\ 0 < q.
Proof.
  unfold x_size. rewrite andb_true_iff, !nonzero_positive_iff. split.
  - intros [(p & -> & Hp) (q & -> & Hq)]. exists p, q. repeat split; assumption.
  - intros (p & q & -> & -> & Hp & Hq). split; [exists p|exists q]; split; try reflexivity; assumption.
Qed.

Lemma nz_ltrb_iff l t r b : x_nz_ltrb l t r b = true <->
  exists ql qt qr qb, l = XFin ql /\ t = XFin qt /\ r = XFin qr /\ b = XFin qb /\
                      ql < qr /\ qt < qb /\ qr - ql < F32_MAX /\ qb - qt < F32_MAX.
Proof.
  split.
  - destruct l as [ql| | |], t as [qt| | |], r as [qr| | |], b as [qb| | |]; simpl; try discriminate.
    intro H. repeat (apply andb_true_iff in H; destruct H as [H ?]).
    exists ql, qt, qr, qb. repeat split; try reflexivity; apply Qltb_true; assumption.
  - intros (ql & qt & qr & qb & -> & -> & -> & -> & H1 & H2 & H3 & H4). simpl.
    repeat (apply andb_true_iff; split); apply Qltb_true; assumption.
Qed.

(* a Size (both components finite and > 0) always yields PositiveF32 components: the guard behind
   `PositiveF32::new(scale.width()).unwrap()` *)
Lemma size_components_positive w h : x_size w h = true -> x_positive w = true /\ x_positive h = true.
Proof.
  intro H. apply size_iff in H. destruct H as (p & q & -> & -> & Hp & Hq). simpl.
  split; apply Qleb_true; lra.
Qed.

(* is_valid_length (finite, > 0) is the guard behind `PositiveF32::new(r).unwrap()` of radial gradients *)
Lemma valid_length_positive r : x_nonzero_positive r = true -> x_positive r = true.
Proof.
  intro H. apply nonzero_positive_iff in H. destruct H as (q & -> & Hq). simpl. apply Qleb_true. lra.
Qed.

(* f32_bound(0, v, 1) of a finite value is a valid PositiveF32 / NormalizedF32 *)
Definition x_bound01 (x : xq) : xq :=
  match x with
  | XFin q => if Qltb 1 q then XFin 1 else if Qltb q 0 then XFin 0 else XFin q
  | XPInf => XFin 1        (* val > max *)
  | XNInf => XFin 0        (* val < min *)
  | XNaN => XNaN
  end.
Lemma bound01_normalized x : x <> XNaN -> x_normalized (x_bound01 x) = true.
Proof.
  destruct x as [q| | |]; simpl; intro H; try reflexivity; [|congruence].
  destruct (Qltb 1 q) eqn:E1; [reflexivity|]. destruct (Qltb q 0) eqn:E2; [reflexivity|]. simpl.
  apply Qltb_false in E1. apply Qltb_false in E2. apply andb_true_iff. split; apply Qleb_true; assumption.
Qed.

(* literal arguments used by the parser *)
Lemma const_rects :
  x_nz_xywh (XFin 0) (XFin 0) (XFin 100) (XFin 100) = true /\
  x_nz_xywh (XFin 0) (XFin 0) (XFin 1) (XFin 1) = true /\
  x_nz_xywh (XFin (-(1#2))) (XFin (-(1#2))) (XFin 2) (XFin 2) = true /\
  x_nz_xywh (XFin (-(1#10))) (XFin (-(1#10))) (XFin (12#10)) (XFin (12#10)) = true /\
  x_size (XFin 1) (XFin 1) = true /\ x_size (XFin 100) (XFin 100) = true /\ x_positive (XFin 1) = true.
Proof. repeat split; vm_compute; reflexivity. Qed.

Lemma bound01_positive x : x <> XNaN -> x_positive (x_bound01 x) = true.
Proof.
  intro H. pose proof (bound01_normalized x H) as Hn. apply normalized_iff in Hn.
  destruct Hn as (q & -> & H0 & _). simpl. apply Qleb_true, H0.
Qed.

Lemma const_zero_rect : x_rect_xywh (XFin 0) (XFin 0) (XFin 0) (XFin 0) = true.
Proof. vm_compute. reflexivity. Qed.
