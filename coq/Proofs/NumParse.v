(* Every number that `FromValue for f32` accepts is finite and below the f32 overflow threshold. *)
From RV Require Import Gen.NumParse.
From RV Require Import Model.NumParse.
From Coq Require Import QArith Qabs List Bool.
Import ListNotations.
Local Open Scope Q_scope.

Lemma parse_f32_finite v x : parse_f32 v = Some x -> exists q, x = Fin q /\ Qabs q < f32_overflow.
Proof.
  unfold parse_f32, f32_parse_steps. cbn [run_steps].
  destruct v as [q|n|]; cbn [cast32 is_fin].
  - destruct (Qle_bool f32_overflow (Qabs q)) eqn:E; cbn [is_fin]; [discriminate|].
    intro H. inversion H; subst. exists q. split; [reflexivity|].
    apply Qnot_le_lt. intro L. apply Qle_bool_iff in L. congruence.
  - discriminate.
  - discriminate.
Qed.

(* what the order buys: filtering BEFORE the cast accepts 1e40 as +infinity *)
Lemma filter_before_cast_refuted :
  run_steps [PFilterFinite; PCast] (Fin (inject_Z (10 ^ 40))) false = Some (Inf false, true).
Proof. vm_compute. reflexivity. Qed.

Lemma parse_f32_accepts : parse_f32 (Fin (3 # 2)) = Some (Fin (3 # 2)) /\ parse_f32 (Fin (inject_Z (10 ^ 40))) = None /\
                          parse_f32 (Inf true) = None /\ parse_f32 NaN = None.
Proof. vm_compute. repeat split; reflexivity. Qed.
