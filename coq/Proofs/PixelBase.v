(* Basic facts about the byte conversions and the generated lookup tables; lifting of exhaustive
   boolean sweeps (`forallb ... = true` by vm_compute) to universally quantified statements. *)
From RV Require Import Model.F32.
From RV Require Import Gen.PixelTables.
From RV Require Import Model.Pixel.
From RV Require Export Model.Blend8.
From RV Require Export Proofs.ByteSweep.
From Flocq Require Import Core BinarySingleNaN.
Local Open Scope Z_scope.

(* sweep with the per-alpha float computed once per row (keeps vm_compute at ~30 s per 65 536 pairs).
   The lifted statement is syntactically the sweep's own body, so no conversion of closed float
   terms is ever attempted by the kernel. *)
Definition sweep_let {T : Type} (F : Z -> T) (P : Z -> Z -> T -> bool) : bool :=
  forallb (fun a => let fa := F a in forallb (fun c => P c a fa) bytes) bytes.
Lemma sweep_let_spec {T : Type} (F : Z -> T) (P : Z -> Z -> T -> bool) :
  sweep_let F P = true -> forall c a, is_byte c -> is_byte a -> P c a (F a) = true.
Proof.
  unfold sweep_let. intros H c a Hc Ha. rewrite forallb_forall in H.
  specialize (H a (proj2 (bytes_spec a) Ha)). cbv beta zeta in H.
  rewrite forallb_forall in H. apply H, bytes_spec, Hc.
Qed.

(* ------------------------------------------------------------------ `as u8` always yields a byte *)
Lemma trunc_me_nonneg : forall m e, 0 <= trunc_me m e.
Proof.
  intros m e. unfold trunc_me. destruct e.
  - lia.
  - apply Z.shiftl_nonneg. lia.
  - apply Z.shiftr_nonneg. lia.
Qed.

Lemma to_u8_byte : forall x, is_byte (to_u8 x).
Proof.
  intro x. unfold is_byte, to_u8. destruct x as [s|s| |s m e H].
  - lia.
  - destruct s; lia.
  - lia.
  - destruct s; [lia|]. pose proof (trunc_me_nonneg m e). lia.
Qed.

Lemma mul_alpha_byte : forall c a, is_byte (mul_alpha c a).
Proof. intros. unfold mul_alpha, multiply_alpha_ch. apply to_u8_byte. Qed.
Lemma demul_alpha_byte : forall c a, is_byte (demul_alpha c a).
Proof. intros. unfold demul_alpha, demultiply_alpha_ch. apply to_u8_byte. Qed.
Lemma cm_from_normalized_byte : forall x, is_byte (cm_from_normalized x).
Proof. intros. unfold cm_from_normalized. apply to_u8_byte. Qed.
Lemma ct_final_byte : forall x, is_byte (ct_final x).
Proof. intros. unfold ct_final. apply to_u8_byte. Qed.
Lemma ar_store_c_byte : forall x, is_byte (ar_store_c x).
Proof. intros. unfold ar_store_c. apply to_u8_byte. Qed.
Lemma ar_store_a_byte : forall x, is_byte (ar_store_a x).
Proof. intros. unfold ar_store_a. apply to_u8_byte. Qed.

(* ------------------------------------------------------------------ the generated lookup tables *)
Definition table_ok (t : list Z) : bool :=
  (Z.of_nat (length t) =? 256) && forallb (fun v => (0 <=? v) && (v <=? 255)) t.
Fixpoint monotoneb (t : list Z) : bool :=
  match t with
  | a :: ((b :: _) as r) => (a <=? b) && monotoneb r
  | _ => true
  end.

Lemma lut_into_linear_byte : forall c, is_byte c -> is_byte (lut_into_linear_ch c).
Proof.
  intros c Hc.
  assert (H : forallb (fun c => (0 <=? lut_into_linear_ch c) && (lut_into_linear_ch c <=? 255)) bytes = true)
    by (vm_compute; reflexivity).
  pose proof (sweep1 _ H c Hc) as E. cbv beta in E. unfold is_byte. lia.
Qed.
Lemma lut_from_linear_byte : forall c, is_byte c -> is_byte (lut_from_linear_ch c).
Proof.
  intros c Hc.
  assert (H : forallb (fun c => (0 <=? lut_from_linear_ch c) && (lut_from_linear_ch c <=? 255)) bytes = true)
    by (vm_compute; reflexivity).
  pose proof (sweep1 _ H c Hc) as E. cbv beta in E. unfold is_byte. lia.
Qed.

Lemma monotoneb_nth : forall t, monotoneb t = true ->
  forall i j, (i <= j < length t)%nat -> nth i t 0 <= nth j t 0.
Proof.
  induction t as [|a t IH]; intros Hm i j Hij.
  - simpl in Hij. lia.
  - destruct t as [|b t'].
    + simpl in Hij. assert (i = 0 /\ j = 0)%nat as [-> ->] by lia. lia.
    + simpl monotoneb in Hm. apply andb_true_iff in Hm. destruct Hm as [Hab Hm].
      apply Z.leb_le in Hab.
      destruct j as [|j].
      * assert (i = 0)%nat as -> by lia. lia.
      * destruct i as [|i].
        -- change (nth 0 (a :: b :: t') 0) with a. change (nth (S j) (a :: b :: t') 0) with (nth j (b :: t') 0).
           specialize (IH Hm 0%nat j). change (nth 0 (b :: t') 0) with b in IH.
           simpl length in *. assert (b <= nth j (b :: t') 0) by (apply IH; lia). lia.
        -- change (nth (S i) (a :: b :: t') 0) with (nth i (b :: t') 0).
           change (nth (S j) (a :: b :: t') 0) with (nth j (b :: t') 0).
           apply IH; [exact Hm|]. simpl length in *. lia.
Qed.

Lemma srgb_to_linear_table_ok : table_ok SRGB_TO_LINEAR_RGB_TABLE = true.
Proof. vm_compute. reflexivity. Qed.
Lemma linear_to_srgb_table_ok : table_ok LINEAR_RGB_TO_SRGB_TABLE = true.
Proof. vm_compute. reflexivity. Qed.

Lemma lut_monotone (t : list Z) : table_ok t = true -> monotoneb t = true ->
  forall c d, 0 <= c -> c <= d -> d <= 255 -> nthZ t c 0 <= nthZ t d 0.
Proof.
  intros Hok Hm c d H0 Hcd Hd. unfold nthZ. apply monotoneb_nth; [exact Hm|].
  unfold table_ok in Hok. apply andb_true_iff in Hok. destruct Hok as [Hl _]. apply Z.eqb_eq in Hl. lia.
Qed.

Lemma into_linear_monotone : forall c d, 0 <= c -> c <= d -> d <= 255 ->
  lut_into_linear_ch c <= lut_into_linear_ch d.
Proof.
  unfold lut_into_linear_ch. apply lut_monotone; vm_compute; reflexivity.
Qed.
Lemma from_linear_monotone : forall c d, 0 <= c -> c <= d -> d <= 255 ->
  lut_from_linear_ch c <= lut_from_linear_ch d.
Proof.
  unfold lut_from_linear_ch. apply lut_monotone; vm_compute; reflexivity.
Qed.

Lemma lut_endpoints :
  lut_into_linear_ch 0 = 0 /\ lut_into_linear_ch 255 = 255 /\
  lut_from_linear_ch 0 = 0 /\ lut_from_linear_ch 255 = 255.
Proof. vm_compute. repeat split; reflexivity. Qed.

(* round trips through the two tables: sRGB -> linear -> sRGB loses at most 6 levels (only the darkest
   eight levels lose more than 1), linear -> sRGB -> linear at most 1 *)
Lemma lut_roundtrip_srgb : forall c, is_byte c ->
  Z.abs (lut_from_linear_ch (lut_into_linear_ch c) - c) <= 6 /\
  (60 <= c -> Z.abs (lut_from_linear_ch (lut_into_linear_ch c) - c) <= 1).
Proof.
  intros c Hc.
  assert (H : forallb (fun c => (Z.abs (lut_from_linear_ch (lut_into_linear_ch c) - c) <=? 6) &&
                               ((c <? 60) || (Z.abs (lut_from_linear_ch (lut_into_linear_ch c) - c) <=? 1))) bytes = true)
    by (vm_compute; reflexivity).
  pose proof (sweep1 _ H c Hc) as E. cbv beta in E. lia.
Qed.
Lemma lut_roundtrip_linear : forall c, is_byte c ->
  Z.abs (lut_into_linear_ch (lut_from_linear_ch c) - c) <= 1.
Proof.
  intros c Hc.
  assert (H : forallb (fun c => Z.abs (lut_into_linear_ch (lut_from_linear_ch c) - c) <=? 1) bytes = true)
    by (vm_compute; reflexivity).
  pose proof (sweep1 _ H c Hc) as E. cbv beta in E. lia.
Qed.

(* ------------------------------------------------------------------ byte-ness of the passes *)
Lemma px_multiply_byte : forall p, is_byte (pa p) -> byte_px (px_multiply p).
Proof.
  intros p Ha. unfold byte_px, px_multiply; cbn [pr pg pb pa]. unfold multiply_alpha_ch.
  (split; [|split; [|split]]); try apply to_u8_byte; apply Ha.
Qed.
Lemma px_demultiply_byte : forall p, is_byte (pa p) -> byte_px (px_demultiply p).
Proof.
  intros p Ha. unfold byte_px, px_demultiply; cbn [pr pg pb pa]. unfold demultiply_alpha_ch.
  (split; [|split; [|split]]); try apply to_u8_byte; apply Ha.
Qed.

Lemma run_step_byte : forall k, (forall q, byte_px q -> byte_px (k q)) ->
  forall s p, byte_px p -> byte_px (run_step k s p).
Proof.
  intros k Hk s p Hp. destruct s; simpl.
  - apply px_demultiply_byte, Hp.
  - apply px_multiply_byte, Hp.
  - destruct Hp as (Hr & Hg & Hb & Ha). unfold byte_px, px_map_rgb; cbn [pr pg pb pa].
    (split; [|split; [|split]]); try apply lut_from_linear_byte; try apply Ha; assumption.
  - destruct Hp as (Hr & Hg & Hb & Ha). unfold byte_px, px_map_rgb; cbn [pr pg pb pa].
    (split; [|split; [|split]]); try apply lut_into_linear_byte; try apply Ha; assumption.
  - apply Hk, Hp.
Qed.
Lemma run_steps_byte : forall k, (forall q, byte_px q -> byte_px (k q)) ->
  forall steps p, byte_px p -> byte_px (run_steps k steps p).
Proof.
  intros k Hk steps. unfold run_steps. induction steps as [|s r IH]; intros p Hp; simpl.
  - exact Hp.
  - apply IH. apply run_step_byte; assumption.
Qed.

Lemma cm_kernel_byte : forall k q, byte_px q -> byte_px (cm_kernel k q).
Proof.
  intros k q (Hr & Hg & Hb & Ha). destruct k; unfold byte_px, cm_kernel; cbn [pr pg pb pa];
    (split; [|split; [|split]]); try apply cm_from_normalized_byte; try exact Ha; unfold is_byte; lia.
Qed.

Lemma set_ch_byte : forall q i v, byte_px q -> is_byte v -> byte_px (set_ch q i v).
Proof.
  intros q i v (Hr & Hg & Hb & Ha) Hv. unfold set_ch.
  repeat match goal with |- context [match ?x with _ => _ end] => destruct x end;
    unfold byte_px; cbn [pr pg pb pa]; (split; [|split; [|split]]); assumption.
Qed.
Lemma transfer_byte : forall f c, is_byte (transfer f c).
Proof. intros. unfold transfer. apply ct_final_byte. Qed.
Lemma ct_kernel_byte : forall fs q, byte_px q -> byte_px (ct_kernel fs q).
Proof.
  intros fs. unfold ct_kernel. generalize ct_wiring as wl.
  induction wl as [|[[[gf dst] f] src] r IH]; intros q Hq; simpl.
  - exact Hq.
  - apply IH. destruct (tf_dummy (nthZ fs gf TFIdentity)); [exact Hq|].
    apply set_ch_byte; [exact Hq|apply transfer_byte].
Qed.
