(* C09: font-weight notation equivalence over ALL ancestor chains (lemmas). *)
From Coq Require Import String.
From RV Require Import Model.Base Gen.FontWeight Model.CascadeFont.
Local Open Scope Z_scope.

(* the transcribed literal arms are exactly the specification's absolute notations *)
Lemma fw_literal_spec v : fw_literal v = spec_number v.
Proof.
  unfold fw_literal, spec_number.
  repeat match goal with
         | |- context [String.eqb v ?s] => destruct (String.eqb_spec v s); [subst; reflexivity|]
         end.
  reflexivity.
Qed.

Lemma fw_step_same w v v' : same_weight v v' -> fw_step w v = fw_step w v'.
Proof.
  intros [n [A B]]. unfold fw_step. rewrite !fw_literal_spec, A, B. reflexivity.
Qed.

Lemma fold_same c c' : Forall2 (fun v v' => v = v' \/ same_weight v v') c c' ->
  forall w, fold_left fw_step c w = fold_left fw_step c' w.
Proof.
  induction 1 as [|v v' c c' H _ IH]; intro w; [reflexivity|]. simpl.
  destruct H as [->|H]; [apply IH|]. rewrite (fw_step_same w v v' H). apply IH.
Qed.

(* ALL chains: re-spelling absolute weights anywhere in the chain does not change the resolved weight *)
Theorem fw_notation c c' : Forall2 (fun v v' => v = v' \/ same_weight v v') c c' -> fw_resolve c = fw_resolve c'.
Proof. intro H. unfold fw_resolve. apply fold_same. exact H. Qed.

Lemma Forall2_refl_eq (c : list string) : Forall2 (fun v v' => v = v' \/ same_weight v v') c c.
Proof. induction c; constructor; auto. Qed.

Theorem fw_replace c1 c2 v v' : same_weight v v' -> fw_resolve (c1 ++ v :: c2) = fw_resolve (c1 ++ v' :: c2).
Proof.
  intro H. apply fw_notation. apply Forall2_app; [apply Forall2_refl_eq|]. constructor; [right; exact H| apply Forall2_refl_eq].
Qed.

Lemma normal_400 : same_weight "normal" "400". Proof. exists 400. split; reflexivity. Qed.
Lemma bold_700 : same_weight "bold" "700". Proof. exists 700. split; reflexivity. Qed.

(* the weight stays in [100, 900]: so the `usize` subtraction of the `lighter` arm never underflows *)
Lemma spec_number_range v n : spec_number v = Some n -> 100 <= n <= 900.
Proof.
  unfold spec_number.
  repeat match goal with
         | |- context [String.eqb v ?s] => destruct (String.eqb_spec v s); [intro H; injection H as <-; lia|]
         end.
  discriminate.
Qed.

Lemma fw_step_range w v : 100 <= w <= 900 -> 100 <= fw_step w v <= 900.
Proof.
  intro R. unfold fw_step. rewrite fw_literal_spec. destruct (spec_number v) as [n|] eqn:E.
  - eapply spec_number_range. exact E.
  - destruct (String.eqb v "bolder"); [unfold fw_bolder, fw_bound; lia|].
    destruct (String.eqb v "lighter"); [unfold fw_lighter, fw_bound; lia| exact R].
Qed.

Lemma fold_range c : forall w, 100 <= w <= 900 -> 100 <= fold_left fw_step c w <= 900.
Proof. induction c as [|v c IH]; intros w R; [exact R|]. simpl. apply IH. apply fw_step_range. exact R. Qed.

Theorem fw_range c : 100 <= fw_resolve c <= 900.
Proof. unfold fw_resolve. apply fold_range. unfold fw_init. lia. Qed.

Lemma fw_lighter_no_underflow w : 100 <= w <= 900 -> 0 <= w - (if w =? 400 then 200 else 100).
Proof. intro R. destruct (w =? 400) eqn:E; [apply Z.eqb_eq in E|]; lia. Qed.
