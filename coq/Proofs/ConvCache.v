(* C11 (extension round 4) lemmas: everything SVG calls not rendered - zero-size shapes with ANY attributes included -
   converts to nothing (output and cache), lifted to lists and trees of insertions; what resolving a clip-path / mask link
   does to the cache (Model/ConvCache.v over mask_steps / clip_steps cut from mask.rs / clippath.rs), and why the order of
   convert_group before dd154cd violated the property. *)
From Coq Require Import String.
From RV Require Import Model.Base Model.ConvBase Gen.ConvTables Model.Converter Model.ConvCache Proofs.Converter.
Local Open Scope string_scope.

(* n' is n with junk (any node satisfying J) inserted into child lists, anywhere and at any depth (same places as `ins`) *)
Inductive insJ (J : node -> Prop) : node -> node -> Prop :=
  | insJ_same n : insJ J n n
  | insJ_intro tg a ch ch' : tg <> Some T_Text -> insJ_list J (allows_insertion tg) ch ch' -> insJ J (Node tg a ch) (Node tg a ch')
with insJ_list (J : node -> Prop) : bool -> nodes -> nodes -> Prop :=
  | ilJ_nil b : insJ_list J b NNil NNil
  | ilJ_cons b x x' l l' : insJ J x x' -> insJ_list J b l l' -> insJ_list J b (NCons x l) (NCons x' l')
  | ilJ_junk j l l' : J j -> insJ_list J true l l' -> insJ_list J true l (NCons j l').
Scheme insJ_mut := Minimality for insJ Sort Prop
  with insJ_list_mut := Minimality for insJ_list Sort Prop.
Combined Scheme insJ_both from insJ_mut, insJ_list_mut.

Section G.
  Variable state : Type.
  Variable st_in_clip : state -> bool.
  Variable st_no_markers : state -> bool.
  Variable conv_path : tag -> attrs -> conv_t state.
  Variable conv_image : attrs -> conv_t state.
  Variable conv_text : node -> conv_t state.
  Variable conv_use : attrs -> option (option tag * attrs) -> conv_t state -> conv_t state -> conv_t state.
  Variable conv_nested_svg : attrs -> conv_t state -> conv_t state.
  Variable obj_bbox : ogroup -> option qrect.
  Variable res_clip : string -> state -> option qrect -> cache -> option string * cache.
  Variable res_mask : string -> state -> option qrect -> cache -> option string * cache.
  Variable res_filter : attrs -> state -> option qrect -> cache -> option (list string) * cache.
  Local Notation CE := (conv_elem state st_in_clip st_no_markers conv_path conv_image conv_text conv_use
                          conv_nested_svg obj_bbox res_clip res_mask res_filter).
  Local Notation CC := (conv_children state st_in_clip st_no_markers conv_path conv_image conv_text conv_use
                          conv_nested_svg obj_bbox res_clip res_mask res_filter).
  Local Notation CG := (convert_group state st_in_clip st_no_markers obj_bbox res_clip res_mask res_filter).

  Local Notation VARS := (state) (only parsing).
  Local Notation FI := (filter_inert state res_filter).
  Local Notation NB := (empty_has_no_bbox obj_bbox).

  (* junk in the sense of the property: everything SVG calls not rendered.  For an invalid shape that carries a `filter`
     attribute the filter resolution without a bounding box must be inert (the code deliberately keeps an element without
     content whose filter resolves: feFlood can paint). *)
  Definition junk_ok (n : node) : Prop :=
    spec_nonrendered n = true /\ (has_filter_attr (node_attrs n) = true -> FI (node_attrs n)).

  Lemma spec_not_ignorable n :
    spec_nonrendered n = true -> ignorable n = false ->
    exists t a ch, n = Node (Some t) a ch /\ tag_in t impl_shape_tags = true /\ shape_valid t a = false /\ has_filter_attr a = true.
  Proof.
    destruct n as [[t|] a ch]; [|discriminate].
    unfold spec_nonrendered, ignorable, is_shape_tag. intros H1 H2.
    exists t, a, ch. split; [reflexivity|].
    destruct (negb (tag_in t graphic_tags) && negb (tag_in t structural_tags)); [discriminate|].
    destruct (a_display_none a); [discriminate|]. destruct (negb (a_ts_valid a)); [discriminate|].
    destruct (a_req_ext a); [discriminate|]. destruct (negb (a_features_known a)); [discriminate|].
    destruct (negb (a_syslang_ok a)); [discriminate|]. cbn [orb] in H1, H2.
    apply andb_prop in H1. destruct H1 as [Ha Hb]. rewrite Ha, Hb in H2. cbn [andb] in H2. apply negb_false_iff in H2.
    apply negb_true_iff in Hb. repeat split; assumption.
  Qed.

  (* FULL strength: a not-rendered node converts to nothing - the parent group AND the cache are unchanged *)
  Theorem nonrendered_is_noop n top clip st c p : NB -> junk_ok n -> CE n top clip st c p = (c, p).
  Proof.
    intros Hbb [Hs Hi]. destruct (ignorable n) eqn:Hig; [apply ignorable_is_noop; exact Hig|].
    destruct (spec_not_ignorable n Hs Hig) as (t & a & ch & -> & Ht & Hv & Hf).
    apply zero_shape_filter_noop; try assumption. apply Hi. exact Hf.
  Qed.

  Lemma junkJ_prefix junk l top clip st c p :
    NB -> (forall l1 j l2, junk = napp l1 (NCons j l2) -> junk_ok j) -> CC (napp junk l) top clip st c p = CC l top clip st c p.
  Proof.
    intros Hbb. induction junk as [|j r IH] using nodes_rect_simple; intros H.
    - reflexivity.
    - cbn [napp]. rewrite conv_children_cons, (nonrendered_is_noop j top clip st c p Hbb (H NNil j r eq_refl)).
      apply IH. intros l1 j' l2 E. apply (H (NCons j l1) j' l2). cbn [napp]. rewrite E. reflexivity.
  Qed.

  Theorem nonrendered_context_free l1 junk l2 top clip st c p :
    NB -> (forall k1 j k2, junk = napp k1 (NCons j k2) -> junk_ok j) ->
    CC (napp l1 (napp junk l2)) top clip st c p = CC (napp l1 l2) top clip st c p.
  Proof.
    intros Hbb H. revert c p. induction l1 as [|x r IH] using nodes_rect_simple; intros c p.
    - cbn [napp]. apply junkJ_prefix; assumption.
    - cbn [napp]. rewrite !conv_children_cons. destruct (CE x top clip st c p) as [c1 p1]. apply IH.
  Qed.

  Hypothesis Hext : callbacks_ext state conv_use conv_nested_svg.
  Hypothesis Hbb : NB.
  Local Notation SE := (same_elem state st_in_clip st_no_markers conv_path conv_image conv_text conv_use
                          conv_nested_svg obj_bbox res_clip res_mask res_filter).
  Local Notation SL := (same_list state st_in_clip st_no_markers conv_path conv_image conv_text conv_use
                          conv_nested_svg obj_bbox res_clip res_mask res_filter).

  Lemma liftJ_both :
    (forall n n', insJ junk_ok n n' -> SE n n') /\
    (forall b l l', insJ_list junk_ok b l l' -> SL b l l').
  Proof.
    apply insJ_both.
    - intros n. apply same_elem_refl.
    - intros tg a ch ch' Ht _ IH. unfold same_elem. cbn [node_tag node_attrs node_children].
      repeat split; [apply IH | apply elem_body_congr; assumption].
    - intros b. repeat split.
    - intros b x x' l l' _ (Ht & Ha & Hg & He) _ (Hc & Hs). split.
      + intros top clip st c p. rewrite !conv_children_cons, He. destruct (CE x top clip st c p). apply Hc.
      + intros Hb. destruct (Hs Hb) as (Hf & Hp & _ & _). repeat split.
        * intros st c p. rewrite !conv_first_cons, Ht, Ha, He, Hf. reflexivity.
        * cbn [has_passing]. rewrite Ht, Ha, Hp. reflexivity.
        * cbn [first_child_info]. rewrite Ht, Ha. reflexivity.
        * exact Hg.
    - intros j l l' Hj _ (Hc & _). split; [|discriminate].
      intros top clip st c p. rewrite conv_children_cons, (nonrendered_is_noop j _ _ _ _ _ Hbb Hj). apply Hc.
  Qed.

  (* any number of not-rendered nodes inserted at any depth: the converted tree AND the cache (every generated-id counter,
     every definition cache - hence every id rendered content receives later) are those of the original *)
  Theorem nonrendered_tree n n' top clip st c p : insJ junk_ok n n' -> CE n' top clip st c p = CE n top clip st c p.
  Proof. intros H. destruct (proj1 liftJ_both n n' H) as (_ & _ & _ & He). apply He. Qed.
  Theorem nonrendered_forest l l' top clip st c p : insJ_list junk_ok true l l' -> CC l' top clip st c p = CC l top clip st c p.
  Proof. intros H. destruct (proj2 liftJ_both true l l' H) as (Hc & _). apply Hc. Qed.
End G.

(* ------------------------------------------------------------------ the resolvers over mask_steps / clip_steps *)
(* mask::convert for an element WITHOUT a bounding box registers an objectBoundingBox mask ("mask all") *)
Lemma mask_nobbox_registers fmt d c :
  d_tag_ok d = true -> d_geom_ok d = true -> d_units_obb d = true -> d_cacheable d = false ->
  String.eqb (d_id d) "" = false -> str_in (d_id d) (c_masks c) = false ->
  mask_convert fmt d None c = (Some (d_id d), c_set_masks c (c_mask c) (d_id d :: c_masks c)).
Proof.
  intros H1 H2 H3 H4 H5 H6. unfold mask_convert, mask_once.
  repeat (cbn [steps_run mask_steps mask_step_run re_cache re_id re_all re_ret andb negb];
          first [rewrite H1 | rewrite H2 | rewrite H3 | rewrite H4 | rewrite H5 | rewrite H6]).
  reflexivity.
Qed.
(* ... and the next user of that mask receives a generated id *)
Lemma mask_second_use_generates fmt d bbox c :
  d_tag_ok d = true -> d_geom_ok d = true -> d_cacheable d = false ->
  String.eqb (d_id d) "" = false -> str_in (d_id d) (c_masks c) = true ->
  forall i k, gen_id fmt (id_fuel c) "mask" (c_all_ids c) (c_mask c) = Some (i, k) ->
  d_content d (c_set_masks c k (c_masks c)) = (c_set_masks c k (c_masks c), true) -> d_content_obb d = false -> d_link d = None ->
  fst (mask_convert fmt d (Some bbox) c) = Some i.
Proof.
  intros H1 H2 H4 H5 H6 i k Hg Hc Hco Hl. unfold mask_convert, mask_once. destruct (d_units_obb d) eqn:H3;
  repeat (cbn [steps_run mask_steps mask_step_run run_linked re_cache re_id re_all re_ret andb negb fst];
          first [rewrite H1 | rewrite H2 | rewrite H3 | rewrite H4 | rewrite H5 | rewrite H6 | rewrite Hg | rewrite Hco | rewrite Hc | rewrite Hl | progress unfold run_linked]);
  reflexivity.
Qed.
(* clippath::convert for an element without a bounding box: an objectBoundingBox clip path is refused before anything is
   generated or registered *)
Lemma clip_obb_nobbox_inert fmt d c :
  d_units_obb d = true -> d_cacheable d = false -> clip_convert fmt d None c = (None, c).
Proof.
  intros H1 H2. unfold clip_convert, clip_once. destruct (d_tag_ok d) eqn:H3, (d_geom_ok d) eqn:H4;
  repeat (cbn [steps_run clip_steps clip_step_run re_cache re_id re_all re_ret andb negb];
          first [rewrite H1 | rewrite H2 | rewrite H3 | rewrite H4]);
  reflexivity.
Qed.

(* ------------------------------------------------------------------ conversion of definitions is demand-driven (final pass) *)
Scheme node_ind2 := Induction for node Sort Prop
  with nodes_ind2 := Induction for nodes Sort Prop.
Combined Scheme node_nodes_ind from node_ind2, nodes_ind2.

Section D.
  Variable state : Type.
  Variable st_in_clip : state -> bool.
  Variable st_no_markers : state -> bool.
  Variable conv_path : tag -> attrs -> conv_t state.
  Variable conv_image : attrs -> conv_t state.
  Variable conv_text : node -> conv_t state.
  Variable conv_use : attrs -> option (option tag * attrs) -> conv_t state -> conv_t state -> conv_t state.
  Variable conv_nested_svg : attrs -> conv_t state -> conv_t state.
  Variable obj_bbox : ogroup -> option qrect.
  Variables res_clip res_mask res_clip' res_mask' : string -> state -> option qrect -> cache -> option string * cache.
  Variable res_filter : attrs -> state -> option qrect -> cache -> option (list string) * cache.
  Variables Ac Am : string -> bool.
  Hypothesis Hc : forall l, Ac l = true -> forall st bb c, res_clip' l st bb c = res_clip l st bb c.
  Hypothesis Hm : forall l, Am l = true -> forall st bb c, res_mask' l st bb c = res_mask l st bb c.
  Hypothesis Hext : callbacks_ext state conv_use conv_nested_svg.
  Local Notation CE := (conv_elem state st_in_clip st_no_markers conv_path conv_image conv_text conv_use
                          conv_nested_svg obj_bbox res_clip res_mask res_filter).
  Local Notation CC := (conv_children state st_in_clip st_no_markers conv_path conv_image conv_text conv_use
                          conv_nested_svg obj_bbox res_clip res_mask res_filter).
  Local Notation CF := (conv_first_passing state st_in_clip st_no_markers conv_path conv_image conv_text conv_use
                          conv_nested_svg obj_bbox res_clip res_mask res_filter).
  Local Notation CE' := (conv_elem state st_in_clip st_no_markers conv_path conv_image conv_text conv_use
                          conv_nested_svg obj_bbox res_clip' res_mask' res_filter).
  Local Notation CC' := (conv_children state st_in_clip st_no_markers conv_path conv_image conv_text conv_use
                          conv_nested_svg obj_bbox res_clip' res_mask' res_filter).
  Local Notation CF' := (conv_first_passing state st_in_clip st_no_markers conv_path conv_image conv_text conv_use
                          conv_nested_svg obj_bbox res_clip' res_mask' res_filter).
  Local Notation CG := (convert_group state st_in_clip st_no_markers obj_bbox res_clip res_mask res_filter).
  Local Notation CG' := (convert_group state st_in_clip st_no_markers obj_bbox res_clip' res_mask' res_filter).
  Local Notation GS := (group_step_run state st_in_clip obj_bbox res_clip res_mask res_filter).
  Local Notation GS' := (group_step_run state st_in_clip obj_bbox res_clip' res_mask' res_filter).
  Local Notation GR := (group_run state st_in_clip obj_bbox res_clip res_mask res_filter).
  Local Notation GR' := (group_run state st_in_clip obj_bbox res_clip' res_mask' res_filter).

  Lemma group_step_dd tg a st force parent s x :
    attrs_free Ac Am a = true -> GS' tg a st force parent s x = GS tg a st force parent s x.
  Proof.
    intros Hf. apply andb_prop in Hf. destruct Hf as [H1 H2].
    destruct s; unfold group_step_run; try reflexivity.
    - destruct (a_clip a) as [l|]; [rewrite (Hc l H1)|]; reflexivity.
    - destruct (st_in_clip st); [reflexivity|]. destruct (a_mask a) as [l|]; [rewrite (Hm l H2)|]; reflexivity.
  Qed.
  Lemma group_run_dd tg a st force parent steps x :
    attrs_free Ac Am a = true -> GR' tg a st force parent steps x = GR tg a st force parent steps x.
  Proof.
    intros Hf. revert x. induction steps as [|s r IH]; intros x; cbn [group_run]; [reflexivity|].
    rewrite (group_step_dd tg a st force parent s x Hf). destruct (GS tg a st force parent s x); [apply IH | reflexivity].
  Qed.
  Lemma convert_group_dd tg a st force p c collect collect' :
    attrs_free Ac Am a = true -> (forall c0 g0, collect' c0 g0 = collect c0 g0) ->
    CG' tg a st force p c collect' = CG tg a st force p c collect.
  Proof.
    intros Hf Hcol. unfold convert_group. rewrite Hcol. destruct (collect c _) as [c1 g1]. apply group_run_dd, Hf.
  Qed.

  Definition ddP (n : node) : Prop :=
    node_free Ac Am n = true ->
    (forall top clip st c p, CE' n top clip st c p = CE n top clip st c p) /\
    (forall top clip st c p, CC' (node_children n) top clip st c p = CC (node_children n) top clip st c p).
  Definition ddQ (l : nodes) : Prop :=
    nodes_free Ac Am l = true ->
    (forall top clip st c p, CC' l top clip st c p = CC l top clip st c p) /\
    (forall st c p, CF' l st c p = CF l st c p) /\
    match l with
    | NCons x _ => forall top clip st c p, CC' (node_children x) top clip st c p = CC (node_children x) top clip st c p
    | NNil => True
    end.

  Lemma dd_both : (forall n, ddP n) /\ (forall l, ddQ l).
  Proof.
    apply node_nodes_ind.
    - intros tg a ch IHch Hf. cbn [node_free] in Hf. apply andb_prop in Hf. destruct Hf as [Ha Hch].
      destruct (IHch Hch) as (Hcc & Hcf & Hg). split; [|exact Hcc].
      intros top clip st c p. destruct Hext as [Huse Hsvg].
      rewrite !conv_elem_eq. unfold elem_body.
      destruct tg as [t|]; [|destruct clip; reflexivity].
      apply first_exit_ext. intros s. destruct s; try reflexivity.
      + destruct t; try reflexivity. f_equal. apply Huse; [intros; apply Hcc|].
        destruct ch as [|[? ? cch] ?]; [reflexivity|]. intros; apply Hg.
      + destruct t; try reflexivity. destruct (has_passing ch); [|reflexivity].
        f_equal. f_equal. apply convert_group_dd; [exact Ha | intros; apply Hcf].
      + f_equal. f_equal. apply convert_group_dd; [exact Ha|]. intros c' g'.
        destruct (tag_in t (if clip then clip_shape_tags else impl_shape_tags)); [reflexivity|].
        destruct t; try reflexivity.
        * destruct clip; [reflexivity|]. apply Hcc.
        * destruct clip; [reflexivity|]. destruct top; [apply Hcc|]. apply Hsvg. intros; apply Hcc.
    - intros _. repeat split.
    - intros x IHx r IHr Hf. cbn [nodes_free] in Hf. apply andb_prop in Hf. destruct Hf as [Hx Hr].
      destruct (IHx Hx) as [He Hch]. destruct (IHr Hr) as (Hcc & Hcf & _). split; [|split].
      + intros top clip st c p. rewrite !conv_children_cons, He. destruct (CE x top clip st c p). apply Hcc.
      + intros st c p. rewrite !conv_first_cons, He, Hcf. reflexivity.
      + exact Hch.
  Qed.

  (* the converted tree and the cache depend on the clip-path / mask resolvers ONLY at the links the tree carries *)
  Theorem demand_driven_elem n top clip st c p :
    node_free Ac Am n = true -> CE' n top clip st c p = CE n top clip st c p.
  Proof. intros H. apply (proj1 dd_both n H). Qed.
  Theorem demand_driven_children l top clip st c p :
    nodes_free Ac Am l = true -> CC' l top clip st c p = CC l top clip st c p.
  Proof. intros H. apply (proj1 (proj2 dd_both l H)). Qed.
End D.

(* ... and the resolvers of Model/ConvCache.v reach a definition only through a link: an entry nobody links is never looked at *)
Local Open Scope list_scope.
Lemma def_lookup_skip (m1 m2 : defs_t) k dk s :
  String.eqb s k = false -> def_lookup (m1 ++ (k, dk) :: m2) s = def_lookup (m1 ++ m2) s.
Proof.
  intros H. induction m1 as [|[k' d'] r IH]; cbn [app def_lookup]; [rewrite H; reflexivity|].
  destruct (String.eqb s k'); [reflexivity | exact IH].
Qed.
Lemma def_lookup_In (m : defs_t) s d : def_lookup m s = Some d -> exists k, In (k, d) m.
Proof.
  induction m as [|[k' d'] r IH]; cbn [def_lookup]; [discriminate|].
  destruct (String.eqb s k'); [intros E; injection E as ->; exists k'; left; reflexivity|].
  intros E. destruct (IH E) as [k0 Hk]. exists k0. right. exact Hk.
Qed.
Lemma steps_run_ext {S : Type} (run run' : S -> renv -> renv + (option string * cache)) steps x :
  (forall s y, run' s y = run s y) -> steps_run run' steps x = steps_run run steps x.
Proof. intros H. revert x. induction steps as [|s r IH]; intros x; cbn [steps_run]; [reflexivity|]. rewrite H. destruct (run s x); [apply IH|reflexivity]. Qed.
Lemma mask_once_ext fmt linked linked' d bbox c :
  (forall l, d_link d = Some l -> forall c0, linked' l c0 = linked l c0) ->
  mask_once fmt linked' d bbox c = mask_once fmt linked d bbox c.
Proof.
  intros H. unfold mask_once. apply steps_run_ext. intros s y. destruct s; try reflexivity.
  unfold mask_step_run, run_linked. destruct (d_link d) as [l|]; [rewrite (H l eq_refl)|]; reflexivity.
Qed.
Lemma clip_once_ext fmt linked linked' d bbox c :
  (forall l, d_link d = Some l -> forall c0, linked' l c0 = linked l c0) ->
  clip_once fmt linked' d bbox c = clip_once fmt linked d bbox c.
Proof.
  intros H. unfold clip_once. apply steps_run_ext. intros s y. destruct s; try reflexivity.
  unfold clip_step_run, run_linked. destruct (d_link d) as [l|]; [rewrite (H l eq_refl)|]; reflexivity.
Qed.
Definition no_link_to (k : string) (m : defs_t) : Prop := forall k' d', In (k', d') m -> d_link d' <> Some k.
Lemma neq_eqb (a b : string) : a <> b -> String.eqb a b = false.
Proof. intros H. destruct (String.eqb a b) eqn:E; [apply String.eqb_eq in E; contradiction | reflexivity]. Qed.
Lemma mask_convert_in_unref fmt fuel m1 m2 k dk d bbox c :
  no_link_to k (m1 ++ m2) -> d_link d <> Some k ->
  mask_convert_in fmt fuel (m1 ++ (k, dk) :: m2) d bbox c = mask_convert_in fmt fuel (m1 ++ m2) d bbox c.
Proof.
  intros Hn. revert d c. induction fuel as [|f IH]; intros d c Hd; cbn [mask_convert_in]; [reflexivity|].
  apply mask_once_ext. intros l Hl c0.
  assert (El : String.eqb l k = false) by (apply neq_eqb; intros ->; apply Hd, Hl).
  rewrite (def_lookup_skip m1 m2 k dk l El).
  destruct (def_lookup (m1 ++ m2) l) as [d'|] eqn:E; [|reflexivity].
  destruct (def_lookup_In _ _ _ E) as [k0 Hk]. apply IH. exact (Hn _ _ Hk).
Qed.
Lemma clip_convert_in_unref fmt fuel m1 m2 k dk d bbox c :
  no_link_to k (m1 ++ m2) -> d_link d <> Some k ->
  clip_convert_in fmt fuel (m1 ++ (k, dk) :: m2) d bbox c = clip_convert_in fmt fuel (m1 ++ m2) d bbox c.
Proof.
  intros Hn. revert d c. induction fuel as [|f IH]; intros d c Hd; cbn [clip_convert_in]; [reflexivity|].
  apply clip_once_ext. intros l Hl c0.
  assert (El : String.eqb l k = false) by (apply neq_eqb; intros ->; apply Hd, Hl).
  rewrite (def_lookup_skip m1 m2 k dk l El).
  destruct (def_lookup (m1 ++ m2) l) as [d'|] eqn:E; [|reflexivity].
  destruct (def_lookup_In _ _ _ E) as [k0 Hk]. apply IH. exact (Hn _ _ Hk).
Qed.
Lemma res_mask_m_unref fmt (state : Type) m1 m2 k dk l (st : state) bb c :
  no_link_to k (m1 ++ m2) -> not_key k l = true ->
  res_mask_m fmt (m1 ++ (k, dk) :: m2) l st bb c = res_mask_m fmt (m1 ++ m2) l st bb c.
Proof.
  intros Hn Hl. unfold not_key in Hl. apply negb_true_iff in Hl. unfold res_mask_m. rewrite (def_lookup_skip m1 m2 k dk l Hl).
  destruct (def_lookup (m1 ++ m2) l) as [d|] eqn:E; [|reflexivity].
  destruct (def_lookup_In _ _ _ E) as [k0 Hk]. apply mask_convert_in_unref; [exact Hn | exact (Hn _ _ Hk)].
Qed.
Lemma res_clip_m_unref fmt (state : Type) m1 m2 k dk l (st : state) bb c :
  no_link_to k (m1 ++ m2) -> not_key k l = true ->
  res_clip_m fmt (m1 ++ (k, dk) :: m2) l st bb c = res_clip_m fmt (m1 ++ m2) l st bb c.
Proof.
  intros Hn Hl. unfold not_key in Hl. apply negb_true_iff in Hl. unfold res_clip_m. rewrite (def_lookup_skip m1 m2 k dk l Hl).
  destruct (def_lookup (m1 ++ m2) l) as [d|] eqn:E; [|reflexivity].
  destruct (def_lookup_In _ _ _ E) as [k0 Hk]. apply clip_convert_in_unref; [exact Hn | exact (Hn _ _ Hk)].
Qed.
Lemma sim_callbacks_ext :
  callbacks_ext sim_state (fun _ _ _ _ _ c g => (c, g)) (fun _ cb st c g => cb st c g).
Proof. split; intros; [reflexivity | apply H]. Qed.

(* A mask (clipPath) definition that no element of the tree and no other definition links is never converted: with or
   without it in the document, the converted tree and the cache are the same - whatever the definition contains. *)
Theorem unreferenced_mask_no_influence fmt clips m1 m2 k dk l top clip st c p :
  nodes_free any_key (not_key k) l = true -> no_link_to k (m1 ++ m2) ->
  simc_children fmt clips (m1 ++ (k, dk) :: m2) l top clip st c p = simc_children fmt clips (m1 ++ m2) l top clip st c p.
Proof.
  intros Hf Hn. unfold simc_children.
  apply (demand_driven_children sim_state ss_in_clip (fun _ => true) sim_path sim_image sim_text _ _ simc_bbox
           (res_clip_m fmt clips) (res_mask_m fmt (m1 ++ m2)) (res_clip_m fmt clips) (res_mask_m fmt (m1 ++ (k, dk) :: m2))
           sim_filter any_key (not_key k)).
  - reflexivity.
  - intros l0 H st0 bb c0. apply res_mask_m_unref; assumption.
  - apply sim_callbacks_ext.
  - exact Hf.
Qed.
Theorem unreferenced_clip_no_influence fmt masks m1 m2 k dk l top clip st c p :
  nodes_free (not_key k) any_key l = true -> no_link_to k (m1 ++ m2) ->
  simc_children fmt (m1 ++ (k, dk) :: m2) masks l top clip st c p = simc_children fmt (m1 ++ m2) masks l top clip st c p.
Proof.
  intros Hf Hn. unfold simc_children.
  apply (demand_driven_children sim_state ss_in_clip (fun _ => true) sim_path sim_image sim_text _ _ simc_bbox
           (res_clip_m fmt (m1 ++ m2)) (res_mask_m fmt masks) (res_clip_m fmt (m1 ++ (k, dk) :: m2)) (res_mask_m fmt masks)
           sim_filter (not_key k) any_key).
  - intros l0 H st0 bb c0. apply res_clip_m_unref; assumption.
  - reflexivity.
  - apply sim_callbacks_ext.
  - exact Hf.
Qed.
