From RV Require Import Model.Base Gen.Units Model.SvgSize.
Local Open Scope Q_scope.

Lemma pct_iff l : is_pct l = true <-> convert_abs (l_unit l) (l_num l) 0 0 = None.
Proof. destruct l as [n u]; destruct u; cbn; split; intro H; try reflexivity; try discriminate. Qed.

Lemma abs_not_pct u n dpi fs v : convert_abs u n dpi fs = Some v -> u <> UPercent.
Proof. destruct u; cbn; intros H; congruence. Qed.

Lemma pct_none u n dpi fs : u = UPercent -> convert_abs u n dpi fs = None.
Proof. intros ->. reflexivity. Qed.

(* resolve_svg_size computes exactly the SVG rule on each dimension, and fails exactly when a
   resolved dimension is not positive *)
Lemma size_rules w h vb dpi fs ds :
  let W := spec_dim w (option_map rw vb) (sw ds) dpi fs in
  let H := spec_dim h (option_map rh vb) (sh ds) dpi fs in
  match fst (resolve_svg_size w h vb dpi fs ds) with
  | Some s => sw s == W /\ sh s == H /\ 0 < W /\ 0 < H
  | None => ~ (0 < W /\ 0 < H)
  end.
Proof.
  assert (K : forall a b, match size_from_wh a b with
                          | Some s => sw s == a /\ sh s == b /\ 0 < a /\ 0 < b
                          | None => ~ (0 < a /\ 0 < b) end).
  { intros a b. unfold size_from_wh.
    destruct (Qltb 0 a) eqn:Ea; destruct (Qltb 0 b) eqn:Eb; cbn;
      try apply Qltb_true in Ea; try apply Qltb_true in Eb;
      try apply Qltb_false in Ea; try apply Qltb_false in Eb.
    - repeat split; try reflexivity; assumption.
    - intros [_ Hb]. apply (Qlt_not_le _ _ Hb Eb).
    - intros [Ha _]. apply (Qlt_not_le _ _ Ha Ea).
    - intros [Ha _]. apply (Qlt_not_le _ _ Ha Ea). }
  assert (E : forall a a' b b', a == a' -> b == b' ->
            match size_from_wh a b with
            | Some s => sw s == a' /\ sh s == b' /\ 0 < a' /\ 0 < b'
            | None => ~ (0 < a' /\ 0 < b') end).
  { intros a a' b b' Ha Hb. specialize (K a b). destruct (size_from_wh a b) as [s|].
    - destruct K as (K1 & K2 & K3 & K4). repeat split; lra.
    - intros [X Y]. apply K. split; lra. }
  intros W H. subst W H. unfold resolve_svg_size, spec_dim, conv_user.
  destruct w as [[wn wu]|]; destruct h as [[hn hu]|]; destruct vb as [[vx vy vw vh]|];
    cbn [option_map rw rh fst is_none l_num l_unit def_len is_pct];
    try destruct wu; try destruct hu; cbn; apply E; cbn; try reflexivity; field.
Qed.

(* the second component: the size is later replaced by the content extent exactly when a percentage
   had to fall back to the default size *)
Lemma restore_iff w h vb dpi fs ds :
  snd (resolve_svg_size w h vb dpi fs ds) = true <->
  vb = None /\ (is_pct (match w with Some l => l | None => def_len end) = true \/
                is_pct (match h with Some l => l | None => def_len end) = true).
Proof.
  unfold resolve_svg_size. destruct vb as [v|]; cbn [snd is_none].
  - rewrite andb_false_r. split; [discriminate | intros [X _]; discriminate].
  - rewrite andb_true_r. rewrite orb_true_iff. split; [intro H; split; [reflexivity|exact H] | intros [_ H]; exact H].
Qed.

(* unit equivalences at any DPI: 1in = 2.54cm = 25.4mm = 72pt = 6pc = dpi px *)
Lemma unit_in n dpi fs : exists v, convert_abs UIn n dpi fs = Some v /\ v == n * dpi.
Proof. eexists; split; [reflexivity|]. cbn. reflexivity. Qed.
Lemma unit_px n dpi fs : convert_abs UPx n dpi fs = convert_abs UNone n dpi fs /\ convert_abs UPx n dpi fs = Some n.
Proof. split; reflexivity. Qed.
Lemma unit_equiv n dpi fs :
  forall a b c d e,
  convert_abs UIn n dpi fs = Some a ->
  convert_abs UCm (n * (254#100)) dpi fs = Some b ->
  convert_abs UMm (n * (254#10)) dpi fs = Some c ->
  convert_abs UPt (n * 72) dpi fs = Some d ->
  convert_abs UPc (n * 6) dpi fs = Some e ->
  a == b /\ a == c /\ a == d /\ a == e.
Proof.
  intros a b c d e Ha Hb Hc Hd He. cbn in *.
  inversion Ha; inversion Hb; inversion Hc; inversion Hd; inversion He; subst.
  repeat split; field.
Qed.
Lemma unit_em n dpi fs : exists v w, convert_abs UEm n dpi fs = Some v /\ convert_abs UEx (2 * n) dpi fs = Some w /\ v == w /\ v == n * fs.
Proof. do 2 eexists; repeat split; try reflexivity; cbn; field. Qed.
