(* C17: the scale law needs resvg's layer limit to depend on the pixmap only (missed seed C17-17).  Theorems about the
   SOURCE-DERIVED Gen.RenderLimit.{render,render_node}_target_size and the shared constants Gen.Consts.MAXBB_*. *)
From Coq Require Import ZArith Lia.
From RV Require Import Gen.Consts Gen.RenderLimit.
Local Open Scope Z_scope.

(* the limit is scaled from the pixmap size, whatever the document size is, at both entry points *)
Lemma render_limit_canvas_only pm d :
  render_target_size pm d = (cw pm, ch pm) /\ render_node_target_size pm d = (cw pm, ch pm).
Proof. split; reflexivity. Qed.

Lemma render_limit_ignores_document pm d1 d2 :
  render_target_size pm d1 = render_target_size pm d2 /\ render_node_target_size pm d1 = render_node_target_size pm d2.
Proof. split; reflexivity. Qed.

(* max_bbox = (-OFF * w, -OFF * h, MUL * w, MUL * h) contains the canvas [0, w] x [0, h] for every pixmap size *)
Lemma render_limit_contains_canvas w h : 0 < w -> 0 < h ->
  - (w * MAXBB_OFF_X) <= 0 /\ w <= - (w * MAXBB_OFF_X) + w * MAXBB_MUL_W /\
  - (h * MAXBB_OFF_Y) <= 0 /\ h <= - (h * MAXBB_OFF_Y) + h * MAXBB_MUL_H.
Proof. unfold MAXBB_OFF_X, MAXBB_OFF_Y, MAXBB_MUL_W, MAXBB_MUL_H. lia. Qed.
