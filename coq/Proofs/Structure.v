(* Lemmas for C10 over the source-derived Gen/StructTables.v and the hand model Model/Structure.v. *)
From Coq Require Import String.
From RV Require Import Model.Base Model.GeomPrims Model.ViewBoxSpec Gen.SvgTables Gen.StructTables Gen.LeafViewBox.
From RV Require Import Model.Structure Proofs.ViewBox.
Local Open Scope Q_scope.

(* ---- affine algebra ------------------------------------------------------------------------------ *)
Lemma ts_eq_refl a : ts_eq a a.
Proof. unfold ts_eq. repeat split; reflexivity. Qed.
Lemma ts_eq_sym a b : ts_eq a b -> ts_eq b a.
Proof. unfold ts_eq. intros [H1 [H2 [H3 [H4 [H5 H6]]]]]. repeat split; symmetry; assumption. Qed.
Lemma ts_eq_trans a b c : ts_eq a b -> ts_eq b c -> ts_eq a c.
Proof.
  unfold ts_eq. intros [H1 [H2 [H3 [H4 [H5 H6]]]]] [K1 [K2 [K3 [K4 [K5 K6]]]]].
  repeat split; etransitivity; eassumption.
Qed.
Lemma ts_concat_proper a a' b b' : ts_eq a a' -> ts_eq b b' -> ts_eq (ts_concat a b) (ts_concat a' b').
Proof.
  unfold ts_eq, ts_concat, from_row. simpl.
  intros [H1 [H2 [H3 [H4 [H5 H6]]]]] [K1 [K2 [K3 [K4 [K5 K6]]]]].
  rewrite H1, H2, H3, H4, H5, H6, K1, K2, K3, K4, K5, K6. repeat split; reflexivity.
Qed.
Lemma ts_concat_assoc a b c : ts_eq (ts_concat (ts_concat a b) c) (ts_concat a (ts_concat b c)).
Proof. unfold ts_eq, ts_concat, from_row. simpl. repeat split; ring. Qed.
Lemma ts_concat_id_l a : ts_eq (ts_concat ts_identity a) a.
Proof. unfold ts_eq, ts_concat, ts_identity, from_row. simpl. repeat split; ring. Qed.
Lemma ts_concat_id_r a : ts_eq (ts_concat a ts_identity) a.
Proof. unfold ts_eq, ts_concat, ts_identity, from_row. simpl. repeat split; ring. Qed.
(* pre_concat is the matrix product: the right factor is applied first *)
Lemma ts_concat_map a b x y :
  map_x (ts_concat a b) x y == map_x a (map_x b x y) (map_y b x y) /\
  map_y (ts_concat a b) x y == map_y a (map_x b x y) (map_y b x y).
Proof. unfold map_x, map_y, ts_concat, from_row. simpl. split; ring. Qed.
Lemma translate_compose a b c d :
  ts_eq (ts_concat (from_translate a b) (from_translate c d)) (from_translate (a + c) (b + d)).
Proof. unfold ts_eq, ts_concat, from_translate, from_row. simpl. repeat split; ring. Qed.
Lemma scale_compose a b c d :
  ts_eq (ts_concat (from_scale a b) (from_scale c d)) (from_scale (a * c) (b * d)).
Proof. unfold ts_eq, ts_concat, from_scale, from_row. simpl. repeat split; ring. Qed.

Lemma fold_concat_acc l acc : ts_eq (fold_left ts_concat l acc) (ts_concat acc (ts_of_list l)).
Proof.
  unfold ts_of_list. revert acc. induction l as [|m r IH]; intro acc; simpl.
  - apply ts_eq_sym, ts_concat_id_r.
  - eapply ts_eq_trans; [apply IH|].
    eapply ts_eq_trans; [apply ts_concat_assoc|].
    apply ts_concat_proper; [apply ts_eq_refl|].
    apply ts_eq_sym. eapply ts_eq_trans; [apply (IH (ts_concat ts_identity m))|].
    apply ts_concat_proper; [apply ts_concat_id_l | apply ts_eq_refl].
Qed.
Lemma ts_of_list_app l m : ts_eq (ts_of_list (l ++ m)) (ts_concat (ts_of_list l) (ts_of_list m)).
Proof.
  unfold ts_of_list at 1. rewrite fold_left_app. apply fold_concat_acc.
Qed.
Lemma ts_of_list_single m : ts_eq (ts_of_list [m]) m.
Proof. unfold ts_of_list. simpl. apply ts_concat_id_l. Qed.
Lemma ts_of_list_cons m l : ts_eq (ts_of_list (m :: l)) (ts_concat m (ts_of_list l)).
Proof.
  change (m :: l) with ([m] ++ l). eapply ts_eq_trans; [apply ts_of_list_app|].
  apply ts_concat_proper; [apply ts_of_list_single | apply ts_eq_refl].
Qed.

(* ---- transform-origin ---------------------------------------------------------------------------- *)
Lemma transform_origin_product m dx dy :
  ts_eq (resolve_transform m (Some (dx, dy)))
        (ts_concat (ts_concat (from_translate dx dy) m) (from_translate (- dx) (- dy))).
Proof.
  unfold resolve_transform, resolve_transform_origin, ts_eq, ts_concat, ts_identity, from_translate, from_row.
  simpl. repeat split; ring.
Qed.
(* p |-> o + M (p - o) *)
Lemma transform_origin_map m dx dy x y :
  map_x (resolve_transform m (Some (dx, dy))) x y == dx + map_x m (x - dx) (y - dy) /\
  map_y (resolve_transform m (Some (dx, dy))) x y == dy + map_y m (x - dx) (y - dy).
Proof.
  unfold resolve_transform, resolve_transform_origin, map_x, map_y, ts_concat, ts_identity, from_translate, from_row.
  simpl. split; ring.
Qed.
Lemma transform_origin_matrix m dx dy :
  ts_eq (resolve_transform m (Some (dx, dy)))
        (from_row (t_sx m) (t_ky m) (t_kx m) (t_sy m)
                  (dx - t_sx m * dx - t_kx m * dy + t_tx m) (dy - t_ky m * dx - t_sy m * dy + t_ty m)).
Proof.
  unfold resolve_transform, resolve_transform_origin, ts_eq, ts_concat, ts_identity, from_translate, from_row.
  simpl. repeat split; ring.
Qed.
Lemma transform_origin_none m : resolve_transform m None = m.
Proof. reflexivity. Qed.
(* the origin is a fixed point of a linear transform taken about it *)
Lemma transform_origin_fixed m dx dy :
  t_tx m == 0 -> t_ty m == 0 ->
  map_x (resolve_transform m (Some (dx, dy))) dx dy == dx /\ map_y (resolve_transform m (Some (dx, dy))) dx dy == dy.
Proof.
  intros H1 H2. destruct (transform_origin_map m dx dy dx dy) as [A B]. rewrite A, B.
  unfold map_x, map_y. rewrite H1, H2. split; ring.
Qed.

(* ---- use as a translated group --------------------------------------------------------------------- *)
Lemma use_group_ts_spec orig x y : ts_eq (use_group_ts orig x y) (ts_concat orig (from_translate x y)).
Proof.
  unfold use_group_ts. apply ts_concat_proper; [apply ts_eq_refl | apply ts_concat_id_l].
Qed.
Lemma retag_g : retag E_G = E_G. Proof. reflexivity. Qed.
Lemma retag_a : retag E_A = E_G. Proof. reflexivity. Qed.
Lemma retag_other e : e <> E_A -> retag e = e.
Proof.
  intro H. unfold retag. destruct (EId_eqb e E_A) eqn:E; [|reflexivity].
  exfalso. apply H. unfold EId_eqb in E. apply N.eqb_eq in E.
  assert (Ha : EId_of_idx (EId_idx e) = Some e) by (destruct e; reflexivity).
  rewrite E in Ha. simpl in Ha. congruence.
Qed.

Theorem use_as_group id tl o x y st copy :
  exists t1 t2 kids,
    convert (SUse id tl o x y st copy) = [TGroup id t1 st kids] /\
    convert (expand_use id tl o x y st copy) = [TGroup id t2 st kids] /\
    ts_eq t1 t2.
Proof.
  eexists. eexists. exists (convert copy). split; [reflexivity|]. split.
  - unfold expand_use. simpl. rewrite app_nil_r. unfold group_or_splice.
    replace (is_g_or_use (retag E_G)) with true by reflexivity.
    rewrite !orb_true_r. reflexivity.
  - eapply ts_eq_trans; [apply use_group_ts_spec|]. apply ts_eq_sym.
    unfold resolve_transform at 1. eapply ts_eq_trans; [apply ts_of_list_cons|].
    apply ts_concat_proper; [apply ts_eq_refl | apply ts_of_list_single].
Qed.
Theorem use_as_group_list id tl x y st copy :
  exists t1 t2 kids,
    convert (SUse id tl None x y st copy) = [TGroup id t1 st kids] /\
    convert (expand_use_list id tl x y st copy) = [TGroup id t2 st kids] /\
    ts_eq t1 t2.
Proof.
  eexists. eexists. exists (convert copy). split; [reflexivity|]. split.
  - unfold expand_use_list. simpl. rewrite app_nil_r. unfold group_or_splice.
    replace (is_g_or_use (retag E_G)) with true by reflexivity.
    rewrite !orb_true_r. reflexivity.
  - eapply ts_eq_trans; [apply use_group_ts_spec|]. apply ts_eq_sym. simpl.
    eapply ts_eq_trans; [apply ts_of_list_app|].
    apply ts_concat_proper; [apply ts_eq_refl | apply ts_of_list_single].
Qed.
(* x = y = 0 and no transform: the group's transform is the identity, but the group is kept (is_g_or_use) *)
Lemma use_trivial id st copy :
  exists t, convert (SUse id [] None 0 0 st copy) = [TGroup id t st (convert copy)] /\ ts_eq t ts_identity.
Proof.
  eexists. split; [reflexivity|]. eapply ts_eq_trans; [apply use_group_ts_spec|].
  unfold ts_eq, ts_concat, ts_of_list, ts_identity, from_translate, from_row. simpl. repeat split; ring.
Qed.

Theorem a_is_g id tl o st kids : convert (SGroup E_A id tl o st kids) = convert (SGroup E_G id tl o st kids).
Proof. reflexivity. Qed.

(* ---- symbol / nested svg viewport ------------------------------------------------------------------ *)
Lemma use_viewport_ts_spec orig x y v :
  ts_eq (use_viewport_ts orig x y v) (ts_concat orig (ts_concat (from_translate x y) v)).
Proof.
  unfold use_viewport_ts. apply ts_concat_proper; [apply ts_eq_refl|].
  apply ts_concat_proper; [apply ts_concat_id_l | apply ts_eq_refl].
Qed.
Lemma viewport_ts_some orig x y vb size :
  ts_eq (viewport_ts orig x y (Some vb) size)
        (ts_concat orig (ts_concat (from_translate x y) (to_transform vb size))).
Proof. apply use_viewport_ts_spec. Qed.
Lemma viewport_ts_none orig x y size :
  ts_eq (viewport_ts orig x y None size) (ts_concat orig (from_translate x y)).
Proof. apply use_group_ts_spec. Qed.

Lemma map_ts_eq a b x y : ts_eq a b -> map_x a x y == map_x b x y /\ map_y a x y == map_y b x y.
Proof.
  unfold ts_eq, map_x, map_y. intros [H1 [H2 [H3 [H4 [H5 H6]]]]]. rewrite H1, H2, H3, H4, H5, H6. split; reflexivity.
Qed.
(* the inner group's transform (new_ts = translate(x, y) . viewBox transform) shifts the C17 image by (x, y) *)
Lemma new_ts_image x y vb size px py :
  map_x (use_viewport_ts ts_identity x y (to_transform vb size)) px py == x + map_x (to_transform vb size) px py /\
  map_y (use_viewport_ts ts_identity x y (to_transform vb size)) px py == y + map_y (to_transform vb size) px py.
Proof.
  unfold use_viewport_ts, map_x, map_y, ts_concat, ts_identity, from_translate, from_row. simpl. split; ring.
Qed.

(* meet: the image of the viewBox lies inside the clip rectangle (x, y, w, h) of the new viewport *)
Theorem symbol_viewport_meet x y vb size :
  vb_ok vb size -> ar_align (vb_aspect vb) <> ANone -> ar_slice (vb_aspect vb) = false ->
  let t := use_viewport_ts ts_identity x y (to_transform vb size) in
  let r := vb_rect vb in let c := clip_rect x y size in
  rx c <= img_lo_x t r /\ img_hi_x t r <= rx c + rw c /\ ry c <= img_lo_y t r /\ img_hi_y t r <= ry c + rh c.
Proof.
  intros Hok Ha Hs. cbv zeta.
  pose proof (meet_inside vb size Hok Ha Hs) as M. cbv zeta in M.
  unfold img_lo_x, img_hi_x, img_lo_y, img_hi_y in *. simpl.
  destruct M as [M1 [M2 [M3 M4]]].
  destruct (new_ts_image x y vb size (rx (vb_rect vb)) (ry (vb_rect vb))) as [A1 A2].
  destruct (new_ts_image x y vb size (rx (vb_rect vb) + rw (vb_rect vb)) (ry (vb_rect vb) + rh (vb_rect vb))) as [B1 B2].
  rewrite A1, A2, B1, B2. repeat split; lra.
Qed.
(* slice: the image covers the clip rectangle *)
Theorem symbol_viewport_slice x y vb size :
  vb_ok vb size -> ar_align (vb_aspect vb) <> ANone -> ar_slice (vb_aspect vb) = true ->
  let t := use_viewport_ts ts_identity x y (to_transform vb size) in
  let r := vb_rect vb in let c := clip_rect x y size in
  img_lo_x t r <= rx c /\ rx c + rw c <= img_hi_x t r /\ img_lo_y t r <= ry c /\ ry c + rh c <= img_hi_y t r.
Proof.
  intros Hok Ha Hs. cbv zeta.
  pose proof (slice_covers vb size Hok Ha Hs) as M. cbv zeta in M.
  unfold img_lo_x, img_hi_x, img_lo_y, img_hi_y in *. simpl.
  destruct M as [M1 [M2 [M3 M4]]].
  destruct (new_ts_image x y vb size (rx (vb_rect vb)) (ry (vb_rect vb))) as [A1 A2].
  destruct (new_ts_image x y vb size (rx (vb_rect vb) + rw (vb_rect vb)) (ry (vb_rect vb) + rh (vb_rect vb))) as [B1 B2].
  rewrite A1, A2, B1, B2. repeat split; lra.
Qed.
(* none: the viewBox is mapped exactly onto the clip rectangle *)
Theorem symbol_viewport_none x y vb size :
  vb_ok vb size -> ar_align (vb_aspect vb) = ANone ->
  let t := use_viewport_ts ts_identity x y (to_transform vb size) in
  let r := vb_rect vb in let c := clip_rect x y size in
  img_lo_x t r == rx c /\ img_hi_x t r == rx c + rw c /\ img_lo_y t r == ry c /\ img_hi_y t r == ry c + rh c.
Proof.
  intros Hok Ha. cbv zeta.
  pose proof (none_maps_exactly vb size Hok Ha) as M. cbv zeta in M.
  unfold img_lo_x, img_hi_x, img_lo_y, img_hi_y in *. simpl.
  destruct M as [M1 [M2 [M3 M4]]].
  destruct (new_ts_image x y vb size (rx (vb_rect vb)) (ry (vb_rect vb))) as [A1 A2].
  destruct (new_ts_image x y vb size (rx (vb_rect vb) + rw (vb_rect vb)) (ry (vb_rect vb) + rh (vb_rect vb))) as [B1 B2].
  rewrite A1, A2, B1, B2, M1, M2, M3, M4. repeat split; ring.
Qed.
Lemma override_size_spec uw uh own :
  override_size None None own = own /\
  sw (override_size (Some uw) None own) = uw /\ sh (override_size (Some uw) None own) = sh own /\
  sw (override_size None (Some uh) own) = sw own /\ sh (override_size None (Some uh) own) = uh /\
  override_size (Some uw) (Some uh) own = {| sw := uw; sh := uh |}.
Proof. destruct own. repeat split; reflexivity. Qed.

(* ---- switch ------------------------------------------------------------------------------------------ *)
Lemma first_passing_spec user l1 c l2 i :
  forallb (fun d => negb (condition_passed user d)) l1 = true -> condition_passed user c = true ->
  first_passing user (l1 ++ c :: l2) i = Some (i + length l1)%nat.
Proof.
  revert i. induction l1 as [|d r IH]; intros i H1 H2; simpl.
  - rewrite H2. f_equal. lia.
  - simpl in H1. apply andb_true_iff in H1 as [Hd Hr]. apply negb_true_iff in Hd. rewrite Hd.
    rewrite (IH (S i) Hr H2). f_equal. lia.
Qed.
Lemma first_passing_none user l i :
  forallb (fun d => negb (condition_passed user d)) l = true -> first_passing user l i = None.
Proof.
  revert i. induction l as [|d r IH]; intros i H; simpl; [reflexivity|].
  simpl in H. apply andb_true_iff in H as [Hd Hr]. apply negb_true_iff in Hd. rewrite Hd. apply IH, Hr.
Qed.
Theorem switch_first user l1 c l2 :
  forallb (fun d => negb (condition_passed user d)) l1 = true -> condition_passed user c = true ->
  switch_choice user (l1 ++ c :: l2) = Some (length l1).
Proof. intros H1 H2. unfold switch_choice. rewrite (first_passing_spec user l1 c l2 O H1 H2). reflexivity. Qed.

Lemma find_first {A} (f : A -> bool) l1 k l2 :
  forallb (fun d => negb (f d)) l1 = true -> f k = true -> find f (l1 ++ k :: l2) = Some k.
Proof.
  induction l1 as [|d r IH]; simpl; intros H1 H2.
  - rewrite H2. reflexivity.
  - apply andb_true_iff in H1 as [Hd Hr]. apply negb_true_iff in Hd. rewrite Hd. apply IH; assumption.
Qed.
(* switch = (a group from the switch's own attributes, dissolved when neutral) around the conversion of the
   first passing child; the other children are irrelevant *)
Theorem switch_convert user id t st l1 c e l2 :
  forallb (fun k => negb (condition_passed user (fst k))) l1 = true -> condition_passed user c = true ->
  convert_switch user id t st (l1 ++ (c, e) :: l2)
  = group_or_splice E_Switch id t (ts_is_identity t) st (convert e).
Proof.
  intros H1 H2. unfold convert_switch.
  rewrite (find_first (fun k => condition_passed user (fst k)) l1 (c, e) l2 H1 H2). reflexivity.
Qed.
Theorem switch_convert_single user id t st l1 c e l2 :
  forallb (fun k => negb (condition_passed user (fst k))) l1 = true -> condition_passed user c = true ->
  convert_switch user id t st (l1 ++ (c, e) :: l2) = convert_switch user id t st [(c, e)].
Proof.
  intros H1 H2. rewrite (switch_convert user id t st l1 c e l2 H1 H2).
  pose proof (switch_convert user id t st [] c e [] eq_refl H2) as S. simpl in S. rewrite S. reflexivity.
Qed.
Theorem switch_none user id t st l :
  forallb (fun k => negb (condition_passed user (fst k))) l = true -> convert_switch user id t st l = [].
Proof.
  intro H. unfold convert_switch.
  assert (F : find (fun k => condition_passed user (fst k)) l = None).
  { induction l as [|d r IH]; simpl; [reflexivity|]. simpl in H. apply andb_true_iff in H as [Hd Hr].
    apply negb_true_iff in Hd. rewrite Hd. apply IH, Hr. }
  rewrite F. reflexivity.
Qed.
(* a neutral switch leaves exactly the chosen child's conversion *)
Lemma switch_neutral user id c e :
  condition_passed user c = true -> convert_switch user id ts_identity plain [(c, e)] = convert e.
Proof. intro H. unfold convert_switch. simpl. rewrite H. reflexivity. Qed.

(* ---- rect radii --------------------------------------------------------------------------------------- *)
Theorem radii_one_sided w h a :
  rect_radii w h (Some a) None = rect_radii w h (Some a) (Some a) /\
  rect_radii w h None (Some a) = rect_radii w h (Some a) (Some a).
Proof.
  unfold rect_radii, resolve_rx_ry, drop_negative. destruct (Qltb a 0); split; reflexivity.
Qed.
Theorem radii_negative_absent w h a other :
  a < 0 -> rect_radii w h (Some a) other = rect_radii w h None other /\
           rect_radii w h other (Some a) = rect_radii w h other None.
Proof.
  intro H. apply Qltb_true in H. unfold rect_radii, resolve_rx_ry. simpl. rewrite H. split; reflexivity.
Qed.
Theorem radii_clamped w h a b :
  0 <= a -> 0 <= b ->
  fst (rect_radii w h (Some a) (Some b)) == (if Qgtb a (w / RX_DIV) then w / RX_DIV else a) /\
  snd (rect_radii w h (Some a) (Some b)) == (if Qgtb b (h / RY_DIV) then h / RY_DIV else b).
Proof.
  intros Ha Hb. unfold rect_radii, resolve_rx_ry, drop_negative.
  assert (A : Qltb a 0 = false) by (apply Qltb_false; exact Ha).
  assert (B : Qltb b 0 = false) by (apply Qltb_false; exact Hb).
  rewrite A, B. simpl. split; reflexivity.
Qed.
Lemma rect_radii_nonneg w h p q :
  0 <= p -> 0 <= q -> rect_radii w h (Some p) (Some q) = clamp_radii w h (p, q).
Proof.
  intros Hp Hq. unfold rect_radii, resolve_rx_ry, drop_negative.
  assert (A : Qltb p 0 = false) by (apply Qltb_false; exact Hp).
  assert (B : Qltb q 0 = false) by (apply Qltb_false; exact Hq).
  rewrite A, B. reflexivity.
Qed.
(* writing the clamped radii explicitly gives the same radii (clamping is idempotent) *)
Theorem radii_clamp_idempotent w h a b :
  0 <= a -> 0 <= b -> 0 <= w -> 0 <= h ->
  let r := rect_radii w h (Some a) (Some b) in
  fst (rect_radii w h (Some (fst r)) (Some (snd r))) == fst r /\
  snd (rect_radii w h (Some (fst r)) (Some (snd r))) == snd r.
Proof.
  intros Ha Hb Hw Hh. cbv zeta.
  assert (Hw2 : 0 <= w / RX_DIV).
  { unfold RX_DIV, Qdiv. apply Qmult_le_0_compat; [exact Hw|]. apply Qlt_le_weak. reflexivity. }
  assert (Hh2 : 0 <= h / RY_DIV).
  { unfold RY_DIV, Qdiv. apply Qmult_le_0_compat; [exact Hh|]. apply Qlt_le_weak. reflexivity. }
  rewrite (rect_radii_nonneg w h a b Ha Hb).
  set (p := fst (clamp_radii w h (a, b))). set (q := snd (clamp_radii w h (a, b))).
  assert (P : 0 <= p /\ Qgtb p (w / RX_DIV) = false).
  { unfold p, clamp_radii. simpl. destruct (Qgtb a (w / RX_DIV)) eqn:E.
    - split; [exact Hw2 | apply Qgtb_false, Qle_refl].
    - split; [exact Ha | exact E]. }
  assert (Q : 0 <= q /\ Qgtb q (h / RY_DIV) = false).
  { unfold q, clamp_radii. simpl. destruct (Qgtb b (h / RY_DIV)) eqn:E.
    - split; [exact Hh2 | apply Qgtb_false, Qle_refl].
    - split; [exact Hb | exact E]. }
  destruct P as [P1 P2]. destruct Q as [Q1 Q2].
  rewrite (rect_radii_nonneg w h p q P1 Q1). unfold clamp_radii. simpl. rewrite P2, Q2. split; reflexivity.
Qed.

(* ---- use -> symbol size and nested svg (full strength since the fixes 72e1d38 and fb5447a) ------------------ *)
Theorem symbol_use_side_spec vp l : symbol_use_side vp l == spec_use_side vp l.
Proof. destruct l as [[v|p]|]; simpl; try reflexivity. field. Qed.

Lemma neutral_opacity st : gstyle_neutral st = true -> g_opacity st == 1.
Proof.
  unfold gstyle_neutral. intro H. repeat (apply andb_true_iff in H as [H ?]). apply Qeqb_true. exact H.
Qed.
Lemma ts_is_identity_eq t : ts_is_identity t = true -> ts_eq t ts_identity.
Proof.
  unfold ts_is_identity, ts_eq, ts_identity, from_row. simpl. intro H.
  repeat (apply andb_true_iff in H as [H ?]). repeat split; apply Qeqb_true; assumption.
Qed.
Ltac ts_crunch :=
  unfold ts_eq, ts_concat, ts_identity, from_row in *; simpl in *;
  repeat match goal with H : _ /\ _ |- _ => destruct H end;
  repeat split;
  repeat match goal with H : ?a == _ |- _ => rewrite H; clear H end; try ring.
(* a nested svg converts like its expansion: every leaf gets the same accumulated opacity and transform, whatever the
   element's own style and transform attribute are *)
Theorem nested_svg_as_groups t_attr st new_ts clip k sh :
  match leaves_of (convert_nested_svg t_attr st new_ts clip [TLeaf k sh]),
        leaves_of (expand_nested_svg t_attr st new_ts clip [TLeaf k sh]) with
  | [(i, o, t)], [(j, p, u)] => i = j /\ o == p /\ ts_eq t u
  | _, _ => False
  end.
Proof.
  unfold convert_nested_svg, expand_nested_svg, group_or_splice, svg_children.
  replace (is_g_or_use E_Svg) with false by reflexivity. rewrite orb_false_r.
  destruct (gstyle_neutral st) eqn:Hn; destruct (ts_is_identity t_attr) eqn:Hi; simpl;
    destruct clip as [c|]; simpl; destruct (ts_is_identity new_ts) eqn:En; simpl;
    try (pose proof (neutral_opacity st Hn) as Ho); try (pose proof (ts_is_identity_eq t_attr Hi) as Ht);
    try (pose proof (ts_is_identity_eq new_ts En) as Hnew); clear Hn Hi En;
    (split; [reflexivity|]); (split; [try rewrite Ho; ring|]); ts_crunch.
Qed.

From Coq Require Import Permutation.
(* ---- use -> symbol as groups; the viewport clip decision (extension round 4) -------------------------------- *)
Definition clip_list_eq (a b : list (N * N * ts)) : Prop :=
  Forall2 (fun p q => fst p = fst q /\ ts_eq (snd p) (snd q)) a b.
(* the same clips / masks / filters, each in the same coordinate system; the nesting order of the viewport clip and the
   use's own effects may differ (clips intersect) *)
Definition clip_set_eq (a b : list (N * N * ts)) : Prop := exists b', Permutation b b' /\ clip_list_eq a b'.
Ltac tsr := unfold ts_eq, ts_concat, ts_identity, from_row; simpl; repeat split; ring.
Ltac ts_atoms :=
  unfold ts_eq, ts_concat, ts_identity, from_row in *; simpl in *;
  repeat match goal with H : _ /\ _ |- _ => destruct H end;
  repeat match goal with
         | H : t_sx ?v == _ |- _ => is_var v; try rewrite H in *; clear H
         | H : t_ky ?v == _ |- _ => is_var v; try rewrite H in *; clear H
         | H : t_kx ?v == _ |- _ => is_var v; try rewrite H in *; clear H
         | H : t_sy ?v == _ |- _ => is_var v; try rewrite H in *; clear H
         | H : t_tx ?v == _ |- _ => is_var v; try rewrite H in *; clear H
         | H : t_ty ?v == _ |- _ => is_var v; try rewrite H in *; clear H
         end;
  repeat split; try reflexivity; try lra.
Lemma eff_map_eq (l : list (N * N)) t1 t2 : ts_eq t1 t2 ->
  clip_list_eq (map (fun e => (e, t1)) l) (map (fun e => (e, t2)) l).
Proof. intro H. induction l; constructor; [split; [reflexivity|exact H]|assumption]. Qed.
Lemma neutral_effects st : gstyle_neutral st = true -> effects st = [].
Proof.
  unfold gstyle_neutral, effects. intro H. repeat (apply andb_true_iff in H as [H ?]).
  destruct (g_clip st); [discriminate|]. destruct (g_mask st); [discriminate|]. destruct (g_filter st); [reflexivity|discriminate].
Qed.
Lemma clip_list_app a b c d : clip_list_eq a b -> clip_list_eq c d -> clip_list_eq (a ++ c) (b ++ d).
Proof. apply Forall2_app. Qed.

(* a use of a symbol converts like group(use transform + style) > viewport clip > group(translate . viewBox transform, symbol
   style) > content: same accumulated opacity and transform for every leaf, same clips / masks / filters above it, each in the
   same coordinate system - for all inputs (full strength since 214a8de; former class use-symbol-style-in-parent-space) *)
Theorem use_symbol_as_groups id orig_ts new_ts st sym_st clip k sh :
  match cleaves_of (convert_use_symbol id orig_ts new_ts st sym_st clip [TLeaf k sh]),
        cleaves_of (expand_use_symbol id orig_ts new_ts st sym_st clip [TLeaf k sh]) with
  | [(i, o, t, c)], [(j, p, u, d)] => i = j /\ o == p /\ ts_eq t u /\ clip_set_eq c d
  | _, _ => False
  end.
Proof.
  unfold convert_use_symbol, expand_use_symbol, symbol_children, group_or_splice.
  replace (is_g_or_use E_Symbol) with false by reflexivity. rewrite !orb_false_r.
  destruct clip as [c|]; cbn [cleaves_of flat_map cleaves app g_opacity clip_only effects g_clip g_mask g_filter map];
    rewrite ?app_nil_r.
  - destruct (negb (gstyle_neutral sym_st) || negb (ts_is_identity new_ts)) eqn:R;
      cbn [flat_map cleaves app]; rewrite ?app_nil_r.
    + split; [reflexivity|]. split; [ring|]. split; [tsr|].
      exists ([(0%N, c, ts_concat (ts_concat ts_identity orig_ts) ts_identity)]
              ++ map (fun e => (e, ts_concat ts_identity orig_ts)) (effects st)
              ++ map (fun e => (e, ts_concat (ts_concat (ts_concat ts_identity orig_ts) ts_identity) new_ts)) (effects sym_st)).
      split.
      * rewrite <- app_assoc. apply Permutation_app_swap_app.
      * cbn [app]. constructor; [split; [reflexivity|tsr]|].
        apply clip_list_app; apply eff_map_eq; tsr.
    + apply orb_false_iff in R as [Rn Ri]. apply negb_false_iff in Rn, Ri.
      rewrite (neutral_effects _ Rn). pose proof (neutral_opacity _ Rn) as Ho. pose proof (ts_is_identity_eq _ Ri) as Hnew.
      cbn [map]. rewrite ?app_nil_r.
      split; [reflexivity|]. split; [rewrite Ho; ring|]. split; [solve [ts_atoms]|].
      exists ([(0%N, c, ts_concat (ts_concat ts_identity orig_ts) ts_identity)]
              ++ map (fun e => (e, ts_concat ts_identity orig_ts)) (effects st)).
      split.
      * apply Permutation_app_comm.
      * cbn [app]. constructor; [split; [reflexivity|tsr]|]. apply eff_map_eq; tsr.
  - destruct (negb (gstyle_neutral sym_st) || negb (ts_is_identity new_ts)) eqn:R;
      cbn [flat_map cleaves app]; rewrite ?app_nil_r.
    + split; [reflexivity|]. split; [ring|]. split; [tsr|].
      eexists; split; [apply Permutation_refl|]. apply clip_list_app; apply eff_map_eq; tsr.
    + apply orb_false_iff in R as [Rn Ri]. apply negb_false_iff in Rn, Ri.
      rewrite (neutral_effects _ Rn). pose proof (neutral_opacity _ Rn) as Ho. pose proof (ts_is_identity_eq _ Ri) as Hnew.
      cbn [map]. rewrite ?app_nil_r.
      split; [reflexivity|]. split; [rewrite Ho; ring|]. split; [solve [ts_atoms]|].
      eexists; split; [apply Permutation_refl|]. apply eff_map_eq. tsr.
Qed.

From Coq Require Import String.
From RV Require Import Gen.UseClip.
(* get_clip_rect (source-derived, Gen/UseClip.v) decides: no clip for overflow visible / auto, for an svg element that has
   neither a use size nor both of its own width and height, and for a non-positive size; otherwise the rectangle
   clip_rect x y size with the use-overridden size - the rectangle C10_symbol_clip_meet / _slice / _none speak about *)
Theorem viewport_clip_decision : forall (is_svg : bool) (ov : option string) us0 us1 hw hh x y w h,
  let off := match ov with Some o => existsb (String.eqb o) ["visible"; "auto"]%string | None => false end in
  let size := if is_svg then override_size us0 us1 {| sw := w; sh := h |} else {| sw := w; sh := h |} in
  get_clip_rect is_svg ov us0 us1 hw hh x y w h =
    if off || (is_svg && is_none us0 && is_none us1 && negb (hw && hh)) || negb (Qltb 0 (sw size) && Qltb 0 (sh size))
    then None else Some (clip_rect x y size).
Proof.
  intros. subst off size. unfold get_clip_rect, override_size, clip_rect, valid_len, unwrap_or.
  change OVERFLOW_NO_CLIP with ["visible"; "auto"]%string.
  destruct (match ov with Some o => existsb (String.eqb o) ["visible"; "auto"]%string | None => false end); [reflexivity|].
  destruct is_svg, us0, us1, hw, hh; cbn [is_none andb orb negb sw sh];
    repeat match goal with |- context [Qltb 0 ?v] => destruct (Qltb 0 v) end; reflexivity.
Qed.

(* ---- order of the effects; inheritance through use chains (second pass) ------------------------------------------- *)
(* without a viewport clip the effect chains agree in order as well *)
Theorem use_symbol_effect_order id orig_ts new_ts st sym_st k sh :
  match cleaves_of (convert_use_symbol id orig_ts new_ts st sym_st None [TLeaf k sh]),
        cleaves_of (expand_use_symbol id orig_ts new_ts st sym_st None [TLeaf k sh]) with
  | [(_, _, _, c)], [(_, _, _, d)] => clip_list_eq c d
  | _, _ => False
  end.
Proof.
  unfold convert_use_symbol, expand_use_symbol, symbol_children, group_or_splice.
  replace (is_g_or_use E_Symbol) with false by reflexivity. rewrite !orb_false_r.
  cbn [cleaves_of flat_map cleaves app]; rewrite ?app_nil_r.
  destruct (negb (gstyle_neutral sym_st) || negb (ts_is_identity new_ts)) eqn:R; cbn [flat_map cleaves app]; rewrite ?app_nil_r.
  - apply clip_list_app; apply eff_map_eq; tsr.
  - apply orb_false_iff in R as [Rn Ri]. apply negb_false_iff in Rn. rewrite (neutral_effects _ Rn). cbn [map]. rewrite ?app_nil_r.
    apply eff_map_eq. tsr.
Qed.
(* with a viewport clip, the conversion puts the viewport clip OUTSIDE the use's own effects, the expansion inside: harmless for
   clip-path / mask / opacity (they commute with a clip), not for a filter - candidate defect use-symbol-filter-inside-viewport-clip *)
Theorem use_symbol_filter_order_refuted :
  exists id orig_ts new_ts st sym_st c k sh,
    map fst (match cleaves_of (convert_use_symbol id orig_ts new_ts st sym_st (Some c) [TLeaf k sh]) with [(_, _, _, l)] => l | _ => [] end)
      = [(0%N, c); (2%N, 3%N)] /\
    map fst (match cleaves_of (expand_use_symbol id orig_ts new_ts st sym_st (Some c) [TLeaf k sh]) with [(_, _, _, l)] => l | _ => [] end)
      = [(2%N, 3%N); (0%N, c)].
Proof.
  exists 1%N, ts_identity, ts_identity,
    {| g_opacity := 1; g_blend := 0%N; g_isolate := false; g_clip := None; g_mask := None; g_filter := [3%N] |}, plain, 9%N, 7%N, 0%N.
  split; reflexivity.
Qed.

Lemma resolved_expand : forall e inh, resolved inh (expand_uses e) = resolved inh e.
Proof.
  fix IH 1. intros [id own|own kids|own copy] inh; cbn [expand_uses resolved].
  - reflexivity.
  - induction kids as [|a kids IHk]; cbn [map flat_map]; [reflexivity|]. rewrite IH, IHk. reflexivity.
  - cbn [flat_map]. rewrite IH, app_nil_r. reflexivity.
Qed.
(* a use chain of ANY length hands the target the innermost value set along the chain (else what the outermost use inherits);
   what the target's original parent had plays no role *)
Lemma resolved_chain : forall owns target inh, resolved inh (use_chain owns target) = resolved (chain_value owns inh) target.
Proof. induction owns as [|o r IH]; intros; cbn [use_chain chain_value resolved]; [reflexivity|apply IH]. Qed.

From Coq Require Import Ascii.
(* ---- systemLanguage: exact match, or the part before the first '-' (second pass) ------------------------------------ *)
Lemma lang_matches_iff user lang :
  lang_matches user lang = true <->
  In lang user \/ exists p, prefix_before_dash lang = Some p /\ In p user.
Proof.
  unfold lang_matches. rewrite orb_true_iff, existsb_exists. split.
  - intros [[x [Hx E]]|H].
    + left. apply String.eqb_eq in E. subst x. exact Hx.
    + right. destruct (prefix_before_dash lang) as [p|]; [|discriminate]. apply existsb_exists in H as [x [Hx E]].
      apply String.eqb_eq in E. subst x. exists p. split; [reflexivity|exact Hx].
  - intros [H|[p [Hp H]]].
    + left. exists lang. split; [exact H|apply String.eqb_refl].
    + right. rewrite Hp. apply existsb_exists. exists p. split; [exact H|apply String.eqb_refl].
Qed.
(* the prefix is what stands before the FIRST dash: lang = p ++ "-" ++ rest with no dash in p *)
Lemma prefix_before_dash_spec : forall lang p,
  prefix_before_dash lang = Some p <->
  (exists rest, lang = (p ++ String "-"%char rest)%string) /\ prefix_before_dash p = None.
Proof.
  induction lang as [|c r IH]; intros p; cbn [prefix_before_dash].
  - split; [discriminate|]. intros [[rest E] _]. destruct p; discriminate E.
  - destruct (Ascii.eqb c "-"%char) eqn:Ec.
    + apply Ascii.eqb_eq in Ec. subst c. split.
      * intro H. injection H as <-. split; [exists r; reflexivity|reflexivity].
      * intros [[rest E] Hn]. destruct p as [|d p']; [reflexivity|]. cbn in E. injection E as <- _.
        cbn in Hn. discriminate Hn.
    + split.
      * destruct (prefix_before_dash r) as [q|] eqn:Er; [|discriminate]. intro H. injection H as <-.
        destruct (proj1 (IH q) eq_refl) as [[rest E] Hn]. split; [exists rest; cbn; rewrite E; reflexivity|].
        cbn. rewrite Ec, Hn. reflexivity.
      * intros [[rest E] Hn]. destruct p as [|d p']; [cbn in E; injection E as -> _; rewrite Ascii.eqb_refl in Ec; discriminate|].
        cbn in E. injection E as <- E. cbn in Hn. rewrite Ec in Hn.
        destruct (prefix_before_dash p') eqn:Ep; [discriminate|].
        assert (prefix_before_dash r = Some p') as -> by (apply IH; split; [exists rest; exact E|exact Ep]). reflexivity.
Qed.

Lemma map_fst_pair {A B} (t : B) (l : list A) : map fst (map (fun e => (e, t)) l) = l.
Proof. induction l; cbn; [reflexivity|f_equal; assumption]. Qed.
(* guarded counterpart of use_symbol_filter_order_refuted: the conversion's chain is the viewport clip followed by the use's own
   effects, the expansion's is the use's own effects followed by the viewport clip (then the symbol's in both); without a filter
   on the use, everything that changes sides with the viewport clip is a clip-path or a mask, which commute with a clip *)
Theorem use_symbol_order_guarded id orig_ts new_ts st sym_st c k sh :
  g_filter st = [] ->
  Forall (fun e => fst e <> 2%N) (effects st) /\
  exists tl tl',
    map fst (match cleaves_of (convert_use_symbol id orig_ts new_ts st sym_st (Some c) [TLeaf k sh]) with [(_, _, _, l)] => l | _ => [] end)
      = (0%N, c) :: effects st ++ tl /\
    map fst (match cleaves_of (expand_use_symbol id orig_ts new_ts st sym_st (Some c) [TLeaf k sh]) with [(_, _, _, l)] => l | _ => [] end)
      = effects st ++ (0%N, c) :: tl' /\ tl = tl'.
Proof.
  intro Hf. split.
  - unfold effects. rewrite Hf. cbn [map]. rewrite app_nil_r.
    destruct (g_clip st), (g_mask st); repeat constructor; cbn; discriminate.
  - unfold convert_use_symbol, expand_use_symbol, symbol_children, group_or_splice.
    replace (is_g_or_use E_Symbol) with false by reflexivity. rewrite !orb_false_r.
    cbn [cleaves_of flat_map cleaves app g_opacity clip_only effects g_clip g_mask g_filter map]; rewrite ?app_nil_r.
    destruct (negb (gstyle_neutral sym_st) || negb (ts_is_identity new_ts)) eqn:R; cbn [flat_map cleaves app]; rewrite ?app_nil_r.
    + exists (effects sym_st), (effects sym_st).
      cbn [map fst]. rewrite ?map_app, !map_fst_pair. cbn [map fst]. rewrite <- ?app_assoc. repeat split; reflexivity.
    + apply orb_false_iff in R as [Rn _]. apply negb_false_iff in Rn. exists [], (effects sym_st). rewrite (neutral_effects _ Rn).
      cbn [map fst]. rewrite ?map_app, !map_fst_pair. cbn [map fst]. rewrite ?app_nil_r, <- ?app_assoc. repeat split; reflexivity.
Qed.
