(* Lemmas about the svgtree attribute pipeline model (Model/Cascade.v) over the source-derived tables
   (Gen/SvgTables.v).  The central result is `build_lookup`: what `attribute(a)` sees after
   `parse_svg_element` is a fold of a two-rule state machine over the declarations that mention `a`;
   the spelling theorems of C09 are corollaries. *)
From Coq Require Import String Permutation.
From RV Require Import Model.Base Gen.SvgTables Gen.Units Model.CascadeBase Gen.SvgInsert Model.Cascade.

(* ---- decidable equality of the generated enumerations ---------------------------------------- *)
Lemma AId_of_idx_idx a : AId_of_idx (AId_idx a) = Some a.
Proof. destruct a; reflexivity. Qed.
Lemma EId_of_idx_idx a : EId_of_idx (EId_idx a) = Some a.
Proof. destruct a; reflexivity. Qed.
Lemma AId_eqb_eq a b : AId_eqb a b = true <-> a = b.
Proof.
  unfold AId_eqb. rewrite N.eqb_eq. split; intro H; [|subst; reflexivity].
  pose proof (AId_of_idx_idx a) as Ha. rewrite H, AId_of_idx_idx in Ha. congruence.
Qed.
Lemma AId_eqb_refl a : AId_eqb a a = true.
Proof. apply AId_eqb_eq. reflexivity. Qed.
Lemma AId_eqb_neq a b : AId_eqb a b = false <-> a <> b.
Proof.
  split; intro H.
  - intro E. apply AId_eqb_eq in E. congruence.
  - destruct (AId_eqb a b) eqn:E; [|reflexivity]. apply AId_eqb_eq in E. contradiction.
Qed.
Lemma AId_eqb_sym a b : AId_eqb a b = AId_eqb b a.
Proof. unfold AId_eqb. apply N.eqb_sym. Qed.
Lemma EId_eqb_eq a b : EId_eqb a b = true <-> a = b.
Proof.
  unfold EId_eqb. rewrite N.eqb_eq. split; intro H; [|subst; reflexivity].
  pose proof (EId_of_idx_idx a) as Ha. rewrite H, EId_of_idx_idx in Ha. congruence.
Qed.
Lemma all_AId_complete a : In a all_AId.
Proof.
  assert (H : nth_error all_AId (N.to_nat (AId_idx a)) = Some a) by (destruct a; reflexivity).
  eapply nth_error_In; eauto.
Qed.
Lemma forall_AId (P : AId -> bool) : forallb P all_AId = true -> forall a, P a = true.
Proof. intros H a. rewrite forallb_forall in H. apply H, all_AId_complete. Qed.

(* ---- lookups ---------------------------------------------------------------------------------- *)
Lemma has_name_eq a x : has_name a x = true <-> a_name x = a.
Proof. apply AId_eqb_eq. Qed.

Lemma has_attr_get a l : has_attr a l = true <-> exists x, get_attr a l = Some x.
Proof.
  unfold has_attr, get_attr. induction l as [|y r IH]; simpl.
  - split; [discriminate | intros [x H]; discriminate].
  - destruct (has_name a y); simpl.
    + split; eauto.
    + exact IH.
Qed.
Lemma has_attr_false a l : has_attr a l = false <-> get_attr a l = None.
Proof.
  unfold has_attr, get_attr. induction l as [|y r IH]; simpl.
  - tauto.
  - destruct (has_name a y); simpl; [split; discriminate | exact IH].
Qed.
Lemma get_attr_name a l x : get_attr a l = Some x -> a_name x = a.
Proof. unfold get_attr. intro H. apply find_some in H. apply has_name_eq, H. Qed.

Lemma get_attr_app a l x :
  get_attr a (l ++ [x]) = match get_attr a l with
                          | Some y => Some y
                          | None => if has_name a x then Some x else None
                          end.
Proof.
  unfold get_attr. induction l as [|y r IH]; simpl.
  - destruct (has_name a x); reflexivity.
  - destruct (has_name a y); [reflexivity | exact IH].
Qed.

Lemma find_has_attr a (ls : list (list attr)) l :
  find (has_attr a) ls = Some l -> exists x, get_attr a l = Some x.
Proof. intro H. apply find_some in H. apply has_attr_get, H. Qed.

(* ---- resolve_value always produces an attribute of the requested name -------------------------- *)
Lemma default_attr_name a x : default_attr a = Some x -> a_name x = a.
Proof. unfold default_attr. destruct (inherit_default a); simpl; intro H; inversion H; reflexivity. Qed.

Lemma resolve_inherit_name anc a imp x : resolve_inherit anc a imp = Some x -> a_name x = a.
Proof.
  unfold resolve_inherit. destruct (resolve_inherit_src anc a); simpl; intro H; inversion H; reflexivity.
Qed.
(* the stored attribute carries the flag of the declaration itself *)
Lemma resolve_inherit_flag anc a imp x : resolve_inherit anc a imp = Some x -> a_imp x = imp.
Proof.
  unfold resolve_inherit. destruct (resolve_inherit_src anc a); simpl; intro H; inversion H; reflexivity.
Qed.

Lemma resolve_value_flag anc tag a v imp x : resolve_value anc tag a v imp = Some x -> a_imp x = imp.
Proof.
  unfold resolve_value.
  destruct (is_dropped_attr a); [discriminate|].
  destruct (is_dropped_on tag a); [discriminate|].
  destruct (allows_inherit_value a && String.eqb v inherit_keyword).
  - apply resolve_inherit_flag.
  - intro H; inversion H; reflexivity.
Qed.
Lemma resolve_value_name anc tag a v imp x : resolve_value anc tag a v imp = Some x -> a_name x = a.
Proof.
  unfold resolve_value.
  destruct (is_dropped_attr a); [discriminate|].
  destruct (is_dropped_on tag a); [discriminate|].
  destruct (allows_inherit_value a && String.eqb v inherit_keyword).
  - apply resolve_inherit_name.
  - intro H; inversion H; reflexivity.
Qed.

(* ---- one iteration of the copy loop ------------------------------------------------------------ *)
Lemma copy_attr_lookup anc tag ig cur av a :
  get_attr a (copy_attr anc tag ig cur av)
  = fold_left step_first (cand_attr anc tag ig a av) (get_attr a cur).
Proof.
  unfold copy_attr, cand_attr.
  destruct (AId_eqb (fst av) a) eqn:E.
  - apply AId_eqb_eq in E.
    destruct (attr_skipped ig (fst av) (snd av)); [reflexivity|]. simpl.
    destruct (resolve_value anc tag (fst av) (snd av) false) as [x|] eqn:R.
    + rewrite get_attr_app. apply resolve_value_name in R.
      assert (Hn : has_name a x = true) by (apply has_name_eq; congruence).
      rewrite Hn. destruct (get_attr a cur); reflexivity.
    + destruct (get_attr a cur); reflexivity.
  - simpl. destruct (attr_skipped ig (fst av) (snd av)); [reflexivity|].
    destruct (resolve_value anc tag (fst av) (snd av) false) as [x|] eqn:R; [|reflexivity].
    rewrite get_attr_app. apply resolve_value_name in R.
    assert (Hn : has_name a x = false).
    { unfold has_name. rewrite R. exact E. }
    rewrite Hn. destruct (get_attr a cur); reflexivity.
Qed.

(* ---- insert_attribute --------------------------------------------------------------------------- *)
Lemma position_none a l : position a l = None -> get_attr a l = None.
Proof.
  unfold get_attr. induction l as [|x r IH]; simpl; [reflexivity|].
  destruct (has_name a x); [discriminate|].
  destruct (position a r); [discriminate|]. intros _. apply IH. reflexivity.
Qed.

Lemma position_some b l i :
  position b l = Some i ->
  exists ex, nth_error l i = Some ex /\ get_attr b l = Some ex /\
    forall nw a, a_name nw = b ->
      get_attr a (set_nth i nw l) = if AId_eqb b a then Some nw else get_attr a l.
Proof.
  unfold get_attr. revert i. induction l as [|x r IH]; simpl; intros i H; [discriminate|].
  destruct (has_name b x) eqn:Hx.
  - inversion H; subst i. exists x. split; [reflexivity|]. split; [reflexivity|].
    intros nw a Hn. simpl. unfold has_name at 1. rewrite Hn.
    rewrite (AId_eqb_sym b a) at 1.
    destruct (AId_eqb b a) eqn:E.
    + rewrite AId_eqb_sym. rewrite E. reflexivity.
    + rewrite AId_eqb_sym, E.
      assert (Hax : has_name a x = false).
      { apply has_name_eq in Hx. unfold has_name. rewrite Hx. exact E. }
      rewrite Hax. reflexivity.
  - destruct (position b r) as [k|] eqn:P; [|discriminate].
    simpl in H. inversion H; subst i.
    destruct (IH k eq_refl) as [ex [H1 [H2 H3]]].
    exists ex. split; [exact H1|]. split; [exact H2|].
    intros nw a Hn. simpl.
    destruct (AId_eqb b a) eqn:E.
    + apply AId_eqb_eq in E. subst a. rewrite Hx.
      specialize (H3 nw b Hn). rewrite AId_eqb_refl in H3. exact H3.
    + destruct (has_name a x); [reflexivity|].
      specialize (H3 nw a Hn). rewrite E in H3. exact H3.
Qed.

(* list facts behind the source-derived fix-up block *)
Lemma set_nth_app_last cur x y : set_nth (length cur) y (cur ++ [x]) = cur ++ [y].
Proof. induction cur as [|c r IH]; simpl; [reflexivity | rewrite IH; reflexivity]. Qed.
Lemma set_nth_app_l i y cur m : (i < length cur)%nat -> set_nth i y (cur ++ m) = set_nth i y cur ++ m.
Proof.
  revert i. induction cur as [|c r IH]; intros i H; simpl in H; [lia|].
  destruct i as [|k]; simpl; [reflexivity|]. rewrite IH by lia. reflexivity.
Qed.
Lemma nth_error_app_last {A} (cur : list A) x : nth_error (cur ++ [x]) (length cur) = Some x.
Proof. induction cur; simpl; [reflexivity | assumption]. Qed.
(* the translated block: with the existing attribute `ex` at position i of `cur` and the new one appended *)
Lemma insert_fixup_spec cur nw i ex :
  nth_error cur i = Some ex ->
  insert_fixup (cur ++ [nw]) i = if new_has_precedence (a_imp ex) then set_nth i nw cur else cur.
Proof.
  intro H. assert (Hi : (i < length cur)%nat) by (apply nth_error_Some; congruence).
  unfold insert_fixup. cbv zeta.
  assert (Hl : (length (cur ++ [nw]) - 1)%nat = length cur) by (rewrite app_length; simpl; lia).
  rewrite Hl.
  assert (Himp : attr_important (cur ++ [nw]) i = a_imp ex).
  { unfold attr_important. rewrite nth_error_app1 by exact Hi. rewrite H. reflexivity. }
  rewrite Himp. unfold new_has_precedence.
  destruct (negb (a_imp ex)).
  - unfold swap_nth. rewrite nth_error_app1 by exact Hi. rewrite H, nth_error_app_last.
    rewrite set_nth_app_last, set_nth_app_l by exact Hi. apply removelast_last.
  - apply removelast_last.
Qed.

Lemma insert_attribute_lookup anc tag cur b v imp a :
  get_attr a (insert_attribute anc tag cur b v imp)
  = fold_left step (cand_one anc tag a v imp b) (get_attr a cur).
Proof.
  unfold insert_attribute, cand_one. cbv zeta.
  destruct (resolve_value anc tag b v imp) as [nw|] eqn:R.
  - pose proof (resolve_value_name _ _ _ _ _ _ R) as Hn.
    destruct (position b cur) as [i|] eqn:P.
    + destruct (position_some _ _ _ P) as [ex [H1 [H2 H3]]].
      rewrite (insert_fixup_spec cur nw i ex H1).
      destruct (AId_eqb b a) eqn:E.
      * apply AId_eqb_eq in E. subst a. simpl. rewrite H2.
        destruct (new_has_precedence (a_imp ex)); [|exact H2].
        rewrite (H3 nw b Hn), AId_eqb_refl. reflexivity.
      * simpl. destruct (new_has_precedence (a_imp ex)); [|reflexivity].
        rewrite (H3 nw a Hn), E. reflexivity.
    + apply position_none in P. rewrite get_attr_app.
      destruct (AId_eqb b a) eqn:E.
      * apply AId_eqb_eq in E. subst a. simpl. rewrite P.
        assert (Hh : has_name b nw = true) by (apply has_name_eq; exact Hn).
        rewrite Hh. reflexivity.
      * simpl. assert (Hh : has_name a nw = false).
        { unfold has_name. rewrite Hn. exact E. }
        rewrite Hh. destruct (get_attr a cur); reflexivity.
  - destruct (AId_eqb b a); simpl; reflexivity.
Qed.

(* generic: a fold whose every step acts on the lookup like a fold of `g` over `c y` *)
Lemma fold_lookup {Y C} (f : list attr -> Y -> list attr) (g : option attr -> C -> option attr)
      (c : Y -> list C) (a : AId) :
  (forall cur y, get_attr a (f cur y) = fold_left g (c y) (get_attr a cur)) ->
  forall l cur, get_attr a (fold_left f l cur) = fold_left g (flat_map c l) (get_attr a cur).
Proof.
  intros H l. induction l as [|y r IH]; intro cur; simpl; [reflexivity|].
  rewrite IH, H, fold_left_app. reflexivity.
Qed.

Lemma write_decl_lookup anc tag cur d a :
  get_attr a (write_decl anc tag cur d) = fold_left step (cand_decl anc tag a d) (get_attr a cur).
Proof.
  unfold write_decl, cand_decl. destruct (d_name d) as [|b].
  - apply (fold_lookup (fun c b => insert_attribute anc tag c b (d_value d) (d_imp d)) step
                       (cand_one anc tag a (d_value d) (d_imp d)) a).
    intros c y. apply insert_attribute_lookup.
  - destruct (is_presentation b); [apply insert_attribute_lookup | reflexivity].
Qed.

(* THE characterisation: the attribute visible under name `a` after parse_svg_element *)
Theorem build_lookup anc x a : get_attr a (build_attrs anc x) = cascade_spec anc x a.
Proof.
  unfold build_attrs, cascade_spec.
  rewrite (fold_lookup (write_decl anc (x_tag x)) step (cand_decl anc (x_tag x) a) a)
    by (intros; apply write_decl_lookup).
  rewrite (fold_lookup (write_decl anc (x_tag x)) step (cand_decl anc (x_tag x) a) a)
    by (intros; apply write_decl_lookup).
  rewrite (fold_lookup (copy_attr anc (x_tag x) (x_ignore_ids x)) step_first
                       (cand_attr anc (x_tag x) (x_ignore_ids x) a) a)
    by (intros; apply copy_attr_lookup).
  rewrite fold_left_app. reflexivity.
Qed.

(* ---- element surgery ---------------------------------------------------------------------------- *)
Definition with_attrs (x : xelem) (l : list (AId * string)) : xelem :=
  {| x_tag := x_tag x; x_ignore_ids := x_ignore_ids x; x_attrs := l; x_css := x_css x; x_style := x_style x |}.
Definition with_css (x : xelem) (l : list decl) : xelem :=
  {| x_tag := x_tag x; x_ignore_ids := x_ignore_ids x; x_attrs := x_attrs x; x_css := l; x_style := x_style x |}.
Definition with_style (x : xelem) (l : list decl) : xelem :=
  {| x_tag := x_tag x; x_ignore_ids := x_ignore_ids x; x_attrs := x_attrs x; x_css := x_css x; x_style := l |}.

(* declaration `d` says nothing about property `p` *)
Definition decl_silent (p : AId) (d : decl) : bool :=
  match d_name d with
  | DMarker => negb (existsb (fun b => AId_eqb b p) marker_shorthand)
  | DAttr b => negb (AId_eqb b p)
  end.
Definition attrs_silent (p : AId) (l : list (AId * string)) : bool :=
  forallb (fun av => negb (AId_eqb (fst av) p)) l.
Definition decls_silent (p : AId) (l : list decl) : bool := forallb (decl_silent p) l.
Definition silent (p : AId) (x : xelem) : bool :=
  attrs_silent p (x_attrs x) && decls_silent p (x_css x) && decls_silent p (x_style x).

Lemma flat_map_nil {A B} (f : A -> list B) l : (forall y, In y l -> f y = []) -> flat_map f l = [].
Proof.
  induction l as [|y r IH]; simpl; intro H; [reflexivity|].
  rewrite (H y) by (left; reflexivity). simpl. apply IH. intros z Hz. apply H. right. exact Hz.
Qed.

Lemma attrs_silent_cand anc tag ig p l : attrs_silent p l = true -> flat_map (cand_attr anc tag ig p) l = [].
Proof.
  intro H. apply flat_map_nil. intros av Hin. unfold attrs_silent in H. rewrite forallb_forall in H.
  specialize (H av Hin). unfold cand_attr. apply negb_true_iff in H. rewrite H. reflexivity.
Qed.
Lemma decl_silent_cand anc tag p d : decl_silent p d = true -> cand_decl anc tag p d = [].
Proof.
  unfold decl_silent, cand_decl. destruct (d_name d) as [|b]; intro H.
  - apply flat_map_nil. intros b Hb. unfold cand_one.
    apply negb_true_iff in H. destruct (AId_eqb b p) eqn:E; [|reflexivity].
    exfalso. assert (existsb (fun b => AId_eqb b p) marker_shorthand = true).
    { apply existsb_exists. exists b. split; assumption. } congruence.
  - unfold cand_one. apply negb_true_iff in H. rewrite H. destruct (is_presentation b); reflexivity.
Qed.
Lemma decls_silent_cand anc tag p l : decls_silent p l = true -> flat_map (cand_decl anc tag p) l = [].
Proof.
  intro H. apply flat_map_nil. intros d Hin. unfold decls_silent in H. rewrite forallb_forall in H.
  apply decl_silent_cand, H, Hin.
Qed.
Lemma attrs_silent_app p l m : attrs_silent p (l ++ m) = attrs_silent p l && attrs_silent p m.
Proof. apply forallb_app. Qed.
Lemma decls_silent_app p l m : decls_silent p (l ++ m) = decls_silent p l && decls_silent p m.
Proof. apply forallb_app. Qed.

(* candidates of a declaration about `p` for another name `q` *)
Lemma cand_attr_other anc tag ig p q v : p <> q -> cand_attr anc tag ig q (p, v) = [].
Proof. intro H. unfold cand_attr. simpl. apply AId_eqb_neq in H. rewrite H. reflexivity. Qed.
Lemma cand_decl_other anc tag p q v i : p <> q -> cand_decl anc tag q (dc p v i) = [].
Proof.
  intro H. unfold cand_decl, dc, cand_one. simpl. apply AId_eqb_neq in H. rewrite H.
  destruct (is_presentation p); reflexivity.
Qed.
Lemma cand_attr_self anc tag ig p v :
  attr_skipped ig p v = false -> cand_attr anc tag ig p (p, v) = [resolve_value anc tag p v false].
Proof. intro H. unfold cand_attr. simpl. rewrite AId_eqb_refl, H. reflexivity. Qed.
Lemma cand_attr_skipped anc tag ig p q v : attr_skipped ig p v = true -> cand_attr anc tag ig q (p, v) = [].
Proof. intro H. unfold cand_attr. simpl. rewrite H. destruct (AId_eqb p q); reflexivity. Qed.
Lemma cand_decl_self anc tag p v i :
  is_presentation p = true -> cand_decl anc tag p (dc p v i) = [resolve_value anc tag p v i].
Proof. intro H. unfold cand_decl, dc, cand_one. simpl. rewrite H, AId_eqb_refl. reflexivity. Qed.

Lemma flat_map_mid {A B} (f : A -> list B) l1 y l2 :
  flat_map f (l1 ++ y :: l2) = flat_map f l1 ++ f y ++ flat_map f l2.
Proof. rewrite flat_map_app. reflexivity. Qed.

Lemma step_first_fold_some l x : fold_left step_first l (Some x) = Some x.
Proof. induction l as [|y r IH]; simpl; [reflexivity | exact IH]. Qed.

(* lookups of the three single-source variants, for the property itself *)
Section SingleSource.
  Variables (anc : list (list attr)) (x : xelem) (p : AId) (v : string).
  Hypothesis Hsil : silent p x = true.

  Let Ha : attrs_silent p (x_attrs x) = true.
  Proof. unfold silent in Hsil. apply andb_true_iff in Hsil as [H _]. apply andb_true_iff in H as [H _]. exact H. Qed.
  Let Hc : decls_silent p (x_css x) = true.
  Proof. unfold silent in Hsil. apply andb_true_iff in Hsil as [H _]. apply andb_true_iff in H as [_ H]. exact H. Qed.
  Let Hs : decls_silent p (x_style x) = true.
  Proof. unfold silent in Hsil. apply andb_true_iff in Hsil as [_ H]. exact H. Qed.

  Lemma silent_lookup : get_attr p (build_attrs anc x) = None.
  Proof.
    rewrite build_lookup. unfold cascade_spec.
    rewrite attrs_silent_cand, !decls_silent_cand by assumption. reflexivity.
  Qed.

  Lemma attr_variant_lookup l1 l2 :
    x_attrs x = l1 ++ l2 -> attr_skipped (x_ignore_ids x) p v = false ->
    get_attr p (build_attrs anc (with_attrs x (l1 ++ (p, v) :: l2))) = resolve_value anc (x_tag x) p v false.
  Proof.
    intros E Hk. rewrite build_lookup. unfold cascade_spec. simpl.
    rewrite E in Ha. rewrite attrs_silent_app in Ha. apply andb_true_iff in Ha as [Ha1 Ha2].
    rewrite flat_map_mid, !attrs_silent_cand, !decls_silent_cand by assumption.
    rewrite cand_attr_self by assumption. simpl.
    destruct (resolve_value anc (x_tag x) p v false); reflexivity.
  Qed.

  Lemma css_variant_lookup c1 c2 i :
    x_css x = c1 ++ c2 -> is_presentation p = true ->
    get_attr p (build_attrs anc (with_css x (c1 ++ dc p v i :: c2))) = resolve_value anc (x_tag x) p v i.
  Proof.
    intros E Hp. rewrite build_lookup. unfold cascade_spec. simpl.
    rewrite E in Hc. rewrite decls_silent_app in Hc. apply andb_true_iff in Hc as [Hc1 Hc2].
    rewrite flat_map_mid, attrs_silent_cand, !decls_silent_cand by assumption.
    rewrite cand_decl_self by assumption. simpl.
    destruct (resolve_value anc (x_tag x) p v i); reflexivity.
  Qed.

  Lemma style_variant_lookup s1 s2 i :
    x_style x = s1 ++ s2 -> is_presentation p = true ->
    get_attr p (build_attrs anc (with_style x (s1 ++ dc p v i :: s2))) = resolve_value anc (x_tag x) p v i.
  Proof.
    intros E Hp. rewrite build_lookup. unfold cascade_spec. simpl.
    rewrite E in Hs. rewrite decls_silent_app in Hs. apply andb_true_iff in Hs as [Hs1 Hs2].
    rewrite flat_map_mid, attrs_silent_cand, !decls_silent_cand by assumption.
    rewrite cand_decl_self by assumption. simpl.
    destruct (resolve_value anc (x_tag x) p v i); reflexivity.
  Qed.
End SingleSource.

(* a declaration about `p` does not change what any other name sees *)
Lemma attr_variant_other anc x p v l1 l2 q :
  p <> q -> get_attr q (build_attrs anc (with_attrs x (l1 ++ (p, v) :: l2)))
          = get_attr q (build_attrs anc (with_attrs x (l1 ++ l2))).
Proof.
  intro H. rewrite !build_lookup. unfold cascade_spec. simpl.
  rewrite flat_map_mid, flat_map_app, cand_attr_other by assumption. reflexivity.
Qed.
Lemma css_variant_other anc x p v i c1 c2 q :
  p <> q -> get_attr q (build_attrs anc (with_css x (c1 ++ dc p v i :: c2)))
          = get_attr q (build_attrs anc (with_css x (c1 ++ c2))).
Proof.
  intro H. rewrite !build_lookup. unfold cascade_spec. simpl.
  rewrite flat_map_mid, flat_map_app, cand_decl_other by assumption. reflexivity.
Qed.
Lemma style_variant_other anc x p v i s1 s2 q :
  p <> q -> get_attr q (build_attrs anc (with_style x (s1 ++ dc p v i :: s2)))
          = get_attr q (build_attrs anc (with_style x (s1 ++ s2))).
Proof.
  intro H. rewrite !build_lookup. unfold cascade_spec. simpl.
  rewrite flat_map_mid, flat_map_app, cand_decl_other by assumption. reflexivity.
Qed.
Lemma with_attrs_id x : with_attrs x (x_attrs x) = x. Proof. destruct x; reflexivity. Qed.
Lemma with_css_id x : with_css x (x_css x) = x. Proof. destruct x; reflexivity. Qed.
Lemma with_style_id x : with_style x (x_style x) = x. Proof. destruct x; reflexivity. Qed.

(* ---- C09 spelling theorems ---------------------------------------------------------------------- *)

(* attribute == style declaration == matched CSS declaration, for every name looked up *)
Theorem attr_eq_style anc x p v l1 l2 s1 s2 :
  silent p x = true -> x_attrs x = l1 ++ l2 -> x_style x = s1 ++ s2 ->
  is_presentation p = true -> attr_skipped (x_ignore_ids x) p v = false ->
  forall q, get_attr q (build_attrs anc (with_attrs x (l1 ++ (p, v) :: l2)))
          = get_attr q (build_attrs anc (with_style x (s1 ++ dc p v false :: s2))).
Proof.
  intros Hs Ea Es Hp Hk q. destruct (AId_eqb p q) eqn:E.
  - apply AId_eqb_eq in E. subst q.
    rewrite attr_variant_lookup, style_variant_lookup by assumption. reflexivity.
  - apply AId_eqb_neq in E. rewrite attr_variant_other, style_variant_other by assumption.
    rewrite <- Ea, <- Es, with_attrs_id, with_style_id. reflexivity.
Qed.

Theorem attr_eq_css anc x p v l1 l2 c1 c2 :
  silent p x = true -> x_attrs x = l1 ++ l2 -> x_css x = c1 ++ c2 ->
  is_presentation p = true -> attr_skipped (x_ignore_ids x) p v = false ->
  forall q, get_attr q (build_attrs anc (with_attrs x (l1 ++ (p, v) :: l2)))
          = get_attr q (build_attrs anc (with_css x (c1 ++ dc p v false :: c2))).
Proof.
  intros Hs Ea Ec Hp Hk q. destruct (AId_eqb p q) eqn:E.
  - apply AId_eqb_eq in E. subst q.
    rewrite attr_variant_lookup, css_variant_lookup by assumption. reflexivity.
  - apply AId_eqb_neq in E. rewrite attr_variant_other, css_variant_other by assumption.
    rewrite <- Ea, <- Ec, with_attrs_id, with_css_id. reflexivity.
Qed.

(* a single important declaration resolves like the plain one (value-wise) *)
Theorem important_alone anc x p v c1 c2 :
  silent p x = true -> x_css x = c1 ++ c2 -> is_presentation p = true ->
  option_map a_value (get_attr p (build_attrs anc (with_css x (c1 ++ dc p v true :: c2))))
  = option_map a_value (get_attr p (build_attrs anc (with_css x (c1 ++ dc p v false :: c2)))).
Proof.
  intros Hs Ec Hp. rewrite !css_variant_lookup by assumption.
  unfold resolve_value.
  destruct (is_dropped_attr p); [reflexivity|]. destruct (is_dropped_on (x_tag x) p); [reflexivity|].
  destruct (allows_inherit_value p && String.eqb v inherit_keyword); [|reflexivity].
  unfold resolve_inherit. destruct (resolve_inherit_src anc p); reflexivity.
Qed.

(* the attribute spelling of a skipped property (style-only names, CSS-only image-rendering values,
   `id` inside a use expansion) is ignored *)
Theorem skipped_attr_ignored anc x p v l1 l2 :
  attr_skipped (x_ignore_ids x) p v = true ->
  forall q, get_attr q (build_attrs anc (with_attrs x (l1 ++ (p, v) :: l2)))
          = get_attr q (build_attrs anc (with_attrs x (l1 ++ l2))).
Proof.
  intros Hk q. rewrite !build_lookup. unfold cascade_spec. simpl.
  rewrite flat_map_mid, flat_map_app, cand_attr_skipped by assumption. reflexivity.
Qed.
Theorem style_only_attr_ignored anc x p v l1 l2 :
  is_style_only p = true ->
  forall q, get_attr q (build_attrs anc (with_attrs x (l1 ++ (p, v) :: l2)))
          = get_attr q (build_attrs anc (with_attrs x (l1 ++ l2))).
Proof.
  intro H. apply skipped_attr_ignored. unfold attr_skipped. rewrite H.
  destruct (x_ignore_ids x && AId_eqb p ignored_id_attr); reflexivity.
Qed.

(* ---- precedence ---------------------------------------------------------------------------------- *)
(* `literal`: the value is stored as written (not dropped, not the inherit keyword) *)
Definition literal (tag : EId) (p : AId) (v : string) : bool :=
  negb (is_dropped_attr p) && negb (is_dropped_on tag p)
  && negb (allows_inherit_value p && String.eqb v inherit_keyword).
Lemma literal_resolve anc tag p v i : literal tag p v = true -> resolve_value anc tag p v i = Some (mk p v i).
Proof.
  unfold literal, resolve_value. intro H.
  apply andb_true_iff in H as [H H3]. apply andb_true_iff in H as [H1 H2].
  apply negb_true_iff in H1, H2, H3. rewrite H1, H2, H3. reflexivity.
Qed.

(* all three sources at once, the rest of the element silent about p *)
Theorem three_sources anc x p va vc ic vs is_ l1 l2 c1 c2 s1 s2 :
  silent p x = true -> x_attrs x = l1 ++ l2 -> x_css x = c1 ++ c2 -> x_style x = s1 ++ s2 ->
  is_presentation p = true -> attr_skipped (x_ignore_ids x) p va = false ->
  get_attr p (build_attrs anc
     (with_style (with_css (with_attrs x (l1 ++ (p, va) :: l2)) (c1 ++ dc p vc ic :: c2)) (s1 ++ dc p vs is_ :: s2)))
  = step (step (resolve_value anc (x_tag x) p va false) (resolve_value anc (x_tag x) p vc ic))
         (resolve_value anc (x_tag x) p vs is_).
Proof.
  intros Hs Ea Ec Es Hp Hk. rewrite build_lookup. unfold cascade_spec. simpl.
  unfold silent in Hs. apply andb_true_iff in Hs as [Hs Hs3]. apply andb_true_iff in Hs as [Hs1 Hs2].
  rewrite Ea, attrs_silent_app in Hs1. apply andb_true_iff in Hs1 as [A1 A2].
  rewrite Ec, decls_silent_app in Hs2. apply andb_true_iff in Hs2 as [C1 C2].
  rewrite Es, decls_silent_app in Hs3. apply andb_true_iff in Hs3 as [S1 S2].
  rewrite !flat_map_mid, !attrs_silent_cand, !decls_silent_cand by assumption.
  rewrite cand_attr_self, !cand_decl_self by assumption. simpl.
  destruct (resolve_value anc (x_tag x) p va false); reflexivity.
Qed.

(* two CSS declarations (rule order c-then-d), the rest silent *)
Theorem two_css anc x p v1 i1 v2 i2 c1 c2 c3 :
  silent p x = true -> x_css x = c1 ++ c2 ++ c3 -> is_presentation p = true ->
  get_attr p (build_attrs anc (with_css x (c1 ++ dc p v1 i1 :: c2 ++ dc p v2 i2 :: c3)))
  = step (resolve_value anc (x_tag x) p v1 i1) (resolve_value anc (x_tag x) p v2 i2).
Proof.
  intros Hs Ec Hp. rewrite build_lookup. unfold cascade_spec. simpl.
  unfold silent in Hs. apply andb_true_iff in Hs as [Hs Hs3]. apply andb_true_iff in Hs as [Hs1 Hs2].
  rewrite Ec, !decls_silent_app in Hs2. apply andb_true_iff in Hs2 as [C1 C23]. apply andb_true_iff in C23 as [C2 C3].
  rewrite flat_map_mid, flat_map_mid, attrs_silent_cand, !decls_silent_cand by assumption.
  rewrite !cand_decl_self by assumption. simpl.
  destruct (resolve_value anc (x_tag x) p v1 i1); reflexivity.
Qed.

(* any subset of the three sources: absent sources contribute nothing *)
Definition opt_ins {A} (l1 : list A) (o : option A) (l2 : list A) : list A :=
  l1 ++ match o with Some y => [y] | None => [] end ++ l2.
Definition ob {A} (o : option A) (f : A -> option attr) : option attr :=
  match o with Some y => f y | None => None end.
Lemma flat_map_opt_ins {A B} (f : A -> list B) l1 o l2 :
  flat_map f (opt_ins l1 o l2) = flat_map f l1 ++ match o with Some y => f y | None => [] end ++ flat_map f l2.
Proof.
  unfold opt_ins. rewrite !flat_map_app. destruct o; simpl; [rewrite app_nil_r|]; reflexivity.
Qed.
Lemma step_none_r st : step st None = st.
Proof. reflexivity. Qed.

Theorem sources_lookup anc x p oa oc os l1 l2 c1 c2 s1 s2 :
  silent p x = true -> x_attrs x = l1 ++ l2 -> x_css x = c1 ++ c2 -> x_style x = s1 ++ s2 ->
  is_presentation p = true ->
  (forall va, oa = Some va -> attr_skipped (x_ignore_ids x) p va = false) ->
  get_attr p (build_attrs anc
     (with_style (with_css (with_attrs x (opt_ins l1 (option_map (pair p) oa) l2))
                           (opt_ins c1 (option_map (fun vi => dc p (fst vi) (snd vi)) oc) c2))
                 (opt_ins s1 (option_map (fun vi => dc p (fst vi) (snd vi)) os) s2)))
  = step (step (ob oa (fun va => resolve_value anc (x_tag x) p va false))
               (ob oc (fun vi => resolve_value anc (x_tag x) p (fst vi) (snd vi))))
         (ob os (fun vi => resolve_value anc (x_tag x) p (fst vi) (snd vi))).
Proof.
  intros Hs Ea Ec Es Hp Hk. rewrite build_lookup. unfold cascade_spec. simpl.
  unfold silent in Hs. apply andb_true_iff in Hs as [Hs Hs3]. apply andb_true_iff in Hs as [Hs1 Hs2].
  rewrite Ea, attrs_silent_app in Hs1. apply andb_true_iff in Hs1 as [A1 A2].
  rewrite Ec, decls_silent_app in Hs2. apply andb_true_iff in Hs2 as [C1 C2].
  rewrite Es, decls_silent_app in Hs3. apply andb_true_iff in Hs3 as [S1 S2].
  rewrite !flat_map_opt_ins, !attrs_silent_cand, !decls_silent_cand by assumption.
  destruct oa as [va|], oc as [[vc ic]|], os as [[vs is_]|]; simpl;
    try rewrite (cand_attr_self anc (x_tag x) (x_ignore_ids x) p va (Hk va eq_refl));
    try rewrite !cand_decl_self by assumption; simpl;
    try (destruct (resolve_value anc (x_tag x) p va false)); reflexivity.
Qed.

Lemma step_literal p v1 i1 v2 i2 :
  step (Some (mk p v1 i1)) (Some (mk p v2 i2)) = if new_has_precedence i1 then Some (mk p v2 i2) else Some (mk p v1 i1).
Proof. reflexivity. Qed.

(* ---- permutation of attributes ------------------------------------------------------------------ *)
Lemma get_attr_perm a l l' :
  Permutation l l' -> NoDup (map a_name l) -> get_attr a l = get_attr a l'.
Proof.
  unfold get_attr. induction 1; intro Hn.
  - reflexivity.
  - simpl. destruct (has_name a x); [reflexivity|]. apply IHPermutation. inversion Hn; assumption.
  - simpl. destruct (has_name a y) eqn:Hy, (has_name a x) eqn:Hx; try reflexivity.
    exfalso. apply has_name_eq in Hy, Hx. inversion Hn as [|? ? Hnot _]; subst. apply Hnot. simpl. left. congruence.
  - rewrite IHPermutation1 by assumption. apply IHPermutation2.
    eapply Permutation_NoDup; [|exact Hn]. apply Permutation_map. assumption.
Qed.

Lemma filter_names_le1 (q : AId) (l : list (AId * string)) :
  NoDup (map fst l) -> (length (filter (fun av => AId_eqb (fst av) q) l) <= 1)%nat.
Proof.
  induction l as [|av r IH]; simpl; intro Hn; [lia|].
  inversion Hn as [|? ? Hnot Hr]; subst.
  destruct (AId_eqb (fst av) q) eqn:E; [|apply IH; assumption].
  simpl. assert (filter (fun av0 => AId_eqb (fst av0) q) r = []) as ->; [|simpl; lia].
  destruct (filter (fun av0 => AId_eqb (fst av0) q) r) as [|z t] eqn:F; [reflexivity|].
  exfalso. assert (In z (filter (fun av0 => AId_eqb (fst av0) q) r)) as Hz by (rewrite F; left; reflexivity).
  apply filter_In in Hz as [Hz1 Hz2]. apply AId_eqb_eq in E, Hz2. apply Hnot.
  apply in_map_iff. exists z. split; [congruence | assumption].
Qed.

Lemma flat_map_filter {A B} (f : A -> list B) (P : A -> bool) l :
  (forall y, P y = false -> f y = []) -> flat_map f l = flat_map f (filter P l).
Proof.
  intro H. induction l as [|y r IH]; simpl; [reflexivity|].
  destruct (P y) eqn:E; simpl; [rewrite IH; reflexivity | rewrite (H y E); exact IH].
Qed.

Lemma perm_le1 {A} (l l' : list A) : Permutation l l' -> (length l <= 1)%nat -> l = l'.
Proof.
  intros HP Hl. destruct l as [|x [|y r]]; simpl in Hl; try lia.
  - apply Permutation_nil in HP. subst; reflexivity.
  - apply Permutation_length_1_inv in HP. subst; reflexivity.
Qed.

Lemma filter_perm {A} (P : A -> bool) l l' : Permutation l l' -> Permutation (filter P l) (filter P l').
Proof.
  induction 1; simpl.
  - constructor.
  - destruct (P x); [constructor|]; assumption.
  - destruct (P x), (P y); try apply Permutation_refl; apply perm_swap.
  - eapply Permutation_trans; eassumption.
Qed.

Theorem attr_order anc x l l' :
  Permutation l l' -> NoDup (map fst l) ->
  forall q, get_attr q (build_attrs anc (with_attrs x l)) = get_attr q (build_attrs anc (with_attrs x l')).
Proof.
  intros HP Hn q. rewrite !build_lookup. unfold cascade_spec. simpl.
  set (P := fun av : AId * string => AId_eqb (fst av) q).
  assert (Hf : forall av, P av = false -> cand_attr anc (x_tag x) (x_ignore_ids x) q av = []).
  { intros av E. unfold cand_attr. unfold P in E. rewrite E. reflexivity. }
  rewrite (flat_map_filter _ P l Hf), (flat_map_filter _ P l' Hf).
  rewrite (perm_le1 _ _ (filter_perm P _ _ HP) (filter_names_le1 q l Hn)). reflexivity.
Qed.

(* ---- inherit -------------------------------------------------------------------------------------- *)
Definition inheriting (p : AId) : bool := allows_inherit_value p && negb (is_dropped_attr p).

Lemma resolve_value_inherit anc tag p i :
  allows_inherit_value p = true -> is_dropped_attr p = false -> is_dropped_on tag p = false ->
  resolve_value anc tag p inherit_keyword i = resolve_inherit anc p i.
Proof.
  intros H1 H2 H3. unfold resolve_value. rewrite H1, H2, H3, String.eqb_refl. reflexivity.
Qed.

(* find_attribute through a self list that does not have p *)
Lemma find_attribute_skip self anc p :
  is_inheritable p = true -> get_attr p self = None ->
  find_attribute self anc p = match find (has_attr p) anc with Some l => get_attr p l | None => None end.
Proof.
  intros Hi Hg. unfold find_attribute. rewrite Hi. simpl.
  apply has_attr_false in Hg. rewrite Hg. reflexivity.
Qed.
Lemma find_attribute_self self anc p x :
  get_attr p self = Some x -> find_attribute self anc p = Some x.
Proof.
  intro Hg. assert (Hh : has_attr p self = true) by (apply has_attr_get; eauto).
  unfold find_attribute. destruct (is_inheritable p); simpl; rewrite Hh; exact Hg.
Qed.

(* for an inheritable property, a child saying `inherit` (in whatever source) sees what it would see
   without saying anything; with no ancestor to inherit from it sees the table default *)
Theorem inherit_inheritable_lookup anc p imp self self' :
  is_inheritable p = true ->
  get_attr p self = None ->                          (* the child without the declaration *)
  get_attr p self' = resolve_inherit anc p imp ->    (* the child with `p: inherit` *)
  option_map a_value (find_attribute self' anc p)
  = match option_map a_value (find_attribute self anc p) with
    | Some v => Some v
    | None => inherit_default p
    end.
Proof.
  intros Hi H0 H1. rewrite (find_attribute_skip self anc p Hi H0).
  unfold resolve_inherit, resolve_inherit_src in H1. rewrite Hi in H1.
  destruct (find (has_attr p) anc) as [l|] eqn:F.
  - destruct (find_has_attr _ _ _ F) as [y Hy]. rewrite Hy in *. simpl in H1.
    rewrite (find_attribute_self self' anc p _ H1). reflexivity.
  - unfold default_attr in H1. destruct (inherit_default p) as [d|]; simpl in *.
    + rewrite (find_attribute_self self' anc p _ H1). reflexivity.
    + rewrite (find_attribute_skip self' anc p Hi H1), F. reflexivity.
Qed.

Theorem inherit_noninheritable_lookup anc p imp self' :
  is_inheritable p = false ->
  get_attr p self' = resolve_inherit anc p imp ->
  lookup p self' = match anc with
                   | parent :: _ => match lookup p parent with Some v => Some v | None => inherit_default p end
                   | [] => inherit_default p
                   end.
Proof.
  intros Hi H1. unfold lookup. rewrite H1. unfold resolve_inherit, resolve_inherit_src. rewrite Hi.
  destruct anc as [|parent r].
  - unfold default_attr. destruct (inherit_default p); reflexivity.
  - destruct (get_attr p parent); [reflexivity|].
    unfold default_attr. destruct (inherit_default p); reflexivity.
Qed.

(* no source to inherit from: `inherit` is the table default written explicitly *)
Definition no_inherit_source (anc : list (list attr)) (p : AId) : bool :=
  if is_inheritable p then negb (existsb (has_attr p) anc)
  else match anc with parent :: _ => negb (has_attr p parent) | [] => true end.
Lemma existsb_find_none {A} (f : A -> bool) l : existsb f l = false -> find f l = None.
Proof.
  induction l as [|y r IH]; simpl; [reflexivity|]. destruct (f y); simpl; [discriminate | exact IH].
Qed.
Lemma resolve_inherit_default anc p imp :
  no_inherit_source anc p = true -> resolve_inherit anc p imp = option_map (with_flag p imp) (default_attr p).
Proof.
  unfold no_inherit_source, resolve_inherit, resolve_inherit_src. destruct (is_inheritable p).
  - intro H. apply negb_true_iff in H. rewrite (existsb_find_none _ _ H). reflexivity.
  - destruct anc as [|parent r]; [reflexivity|]. intro H. apply negb_true_iff, has_attr_false in H.
    rewrite H. reflexivity.
Qed.

(* ---- table sanity (by computation over the generated enumeration) ---------------------------- *)
Definition default_entry_ok (a : AId) : bool :=
  match inherit_default a with
  | Some d => allows_inherit_value a && negb (String.eqb d inherit_keyword) && negb (is_dropped_attr a)
  | None => true
  end.
Lemma default_table_ok : forall a, default_entry_ok a = true.
Proof. apply forall_AId. vm_compute. reflexivity. Qed.
Definition class_entry_ok (a : AId) : bool :=
  (* style-only names are presentation properties (otherwise no spelling would reach them), and the
     dropped names are not *)
  implb (is_style_only a) (is_presentation a) && implb (is_dropped_attr a) (negb (is_presentation a))
  && implb (is_non_inheritable a) (is_presentation a).
Lemma class_table_ok : forall a, class_entry_ok a = true.
Proof. apply forall_AId. vm_compute. reflexivity. Qed.

(* ---- spellings: one declaration `p: v` inserted at any position of any of the three sources ------ *)
Inductive spelling := SpAttr | SpCss (important : bool) | SpStyle (important : bool).
Definition sp_imp (sp : spelling) : bool :=
  match sp with SpAttr => false | SpCss i => i | SpStyle i => i end.
Definition ins_at {A} (n : nat) (y : A) (l : list A) : list A := firstn n l ++ y :: skipn n l.
Definition declare (x : xelem) (sp : spelling) (n : nat) (p : AId) (v : string) : xelem :=
  match sp with
  | SpAttr => with_attrs x (ins_at n (p, v) (x_attrs x))
  | SpCss i => with_css x (ins_at n (dc p v i) (x_css x))
  | SpStyle i => with_style x (ins_at n (dc p v i) (x_style x))
  end.
(* the attribute spelling is only available when the copy loop does not skip it *)
Definition spelling_ok (x : xelem) (sp : spelling) (p : AId) (v : string) : bool :=
  match sp with SpAttr => negb (attr_skipped (x_ignore_ids x) p v) | _ => true end.

Lemma declare_lookup anc x sp n p v :
  silent p x = true -> is_presentation p = true -> spelling_ok x sp p v = true ->
  get_attr p (build_attrs anc (declare x sp n p v)) = resolve_value anc (x_tag x) p v (sp_imp sp).
Proof.
  intros Hs Hp Hok. destruct sp as [|i|i]; simpl.
  - apply attr_variant_lookup; try assumption.
    + symmetry. apply firstn_skipn.
    + simpl in Hok. apply negb_true_iff in Hok. exact Hok.
  - apply css_variant_lookup; try assumption. symmetry. apply firstn_skipn.
  - apply style_variant_lookup; try assumption. symmetry. apply firstn_skipn.
Qed.
Lemma declare_other anc x sp n p v q :
  p <> q -> get_attr q (build_attrs anc (declare x sp n p v)) = get_attr q (build_attrs anc x).
Proof.
  intro H. destruct sp as [|i|i]; simpl; unfold ins_at.
  - rewrite attr_variant_other, firstn_skipn, with_attrs_id by assumption. reflexivity.
  - rewrite css_variant_other, firstn_skipn, with_css_id by assumption. reflexivity.
  - rewrite style_variant_other, firstn_skipn, with_style_id by assumption. reflexivity.
Qed.

Lemma resolve_value_imp_value anc tag p v i j :
  option_map a_value (resolve_value anc tag p v i) = option_map a_value (resolve_value anc tag p v j).
Proof.
  unfold resolve_value.
  destruct (is_dropped_attr p); [reflexivity|]. destruct (is_dropped_on tag p); [reflexivity|].
  destruct (allows_inherit_value p && String.eqb v inherit_keyword); [|reflexivity].
  unfold resolve_inherit. destruct (resolve_inherit_src anc p); reflexivity.
Qed.

(* the value every name resolves to does not depend on which source carries the declaration, nor on
   where in that source it stands, nor on a lone `!important` *)
Theorem spelling_independent anc x p v sp sp' n n' :
  silent p x = true -> is_presentation p = true ->
  spelling_ok x sp p v = true -> spelling_ok x sp' p v = true ->
  forall q, lookup q (build_attrs anc (declare x sp n p v)) = lookup q (build_attrs anc (declare x sp' n' p v)).
Proof.
  intros Hs Hp H1 H2 q. unfold lookup. destruct (AId_eqb p q) eqn:E.
  - apply AId_eqb_eq in E. subst q. rewrite !declare_lookup by assumption. apply resolve_value_imp_value.
  - apply AId_eqb_neq in E. rewrite !declare_other by assumption. reflexivity.
Qed.

Lemma presentation_not_dropped p : is_presentation p = true -> is_dropped_attr p = false.
Proof.
  intro H. pose proof (class_table_ok p) as C. unfold class_entry_ok in C.
  destruct (is_dropped_attr p); [|reflexivity]. rewrite H in C. simpl in C.
  destruct (is_style_only p); simpl in C; discriminate.
Qed.

Theorem inherit_inheritable anc x p sp n :
  silent p x = true -> is_presentation p = true -> is_inheritable p = true ->
  allows_inherit_value p = true -> is_dropped_on (x_tag x) p = false ->
  spelling_ok x sp p inherit_keyword = true ->
  find_value (build_attrs anc (declare x sp n p inherit_keyword)) anc p
  = match find_value (build_attrs anc x) anc p with Some v => Some v | None => inherit_default p end.
Proof.
  intros Hs Hp Hi Ha Hd Hok. unfold find_value. apply (inherit_inheritable_lookup anc p (sp_imp sp)); try assumption.
  - apply silent_lookup. assumption.
  - rewrite declare_lookup by assumption. apply resolve_value_inherit; try assumption.
    apply presentation_not_dropped. assumption.
Qed.

Theorem inherit_noninheritable anc x p sp n :
  silent p x = true -> is_presentation p = true -> is_inheritable p = false ->
  allows_inherit_value p = true -> is_dropped_on (x_tag x) p = false ->
  spelling_ok x sp p inherit_keyword = true ->
  lookup p (build_attrs anc (declare x sp n p inherit_keyword))
  = match anc with
    | parent :: _ => match lookup p parent with Some v => Some v | None => inherit_default p end
    | [] => inherit_default p
    end.
Proof.
  intros Hs Hp Hi Ha Hd Hok. apply (inherit_noninheritable_lookup anc p (sp_imp sp)); try assumption.
  rewrite declare_lookup by assumption. apply resolve_value_inherit; try assumption.
  apply presentation_not_dropped. assumption.
Qed.

(* ... which is the same as writing the parent's value on the child, in any spelling *)
Theorem inherit_noninheritable_copy anc parent x p v sp n sp' n' :
  silent p x = true -> is_presentation p = true -> is_inheritable p = false ->
  allows_inherit_value p = true ->
  spelling_ok x sp p inherit_keyword = true -> spelling_ok x sp' p v = true ->
  lookup p parent = Some v -> literal (x_tag x) p v = true ->
  lookup p (build_attrs (parent :: anc) (declare x sp n p inherit_keyword))
  = lookup p (build_attrs (parent :: anc) (declare x sp' n' p v)).
Proof.
  intros Hs Hp Hi Ha Hok Hok' Hl Hlit.
  assert (Hd : is_dropped_on (x_tag x) p = false).
  { unfold literal in Hlit. apply andb_true_iff in Hlit as [H _]. apply andb_true_iff in H as [_ H].
    apply negb_true_iff in H. exact H. }
  rewrite (inherit_noninheritable (parent :: anc) x p sp n) by assumption. rewrite Hl.
  unfold lookup at 1. rewrite declare_lookup, literal_resolve by assumption. reflexivity.
Qed.

(* with nothing to inherit from, `inherit` is the table default written explicitly (any spelling) *)
Theorem default_explicit anc x p d sp n sp' n' :
  silent p x = true -> is_presentation p = true -> is_dropped_on (x_tag x) p = false ->
  inherit_default p = Some d -> no_inherit_source anc p = true ->
  spelling_ok x sp p inherit_keyword = true -> spelling_ok x sp' p d = true ->
  lookup p (build_attrs anc (declare x sp n p inherit_keyword)) = Some d /\
  lookup p (build_attrs anc (declare x sp' n' p d)) = Some d.
Proof.
  intros Hs Hp Hd Hdef Hno Hok Hok'.
  pose proof (default_table_ok p) as T. unfold default_entry_ok in T. rewrite Hdef in T.
  apply andb_true_iff in T as [T T3]. apply andb_true_iff in T as [T1 T2].
  apply negb_true_iff in T2, T3. unfold lookup. split.
  - rewrite declare_lookup, resolve_value_inherit, resolve_inherit_default by assumption.
    unfold default_attr. rewrite Hdef. reflexivity.
  - assert (Hlit : literal (x_tag x) p d = true).
    { unfold literal. rewrite T3, Hd, T2, andb_false_r. reflexivity. }
    rewrite declare_lookup, literal_resolve by assumption. reflexivity.
Qed.

(* ---- shadowed declarations ---------------------------------------------------------------------------
   A presentation attribute (never important, whatever it says - `inherit` included, since 7ac03db) does not
   matter once a matched CSS declaration of the property exists.  (Before 7ac03db an `inherit` attribute copied
   the important flag of its source and could then not be replaced: former class inherit-copies-important.) *)
Theorem shadowed_attr anc x p va vc ic l1 l2 c1 c2 :
  silent p x = true -> x_attrs x = l1 ++ l2 -> x_css x = c1 ++ c2 ->
  is_presentation p = true -> attr_skipped (x_ignore_ids x) p va = false ->
  literal (x_tag x) p vc = true ->
  lookup p (build_attrs anc (with_css (with_attrs x (l1 ++ (p, va) :: l2)) (c1 ++ dc p vc ic :: c2)))
  = lookup p (build_attrs anc (with_css x (c1 ++ dc p vc ic :: c2))).
Proof.
  intros Hs Ea Ec Hp Hk Hlit.
  pose proof (sources_lookup anc x p (Some va) (Some (vc, ic)) None l1 l2 c1 c2 [] (x_style x)
                Hs Ea Ec eq_refl Hp) as HA.
  pose proof (sources_lookup anc x p None (Some (vc, ic)) None l1 l2 c1 c2 [] (x_style x)
                Hs Ea Ec eq_refl Hp) as HB.
  unfold opt_ins in HA, HB. simpl in HA, HB. rewrite <- Ea in HB.
  assert (E1 : with_style (with_css (with_attrs x (l1 ++ (p, va) :: l2)) (c1 ++ dc p vc ic :: c2)) (x_style x)
               = with_css (with_attrs x (l1 ++ (p, va) :: l2)) (c1 ++ dc p vc ic :: c2)) by reflexivity.
  assert (E2 : with_style (with_css (with_attrs x (x_attrs x)) (c1 ++ dc p vc ic :: c2)) (x_style x)
               = with_css x (c1 ++ dc p vc ic :: c2)) by (destruct x; reflexivity).
  rewrite E1 in HA. rewrite E2 in HB. unfold lookup.
  rewrite HA by (intros v0 Hv; inversion Hv; subst; exact Hk).
  rewrite HB by (intros v0 Hv; discriminate).
  rewrite (literal_resolve anc (x_tag x) p vc ic Hlit).
  destruct (resolve_value anc (x_tag x) p va false) as [y|] eqn:R; simpl; [|reflexivity].
  rewrite (resolve_value_flag _ _ _ _ _ _ R). reflexivity.
Qed.

(* ---- font-size: explicit `inherit` re-resolves the copied *specified* value ---------------------- *)
Local Open Scope Q_scope.
Lemma fs_step_abs dpi a b v : fs_relative v = false -> fs_step dpi a v = fs_step dpi b v.
Proof. destruct v as [u n]. destruct u; simpl; try discriminate; intros _; reflexivity. Qed.
Lemma font_size_snoc dpi base l o :
  font_size dpi base (l ++ [o]) = match o with Some v => fs_step dpi (font_size dpi base l) v | None => font_size dpi base l end.
Proof. unfold font_size. rewrite fold_left_app. simpl. reflexivity. Qed.
Lemma font_size_nones dpi base k : font_size dpi base (repeat None k) = base.
Proof. unfold font_size. induction k as [|k IH]; simpl; [reflexivity | exact IH]. Qed.
Lemma font_size_app dpi base l m : font_size dpi base (l ++ m) = font_size dpi (font_size dpi base l) m.
Proof. unfold font_size. apply fold_left_app. Qed.

(* the element whose font-size says `inherit` (= a copy of the nearest specified value v, k elements
   up) against the same element saying nothing *)
Theorem fs_inherit_guarded dpi base c1 v k :
  fs_relative v = false ->
  font_size dpi base (c1 ++ Some v :: repeat None k ++ [Some v])
  == font_size dpi base (c1 ++ Some v :: repeat None k ++ [None]).
Proof.
  intro H.
  replace (c1 ++ Some v :: repeat None k ++ [Some v]) with ((c1 ++ Some v :: repeat None k) ++ [Some v])
    by (rewrite <- app_assoc; reflexivity).
  replace (c1 ++ Some v :: repeat None k ++ [None]) with ((c1 ++ Some v :: repeat None k) ++ [None])
    by (rewrite <- app_assoc; reflexivity).
  rewrite !font_size_snoc.
  replace (c1 ++ Some v :: repeat None k) with ((c1 ++ [Some v]) ++ repeat None k)
    by (rewrite <- app_assoc; reflexivity).
  rewrite font_size_app, font_size_nones, font_size_snoc.
  rewrite (fs_step_abs dpi _ (font_size dpi base c1) v H). reflexivity.
Qed.
Theorem fs_inherit_refuted :
  exists dpi base c1 v k, fs_relative v = true /\
    ~ font_size dpi base (c1 ++ Some v :: repeat None k ++ [Some v])
      == font_size dpi base (c1 ++ Some v :: repeat None k ++ [None]).
Proof.
  exists 96, 12, [Some (UPx, 20)], (UPercent, 150), O. split; [reflexivity|].
  intro H. vm_compute in H. discriminate.
Qed.
Local Close Scope Q_scope.

(* ---- the generated classes against the specification's property table --------------------------- *)
Lemma noninherit_table_spec : forall a, noninherit_entry_ok a = true.
Proof. apply forall_AId. vm_compute. reflexivity. Qed.
Lemma initial_table_spec : forall a, initial_entry_ok a = true.
Proof. apply forall_AId. vm_compute. reflexivity. Qed.
Lemma style_only_table_spec : forall a, style_only_entry_ok a = true.
Proof. apply forall_AId. vm_compute. reflexivity. Qed.
Lemma style_only_spec a : is_style_only a = spec_style_only a.
Proof. apply eqb_prop. apply style_only_table_spec. Qed.
Lemma css_only_spec : css_only_ok = true.
Proof. vm_compute. reflexivity. Qed.
Lemma noninherit_spec a :
  is_presentation a = true -> allows_inherit_value a = true -> is_non_inheritable a = spec_noninherited a.
Proof.
  intros H1 H2. pose proof (noninherit_table_spec a) as H. unfold noninherit_entry_ok in H.
  rewrite H1, H2 in H. simpl in H. apply eqb_prop. exact H.
Qed.
Lemma initial_spec a : inherit_default a = spec_initial a.
Proof.
  pose proof (initial_table_spec a) as H. unfold initial_entry_ok, opt_string_eqb in H.
  destruct (inherit_default a) as [x|], (spec_initial a) as [y|]; try discriminate; [|reflexivity].
  apply String.eqb_eq in H. congruence.
Qed.

(* ---- units (convert_length arms of Gen/Units.v; font-size arms of Gen/SvgTables.v) ---------------- *)
Local Open Scope Q_scope.
Definition oq_eq (a b : option Q) : Prop :=
  match a, b with Some x, Some y => x == y | _, _ => False end.
(* equivalent absolute lengths: 1in = 2.54cm = 25.4mm = 72pt = 6pc = dpi px *)
Lemma unit_equiv n dpi fs :
  oq_eq (convert_abs UIn n dpi fs) (convert_abs UPx (n * dpi) dpi fs) /\
  oq_eq (convert_abs UCm (n * (254 # 100)) dpi fs) (convert_abs UIn n dpi fs) /\
  oq_eq (convert_abs UMm (n * (254 # 10)) dpi fs) (convert_abs UIn n dpi fs) /\
  oq_eq (convert_abs UPt (n * 72) dpi fs) (convert_abs UIn n dpi fs) /\
  oq_eq (convert_abs UPc (n * 6) dpi fs) (convert_abs UIn n dpi fs) /\
  oq_eq (convert_abs UPt (n * 12) dpi fs) (convert_abs UPc n dpi fs) /\
  oq_eq (convert_abs UMm (n * 10) dpi fs) (convert_abs UCm n dpi fs) /\
  oq_eq (convert_abs UNone n dpi fs) (convert_abs UPx n dpi fs).
Proof. unfold oq_eq; cbn. repeat split; try field; reflexivity. Qed.
(* the font-size resolver uses the same factors as convert_length (two sites of the same table) *)
Lemma unit_font_size_agrees u n dpi parent :
  u <> UPercent -> oq_eq (convert_abs u n dpi parent) (Some (fs_step dpi parent (u, n))).
Proof.
  intro H. destruct u; try (exfalso; apply H; reflexivity); unfold oq_eq; cbn;
    unfold fs_Px, fs_In, fs_Cm, fs_Mm, fs_Pt, fs_Pc, fs_Em, fs_Ex; reflexivity.
Qed.
Lemma unit_font_size_equiv n dpi parent :
  fs_step dpi parent (UCm, n * (254 # 100)) == fs_step dpi parent (UIn, n) /\
  fs_step dpi parent (UMm, n * (254 # 10)) == fs_step dpi parent (UIn, n) /\
  fs_step dpi parent (UPt, n * 72) == fs_step dpi parent (UIn, n) /\
  fs_step dpi parent (UPc, n * 6) == fs_step dpi parent (UIn, n) /\
  fs_step dpi parent (UIn, n) == fs_step dpi parent (UPx, n * dpi).
Proof. unfold fs_step; cbn; unfold fs_Px, fs_In, fs_Cm, fs_Mm, fs_Pt, fs_Pc. repeat split; try field; reflexivity. Qed.
