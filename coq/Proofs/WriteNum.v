(* Lemmas about Model/WriteNum.v: totality for every precision 0..255, error bound. *)
From RV Require Import Gen.WriterNum.
From RV Require Import Model.WriteNum.
From Coq Require Import ZArith QArith Qabs Qround List Bool Lia Lqa.
Import ListNotations.
Local Open Scope Z_scope.

Lemma pow_vec_is_powers : pow_vec = map (fun i => 10 ^ Z.of_nat i) (seq 0 (length pow_vec)).
Proof. reflexivity. Qed.

Lemma pow_index_in_range p : 0 <= p -> (Z.to_nat (pow_index p) < length pow_vec)%nat.
Proof.
  intro Hp. unfold pow_index. change pow_index_clamped with true. cbv iota.
  assert (L : Z.of_nat (length pow_vec) = 13) by reflexivity. rewrite L.
  assert (H : 0 <= Z.min p (13 - 1) <= 12) by lia.
  apply Nat2Z.inj_lt. rewrite Z2Nat.id by lia. lia.
Qed.

Lemma write_num_total p x : 0 <= p -> write_num p x <> WPanic.
Proof.
  intro Hp. unfold write_num. destruct (is_integral x).
  - destruct int_shortcut_bound as [b|]; [destruct (Qle_bool (inject_Z b) (Qabs x))|]; discriminate.
  - destruct (nth_error pow_vec (Z.to_nat (pow_index p))) eqn:E; [discriminate|].
    apply nth_error_None in E. pose proof (pow_index_in_range p Hp). lia.
Qed.

Lemma pow_vec_pos n pw : nth_error pow_vec n = Some pw -> 0 < pw.
Proof.
  intro H. apply nth_error_In in H. unfold pow_vec in H. simpl in H.
  repeat (destruct H as [H|H]; [subst; reflexivity|]). destruct H.
Qed.

Local Open Scope Q_scope.

Lemma Qle_bool_false a b : Qle_bool a b = false -> b < a.
Proof.
  intro H. apply Qnot_le_lt. intro H1. apply Qle_bool_iff in H1. congruence.
Qed.

Lemma roundQ_err x : Qabs (inject_Z (roundQ x) - x) <= 1 # 2.
Proof.
  unfold roundQ. destruct (Qle_bool 0 x) eqn:E.
  - pose proof (Qfloor_le (x + (1 # 2))). pose proof (Qlt_floor (x + (1 # 2))).
    rewrite inject_Z_plus in H0. change (inject_Z 1) with 1 in H0. apply Qabs_Qle_condition. split; lra.
  - pose proof (Qfloor_le (- x + (1 # 2))). pose proof (Qlt_floor (- x + (1 # 2))).
    rewrite inject_Z_plus in H0. change (inject_Z 1) with 1 in H0. rewrite inject_Z_opp.
    apply Qabs_Qle_condition. split; lra.
Qed.

(* an integral rational is the injection of its truncation *)
Lemma is_integral_spec x : is_integral x = true -> x == inject_Z (truncQ x).
Proof.
  unfold is_integral. intro H. apply Z.eqb_eq in H. destruct x as [n d]. simpl in H.
  apply Z.mod_divide in H; [|discriminate]. destruct H as [k Hk]. subst n.
  assert (E : (k * Z.pos d # d) == inject_Z k).
  { unfold Qeq, inject_Z. simpl. ring. }
  assert (F : forall q z, q == inject_Z z -> Qfloor q = z).
  { intros q z Hq. rewrite Hq. apply Qfloor_Z. }
  unfold truncQ. destruct (Qle_bool 0 (k * Z.pos d # d)).
  - rewrite (F _ k E). exact E.
  - assert (E' : - (k * Z.pos d # d) == inject_Z (- k)) by (rewrite E, inject_Z_opp; reflexivity).
    rewrite (F _ (- k)%Z E'). rewrite Z.opp_involutive. exact E.
Qed.

Lemma as_i32_id z : (I32_MIN <= z <= I32_MAX)%Z -> as_i32 z = z.
Proof. unfold as_i32. lia. Qed.

(* |write_num p x - x| <= 1 / (2 * 10^min(p, 12)); integral values are written exactly, whatever their size *)
Lemma write_num_error p x v :
  (0 <= p)%Z -> write_num p x = WOk v ->
  exists pw, nth_error pow_vec (Z.to_nat (pow_index p)) = Some pw /\ Qabs (v - x) <= 1 / (2 * inject_Z pw).
Proof.
  intros Hp H.
  destruct (nth_error pow_vec (Z.to_nat (pow_index p))) as [pw|] eqn:En.
  2:{ apply nth_error_None in En. pose proof (pow_index_in_range p Hp). lia. }
  exists pw. split; auto. pose proof (pow_vec_pos _ _ En) as Hpw.
  assert (Hq : 0 < inject_Z pw) by (change 0 with (inject_Z 0); rewrite <- Zlt_Qlt; exact Hpw).
  assert (Hpos : 0 <= 1 / (2 * inject_Z pw)).
  { apply Qle_shift_div_l; lra. }
  unfold write_num in H. destruct (is_integral x) eqn:Ei.
  - pose proof (is_integral_spec x Ei) as Ex.
    assert (Hz : forall w, w == x -> Qabs (w - x) <= 1 / (2 * inject_Z pw)).
    { intros w Hw. assert (E0 : w - x == 0) by lra. rewrite E0. exact Hpos. }
    change int_shortcut_bound with (Some 2147483648%Z) in H. cbv iota in H.
    destruct (Qle_bool (inject_Z 2147483648) (Qabs x)) eqn:Eb; inversion H; subst; [apply Hz; reflexivity|].
    apply Hz. apply Qle_bool_false in Eb. rewrite Ex in Eb.
    assert (Hr : (I32_MIN <= truncQ x <= I32_MAX)%Z).
    { unfold I32_MIN, I32_MAX.
      destruct (Z_le_gt_dec 0 (truncQ x)) as [Hs|Hs].
      - rewrite Qabs_pos in Eb by (change 0 with (inject_Z 0); rewrite <- Zle_Qle; exact Hs).
        rewrite <- Zlt_Qlt in Eb. lia.
      - rewrite Qabs_neg in Eb by (change 0 with (inject_Z 0); rewrite <- Zle_Qle; lia).
        rewrite <- inject_Z_opp, <- Zlt_Qlt in Eb. lia. }
    rewrite (as_i32_id _ Hr). symmetry. exact Ex.
  - rewrite En in H. inversion H; subst. clear H.
    pose proof (roundQ_err (x * inject_Z pw)) as R.
    assert (E : inject_Z (roundQ (x * inject_Z pw)) / inject_Z pw - x ==
                (inject_Z (roundQ (x * inject_Z pw)) - x * inject_Z pw) / inject_Z pw).
    { field. lra. }
    rewrite E. unfold Qdiv at 1. rewrite Qabs_Qmult. rewrite (Qabs_pos (/ inject_Z pw)).
    2:{ apply Qlt_le_weak. apply Qinv_lt_0_compat. exact Hq. }
    assert (E2 : 1 / (2 * inject_Z pw) == (1 # 2) * / inject_Z pw) by (field; lra).
    rewrite E2. apply Qmult_le_compat_r; auto. apply Qlt_le_weak. apply Qinv_lt_0_compat. exact Hq.
Qed.

(* the product num * pow cannot overflow f32 for a value that has a fractional part (|x| < 2^23) *)
Lemma no_overflow x n pw : nth_error pow_vec n = Some pw -> Qabs x < inject_Z (2 ^ 23) ->
  Qabs (x * inject_Z pw) < inject_Z (2 ^ 23 * 10 ^ 12).
Proof.
  intros H Hx. assert (Hle : (0 < pw <= 10 ^ 12)%Z).
  { apply nth_error_In in H. unfold pow_vec in H. simpl in H.
    repeat (destruct H as [H|H]; [subst; split; [reflexivity|discriminate]|]). destruct H. }
  rewrite Qabs_Qmult. rewrite (Qabs_pos (inject_Z pw)) by (change 0 with (inject_Z 0); rewrite <- Zle_Qle; lia).
  rewrite inject_Z_mult.
  assert (Hq : 0 < inject_Z pw) by (change 0 with (inject_Z 0); rewrite <- Zlt_Qlt; lia).
  assert (Hq2 : inject_Z pw <= inject_Z (10 ^ 12)) by (rewrite <- Zle_Qle; lia).
  pose proof (Qabs_nonneg x).
  apply Qlt_le_trans with (inject_Z (2 ^ 23) * inject_Z pw).
  - apply Qmult_lt_compat_r; auto.
  - apply Qmult_le_l; auto. change 0 with (inject_Z 0). rewrite <- Zlt_Qlt. reflexivity.
Qed.
