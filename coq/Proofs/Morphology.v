(* feMorphology keeps pixels valid: channel-wise min / max over any window of valid premultiplied
   pixels is a valid premultiplied pixel - for every radius, image size and image content. *)
From RV Require Import Model.F32.
From RV Require Import Gen.PixelTables.
From RV Require Import Model.Pixel.
Local Open Scope Z_scope.

Lemma px0_valid : valid_px px0.
Proof. unfold valid_px, px0; cbn; lia. Qed.

Lemma morph_init_valid : forall op, valid_px (morph_init op).
Proof. destruct op; unfold valid_px, morph_init, px0; cbn; lia. Qed.

Lemma morph_acc_valid : forall op acc p, valid_px acc -> valid_px p -> valid_px (morph_acc op acc p).
Proof.
  intros op acc p (A1 & A2 & A3) (P1 & P2 & P3). destruct op; unfold valid_px, morph_acc; cbn [pr pg pb pa]; lia.
Qed.

Lemma pixel_at_valid : forall data w x y, Forall valid_px data -> valid_px (pixel_at data w x y).
Proof.
  intros data w x y H. unfold pixel_at, nthZ.
  destruct (nth_in_or_default (Z.to_nat (w * y + x)) data px0) as [Hin|Hd].
  - rewrite Forall_forall in H. apply H, Hin.
  - rewrite Hd. apply px0_valid.
Qed.

Lemma morph_pixel_valid : forall op columns rows w h data x y, Forall valid_px data ->
  valid_px (morph_pixel op columns rows w h data x y).
Proof.
  intros op columns rows w h data x y H. unfold morph_pixel.
  generalize (morph_window columns rows w h x y) as win.
  generalize (morph_init_valid op). generalize (morph_init op) as acc.
  intros acc Hacc win. revert acc Hacc.
  induction win as [|t r IH]; intros acc Hacc; cbn [fold_left].
  - exact Hacc.
  - apply IH. apply morph_acc_valid; [exact Hacc|apply pixel_at_valid, H].
Qed.

Lemma morphology_valid : forall op crx cry w h data, Forall valid_px data ->
  Forall valid_px (morphology op crx cry w h data).
Proof.
  intros op crx cry w h data H. unfold morphology. rewrite Forall_forall. intros p Hin.
  apply in_flat_map in Hin. destruct Hin as (y & _ & Hin). apply in_map_iff in Hin.
  destruct Hin as (x & <- & _). apply morph_pixel_valid, H.
Qed.

(* erosion of an empty window (radius beyond the image on every side never happens: the window always
   contains the pixel itself when columns, rows >= 1); non-vacuity helper used by Props *)
Definition demo_img : list px :=
  [ {| pr := 10; pg := 20; pb := 30; pa := 40 |}; {| pr := 5; pg := 50; pb := 0; pa := 60 |};
    {| pr := 0; pg := 0; pb := 0; pa := 0 |};     {| pr := 200; pg := 100; pb := 50; pa := 255 |} ].
