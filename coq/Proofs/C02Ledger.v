(* C02 allocation-site and panic-site ledger for crates/resvg/src (HAND-MAINTAINED).  One entry per key of Gen/C02Sites.v
   (regenerated from /repo on every run; coq/Gen/C02Sites.lines.txt locates a key).  A site that is new, or whose
   constructor / size arguments / statement text changed, has no entry: `alloc_sites_classified` / `sites_discharged` fail.
   Allocation classes:
     ALayer          the group layer: bounded by C02_layer_within_max
     ASurface        sized by the surface the function was handed (the layer): bounded by C02_clip_mask_buffers
     AExisting why   copy of / same size as an image that exists already
     AConst why      compile-time constant size
     ADocCount why   one entry per item of the document (no pixel buffer; linear in the document's length, not in a magnitude)
     ANone why       no buffer of its own
     AKnown cls      FOLLOWS THE DOCUMENT: registered finding class (C02_pattern_tile_follows_document, C02_filter_region_follows_document)
   Panic classes: PProved (lemma), PConst (literal arguments, computed), PReviewed (argued informally - NOT PROVED), PKnown (reachable: class). *)
From Coq Require Import String List Bool Arith ZArith Lia.
From RV Require Import Model.Base Model.RenderPrims Gen.Consts Gen.LeafFit Gen.LeafRender Model.Render Proofs.Render Gen.C02Sites.
From RV Require Import Gen.LeafLoops Gen.LeafKernels Model.C02Surf Proofs.C02Surf Proofs.C02Kernels.
Import ListNotations.
Local Open Scope string_scope.

Inductive aclass := ALayer | ASurface | AExisting (why : string) | AConst (why : string) | ADocCount (why : string)
                  | ANone (why : string) | AKnown (cls : string).
Inductive pclass := PProved (P : Prop) (pf : P) | PConst (P : Prop) (pf : P) | PReviewed (why : string) | PKnown (cls : string).

Definition asite_eqb (a b : asite) : bool :=
  String.eqb (a_file a) (a_file b) && String.eqb (a_fn a) (a_fn b) && String.eqb (a_ctor a) (a_ctor b) &&
  String.eqb (a_args a) (a_args b) && Nat.eqb (a_ord a) (a_ord b).
Definition pkind_eqb (a b : pkind) : bool :=
  match a, b with
  | PUnwrap, PUnwrap | PExpect, PExpect | PAssert, PAssert | PDebugAssert, PDebugAssert | PUnreachable, PUnreachable | PPanic, PPanic => true
  | _, _ => false
  end.
Definition psite_eqb (a b : psite) : bool :=
  String.eqb (p_file a) (p_file b) && String.eqb (p_fn a) (p_fn b) && pkind_eqb (p_kind a) (p_kind b) &&
  String.eqb (p_text a) (p_text b) && Nat.eqb (p_ord a) (p_ord b).

(* the classes of /verif/known_findings.txt an entry may refer to *)
Definition known_classes : list string :=
  ["filter-size-assert"; "filter-image-unbounded"; "pattern-tile-unbounded"; "image-decode-unbounded"].
Definition known_ok (c : string) : bool := existsb (String.eqb c) known_classes.

(* lib.rs: IntRect::from_xywh(-2W, -2H, 5W, 5H).unwrap() cannot fail for canvases up to CANVAS_MAX *)
Lemma max_bbox_unwrap_ok : forall W H, (1 <= W <= CANVAS_MAX)%Z -> (1 <= H <= CANVAS_MAX)%Z -> max_bbox W H <> None.
Proof. intros W H HW HH. destruct (canvas_in_max_bbox W H HW HH) as [m [E _]]. rewrite E. discriminate. Qed.
(* clip.rs: IntRect::from_xywh(0, 0, 1, 1).unwrap() *)
Lemma unit_rect_ok : irect_from_xywh 0 0 1 1 <> None.
Proof. vm_compute. discriminate. Qed.

(* filter/mod.rs from_image / apply_image: IntRect::from_xywh(0, 0, w, h).unwrap() with w, h the dimensions of an existing Pixmap /
   of a valid IntRect (1 ..= i32::MAX) *)
Lemma from_xywh_origin_ok : forall w h, (1 <= w <= I32_MAX)%Z -> (1 <= h <= I32_MAX)%Z -> irect_from_xywh 0 0 w h <> None.
Proof.
  intros w h Hw Hh. unfold irect_from_xywh, in_i32, I32_MIN, I32_MAX, U32_MAX in *.
  repeat match goal with |- context [(?a <=? ?b)%Z] =>
    let E := fresh in assert (E : (a <=? b)%Z = true) by (apply Z.leb_le; lia); rewrite E; clear E end.
  repeat match goal with |- context [(?a <? ?b)%Z] =>
    let E := fresh in assert (E : (a <? b)%Z = true) by (apply Z.ltb_lt; lia); rewrite E; clear E end.
  discriminate.
Qed.

(* index expressions: proved in range by a theorem over source-derived definitions, or read and argued *)
Inductive iclass := IProved (thm why : string) | IReviewed (why : string).

Definition alloc_ledger : list (asite * aclass) := [
  (mk_asite "clip.rs" "apply" "Pixmap::new" "pixmap.width(), pixmap.height()" 0, ASurface);
  (mk_asite "clip.rs" "apply" "Mask::from_pixmap" "clip_pixmap.as_ref(), tiny_skia::MaskType::Alpha" 0, AExisting "a mask of the size of the buffer it is made from");
  (mk_asite "clip.rs" "clip_group" "Pixmap::new" "pixmap.width(), pixmap.height()" 0, ASurface);
  (mk_asite "filter/box_blur.rs" "apply" "to_vec" "src.data" 0, AExisting "back buffer of the size of the image the kernel works on");
  (mk_asite "filter/convolve_matrix.rs" "apply" "vec!" "RGBA8::default(); src.data.len()" 0, AExisting "back buffer of the size of the image the kernel works on");
  (mk_asite "filter/iir_blur.rs" "apply" "vec!" "0.0; buf_size" 0, AExisting "back buffer of the size of the image the kernel works on");
  (mk_asite "filter/mod.rs" "try_create" "Pixmap::new" "width, height" 0, ANone "wrapper: sized by its callers, which are listed");
  (mk_asite "filter/mod.rs" "take" "clone" "(*v)" 0, AExisting "copy of the layer / of a filter result");
  (mk_asite "filter/mod.rs" "apply_inner" "Vec::new" "" 0, ADocCount "one entry per filter primitive");
  (mk_asite "filter/mod.rs" "get_input" "clone" "source" 0, AExisting "copy of the layer / of a filter result");
  (mk_asite "filter/mod.rs" "get_input" "clone" "source" 1, AExisting "copy of the layer / of a filter result");
  (mk_asite "filter/mod.rs" "get_input" "clone" "v.image" 0, ANone "Rc clone");
  (mk_asite "filter/mod.rs" "apply_drop_shadow" "Pixmap::try_create" "input.width(), input.height()" 0, AExisting "size of the input image");
  (mk_asite "filter/mod.rs" "apply_drop_shadow" "clone" "input_pixmap" 0, AExisting "copy of the layer / of a filter result");
  (mk_asite "filter/mod.rs" "apply_offset" "Pixmap::try_create" "input.width(), input.height()" 0, AExisting "size of the input image");
  (mk_asite "filter/mod.rs" "apply_blend" "Pixmap::try_create" "region.width(), region.height()" 0, AKnown "filter-image-unbounded");
  (mk_asite "filter/mod.rs" "apply_composite" "Pixmap::try_create" "region.width(), region.height()" 0, AKnown "filter-image-unbounded");
  (mk_asite "filter/mod.rs" "apply_merge" "Pixmap::try_create" "region.width(), region.height()" 0, AKnown "filter-image-unbounded");
  (mk_asite "filter/mod.rs" "apply_flood" "Pixmap::try_create" "region.width(), region.height()" 0, AKnown "filter-image-unbounded");
  (mk_asite "filter/mod.rs" "apply_tile" "copy_region" "input.image | subregion" 0, AExisting "a part of an existing filter result");
  (mk_asite "filter/mod.rs" "apply_tile" "Pixmap::try_create" "region.width(), region.height()" 0, AKnown "filter-image-unbounded");
  (mk_asite "filter/mod.rs" "apply_image" "Pixmap::try_create" "region.width(), region.height()" 0, AKnown "filter-image-unbounded");
  (mk_asite "filter/mod.rs" "apply_displacement_map" "Pixmap::try_create" "region.width(), region.height()" 0, AKnown "filter-image-unbounded");
  (mk_asite "filter/mod.rs" "apply_turbulence" "Pixmap::try_create" "region.width(), region.height()" 0, AKnown "filter-image-unbounded");
  (mk_asite "filter/mod.rs" "apply_diffuse_lighting" "Pixmap::try_create" "region.width(), region.height()" 0, AKnown "filter-image-unbounded");
  (mk_asite "filter/mod.rs" "apply_specular_lighting" "Pixmap::try_create" "region.width(), region.height()" 0, AKnown "filter-image-unbounded");
  (mk_asite "filter/morphology.rs" "apply" "vec!" "RGBA8::default(); src.data.len()" 0, AExisting "back buffer of the size of the image the kernel works on");
  (mk_asite "filter/turbulence.rs" "init" "vec!" "0; B_LEN" 0, AConst "lattice tables of B_LEN entries");
  (mk_asite "filter/turbulence.rs" "init" "vec!" "vec![vec![0.0; 2]; B_LEN]; 4" 0, AConst "lattice tables of B_LEN entries");
  (mk_asite "filter/turbulence.rs" "init" "vec!" "vec![0.0; 2]; B_LEN" 0, AConst "lattice tables of B_LEN entries");
  (mk_asite "filter/turbulence.rs" "init" "vec!" "0.0; 2" 0, AConst "lattice tables of B_LEN entries");
  (mk_asite "image.rs" "render_vector" "Pixmap::new" "pixmap.width(), pixmap.height()" 0, ASurface);
  (mk_asite "image.rs" "render_vector" "render_tree" "tree, transform, &mut sub_pixmap.as_mut()" 0, ASurface);
  (mk_asite "image.rs" "decode_png" "Pixmap::decode_png" "data" 0, AKnown "image-decode-unbounded");
  (mk_asite "image.rs" "decode_jpeg" "collect" "data .into_iter() .flat_map(|p| [p, p, p, 255])" 0, AKnown "image-decode-unbounded");
  (mk_asite "image.rs" "decode_jpeg" "Pixmap::from_vec" "img_data, size" 0, AKnown "image-decode-unbounded");
  (mk_asite "image.rs" "decode_gif" "Pixmap::new" "w, h" 0, AKnown "image-decode-unbounded");
  (mk_asite "image.rs" "decode_webp" "vec!" "0; decoder.output_buffer_size()?" 0, AKnown "image-decode-unbounded");
  (mk_asite "image.rs" "decode_webp" "Pixmap::new" "w, h" 0, AKnown "image-decode-unbounded");
  (mk_asite "mask.rs" "apply" "Pixmap::new" "pixmap.width(), pixmap.height()" 0, ASurface);
  (mk_asite "mask.rs" "apply" "Mask::new" "pixmap.width(), pixmap.height()" 0, ASurface);
  (mk_asite "mask.rs" "apply" "Mask::from_pixmap" "mask_pixmap.as_ref(), mask_type" 0, AExisting "a mask of the size of the buffer it is made from");
  (mk_asite "path.rs" "convert_base_gradient" "Vec::with_capacity" "gradient.stops().len()" 0, ADocCount "one entry per gradient stop");
  (mk_asite "path.rs" "render_pattern_pixmap" "Pixmap::new" "img_size.width(), img_size.height()" 0, AKnown "pattern-tile-unbounded");
  (mk_asite "render.rs" "render_group" "Pixmap::new" "ibbox.width(), ibbox.height()" 0, ALayer)
].

Definition panic_ledger : list (psite * pclass) := [
  (mk_psite "clip.rs" "apply" PUnwrap "let mut clip_pixmap = tiny_skia::Pixmap::new(pixmap.width(), pixmap.height()).unwrap()" 0, PReviewed "Pixmap::new / Mask::new fail for a zero size or a byte length beyond the address space only; an existing surface of the same size was allocated already");
  (mk_psite "clip.rs" "draw_children" PUnwrap "max_bbox: tiny_skia::IntRect::from_xywh(0, 0, 1, 1).unwrap()" 0, PConst _ unit_rect_ok);
  (mk_psite "clip.rs" "clip_group" PUnwrap "let mut clip_pixmap = tiny_skia::Pixmap::new(pixmap.width(), pixmap.height()).unwrap()" 0, PReviewed "Pixmap::new / Mask::new fail for a zero size or a byte length beyond the address space only; an existing surface of the same size was allocated already");
  (mk_psite "filter/composite.rs" "arithmetic" PAssert "assert!(src1.width == src2.width && src1.width == dest.width)" 0, PKnown "filter-size-assert");
  (mk_psite "filter/composite.rs" "arithmetic" PAssert "assert!(src1.height == src2.height && src1.height == dest.height)" 0, PKnown "filter-size-assert");
  (mk_psite "filter/displacement_map.rs" "apply" PAssert "assert!(src.width == map.width && src.width == dest.width)" 0, PKnown "filter-size-assert");
  (mk_psite "filter/displacement_map.rs" "apply" PAssert "assert!(src.height == map.height && src.height == dest.height)" 0, PKnown "filter-size-assert");
  (mk_psite "filter/lighting.rs" "diffuse_lighting" PAssert "assert!(src.width == dest.width && src.height == dest.height)" 0, PKnown "filter-size-assert");
  (mk_psite "filter/lighting.rs" "specular_lighting" PAssert "assert!(src.width == dest.width && src.height == dest.height)" 0, PKnown "filter-size-assert");
  (mk_psite "filter/mod.rs" "f32_bound" PDebugAssert "debug_assert!(min.is_finite())" 0, PConst _ f32_bound_calls_ok);
  (mk_psite "filter/mod.rs" "f32_bound" PDebugAssert "debug_assert!(max.is_finite())" 0, PConst _ f32_bound_calls_ok);
  (mk_psite "filter/mod.rs" "from_image" PUnwrap "region: IntRect::from_xywh(0, 0, w, h).unwrap()" 0, PProved _ from_xywh_origin_ok);
  (mk_psite "filter/mod.rs" "apply_tile" PUnwrap "let rect = tiny_skia::Rect::from_xywh(0.0, 0.0, region.width() as f32, region.height() as f32) .unwrap()" 0, PReviewed "region is a valid IntRect: width, height in 1 ..= i32::MAX, exactly representable or rounded to a positive finite f32");
  (mk_psite "filter/mod.rs" "apply_image" PUnwrap "max_bbox: tiny_skia::IntRect::from_xywh(0, 0, region.width(), region.height()).unwrap()" 0, PProved _ from_xywh_origin_ok);
  (mk_psite "image.rs" "render_vector" PUnwrap "let mut sub_pixmap = tiny_skia::Pixmap::new(pixmap.width(), pixmap.height()).unwrap()" 0, PReviewed "Pixmap::new / Mask::new fail for a zero size or a byte length beyond the address space only; an existing surface of the same size was allocated already");
  (mk_psite "lib.rs" "render" PUnwrap "let target_size = tiny_skia::IntSize::from_wh(pixmap.width(), pixmap.height()).unwrap()" 0, PReviewed "the dimensions of an existing PixmapMut are non-zero");
  (mk_psite "lib.rs" "render" PUnwrap "...t::from_xywh( -(target_size.width() as i32) * 2, -(target_size.height() as i32) * 2, target_size.width() * 5, target_size.height() * 5, ) .unwrap()" 0, PProved _ max_bbox_unwrap_ok);
  (mk_psite "lib.rs" "render_node" PUnwrap "let target_size = tiny_skia::IntSize::from_wh(pixmap.width(), pixmap.height()).unwrap()" 0, PReviewed "the dimensions of an existing PixmapMut are non-zero");
  (mk_psite "lib.rs" "render_node" PUnwrap "...t::from_xywh( -(target_size.width() as i32) * 2, -(target_size.height() as i32) * 2, target_size.width() * 5, target_size.height() * 5, ) .unwrap()" 0, PProved _ max_bbox_unwrap_ok);
  (mk_psite "mask.rs" "apply" PUnwrap "let mut mask_pixmap = tiny_skia::Pixmap::new(pixmap.width(), pixmap.height()).unwrap()" 0, PReviewed "Pixmap::new / Mask::new fail for a zero size or a byte length beyond the address space only; an existing surface of the same size was allocated already");
  (mk_psite "mask.rs" "apply" PUnwrap "let mut alpha_mask = tiny_skia::Mask::new(pixmap.width(), pixmap.height()).unwrap()" 0, PReviewed "Pixmap::new / Mask::new fail for a zero size or a byte length beyond the address space only; an existing surface of the same size was allocated already")
].

(* index expressions per function, each function read once (NOT PROVED): *)
Definition index_ledger : list (string * string * nat * iclass) := [
  (("filter/box_blur.rs", "box_blur_horz", 8%nat), IProved "C02_box_blur_line_covered" "exactly `width` output writes per row, the running index stays in the row; reads go through get_left / get_right");
  (("filter/box_blur.rs", "box_blur_vert", 8%nat), IProved "C02_box_blur_line_covered" "exactly `height` output writes per column, the running index stays in the column; reads go through get_top / get_bottom");
  (("filter/box_blur.rs", "create_box_gauss", 2%nat), IReviewed "sizes[i] with i in 0..STEPS on [i32; STEPS]");
  (("filter/color_matrix.rs", "apply", 38%nat), IReviewed "m[0..19] guarded by `m.len() == 20` (usvg builds exactly 20 values); fixed-size local arrays");
  (("filter/component_transfer.rs", "transfer", 4%nat), IProved "C02_transfer_indices_in_range" "every values[..] index of the Table and Discrete arms is below values.len() for every c and every non-empty list; empty lists never reach transfer (is_dummy)");
  (("filter/composite.rs", "arithmetic", 1%nat), IReviewed "dest.data[i] under the size assert!s (class filter-size-assert covers their failure)");
  (("filter/displacement_map.rs", "apply", 2%nat), IProved "C02_displacement_indices_in_range" "idx and idx1 are below w * h under the guard, for every rounded offset incl. saturated / NaN ones");
  (("filter/iir_blur.rs", "gaussian_channel", 4%nat), IReviewed "i in 0..data.len()/4 on buf of len width*height = data.len()/4");
  (("filter/iir_blur.rs", "gaussianiir2d", 8%nat), IProved "C02_iir_loops" "the vertical loops visit multiples of width in 0 .. buf.len(); horizontal x in 1..width");
  (("filter/mod.rs", "alpha_at", 1%nat), IProved "C02_lighting_indices_in_range" "every (x, y) the lighting kernels hand to alpha_at is inside the image, incl. 1-px-wide images (early return)");
  (("filter/mod.rs", "from_linear_rgb", 3%nat), IReviewed "u8 index into a 256-entry table");
  (("filter/mod.rs", "into_linear_rgb", 3%nat), IReviewed "u8 index into a 256-entry table");
  (("filter/mod.rs", "pixel_at", 1%nat), IProved "C02_convolve_wrap_terminates" "edgeMode=wrap coordinates are 0 <= t < dim; none / duplicate bounds-check resp. clamp first");
  (("filter/mod.rs", "pixel_at_mut", 1%nat), IProved "C02_lighting_indices_in_range" "lighting writes at (nx, ny) inside the image; convolve_matrix writes at its running output coordinate");
  (("filter/turbulence.rs", "init", 32%nat), IReviewed "indices i, j below B_SIZE resp. B_SIZE + i with i < B_SIZE + 2 on tables of B_LEN = 2 * B_SIZE + 2");
  (("filter/turbulence.rs", "noise2", 22%nat), IReviewed "lattice indices masked by BM (0xff) then + 1 / + lattice value < B_LEN");
  (("image.rs", "rgb_to_pixmap", 4%nat), IReviewed "fixed offsets into chunks produced by as_rgb()");
  (("image.rs", "rgba_to_pixmap", 4%nat), IReviewed "fixed offsets into chunks produced by as_rgba()")
].

(* ------------------------------------------------------------------ coverage *)
Definition aclass_ok (c : aclass) : bool := match c with AKnown cls => known_ok cls | _ => true end.
Definition pclass_ok (c : pclass) : bool := match c with PKnown cls => known_ok cls | _ => true end.
Definition idx_eqb (a b : string * string * nat) : bool :=
  let '(f1, g1, n1) := a in let '(f2, g2, n2) := b in String.eqb f1 f2 && String.eqb g1 g2 && Nat.eqb n1 n2.

Definition alloc_covered : bool :=
  forallb (fun s => existsb (fun e => asite_eqb s (fst e)) alloc_ledger) alloc_sites &&
  forallb (fun e => existsb (asite_eqb (fst e)) alloc_sites) alloc_ledger &&
  forallb (fun e => aclass_ok (snd e)) alloc_ledger.
Definition panic_covered : bool :=
  forallb (fun s => existsb (fun e => psite_eqb s (fst e)) panic_ledger) panic_sites &&
  forallb (fun e => existsb (psite_eqb (fst e)) panic_sites) panic_ledger &&
  forallb (fun e => pclass_ok (snd e)) panic_ledger &&
  forallb (fun s => existsb (fun e => idx_eqb s (fst e)) index_ledger) index_counts &&
  forallb (fun e => existsb (idx_eqb (fst e)) index_counts) index_ledger.

Lemma alloc_sites_classified :
  (forall s, In s alloc_sites -> exists c, In (s, c) alloc_ledger /\ aclass_ok c = true) /\
  (forall e, In e alloc_ledger -> In (fst e) alloc_sites) /\ alloc_sites <> [].
Proof.
  assert (C : alloc_covered = true) by (vm_compute; reflexivity).
  unfold alloc_covered in C. apply andb_prop in C. destruct C as [C C3]. apply andb_prop in C. destruct C as [C1 C2].
  rewrite forallb_forall in C1, C2, C3.
  assert (EQ : forall a b, asite_eqb a b = true -> a = b).
  { intros [f1 g1 c1 a1 o1] [f2 g2 c2 a2 o2]. unfold asite_eqb. cbn [a_file a_fn a_ctor a_args a_ord].
    rewrite !andb_true_iff, !String.eqb_eq, Nat.eqb_eq. intuition congruence. }
  split; [|split; [|discriminate]].
  - intros s Hs. specialize (C1 s Hs). apply existsb_exists in C1. destruct C1 as [[s' c] [Hin He]].
    cbn [fst] in He. apply EQ in He. subst s'. exists c. split; [exact Hin | exact (C3 _ Hin)].
  - intros e He. specialize (C2 e He). apply existsb_exists in C2. destruct C2 as [s [Hin Hq]].
    apply EQ in Hq. rewrite Hq. exact Hin.
Qed.

Lemma sites_discharged :
  (forall s, In s panic_sites -> exists c, In (s, c) panic_ledger /\ pclass_ok c = true) /\
  (forall s, In s index_counts -> exists c, In (s, c) index_ledger) /\ panic_sites <> [].
Proof.
  assert (C : panic_covered = true) by (vm_compute; reflexivity).
  unfold panic_covered in C.
  apply andb_prop in C. destruct C as [C C5]. apply andb_prop in C. destruct C as [C C4].
  apply andb_prop in C. destruct C as [C C3]. apply andb_prop in C. destruct C as [C C2].
  rewrite forallb_forall in C, C2, C3, C4, C5.
  assert (EQ : forall a b, psite_eqb a b = true -> a = b).
  { intros [f1 g1 k1 t1 o1] [f2 g2 k2 t2 o2]. unfold psite_eqb. cbn [p_file p_fn p_kind p_text p_ord].
    rewrite !andb_true_iff, !String.eqb_eq, Nat.eqb_eq. intros [[[[A B] K] T] O]. subst.
    destruct k1, k2; try discriminate; reflexivity. }
  assert (EQI : forall a b, idx_eqb a b = true -> a = b).
  { intros [[f1 g1] n1] [[f2 g2] n2]. unfold idx_eqb. rewrite !andb_true_iff, !String.eqb_eq, Nat.eqb_eq. intuition congruence. }
  split; [|split; [|discriminate]].
  - intros s Hs. specialize (C s Hs). apply existsb_exists in C. destruct C as [[s' c] [Hin He]].
    cbn [fst] in He. apply EQ in He. subst s'. exists c. split; [exact Hin | exact (C3 _ Hin)].
  - intros s Hs. specialize (C4 s Hs). apply existsb_exists in C4. destruct C4 as [[s' w] [Hin He]].
    cbn [fst] in He. apply EQI in He. subst s'. exists w. exact Hin.
Qed.
