(* C14 (extension round 4): 8-bit layer compositing (draw_pixmap, opacity 1) against the exact algebra. *)
From Coq Require Import QArith Qabs Lqa Lia ZArith List.
From RV Require Import Model.Base Model.Blend8 Model.Compose Model.Compose8.
Import ListNotations.
Local Open Scope Z_scope.

(* ------------------------------------------------------------------ exactness of extra layers *)
Lemma round_div255_0 : round_div255 0 = 0.
Proof. reflexivity. Qed.
Lemma over_u8_0 : forall s sa, over_u8 s sa 0 = s.
Proof. intros. unfold over_u8. rewrite Z.mul_0_l, round_div255_0. lia. Qed.
Lemma over8_clear : forall p, over8 p clear8 = p.
Proof. intros [r g b a]. unfold over8, clear8; cbn [r8 g8 b8 a8]. rewrite !over_u8_0. reflexivity. Qed.

Lemma render8_layer_single : forall n bg, render8 (Layer8 [n]) bg = render8 n bg.
Proof.
  intros n bg. destruct n as [p | ch].
  - cbn. rewrite over8_clear. reflexivity.
  - change (render8 (Layer8 [Layer8 ch]) bg) with (over8 (render8 (Layer8 ch) clear8) bg).
    cbn [render8]. rewrite over8_clear. reflexivity.
Qed.
Lemma wrap8_exact : forall k n bg, render8 (wrap8 k n) bg = render8 n bg.
Proof.
  induction k as [|k IH]; intros n bg; [reflexivity|].
  cbn [wrap8]. rewrite render8_layer_single. apply IH.
Qed.

(* ------------------------------------------------------------------ one draw_pixmap = exact source-over, rounded *)
Local Open Scope Q_scope.
Definition close (e a b : Q) : Prop := a - b <= e /\ b - a <= e.

Lemma round_div255_bounds : forall v : Z,
  inject_Z (round_div255 v) * 510 <= 2 * inject_Z v + 255 /\
  2 * inject_Z v + 255 <= inject_Z (round_div255 v) * 510 + 509.
Proof.
  intro v. unfold round_div255.
  pose proof (Z.div_mod (2 * v + 255) 510 ltac:(lia)) as E.
  pose proof (Z.mod_pos_bound (2 * v + 255) 510 ltac:(lia)) as B.
  set (q := ((2 * v + 255) / 510)%Z) in *. set (m := ((2 * v + 255) mod 510)%Z) in *.
  assert (H1 : (q * 510 <= 2 * v + 255)%Z) by lia.
  assert (H2 : (2 * v + 255 <= q * 510 + 509)%Z) by lia.
  rewrite Zle_Qle in H1. rewrite Zle_Qle in H2.
  clearbody q m. repeat rewrite inject_Z_plus in H1. repeat rewrite inject_Z_mult in H1.
  repeat rewrite inject_Z_plus in H2. repeat rewrite inject_Z_mult in H2.
  change (inject_Z 510) with 510 in *. change (inject_Z 255) with 255 in *.
  change (inject_Z 509) with 509 in *. change (inject_Z 2) with 2 in *.
  split; lra.
Qed.

(* |round_div255 v - v / 255| <= 1/2 *)
Lemma round_div255_close : forall v : Z, close (1 # 2) (inject_Z (round_div255 v)) (inject_Z v / 255).
Proof.
  intro v. destruct (round_div255_bounds v) as [H1 H2]. unfold close.
  assert (D : inject_Z v / 255 * 255 == inject_Z v) by (field).
  set (t := inject_Z v / 255) in *. clearbody t. split; lra.
Qed.

Lemma scale_bound : forall e k t, 0 <= k -> k <= 1 -> t <= e -> - t <= e -> k * t <= e /\ - (k * t) <= e.
Proof. intros e k t K0 K1 T1 T2. split; nra. Qed.

Definition stepQ (c a : Z) (X : Q) : Q := inject_Z c + X * (255 - inject_Z a) / 255.

(* a draw_pixmap step adds at most half a level to the distance from the exact value *)
Lemma over_u8_step : forall c a x X e, (0 <= a <= 255)%Z ->
  close e (inject_Z x) X -> close (e + (1 # 2)) (inject_Z (over_u8 c a x)) (stepQ c a X).
Proof.
  intros c a x X e [A0 A1] [H1 H2]. unfold over_u8, stepQ.
  destruct (round_div255_close (x * (255 - a))) as [R1 R2].
  rewrite inject_Z_plus. rewrite inject_Z_mult in R1, R2.
  replace (inject_Z (255 - a)) with (255 - inject_Z a) in R1, R2
    by (unfold Zminus; rewrite inject_Z_plus, inject_Z_opp; reflexivity).
  rewrite Zle_Qle in A0. rewrite Zle_Qle in A1. change (inject_Z 0) with 0 in A0. change (inject_Z 255) with 255 in A1.
  set (qa := inject_Z a) in *. set (qx := inject_Z x) in *. set (qc := inject_Z c) in *.
  set (r := inject_Z (round_div255 (x * (255 - a)))) in *. clearbody r qa qx qc.
  set (k := (255 - qa) / 255).
  assert (K : k * 255 == 255 - qa) by (unfold k; field).
  assert (K0 : 0 <= k) by (clearbody k; lra).
  assert (K1 : k <= 1) by (clearbody k; lra).
  destruct (scale_bound e k (qx - X) K0 K1 ltac:(lra) ltac:(lra)) as [S1 S2].
  assert (E1 : qx * (255 - qa) / 255 == qx * k) by (unfold k; field).
  assert (E2 : X * (255 - qa) / 255 == X * k) by (unfold k; field).
  unfold close. rewrite E2. rewrite E1 in R1, R2. clearbody k.
  split; nra.
Qed.

(* the channel of `over` that `stepQ` is *)
Lemma stepQ_over_r : forall s d,
  pr (over (q8 s) (q8 d)) * 255 == stepQ (r8 s) (a8 s) (inject_Z (r8 d)).
Proof. intros. unfold over, q8, stepQ; cbn [pr pg pb pa]. field. Qed.
Lemma stepQ_over_g : forall s d,
  pg (over (q8 s) (q8 d)) * 255 == stepQ (g8 s) (a8 s) (inject_Z (g8 d)).
Proof. intros. unfold over, q8, stepQ; cbn [pr pg pb pa]. field. Qed.
Lemma stepQ_over_b : forall s d,
  pb (over (q8 s) (q8 d)) * 255 == stepQ (b8 s) (a8 s) (inject_Z (b8 d)).
Proof. intros. unfold over, q8, stepQ; cbn [pr pg pb pa]. field. Qed.
Lemma stepQ_over_a : forall s d,
  pa (over (q8 s) (q8 d)) * 255 == stepQ (a8 s) (a8 s) (inject_Z (a8 d)).
Proof. intros. unfold over, q8, stepQ; cbn [pr pg pb pa]. field. Qed.

(* all four channels, in levels (x 255): the byte draw_pixmap stores is within half a level of exact source-over *)
Definition close_px (e : Q) (p : px8) (x : px) : Prop :=
  close e (inject_Z (r8 p)) (pr x * 255) /\ close e (inject_Z (g8 p)) (pg x * 255) /\
  close e (inject_Z (b8 p)) (pb x * 255) /\ close e (inject_Z (a8 p)) (pa x * 255).

Lemma close_eq : forall e a b b', b == b' -> close e a b -> close e a b'.
Proof. intros e a b b' E [H1 H2]. unfold close. rewrite <- E. split; assumption. Qed.

Lemma draw_pixmap_rounds_over : forall s d, (0 <= a8 s <= 255)%Z ->
  close_px (1 # 2) (over8 s d) (over (q8 s) (q8 d)).
Proof.
  intros s d A. unfold close_px, over8; cbn [r8 g8 b8 a8].
  assert (Z0 : forall x : Z, close 0 (inject_Z x) (inject_Z x)) by (intro x; unfold close; split; lra).
  assert (S : forall c x, close (1 # 2) (inject_Z (over_u8 c (a8 s) x)) (stepQ c (a8 s) (inject_Z x))).
  { intros c x. exact (over_u8_step c (a8 s) x (inject_Z x) 0 A (Z0 x)). }
  split; [|split; [|split]].
  - eapply close_eq; [apply Qeq_sym; apply stepQ_over_r|]. apply S.
  - eapply close_eq; [apply Qeq_sym; apply stepQ_over_g|]. apply S.
  - eapply close_eq; [apply Qeq_sym; apply stepQ_over_b|]. apply S.
  - eapply close_eq; [apply Qeq_sym; apply stepQ_over_a|]. apply S.
Qed.

(* ------------------------------------------------------------------ accumulated rounding of a draw list:
   direct painting (n roundings) against painting through a layer (n - 1 roundings in each of colour and alpha,
   one more when the layer is composited) *)
Fixpoint paintQ (l : list (Z * Z)) (X : Q) : Q :=
  match l with [] => X | d :: r => paintQ r (stepQ (fst d) (snd d) X) end.
Fixpoint transQ (l : list (Z * Z)) : Q :=
  match l with [] => 1 | d :: r => (255 - inject_Z (snd d)) / 255 * transQ r end.
Definition alpha_ok (l : list (Z * Z)) : Prop := Forall (fun d => (0 <= snd d <= 255)%Z) l.
Definition qlen {A} (l : list A) : Q := inject_Z (Z.of_nat (length l)).

Lemma close_le : forall e e' a b, e <= e' -> close e a b -> close e' a b.
Proof. intros e e' a b L [H1 H2]. unfold close. split; lra. Qed.
Lemma close_of_eq : forall a b, a == b -> close 0 a b.
Proof. intros a b E. unfold close. rewrite E. split; lra. Qed.
Lemma qlen_cons : forall {A} (d : A) r, qlen (d :: r) == qlen r + 1.
Proof. intros. unfold qlen. cbn [length]. rewrite Nat2Z.inj_succ. unfold Z.succ. rewrite inject_Z_plus. reflexivity. Qed.
Lemma qlen_nonneg : forall {A} (l : list A), 0 <= qlen l.
Proof. intros. unfold qlen. change 0 with (inject_Z 0). rewrite <- Zle_Qle. lia. Qed.

Lemma paintZ_close : forall l x X e, alpha_ok l -> close e (inject_Z x) X ->
  close (e + qlen l * (1 # 2)) (inject_Z (paintZ l x)) (paintQ l X).
Proof.
  induction l as [|d r IH]; intros x X e A C.
  - cbn [paintZ paintQ]. eapply close_le; [|exact C]. unfold qlen; cbn [length Z.of_nat]. change (inject_Z 0) with 0. lra.
  - inversion A as [|? ? Ad Ar]; subst. cbn [paintZ paintQ].
    eapply close_le; [|apply (IH _ _ (e + (1 # 2)) Ar); apply over_u8_step; assumption].
    rewrite (qlen_cons d r). lra.
Qed.

Lemma paintQ_lin : forall l X, paintQ l X == paintQ l 0 + X * transQ l.
Proof.
  induction l as [|d r IH]; intro X.
  - cbn. ring.
  - cbn [paintQ transQ]. rewrite (IH (stepQ (fst d) (snd d) X)), (IH (stepQ (fst d) (snd d) 0)).
    unfold stepQ. field.
Qed.
Lemma paintQ_alpha : forall l X, 255 - paintQ (alphas l) X == (255 - X) * transQ l.
Proof.
  induction l as [|d r IH]; intro X.
  - cbn. ring.
  - cbn [alphas map paintQ transQ fst snd]. fold (alphas r). rewrite IH. unfold stepQ. field.
Qed.
Lemma alpha_ok_alphas : forall l, alpha_ok l -> alpha_ok (alphas l).
Proof. unfold alpha_ok, alphas. intros l A. rewrite Forall_map. cbn [snd]. exact A. Qed.
Lemma over_u8_half : forall c a x, close (1 # 2) (inject_Z (over_u8 c a x)) (stepQ c a (inject_Z x)).
Proof.
  intros c a x. unfold over_u8, stepQ. destruct (round_div255_close (x * (255 - a))) as [R1 R2].
  rewrite inject_Z_plus. rewrite inject_Z_mult in R1, R2.
  replace (inject_Z (255 - a)) with (255 - inject_Z a) in R1, R2
    by (unfold Zminus; rewrite inject_Z_plus, inject_Z_opp; reflexivity).
  unfold close. split; lra.
Qed.

Lemma chan_quant : forall l bg, alpha_ok l -> l <> [] -> (0 <= bg <= 255)%Z ->
  close (qlen l * (3 # 2) - (1 # 2))
        (inject_Z (paintZ l bg)) (inject_Z (over_u8 (paintZ l 0) (paintZ (alphas l) 0) bg)).
Proof.
  intros l bg A NE [B0 B1]. destruct l as [|d r]; [congruence|]. clear NE.
  inversion A as [|? ? Ad Ar]; subst.
  pose proof (paintZ_close (d :: r) bg (inject_Z bg) 0 A (close_of_eq _ _ (Qeq_refl _))) as D.
  (* the layer: the first draw lands on a clear pixel and is exact *)
  assert (LC : close (qlen r * (1 # 2)) (inject_Z (paintZ (d :: r) 0)) (paintQ (d :: r) 0)).
  { cbn [paintZ paintQ]. rewrite over_u8_0.
    eapply close_le; [|apply (paintZ_close r (fst d) _ 0 Ar); apply close_of_eq; unfold stepQ; field]. lra. }
  assert (LA : close (qlen r * (1 # 2)) (inject_Z (paintZ (alphas (d :: r)) 0)) (paintQ (alphas (d :: r)) 0)).
  { cbn [alphas map paintZ paintQ fst snd]. fold (alphas r). rewrite over_u8_0.
    eapply close_le; [|apply (paintZ_close (alphas r) (snd d) _ 0 (alpha_ok_alphas r Ar)); apply close_of_eq; unfold stepQ; field].
    unfold qlen, alphas. rewrite map_length. lra. }
  pose proof (over_u8_half (paintZ (d :: r) 0) (paintZ (alphas (d :: r)) 0) bg) as H.
  pose proof (paintQ_lin (d :: r) (inject_Z bg)) as E1.
  pose proof (paintQ_alpha (d :: r) 0) as E2.
  pose proof (qlen_cons d r) as QL. pose proof (qlen_nonneg r) as N.
  rewrite Zle_Qle in B0. rewrite Zle_Qle in B1. change (inject_Z 0) with 0 in B0. change (inject_Z 255) with 255 in B1.
  unfold stepQ in H.
  set (Lc := inject_Z (paintZ (d :: r) 0)) in *. set (La := inject_Z (paintZ (alphas (d :: r)) 0)) in *.
  set (ELc := paintQ (d :: r) 0) in *. set (ELa := paintQ (alphas (d :: r)) 0) in *.
  set (T := transQ (d :: r)) in *. set (E := paintQ (d :: r) (inject_Z bg)) in *.
  set (res := inject_Z (over_u8 (paintZ (d :: r) 0) (paintZ (alphas (d :: r)) 0) bg)) in *.
  set (dir := inject_Z (paintZ (d :: r) bg)) in *. set (b := inject_Z bg) in *. set (m := qlen r) in *. set (n := qlen (d :: r)) in *.
  clearbody Lc La ELc ELa T E res dir b m n. clear - D LC LA H E1 E2 N B0 B1 QL.
  destruct D as [D1 D2], LC as [C1 C2], LA as [A1 A2], H as [H1 H2].
  set (k := b / 255). assert (K : k * 255 == b) by (unfold k; field).
  assert (K0 : 0 <= k) by (clearbody k; lra). assert (K1 : k <= 1) by (clearbody k; lra).
  destruct (scale_bound (m * (1 # 2)) k (La - ELa) K0 K1 ltac:(lra) ltac:(lra)) as [S1 S2].
  assert (X1 : b * (255 - La) / 255 == k * (255 - La)) by (unfold k; field).
  assert (X2 : E == ELc + k * (255 - ELa)).
  { rewrite E1. assert (TT : T * 255 == 255 - ELa) by lra.
    assert (b * T == k * (T * 255)) by (unfold k; field). rewrite H. rewrite TT. reflexivity. }
  rewrite X1 in H1, H2. clearbody k. unfold close. split; nra.
Qed.

(* ------------------------------------------------------------------ back to byte pixels *)
Local Open Scope Z_scope.
Lemma close_Z : forall n a b : Z,
  close (inject_Z n * (3 # 2) - (1 # 2))%Q (inject_Z a) (inject_Z b) -> 2 * Z.abs (a - b) <= 3 * n - 1.
Proof.
  intros n a b [H1 H2].
  assert (L1 : 2 * (a - b) <= 3 * n - 1).
  { rewrite Zle_Qle. unfold Z.sub. repeat (rewrite inject_Z_plus || rewrite inject_Z_mult || rewrite inject_Z_opp).
    change (inject_Z 2) with 2%Q. change (inject_Z 3) with 3%Q. change (inject_Z 1) with 1%Q. lra. }
  assert (L2 : 2 * (b - a) <= 3 * n - 1).
  { rewrite Zle_Qle. unfold Z.sub. repeat (rewrite inject_Z_plus || rewrite inject_Z_mult || rewrite inject_Z_opp).
    change (inject_Z 2) with 2%Q. change (inject_Z 3) with 3%Q. change (inject_Z 1) with 1%Q. lra. }
  lia.
Qed.

Lemma paint8_chan : forall (f : px8 -> Z),
  (forall s d, f (over8 s d) = over_u8 (f s) (a8 s) (f d)) ->
  forall ds bg, f (paint8 ds bg) = paintZ (chan f ds) (f bg).
Proof.
  intros f Hf. induction ds as [|d r IH]; intro bg; [reflexivity|].
  change (paint8 (d :: r) bg) with (paint8 r (over8 d bg)). rewrite IH, Hf. reflexivity.
Qed.
Lemma alphas_chan : forall f ds, alphas (chan f ds) = chan a8 ds.
Proof. intros. unfold alphas, chan. rewrite map_map. reflexivity. Qed.

Lemma chan_dist : forall (f : px8 -> Z) ds bg, Forall byte_px8 ds -> ds <> [] -> 0 <= bg <= 255 ->
  2 * Z.abs (paintZ (chan f ds) bg - over_u8 (paintZ (chan f ds) 0) (paintZ (chan a8 ds) 0) bg)
  <= 3 * Z.of_nat (length ds) - 1.
Proof.
  intros f ds bg B NE R. apply close_Z.
  rewrite <- (alphas_chan f ds).
  replace (length ds) with (length (chan f ds)) by (unfold chan; apply map_length).
  apply chan_quant; [| |exact R].
  - unfold alpha_ok, chan. rewrite Forall_map. cbn [snd]. eapply Forall_impl; [|exact B].
    intros p (_ & _ & _ & A). exact A.
  - destruct ds; [congruence|discriminate].
Qed.

Theorem quantisation : forall ds bg, Forall byte_px8 ds -> byte_px8 bg -> ds <> [] ->
  2 * dist8 (paint8 ds bg) (over8 (paint8 ds clear8) bg) <= 3 * Z.of_nat (length ds) - 1.
Proof.
  intros ds bg B (Br & Bg & Bb & Ba) NE. unfold dist8, over8; cbn [r8 g8 b8 a8].
  rewrite !(paint8_chan r8 ltac:(reflexivity)), !(paint8_chan g8 ltac:(reflexivity)),
          !(paint8_chan b8 ltac:(reflexivity)), !(paint8_chan a8 ltac:(reflexivity)).
  cbn [clear8 r8 g8 b8 a8].
  pose proof (chan_dist r8 ds (r8 bg) B NE Br). pose proof (chan_dist g8 ds (g8 bg) B NE Bg).
  pose proof (chan_dist b8 ds (b8 bg) B NE Bb). pose proof (chan_dist a8 ds (a8 bg) B NE Ba).
  lia.
Qed.

(* a single draw through a layer is exact; rounding really accumulates from two draws on *)
Lemma single_draw_exact : forall d bg, over8 (paint8 [d] clear8) bg = paint8 [d] bg.
Proof. intros. cbn [paint8 fold_left]. rewrite over8_clear. reflexivity. Qed.
