(* C17 (extension round 4): the nested <svg> / <symbol> viewport.  Theorems about the SOURCE-DERIVED
   Gen.LeafViewport.{use_node_size, viewbox_transform, get_clip_rect} and Gen.PctAxis.{pct_axis, convert_percent}. *)
From Coq Require Import String.
From RV Require Import Model.Base Model.GeomPrims Model.ViewBoxSpec Gen.Units Model.SvgSize Gen.PctAxis.
From RV Require Import Model.ViewportPrims Gen.LeafViewBox Gen.LeafViewport Proofs.ViewBox.
Local Open Scope Q_scope.

(* x / width percentages refer to the viewport width, y / height to its height *)
Lemma pct_axis_xywh : pct_axis A_X = AxW /\ pct_axis A_Width = AxW /\ pct_axis A_Y = AxH /\ pct_axis A_Height = AxH.
Proof. repeat split; reflexivity. Qed.

Lemma convert_percent_spec l base : convert_percent l base == base * (l_num l / 100).
Proof. unfold convert_percent. field. Qed.

Lemma user_len_w l st : convert_user_len l A_Width st == spec_dim (Some l) (Some (rw (st_view_box st))) 0 (st_dpi st) (st_fs st).
Proof.
  unfold convert_user_len, spec_dim. destruct (convert_abs _ _ _ _); [reflexivity|].
  change (pct_axis A_Width) with AxW. cbv iota. apply convert_percent_spec.
Qed.
Lemma user_len_x l st : convert_user_len l A_X st == spec_dim (Some l) (Some (rw (st_view_box st))) 0 (st_dpi st) (st_fs st).
Proof.
  unfold convert_user_len, spec_dim. destruct (convert_abs _ _ _ _); [reflexivity|].
  change (pct_axis A_X) with AxW. cbv iota. apply convert_percent_spec.
Qed.
Lemma user_len_h l st : convert_user_len l A_Height st == spec_dim (Some l) (Some (rh (st_view_box st))) 0 (st_dpi st) (st_fs st).
Proof.
  unfold convert_user_len, spec_dim. destruct (convert_abs _ _ _ _); [reflexivity|].
  change (pct_axis A_Height) with AxH. cbv iota. apply convert_percent_spec.
Qed.
Lemma user_len_y l st : convert_user_len l A_Y st == spec_dim (Some l) (Some (rh (st_view_box st))) 0 (st_dpi st) (st_fs st).
Proof.
  unfold convert_user_len, spec_dim. destruct (convert_abs _ _ _ _); [reflexivity|].
  change (pct_axis A_Y) with AxH. cbv iota. apply convert_percent_spec.
Qed.

(* use_node_size = the SVG rule per dimension (unit at the DPI, percentage of the parent viewport on the same
   axis, missing = 100%) *)
Lemma viewport_size_spec n st :
  fst (use_node_size n st) == spec_own_w n st /\ snd (use_node_size n st) == spec_own_h n st.
Proof.
  unfold use_node_size, spec_own_w, spec_own_h, vn_user_length. cbn [fst snd vn_attr].
  split.
  - rewrite user_len_w. destruct (vn_width n); reflexivity.
  - rewrite user_len_h. destruct (vn_height n); reflexivity.
Qed.

Lemma viewport_xy_spec n st :
  vn_user_length n A_X st len_zero == spec_vp_x n st /\ vn_user_length n A_Y st len_zero == spec_vp_y n st.
Proof.
  unfold vn_user_length, spec_vp_x, spec_vp_y. cbn [vn_attr]. split; [apply user_len_x | apply user_len_y].
Qed.

(* the effective size both functions compute *)
Definition eff_w (n : vnode) (st : vstate) : Q :=
  if vn_is_svg n then opt_unwrap_or (fst (st_use_size st)) (fst (use_node_size n st)) else fst (use_node_size n st).
Definition eff_h (n : vnode) (st : vstate) : Q :=
  if vn_is_svg n then opt_unwrap_or (snd (st_use_size st)) (snd (use_node_size n st)) else snd (use_node_size n st).

Lemma eff_spec n st : eff_w n st == spec_vp_w n st /\ eff_h n st == spec_vp_h n st.
Proof.
  destruct (viewport_size_spec n st) as [Hw Hh]. unfold eff_w, eff_h, spec_vp_w, spec_vp_h.
  destruct (vn_is_svg n); [|split; assumption].
  destruct (st_use_size st) as [[a|] [b|]]; cbn; split; try reflexivity; assumption.
Qed.

Lemma vt_unfold n l st :
  viewbox_transform n l st =
  match size_from_wh (eff_w n st) (eff_h n st) with
  | Some size => match vn_viewbox l with
                 | Some r => Some (to_transform (mk_viewbox r (aspect_or_default l)) size)
                 | None => None end
  | None => None
  end.
Proof.
  unfold viewbox_transform, eff_w, eff_h. destruct (use_node_size n st) as [w h]. cbn [fst snd].
  destruct (vn_is_svg n); reflexivity.
Qed.

Lemma overflow_agree l : overflow_no_clip l = overflow_shows (vn_overflow l).
Proof.
  unfold overflow_no_clip, overflow_shows, overflow_no_clip_values. destruct (vn_overflow l); [|reflexivity].
  cbn. rewrite orb_false_r. reflexivity.
Qed.

Lemma clip_unfold n l st :
  get_clip_rect n l st =
  if spec_clips n l st
  then (if valid_length (eff_w n st) && valid_length (eff_h n st)
        then Some {| rx := vn_user_length n A_X st len_zero; ry := vn_user_length n A_Y st len_zero;
                     rw := eff_w n st; rh := eff_h n st |}
        else None)
  else None.
Proof.
  unfold get_clip_rect, spec_clips, eff_w, eff_h. rewrite overflow_agree.
  destruct (overflow_shows (vn_overflow l)); [reflexivity|]. cbn [negb andb].
  destruct (use_node_size n st) as [w h]. cbn [fst snd].
  unfold vn_has_attr. cbn [vn_attr].
  destruct (vn_is_svg n); cbn [andb negb orb].
  - destruct (st_use_size st) as [[a|] [b|]]; cbn [fst snd is_none andb negb orb opt_unwrap_or];
      try (unfold nzrect_from_xywh, valid_length;
           match goal with |- context [Qltb 0 ?u && Qltb 0 ?v] =>
             destruct (Qltb 0 u); destruct (Qltb 0 v); reflexivity end).
    destruct (vn_width n), (vn_height n); cbn [is_none andb negb orb];
      try reflexivity;
      unfold nzrect_from_xywh, valid_length;
      match goal with |- context [Qltb 0 ?u && Qltb 0 ?v] =>
        destruct (Qltb 0 u); destruct (Qltb 0 v); reflexivity end.
  - unfold nzrect_from_xywh, valid_length. destruct (Qltb 0 w); destruct (Qltb 0 h); reflexivity.
Qed.

Lemma size_from_wh_valid a b :
  size_from_wh a b = if valid_length a && valid_length b then Some {| sw := a; sh := b |} else None.
Proof. reflexivity. Qed.

(* the viewBox of the linked element is mapped onto exactly the viewport the SVG rule names *)
Lemma viewport_transform_spec n l st :
  match viewbox_transform n l st with
  | Some t => exists r W H, vn_viewbox l = Some r /\ W == spec_vp_w n st /\ H == spec_vp_h n st /\ 0 < W /\ 0 < H /\
                            t = to_transform {| vb_rect := r; vb_aspect := aspect_or_default l |} {| sw := W; sh := H |}
  | None => vn_viewbox l = None \/ ~ (0 < spec_vp_w n st /\ 0 < spec_vp_h n st)
  end.
Proof.
  rewrite vt_unfold. destruct (eff_spec n st) as [Ew Eh]. unfold size_from_wh.
  destruct (Qltb 0 (eff_w n st)) eqn:A; destruct (Qltb 0 (eff_h n st)) eqn:B; cbn [andb];
    try apply Qltb_true in A; try apply Qltb_true in B; try apply Qltb_false in A; try apply Qltb_false in B.
  - destruct (vn_viewbox l) as [r|]; [|left; reflexivity].
    exists r, (eff_w n st), (eff_h n st). repeat split; assumption.
  - right. intros [_ X]. lra.
  - right. intros [X _]. lra.
  - right. intros [X _]. lra.
Qed.

(* the clip rectangle, when there is one, is exactly that viewport *)
Lemma clip_is_viewport n l st c : get_clip_rect n l st = Some c ->
  rx c == spec_vp_x n st /\ ry c == spec_vp_y n st /\ rw c == spec_vp_w n st /\ rh c == spec_vp_h n st /\
  0 < rw c /\ 0 < rh c /\ spec_clips n l st = true.
Proof.
  rewrite clip_unfold. destruct (spec_clips n l st); [|discriminate].
  unfold valid_length. destruct (Qltb 0 (eff_w n st)) eqn:A; destruct (Qltb 0 (eff_h n st)) eqn:B; cbn [andb]; try discriminate.
  intros E. inversion E; subst c; clear E. cbn [rx ry rw rh].
  apply Qltb_true in A. apply Qltb_true in B.
  destruct (eff_spec n st) as [Ew Eh]. destruct (viewport_xy_spec n st) as [Ex Ey].
  repeat split; assumption.
Qed.

(* and there is none exactly when the rule says so or the viewport is empty *)
Lemma clip_none_iff n l st :
  get_clip_rect n l st = None <-> spec_clips n l st = false \/ ~ (0 < spec_vp_w n st /\ 0 < spec_vp_h n st).
Proof.
  rewrite clip_unfold. destruct (eff_spec n st) as [Ew Eh]. destruct (spec_clips n l st).
  - unfold valid_length. destruct (Qltb 0 (eff_w n st)) eqn:A; destruct (Qltb 0 (eff_h n st)) eqn:B; cbn [andb];
      try apply Qltb_true in A; try apply Qltb_true in B; try apply Qltb_false in A; try apply Qltb_false in B.
    + split; [discriminate|]. intros [X|X]; [discriminate|]. exfalso. apply X. split; lra.
    + split; [|reflexivity]. intros _. right. intros [_ X]. lra.
    + split; [|reflexivity]. intros _. right. intros [X _]. lra.
    + split; [|reflexivity]. intros _. right. intros [X _]. lra.
  - split; [left|]; reflexivity.
Qed.

(* transform and clip are computed from ONE viewport: the viewBox is fitted into the very rectangle that clips *)
Lemma viewport_dims_agree n l st t c : viewbox_transform n l st = Some t -> get_clip_rect n l st = Some c ->
  exists r, vn_viewbox l = Some r /\ pos_size (r_size c) /\
            t = to_transform {| vb_rect := r; vb_aspect := aspect_or_default l |} (r_size c) /\
            viewport_ts n st t = ts_concat (from_translate (rx c) (ry c)) t.
Proof.
  rewrite vt_unfold, clip_unfold, size_from_wh_valid. destruct (spec_clips n l st); [|discriminate].
  destruct (valid_length (eff_w n st) && valid_length (eff_h n st)) eqn:V; [|discriminate].
  destruct (vn_viewbox l) as [r|]; [|discriminate].
  intros E1 E2. inversion E1; inversion E2; subst; clear E1 E2. exists r.
  apply andb_true_iff in V. destruct V as [A B]. apply Qltb_true in A. apply Qltb_true in B.
  repeat split; try assumption; reflexivity.
Qed.

Lemma map_translate_x x y t u v : map_x (ts_concat (from_translate x y) t) u v == x + map_x t u v.
Proof. unfold map_x, ts_concat, from_translate, from_row. cbn. ring. Qed.
Lemma map_translate_y x y t u v : map_y (ts_concat (from_translate x y) t) u v == y + map_y t u v.
Proof. unfold map_y, ts_concat, from_translate, from_row. cbn. ring. Qed.

Section ContentVsClip.
  Variables (n l : vnode) (st : vstate) (t : ts) (c r : qrect).
  Hypothesis Ht : viewbox_transform n l st = Some t.
  Hypothesis Hc : get_clip_rect n l st = Some c.
  Hypothesis Hr : vn_viewbox l = Some r.
  Hypothesis Hpos : pos_rect r.
  Let T := viewport_ts n st t.
  Let a := aspect_or_default l.

  Lemma cvc_setup : exists s, pos_size s /\ t = to_transform {| vb_rect := r; vb_aspect := a |} s /\
    sw s = rw c /\ sh s = rh c /\
    img_lo_x T r == rx c + img_lo_x t r /\ img_hi_x T r == rx c + img_hi_x t r /\
    img_lo_y T r == ry c + img_lo_y t r /\ img_hi_y T r == ry c + img_hi_y t r.
  Proof.
    destruct (viewport_dims_agree _ _ _ _ _ Ht Hc) as (r' & R & P & E & TT).
    rewrite Hr in R. inversion R; subst r'. exists (r_size c). subst T. rewrite TT.
    unfold img_lo_x, img_hi_x, img_lo_y, img_hi_y.
    split; [exact P|]. split; [exact E|]. split; [reflexivity|]. split; [reflexivity|].
    split; [apply map_translate_x|]. split; [apply map_translate_x|]. split; [apply map_translate_y|apply map_translate_y].
  Qed.

  (* meet: the whole viewBox lands inside the clip rectangle (nothing of it is clipped away) *)
  Lemma meet_inside_clip : ar_align a <> ANone -> ar_slice a = false ->
    rx c <= img_lo_x T r /\ img_hi_x T r <= rx c + rw c /\ ry c <= img_lo_y T r /\ img_hi_y T r <= ry c + rh c.
  Proof.
    intros Ha Hs. destruct cvc_setup as (s & P & E & W & H & X1 & X2 & Y1 & Y2).
    pose proof (meet_inside {| vb_rect := r; vb_aspect := a |} s (conj Hpos P) Ha Hs) as M.
    cbv zeta in M. rewrite <- E in M. cbn [vb_rect] in M. rewrite W, H in M. lra.
  Qed.

  (* slice: the image of the viewBox covers the clip rectangle (no part of the viewport stays empty) *)
  Lemma slice_covers_clip : ar_align a <> ANone -> ar_slice a = true ->
    img_lo_x T r <= rx c /\ rx c + rw c <= img_hi_x T r /\ img_lo_y T r <= ry c /\ ry c + rh c <= img_hi_y T r.
  Proof.
    intros Ha Hs. destruct cvc_setup as (s & P & E & W & H & X1 & X2 & Y1 & Y2).
    pose proof (slice_covers {| vb_rect := r; vb_aspect := a |} s (conj Hpos P) Ha Hs) as M.
    cbv zeta in M. rewrite <- E in M. cbn [vb_rect] in M. rewrite W, H in M. lra.
  Qed.

  (* none: the viewBox is stretched onto the clip rectangle exactly *)
  Lemma none_fills_clip : ar_align a = ANone ->
    img_lo_x T r == rx c /\ img_hi_x T r == rx c + rw c /\ img_lo_y T r == ry c /\ img_hi_y T r == ry c + rh c.
  Proof.
    intros Ha. destruct cvc_setup as (s & P & E & W & H & X1 & X2 & Y1 & Y2).
    pose proof (none_maps_exactly {| vb_rect := r; vb_aspect := a |} s (conj Hpos P) Ha) as M.
    cbv zeta in M. rewrite <- E in M. cbn [vb_rect] in M. rewrite W, H in M. lra.
  Qed.
End ContentVsClip.
