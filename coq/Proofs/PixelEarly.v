(* Identity primitives: zero offset, zero deviation, merge of a single input. *)
From RV Require Import Model.F32.
From RV Require Import Gen.PixelTables.
From RV Require Import Model.Pixel.
From Flocq Require Import Core BinarySingleNaN.
Local Open Scope Z_scope.

Lemma zero_times_finite_approx_zero : forall s : f32, is_finite s = true -> approx_zero4 (fmul fzero s) = true.
Proof. intros s H. destruct s as [b|b| |b m e Hb]; try discriminate H; reflexivity. Qed.

Lemma offset_zero_id : forall (I : Type) sx sy (input shifted : I),
  is_finite sx = true -> is_finite sy = true ->
  apply_offset_model fzero fzero sx sy input shifted = input.
Proof.
  intros I sx sy input shifted Hx Hy. unfold apply_offset_model, scale_coordinates, offset_returns_input.
  rewrite (zero_times_finite_approx_zero sx Hx), (zero_times_finite_approx_zero sy Hy). reflexivity.
Qed.
Lemma blur_zero_id : forall (I : Type) sx sy (input blurred : I),
  is_finite sx = true -> is_finite sy = true ->
  apply_blur_model fzero fzero sx sy input blurred = input.
Proof.
  intros I sx sy input blurred Hx Hy. unfold apply_blur_model, scale_coordinates, blur_returns_input.
  rewrite (zero_times_finite_approx_zero sx Hx), (zero_times_finite_approx_zero sy Hy). reflexivity.
Qed.
(* and a non-zero offset is not swallowed by the guard *)
Lemma offset_nonzero_not_id : apply_offset_model (flit 3 1) fzero f1 f1 0 1 = 1.
Proof. vm_compute. reflexivity. Qed.

Lemma merge_single_id : forall p, merge_single p = p.
Proof.
  intros [r g b a]. unfold merge_single, over_u8, round_div255. cbn [pr pg pb pa].
  rewrite !Z.mul_0_l, !Z.mul_0_r. change ((0 + 255) / 510) with 0. rewrite !Z.add_0_r. reflexivity.
Qed.
