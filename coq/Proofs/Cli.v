(* C20: lemmas about the command-line model.  fit_to_size, fit_to_transform, decide_fit, cli_fit_to_rect,
   the parse_* conditions and c20_process_steps are the SOURCE-DERIVED definitions of Gen/C20Cli.v. *)
From Coq Require Import Qround String.
From RV Require Import Model.Base Model.GeomPrims Model.CliPrims Gen.C20Cli Model.Cli.
Local Open Scope Z_scope.

Ltac b2p := repeat (rewrite ?andb_true_iff, ?andb_false_iff, ?orb_true_iff, ?orb_false_iff, ?negb_true_iff,
                    ?negb_false_iff, ?Z.leb_le, ?Z.leb_gt, ?Z.ltb_lt, ?Z.ltb_ge, ?Z.eqb_eq, ?Z.eqb_neq,
                    ?Z.geb_le in *).

(* ---- integer / rounding facts ---------------------------------------------------------------------- *)
Lemma sat_u32_id z : 0 <= z <= U32_MAX -> sat_u32 z = z.
Proof. unfold sat_u32, U32_MAX. lia. Qed.
Lemma sat_u32_range z : 0 <= sat_u32 z <= U32_MAX.
Proof. unfold sat_u32, U32_MAX. lia. Qed.
Lemma sat_u32_le z : 0 <= z -> sat_u32 z <= z.
Proof. unfold sat_u32, U32_MAX. lia. Qed.
Lemma sat_u32_mono a b : a <= b -> sat_u32 a <= sat_u32 b.
Proof. unfold sat_u32. lia. Qed.

Lemma inj_minus1 a : (inject_Z (a - 1) == inject_Z a - 1)%Q.
Proof. unfold Z.sub. rewrite inject_Z_plus. reflexivity. Qed.

Lemma zq_pos z : 0 < z -> (0 < zq z)%Q.
Proof. intro H. unfold zq. change 0%Q with (inject_Z 0). rewrite <- Zlt_Qlt. exact H. Qed.
Lemma zq_nz z : 0 < z -> ~ (zq z == 0)%Q.
Proof. intros H N. apply zq_pos in H. rewrite N in H. apply (Qlt_irrefl _ H). Qed.

Lemma Qceiling_spec q : (zq (Qceiling q) - 1 < q /\ q <= zq (Qceiling q))%Q.
Proof.
  split.
  - pose proof (Qceiling_lt q) as H. unfold zq. rewrite inj_minus1 in H. exact H.
  - apply Qle_ceiling.
Qed.
Lemma Qceiling_le_Z q z : (q <= zq z)%Q -> Qceiling q <= z.
Proof.
  intro H. pose proof (Qceiling_lt q) as L.
  assert (X : (inject_Z (Qceiling q - 1) < inject_Z z)%Q) by (eapply Qlt_le_trans; eauto).
  rewrite <- Zlt_Qlt in X. lia.
Qed.
Lemma Qceiling_gt_Z q z : (zq z < q)%Q -> z < Qceiling q.
Proof.
  intro H. pose proof (Qle_ceiling q) as L.
  assert (X : (inject_Z z < inject_Z (Qceiling q))%Q) by (eapply Qlt_le_trans; eauto).
  rewrite <- Zlt_Qlt in X. exact X.
Qed.
Lemma Qceiling_pos q : (0 < q)%Q -> 0 < Qceiling q.
Proof. intro H. apply (Qceiling_gt_Z q 0). unfold zq. change (inject_Z 0) with 0%Q. exact H. Qed.

Lemma from_wh_some w h r : isize_from_wh w h = Some r ->
  is_w r = w /\ is_h r = h /\ 0 < w <= U32_MAX /\ 0 < h <= U32_MAX.
Proof.
  unfold isize_from_wh. destruct ((0 <? w) && (w <=? U32_MAX) && (0 <? h) && (h <=? U32_MAX)) eqn:E; [|discriminate].
  intro X. inversion X; subst; simpl. b2p. lia.
Qed.
Lemma from_wh_none w h : isize_from_wh w h = None -> 0 <= w <= U32_MAX -> 0 <= h <= U32_MAX -> w = 0 \/ h = 0.
Proof.
  unfold isize_from_wh. destruct ((0 <? w) && (w <=? U32_MAX) && (0 <? h) && (h <=? U32_MAX)) eqn:E; [discriminate|].
  intros _ Hw Hh. b2p. lia.
Qed.

(* ---- dimension rules ------------------------------------------------------------------------------- *)
(* -w W: width = W, height = ceil(H * W / width)  (u32 saturation made explicit) *)
Theorem dims_w s W r : fit_to_size (FitWidth W) s = Some r ->
  is_w r = W /\ is_h r = sat_u32 (Qceiling (zq W * zq (is_h s) / zq (is_w s))%Q) /\ 0 < W <= U32_MAX /\ 0 < is_h r.
Proof.
  simpl. unfold isize_scale_to_width. intro H. apply from_wh_some in H. intuition.
Qed.
Theorem dims_h s Hh r : fit_to_size (FitHeight Hh) s = Some r ->
  is_h r = Hh /\ is_w r = sat_u32 (Qceiling (zq Hh * zq (is_w s) / zq (is_h s))%Q) /\ 0 < Hh <= U32_MAX /\ 0 < is_w r.
Proof.
  simpl. unfold isize_scale_to_height. intro H. apply from_wh_some in H. intuition.
Qed.
(* the ceil'ed side is the least integer not below the exact aspect-scaled value (no saturation below 2^32) *)
Lemma ceil_side_least a b c : 0 < a -> 0 < b -> 0 < c -> Qceiling (zq a * zq b / zq c)%Q <= U32_MAX ->
  let v := sat_u32 (Qceiling (zq a * zq b / zq c)%Q) in
  (zq v - 1 < zq a * zq b / zq c /\ zq a * zq b / zq c <= zq v)%Q.
Proof.
  intros Ha Hb Hc Hs v. unfold v. rewrite sat_u32_id.
  - apply Qceiling_spec.
  - split; [|exact Hs]. apply Z.lt_le_incl. apply Qceiling_pos.
    apply Qlt_shift_div_l.
    + apply zq_pos. exact Hc.
    + rewrite Qmult_0_l. apply Qmult_lt_0_compat; apply zq_pos; assumption.
Qed.

(* -z Z: both sides rounded (half away from zero); error if one of them becomes 0 *)
Theorem dims_z s z r : fit_to_size (FitZoom z) s = Some r ->
  is_w r = sat_u32 (Qround_haz (zq (is_w s) * z)%Q) /\ is_h r = sat_u32 (Qround_haz (zq (is_h s) * z)%Q) /\
  0 < is_w r /\ 0 < is_h r.
Proof.
  simpl. unfold isize_scale_by. intro H. apply from_wh_some in H. intuition; congruence.
Qed.
Theorem dims_z_zero s z : fit_to_size (FitZoom z) s = None <->
  (sat_u32 (Qround_haz (zq (is_w s) * z)%Q) = 0 \/ sat_u32 (Qround_haz (zq (is_h s) * z)%Q) = 0).
Proof.
  simpl. unfold isize_scale_by. split.
  - intro H. apply from_wh_none in H; auto using sat_u32_range.
  - intro H. unfold isize_from_wh.
    destruct ((0 <? sat_u32 (Qround_haz (zq (is_w s) * z)%Q)) && (sat_u32 (Qround_haz (zq (is_w s) * z)%Q) <=? U32_MAX)
              && (0 <? sat_u32 (Qround_haz (zq (is_h s) * z)%Q)) && (sat_u32 (Qround_haz (zq (is_h s) * z)%Q) <=? U32_MAX)) eqn:E; auto.
    b2p. lia.
Qed.
Lemma Qround_haz_spec q : (0 <= q)%Q -> (zq (Qround_haz q) - (1 # 2) <= q /\ q < zq (Qround_haz q) + (1 # 2))%Q.
Proof.
  intro H. unfold Qround_haz. apply Qle_bool_iff in H. rewrite H.
  pose proof (Qfloor_le (q + (1 # 2))) as A. pose proof (Qlt_floor (q + (1 # 2))) as B.
  unfold zq. rewrite inject_Z_plus in B. change (inject_Z 1) with 1%Q in B. split; lra.
Qed.

(* -w W -h H: IntSize::scale_to keeps the aspect ratio: one side is the requested one, the other is ceil'ed *)
Theorem dims_wh s W H r : fit_to_size (FitSize W H) s = Some r ->
  0 < W <= U32_MAX /\ 0 < H <= U32_MAX /\
  ((is_w r = W /\ is_h r = sat_u32 (Qceiling (zq W * zq (is_h s) / zq (is_w s))%Q)) \/
   (is_h r = H /\ is_w r = sat_u32 (Qceiling (zq H * zq (is_w s) / zq (is_h s))%Q) /\ is_w r < W)).
Proof.
  simpl. destruct (isize_from_wh W H) as [t|] eqn:E; simpl; [|discriminate].
  apply from_wh_some in E. destruct E as [E1 [E2 [E3 E4]]]. intro X. inversion X; subst r; clear X.
  unfold isize_scale_to. rewrite E1, E2.
  destruct (sat_u32 (Qceiling (zq H * zq (is_w s) / zq (is_h s))%Q) >=? W) eqn:G; simpl.
  - split; [lia|]. split; [lia|]. left. auto.
  - split; [lia|]. split; [lia|]. right. rewrite Z.geb_leb in G. b2p. auto.
Qed.

(* ... and it fits inside the requested box unless H*w/h falls strictly between W-1 and W (class k_wh_ceil_tie) *)
Lemma sat_ge_imp z W : 0 < W -> W <= sat_u32 z -> W <= z.
Proof. unfold sat_u32, U32_MAX. lia. Qed.
Lemma sat_le_imp z H : 0 < H -> 0 < z -> z <= H -> sat_u32 z <= H.
Proof. unfold sat_u32, U32_MAX. lia. Qed.

Lemma scale_to_fits s W H : 0 < is_w s -> 0 < is_h s -> 0 < W -> 0 < H ->
  k_wh_ceil_tie s W H = false ->
  is_w (isize_scale_to s {| is_w := W; is_h := H |}) <= W /\ is_h (isize_scale_to s {| is_w := W; is_h := H |}) <= H.
Proof.
  intros Hw Hh BW BH K. unfold isize_scale_to. cbn [is_w is_h].
  unfold k_wh_ceil_tie in K.
  remember (zq H * zq (is_w s) / zq (is_h s))%Q as q eqn:Eq.
  assert (Pw : (0 < zq (is_w s))%Q) by (apply zq_pos; exact Hw).
  assert (Ph : (0 < zq (is_h s))%Q) by (apply zq_pos; exact Hh).
  destruct (sat_u32 (Qceiling q) >=? W) eqn:G; cbn [is_w is_h].
  - split; [apply Z.le_refl|].
    assert (G' : W <= Qceiling q).
    { apply sat_ge_imp; [exact BW|]. rewrite Z.geb_leb in G. apply Z.leb_le. exact G. }
    assert (Q1 : (zq (W - 1) < q)%Q).
    { destruct (Qlt_le_dec (zq (W - 1)) q) as [L|L]; [exact L|exfalso].
      apply Qceiling_le_Z in L. lia. }
    apply andb_false_iff in K. destruct K as [K|K].
    { apply Qltb_false in K. exfalso. apply (Qlt_not_le _ _ Q1 K). }
    apply Qltb_false in K.
    assert (X : (zq W * zq (is_h s) / zq (is_w s) <= zq H)%Q).
    { apply Qle_shift_div_r; [exact Pw|].
      assert (Y : (zq W * zq (is_h s) <= q * zq (is_h s))%Q)
        by (apply Qmult_le_compat_r; [exact K | apply Qlt_le_weak; exact Ph]).
      assert (Z0 : (q * zq (is_h s) == zq H * zq (is_w s))%Q).
      { rewrite Eq. field. intro N. rewrite N in Ph. apply (Qlt_irrefl _ Ph). }
      rewrite Z0 in Y. exact Y. }
    apply Qceiling_le_Z in X.
    apply sat_le_imp; [exact BH| |exact X].
    apply Qceiling_pos. apply Qlt_shift_div_l; [exact Pw|]. rewrite Qmult_0_l.
    apply Qmult_lt_0_compat; [apply zq_pos; exact BW | exact Ph].
  - split; [|apply Z.le_refl]. rewrite Z.geb_leb in G. apply Z.leb_gt in G. lia.
Qed.

Theorem dims_wh_fits s W H r : 0 < is_w s -> 0 < is_h s ->
  fit_to_size (FitSize W H) s = Some r -> k_wh_ceil_tie s W H = false ->
  is_w r <= W /\ is_h r <= H.
Proof.
  intros Hw Hh F K. cbn [fit_to_size] in F.
  destruct (isize_from_wh W H) as [t|] eqn:E; cbn [option_map] in F; [|discriminate].
  apply from_wh_some in E. destruct E as [E1 [E2 [E3 E4]]]. inversion F as [F']. clear F.
  destruct t as [tw th]. cbn [is_w is_h] in E1, E2. subst tw th.
  apply scale_to_fits; auto; lia.
Qed.

(* the faithful model does NOT satisfy "fits inside" unconditionally *)
Theorem dims_wh_fits_refuted : exists s W H r,
  fit_to_size (FitSize W H) s = Some r /\ k_wh_ceil_tie s W H = true /\ H < is_h r.
Proof.
  exists {| is_w := 1; is_h := 100 |}, 1, 1, {| is_w := 1; is_h := 100 |}. vm_compute. intuition.
Qed.

(* ---- fit_to_transform maps the integer document box onto the target size --------------------------------- *)
Theorem fit_transform_matches_size f s v : 0 < is_w s -> 0 < is_h s -> fit_to_size f s = Some v ->
  let t := fit_to_transform f s in
  (map_x t (zq (is_w s)) (zq (is_h s)) == zq (is_w v) /\ map_y t (zq (is_w s)) (zq (is_h s)) == zq (is_h v) /\
   map_x t 0 0 == 0 /\ map_y t 0 0 == 0 /\ t_kx t == 0 /\ t_ky t == 0)%Q.
Proof.
  intros Hw Hh F. unfold fit_to_transform. rewrite F. unfold map_x, map_y, from_scale, from_row, zq; simpl.
  assert (Pw : ~ (inject_Z (is_w s) == 0)%Q) by (apply (zq_nz _ Hw)).
  assert (Ph : ~ (inject_Z (is_h s) == 0)%Q) by (apply (zq_nz _ Hh)).
  repeat split; try field; auto; reflexivity.
Qed.
Theorem fit_transform_identity_on_error f s : fit_to_size f s = None -> fit_to_transform f s = ts_identity.
Proof. intro F. unfold fit_to_transform. rewrite F. reflexivity. Qed.

(* ---- the -w/-h/-z decision (default_size rule) ---------------------------------------------------- *)
Theorem default_size_rule :
  (forall w h z, decide_fit (Some w) (Some h) z = ((inject_Z w, inject_Z h), FitSize w h)) /\
  (forall w z, decide_fit (Some w) None z = ((inject_Z w, 100 # 1), FitWidth w)) /\
  (forall h z, decide_fit None (Some h) z = ((100 # 1, inject_Z h), FitHeight h)) /\
  (forall z, decide_fit None None (Some z) = ((100 # 1, 100 # 1), FitZoom z)) /\
  decide_fit None None None = ((100 # 1, 100 # 1), FitOriginal).
Proof. repeat split; reflexivity. Qed.

(* ---- argument validation ranges ---------------------------------------------------------------------- *)
Theorem validation_ranges :
  (forall n, parse_dpi_ok n = true <-> 10 <= n <= 4000) /\
  (forall n, parse_length_ok n = true <-> 0 < n) /\
  (forall q, parse_zoom_ok q = true <-> (0 < q)%Q) /\
  (forall n, parse_font_size_ok n = true <-> 0 < n <= 192) /\
  DEFAULT_DPI = 96 /\ DEFAULT_FONT_SIZE = 12.
Proof.
  repeat split; try reflexivity; try (unfold parse_dpi_ok, parse_length_ok, parse_font_size_ok in *; b2p; lia).
  - unfold parse_zoom_ok. intro H. apply Qltb_true in H. exact H.
  - unfold parse_zoom_ok. intro H. apply Qltb_true. exact H.
Qed.
Theorem usvg_validators_agree :
  (forall n, usvg_parse_dpi_ok n = parse_dpi_ok n) /\ (forall n, usvg_parse_length_ok n = parse_length_ok n) /\
  (forall n, usvg_parse_font_size_ok n = parse_font_size_ok n).
Proof. repeat split; reflexivity. Qed.

(* the usvg binary's WriteOptions defaults are literals, equal to the help text and to WriteOptions::default() *)
Theorem usvg_write_defaults :
  usvg_coordinates_precision_default = 8 /\ usvg_transforms_precision_default = 8 /\
  usvg_coordinates_precision_help = (2, 8, usvg_coordinates_precision_default) /\
  usvg_transforms_precision_help = (2, 8, usvg_transforms_precision_default) /\
  lib_coordinates_precision_default = usvg_coordinates_precision_default /\
  lib_transforms_precision_default = usvg_transforms_precision_default /\
  (forall n, usvg_parse_precision_ok n = true <-> 2 <= n <= 8).
Proof.
  repeat split; try reflexivity; unfold usvg_parse_precision_ok in *; b2p; lia.
Qed.

(* Options::resources_dir: an explicit --resources-dir wins, else the directory of the input file, else none (stdin) *)
Theorem resources_dir_rule : forall explicit file_input,
  resvg_resources_dir explicit file_input = (if explicit then ResExplicit else if file_input then ResInputDir else ResNone) /\
  usvg_resources_dir explicit file_input = resvg_resources_dir explicit file_input.
Proof. intros [|] [|]; split; reflexivity. Qed.

(* ---- process: error => no output --------------------------------------------------------------------- *)
Lemma steps_write_last : writes_last c20_process_steps = true /\ c20_fallible_after_write = 0.
Proof. split; vm_compute; reflexivity. Qed.

#[local] Opaque render_svg args_valid.
Ltac crush_steps :=
  repeat (simpl;
    match goal with
    | |- context [match e_tree ?e with _ => _ end] => let E := fresh "ET" in destruct (e_tree e) eqn:E
    | |- context [match render_svg ?a ?e ?s with _ => _ end] => let E := fresh "ER" in destruct (render_svg a e s) eqn:E
    | |- context [if ?b then _ else _] => let E := fresh "EB" in destruct b eqn:E
    end).

(* the output is produced only in the last state; every Exit1 / Panic precedes it *)
Theorem error_no_output a e :
  (forall k, fst (process a e) = Exit1 k -> snd (process a e) = false) /\
  (forall p, fst (process a e) = Panic p -> snd (process a e) = false).
Proof.
  unfold process, c20_process_steps, init_state. split; intro x; crush_steps; simpl; intros; try discriminate; reflexivity.
Qed.
Theorem exit0_image_written a e d : fst (process a e) = Exit0 (Some d) -> snd (process a e) = true.
Proof.
  unfold process, c20_process_steps, init_state. crush_steps; simpl; intros; try discriminate; reflexivity.
Qed.
Theorem query_all_no_image a e : a_query_all a = true -> snd (process a e) = false.
Proof.
  unfold process, c20_process_steps, init_state. intro Q. crush_steps; simpl; try reflexivity; congruence.
Qed.

(* Exit0 with an image means render_svg succeeded with exactly these dimensions *)
Lemma exit0_render a e d : fst (process a e) = Exit0 (Some d) ->
  exists sz, e_tree e = Some sz /\ render_svg a e sz = ROk d /\ args_valid a = true /\ a_query_all a = false.
Proof.
  unfold process, c20_process_steps, init_state. crush_steps; simpl; intros X; try discriminate;
    inversion X; subst; eexists; repeat split; eauto.
Qed.
Lemma panic_render a e p : fst (process a e) = Panic p ->
  exists sz, e_tree e = Some sz /\ render_svg a e sz = RPanic p.
Proof.
  unfold process, c20_process_steps, init_state. crush_steps; simpl; intros X; try discriminate;
    inversion X; subst; eexists; split; eauto.
Qed.

(* which conditions give exit status 1 *)
Theorem exit_codes a e :
  (args_valid a = false -> process a e = (Exit1 EArgs, false)) /\
  (args_valid a = true -> e_read_ok e = false -> process a e = (Exit1 ERead, false)) /\
  (args_valid a = true -> e_read_ok e = true -> e_gunzip_ok e = true -> e_utf8_ok e = true -> e_xml_ok e = false ->
     process a e = (Exit1 EXml, false)) /\
  (args_valid a = true -> e_read_ok e = true -> e_gunzip_ok e = true -> e_utf8_ok e = true -> e_xml_ok e = true ->
     e_tree e = None -> process a e = (Exit1 ETree, false)) /\
  (forall sz, args_valid a = true -> e_read_ok e = true -> e_gunzip_ok e = true -> e_utf8_ok e = true -> e_xml_ok e = true ->
     e_tree e = Some sz -> a_query_all a = true ->
     process a e = (if Nat.eqb (e_ids e) 0 then Exit1 ENoIds else Exit0 None, false)) /\
  (forall sz k, args_valid a = true -> e_read_ok e = true -> e_gunzip_ok e = true -> e_utf8_ok e = true -> e_xml_ok e = true ->
     e_tree e = Some sz -> a_query_all a = false -> render_svg a e sz = RErr k -> process a e = (Exit1 k, false)).
Proof.
  unfold process, c20_process_steps, init_state.
  repeat split; intros; simpl;
    repeat match goal with H : _ = _ |- _ => rewrite H; clear H end; simpl; try reflexivity.
Qed.
#[local] Transparent render_svg args_valid.

Lemma render_errors a e sz :
  (a_export_id a = true -> e_node e = NodeMissing -> render_svg a e sz = RErr ENoNode) /\
  (a_export_id a = true -> e_node e = NodeZero -> render_svg a e sz = RErr EZeroNode) /\
  (a_export_id a = false -> fit_to_size (the_fit a) (to_int_size (fst sz) (snd sz)) = None -> render_svg a e sz = RErr ETargetZero).
Proof.
  unfold render_svg. repeat split; intros H1 H2; rewrite H1, ?H2; reflexivity.
Qed.

(* ---- dimensions of a successful normal run ----------------------------------------------------------- *)
Theorem normal_dims a e d : a_export_id a = false -> a_area_drawing a = false ->
  fst (process a e) = Exit0 (Some d) ->
  exists sz, e_tree e = Some sz /\ fit_to_size (the_fit a) (to_int_size (fst sz) (snd sz)) = Some d.
Proof.
  intros NE ND X. apply exit0_render in X. destruct X as [sz [T [R _]]]. exists sz. split; [exact T|].
  unfold render_svg in R. rewrite NE, ND in R.
  destruct (fit_to_size (the_fit a) (to_int_size (fst sz) (snd sz))) as [s|]; [|discriminate].
  destruct (negb (canvas_ok e s)); [discriminate|]. inversion R. reflexivity.
Qed.
Theorem export_dims a e d : a_export_id a = true -> a_area_page a = false ->
  fst (process a e) = Exit0 (Some d) ->
  exists x y w h, e_node e = NodeBox x y w h /\ fit_to_size (the_fit a) (to_int_size w h) = Some d.
Proof.
  intros NE NP X. apply exit0_render in X. destruct X as [sz [T [R _]]].
  unfold render_svg in R. rewrite NE, NP in R. destruct (e_node e) as [| |x y w h]; try discriminate.
  exists x, y, w, h. split; [reflexivity|].
  destruct (fit_to_size (the_fit a) (to_int_size w h)) as [s|]; [|discriminate].
  destruct (negb (canvas_ok e s)); [discriminate|]. inversion R. reflexivity.
Qed.

(* ---- export rules (as fixed by bd4cb7e and 85fde2f) -------------------------------------------------------- *)
Lemma to_int_size_pos w h : 0 < is_w (to_int_size w h) /\ 0 < is_h (to_int_size w h).
Proof. unfold to_int_size; simpl. lia. Qed.

(* without --export-area-page the node is scaled by exactly the factor that maps its integer box onto its canvas *)
Theorem export_node_fills_canvas a docsize w h size : a_area_page a = false ->
  fit_to_size (the_fit a) (to_int_size w h) = Some size ->
  let t := export_ts a docsize w h in let nb := to_int_size w h in
  (map_x t (zq (is_w nb)) (zq (is_h nb)) == zq (is_w size) /\ map_y t (zq (is_w nb)) (zq (is_h nb)) == zq (is_h size) /\
   map_x t 0 0 == 0 /\ map_y t 0 0 == 0 /\ t_kx t == 0 /\ t_ky t == 0)%Q.
Proof.
  intros AP F. unfold export_ts. rewrite AP. change (export_fit_source false) with SrcNode. cbv iota.
  destruct (to_int_size_pos w h) as [Pw Ph].
  apply (fit_transform_matches_size (the_fit a) (to_int_size w h) size Pw Ph F).
Qed.

(* with --export-area-page the node is scaled like the page (t maps the document box onto the page canvas, no
   skew, no translation), and it is placed at its SCALED position (x * sx, y * sy) = t (x, y) *)
Theorem export_area_page_rules a docsize x y w h psize : a_area_page a = true ->
  fit_to_size (the_fit a) (to_int_size (fst docsize) (snd docsize)) = Some psize ->
  let t := export_ts a docsize w h in let doc := to_int_size (fst docsize) (snd docsize) in
  (map_x t (zq (is_w doc)) (zq (is_h doc)) == zq (is_w psize) /\ map_y t (zq (is_w doc)) (zq (is_h doc)) == zq (is_h psize) /\
   map_x t x y == x * t_sx t /\ map_y t x y == y * t_sy t)%Q /\
  page_offset a docsize x y w h = (sat_i32 (Qtrunc (x * t_sx t)%Q), sat_i32 (Qtrunc (y * t_sy t)%Q)).
Proof.
  intros AP F. unfold page_offset, export_ts. rewrite AP. change (export_fit_source true) with SrcDoc. cbv iota.
  change c20_page_offset_scaled with true. cbv iota.
  destruct (to_int_size_pos (fst docsize) (snd docsize)) as [Pw Ph].
  pose proof (fit_transform_matches_size (the_fit a) _ psize Pw Ph F) as M. cbv zeta in M.
  destruct M as [M1 [M2 _]]. split; [|reflexivity].
  split; [exact M1|]. split; [exact M2|].
  unfold fit_to_transform. rewrite F. unfold map_x, map_y, from_scale, from_row; simpl. split; ring.
Qed.

(* ---- trimming (as fixed by cbe5ba7) never panics on an empty intersection and never grows the canvas --- *)
Lemma limit_rect_ok w h : 0 < w <= MAX_PIXMAP_W -> 0 < h <= I32_MAX -> irect_from_xywh 0 0 w h = Some {| ix := 0; iy := 0; iw := w; ih := h |}.
Proof.
  intros Hw Hh. unfold irect_from_xywh, in_i32, I32_MIN, I32_MAX, U32_MAX, MAX_PIXMAP_W in *.
  destruct ((I32_MIN <=? 0) && (0 <=? I32_MAX) && ((I32_MIN <=? 0) && (0 <=? I32_MAX)) && (0 <? w) && (w <=? U32_MAX) && (0 <? h) && (h <=? U32_MAX)
     && (w <=? I32_MAX) && (h <=? I32_MAX) && ((I32_MIN <=? 0 + w) && (0 + w <=? I32_MAX)) && ((I32_MIN <=? 0 + h) && (0 + h <=? I32_MAX))) eqn:E.
  - unfold I32_MIN, I32_MAX, U32_MAX in E. rewrite E. reflexivity.
  - exfalso. unfold I32_MIN, I32_MAX, U32_MAX in E. b2p. lia.
Qed.

Theorem trim_no_panic fit doc canvas c :
  pixmap_new_ok canvas = true -> is_h canvas <= I32_MAX ->
  exists s, trim fit doc canvas c = ROk s.
Proof.
  intros P Hh. destruct c as [[[x y] w] h]. unfold trim. cbv zeta.
  unfold pixmap_new_ok in P. b2p.
  rewrite (limit_rect_ok (is_w canvas) (is_h canvas)) by lia.
  destruct (q_to_int_rect _ _ _ _) as [ci|]; [|eexists; reflexivity].
  destruct (cli_fit_to_rect ci _); eexists; reflexivity.
Qed.

Lemma from_ltrb_some l t r b x : irect_from_ltrb l t r b = Some x -> ix x = l /\ iy x = t /\ iw x = r - l /\ ih x = b - t /\ 0 < r - l /\ 0 < b - t.
Proof.
  unfold irect_from_ltrb. destruct (in_i32 (r - l) && in_i32 (b - t) && (0 <=? r - l) && (0 <=? b - t)); [|discriminate].
  unfold irect_from_xywh.
  destruct (in_i32 l && in_i32 t && (0 <? r - l) && (r - l <=? U32_MAX) && (0 <? b - t) && (b - t <=? U32_MAX) && (r - l <=? I32_MAX) &&
            (b - t <=? I32_MAX) && in_i32 (l + (r - l)) && in_i32 (t + (b - t))) eqn:E; [|discriminate].
  intro X. inversion X; subst; simpl. b2p. lia.
Qed.

Theorem trim_within_canvas fit doc canvas c s :
  pixmap_new_ok canvas = true -> is_h canvas <= I32_MAX -> trim fit doc canvas c = ROk s ->
  0 < is_w s <= is_w canvas /\ 0 < is_h s <= is_h canvas.
Proof.
  intros P Hh. destruct c as [[[x y] w] h]. unfold trim. cbv zeta. unfold pixmap_new_ok in P. b2p.
  rewrite (limit_rect_ok (is_w canvas) (is_h canvas)) by lia.
  destruct (q_to_int_rect _ _ _ _) as [ci|]; [|intro X; inversion X; subst; lia].
  destruct (cli_fit_to_rect ci _) as [r|] eqn:F.
  - intro X. inversion X; subst; simpl. unfold cli_fit_to_rect in F. apply from_ltrb_some in F.
    unfold i_right, i_bottom in F. simpl in F.
    destruct F as [_ [_ [Fw [Fh [Pw Ph]]]]]. rewrite Fw, Fh.
    repeat match goal with
           | H : context [if ?b then _ else _] |- _ => destruct b eqn:?
           | |- context [if ?b then _ else _] => destruct b eqn:?
           end; b2p; lia.
  - intro X. inversion X; subst. lia.
Qed.

(* the F20 scenario: content entirely outside the canvas - the untrimmed pixmap is kept, no panic *)
Lemma trim_f20_witness :
  trim FitOriginal {| is_w := 100; is_h := 100 |} {| is_w := 100; is_h := 100 |} (500 # 1, 500 # 1, 10 # 1, 10 # 1)%Q
  = ROk {| is_w := 100; is_h := 100 |}.
Proof. vm_compute. reflexivity. Qed.

(* ---- no panic: after 925640f / 57970e3 / 71df1bd / dd6e054 the only unwrap the arguments can reach is the canvas
   rectangle of trim_pixmap, and only for a canvas taller than i32::MAX rows (resource assumption) ------------------ *)
Lemma render_panic_only_tall a e sz p : e_tree e = Some sz -> render_svg a e sz = RPanic p ->
  canvas_height_fits_i32 a e = false.
Proof.
  intros T R. unfold render_svg in R. unfold canvas_height_fits_i32. rewrite T.
  destruct (a_export_id a) eqn:EI.
  - destruct (e_node e) as [| |x y w h]; try discriminate.
    destruct (fit_to_size (the_fit a) (to_int_size w h)) as [size|]; [|discriminate].
    destruct (negb (canvas_ok e size)); [discriminate|].
    destruct (a_area_page a); [|discriminate].
    destruct (fit_to_size (the_fit a) (to_int_size (fst sz) (snd sz))) as [psize|]; [|discriminate].
    destruct (negb (canvas_ok e psize)); discriminate.
  - destruct (fit_to_size (the_fit a) (to_int_size (fst sz) (snd sz))) as [size|] eqn:F1; [|discriminate].
    destruct (negb (canvas_ok e size)) eqn:P1; [discriminate|].
    destruct (a_area_drawing a); [|discriminate].
    unfold trim in R. destruct (e_content e) as [[[x y] w] h].
    destruct (is_h size <=? I32_MAX) eqn:HH; [|reflexivity]. exfalso.
    assert (Wok : 0 < is_w size <= MAX_PIXMAP_W /\ 0 < is_h size <= I32_MAX).
    { unfold canvas_ok in P1. apply negb_false_iff in P1. apply andb_true_iff in P1. destruct P1 as [P1 _].
      unfold pixmap_new_ok in P1. apply andb_true_iff in P1. destruct P1 as [P1 P1c].
      apply andb_true_iff in P1. destruct P1 as [P1a P1b]. apply Z.ltb_lt in P1a, P1b. apply Z.leb_le in P1c, HH. lia. }
    cbv zeta in R. rewrite (limit_rect_ok (is_w size) (is_h size)) in R by lia.
    destruct (q_to_int_rect _ _ _ _); [|discriminate].
    destruct (cli_fit_to_rect _ _); discriminate.
Qed.

Theorem no_panic a e : canvas_height_fits_i32 a e = true -> forall p, fst (process a e) <> Panic p.
Proof.
  intros K p X. apply panic_render in X. destruct X as [sz [T R]].
  rewrite (render_panic_only_tall a e sz p T R) in K. discriminate.
Qed.
(* without --export-area-drawing there is no panic at all *)
Theorem no_panic_without_trim a e : a_area_drawing a = false -> forall p, fst (process a e) <> Panic p.
Proof.
  intros AD p X. apply panic_render in X. destruct X as [sz [T R]]. unfold render_svg in R.
  destruct (a_export_id a).
  - destruct (e_node e) as [| |x y w h]; try discriminate.
    destruct (fit_to_size (the_fit a) (to_int_size w h)) as [size|]; [|discriminate].
    destruct (negb (canvas_ok e size)); [discriminate|].
    destruct (a_area_page a); [|discriminate].
    destruct (fit_to_size (the_fit a) (to_int_size (fst sz) (snd sz))) as [psize|]; [|discriminate].
    destruct (negb (canvas_ok e psize)); discriminate.
  - destruct (fit_to_size (the_fit a) (to_int_size (fst sz) (snd sz))) as [size|]; [|discriminate].
    destruct (negb (canvas_ok e size)); [discriminate|]. rewrite AD in R. discriminate.
Qed.

Lemma unwrap_ledger : unwrap_ledger_ok = true.
Proof. vm_compute. reflexivity. Qed.

Definition doc_20x10 : env := mk_env true true (Some (20 # 1, 10 # 1)%Q) 1 (NodeBox (2 # 1) (2 # 1) (5 # 1) (5 # 1)) (2 # 1, 2 # 1, 5 # 1, 5 # 1)%Q.
Definition args_w (w : Z) : cli_args := mk_args (Some w) None None None true true false false false false false.
(* regression witnesses of the four fixed classes (corpus/witness/F31.svg, F32.svg) *)
Lemma fixed_target_overflow : args_valid (args_w 1000000000) = true /\
  process (args_w 1000000000) doc_20x10 = (Exit1 ETargetTooLarge, false).
Proof. vm_compute. auto. Qed.
Definition env_far : env := mk_env true true (Some (20 # 1, 10 # 1)%Q) 1 (NodeBox (2000000000 # 1) (2 # 1) (300000000 # 1) (5 # 1))
                                   (2000000000 # 1, 2 # 1, 300000000 # 1, 5 # 1)%Q.
Definition args_adraw : cli_args := mk_args None None None None true true false false false false true.
Lemma fixed_area_drawing : process args_adraw env_far = (Exit0 (Some {| is_w := 20; is_h := 10 |}), true).
Proof. vm_compute. reflexivity. Qed.
Definition args_apage : cli_args := mk_args None None None None true true false false true true false.
Lemma fixed_area_page : process args_apage env_far = (Exit0 (Some {| is_w := 20; is_h := 10 |}), true).
Proof. vm_compute. reflexivity. Qed.
Lemma fixed_stdout_write :
  process (mk_args None None None None true true true false false false false)
          {| e_read_ok := true; e_gunzip_ok := true; e_utf8_ok := true; e_xml_ok := true; e_tree := Some (20 # 1, 10 # 1)%Q; e_ids := 1%nat;
             e_node := NodeMissing; e_content := (2 # 1, 2 # 1, 5 # 1, 5 # 1)%Q; e_alloc_ok := true; e_encode_ok := true; e_write_ok := false |}
  = (Exit1 EWrite, false).
Proof. vm_compute. reflexivity. Qed.

(* resvg -z 100000 on a 40x30 document (F36): the 48 TB buffer cannot be reserved -> exit 1, no output (fix 943ffd6) *)
Lemma fixed_alloc_abort :
  process (mk_args None None (Some (100000 # 1)%Q) None true true false false false false false)
          {| e_read_ok := true; e_gunzip_ok := true; e_utf8_ok := true; e_xml_ok := true; e_tree := Some (40 # 1, 30 # 1)%Q; e_ids := 0%nat;
             e_node := NodeMissing; e_content := (0, 0, 5 # 1, 5 # 1)%Q; e_alloc_ok := false; e_encode_ok := true; e_write_ok := true |}
  = (Exit1 ETargetTooLarge, false).
Proof. vm_compute. reflexivity. Qed.

(* non-vacuity: ordinary runs *)
Lemma run_w7 : process (args_w 7) doc_20x10 = (Exit0 (Some {| is_w := 7; is_h := 4 |}), true).
Proof. vm_compute. reflexivity. Qed.
Lemma run_z_small : process (mk_args None None (Some (1 # 1000)%Q) None true true false false false false false) doc_20x10 = (Exit1 ETargetZero, false).
Proof. vm_compute. reflexivity. Qed.
Lemma run_wh : process (mk_args (Some 7) (Some 9) None None true true false false false false false) doc_20x10 = (Exit0 (Some {| is_w := 7; is_h := 4 |}), true).
Proof. vm_compute. reflexivity. Qed.
Lemma run_z15 : process (mk_args None None (Some (3 # 2)%Q) None true true false false false false false) doc_20x10 = (Exit0 (Some {| is_w := 30; is_h := 15 |}), true).
Proof. vm_compute. reflexivity. Qed.
Lemma run_w0 : process (args_w 0) doc_20x10 = (Exit1 EArgs, false).
Proof. vm_compute. reflexivity. Qed.

(* ---- extension round 4: every size the tool computes, and every image it writes, has valid dimensions ---------- *)
Definition isize_valid (s : isize) : Prop := 0 < is_w s <= U32_MAX /\ 0 < is_h s <= U32_MAX.

Lemma sat_ceil_pos q : (0 < q)%Q -> 0 < sat_u32 (Qceiling q) <= U32_MAX.
Proof. intro H. apply Qceiling_pos in H. unfold sat_u32, U32_MAX. lia. Qed.

Lemma ratio_pos a b c : 0 < a -> 0 < b -> 0 < c -> (0 < zq a * zq b / zq c)%Q.
Proof.
  intros A B C. apply Qlt_shift_div_l. apply zq_pos; exact C.
  rewrite Qmult_0_l. apply Qmult_lt_0_compat; apply zq_pos; assumption.
Qed.

Lemma to_int_size_valid w h : isize_valid (to_int_size w h).
Proof.
  unfold isize_valid, to_int_size; simpl.
  pose proof (sat_u32_range (Qround_haz w)). pose proof (sat_u32_range (Qround_haz h)). unfold U32_MAX in *. lia.
Qed.

(* FitTo::fit_to_size (source-derived) never yields a zero or out-of-range side, whatever the option *)
Theorem fit_size_valid f s r : isize_valid s -> fit_to_size f s = Some r -> isize_valid r.
Proof.
  intros [[W0 W1] [H0 H1]] F. destruct f as [|w|h|w h|z]; simpl in F.
  - inversion F; subst. split; split; assumption.
  - unfold isize_scale_to_width in F. apply from_wh_some in F. unfold isize_valid. lia.
  - unfold isize_scale_to_height in F. apply from_wh_some in F. unfold isize_valid. lia.
  - destruct (isize_from_wh w h) as [s2|] eqn:E; [|discriminate]. simpl in F. inversion F; subst r; clear F.
    apply from_wh_some in E. unfold isize_scale_to.
    assert (P1 : 0 < sat_u32 (Qceiling (zq (is_h s2) * zq (is_w s) / zq (is_h s))%Q) <= U32_MAX)
      by (apply sat_ceil_pos, ratio_pos; lia).
    assert (P2 : 0 < sat_u32 (Qceiling (zq (is_w s2) * zq (is_h s) / zq (is_w s))%Q) <= U32_MAX)
      by (apply sat_ceil_pos, ratio_pos; lia).
    destruct (_ >=? _); unfold isize_valid; simpl; lia.
  - unfold isize_scale_by in F. apply from_wh_some in F. unfold isize_valid. lia.
Qed.

Lemma canvas_ok_dims e s : canvas_ok e s = true -> 0 < is_w s <= MAX_PIXMAP_W /\ 0 < is_h s.
Proof. unfold canvas_ok, pixmap_new_ok. intro H. b2p. lia. Qed.

(* render_svg: whichever path is taken (normal, --export-area-drawing, --export-id, --export-area-page), a returned
   pixmap has a width in 1..i32::MAX/4 and a height in 1..u32::MAX *)
Lemma render_ok_dims a e sz d : render_svg a e sz = ROk d ->
  0 < is_w d <= MAX_PIXMAP_W /\ 0 < is_h d <= U32_MAX.
Proof.
  unfold render_svg. intros R.
  destruct (a_export_id a).
  - destruct (e_node e) as [| |x y w h]; try discriminate.
    destruct (fit_to_size (the_fit a) (to_int_size w h)) as [size|] eqn:F1; [|discriminate].
    destruct (canvas_ok e size) eqn:C1; simpl in R; [|discriminate].
    destruct (a_area_page a).
    + destruct (fit_to_size (the_fit a) (to_int_size (fst sz) (snd sz))) as [psize|] eqn:F2; [|discriminate].
      destruct (canvas_ok e psize) eqn:C2; simpl in R; [|discriminate]. inversion R; subst d.
      apply canvas_ok_dims in C2. apply fit_size_valid in F2; [|apply to_int_size_valid]. unfold isize_valid in F2. lia.
    + inversion R; subst d.
      apply canvas_ok_dims in C1. apply fit_size_valid in F1; [|apply to_int_size_valid]. unfold isize_valid in F1. lia.
  - destruct (fit_to_size (the_fit a) (to_int_size (fst sz) (snd sz))) as [size|] eqn:F1; [|discriminate].
    destruct (canvas_ok e size) eqn:C1; simpl in R; [|discriminate].
    pose proof C1 as C1'. apply canvas_ok_dims in C1.
    apply fit_size_valid in F1; [|apply to_int_size_valid]. unfold isize_valid in F1.
    destruct (a_area_drawing a); [|inversion R; subst d; lia].
    destruct (is_h size <=? I32_MAX) eqn:HH.
    + apply Z.leb_le in HH. unfold canvas_ok in C1'. apply andb_true_iff in C1'. destruct C1' as [P _].
      pose proof (trim_within_canvas _ _ _ _ _ P HH R). lia.
    + exfalso. apply Z.leb_gt in HH. unfold trim in R. destruct (e_content e) as [[[x y] w] h]. cbv zeta in R.
      assert (N : irect_from_xywh 0 0 (is_w size) (is_h size) = None).
      { unfold irect_from_xywh. replace (is_h size <=? I32_MAX) with false by (symmetry; apply Z.leb_gt; exact HH).
        rewrite ?andb_false_r. reflexivity. }
      rewrite N in R. discriminate.
Qed.

(* lifted to the whole state machine: exit status 0 with an image => its dimensions are a valid PNG canvas *)
Theorem written_image_dims_valid a e d : fst (process a e) = Exit0 (Some d) ->
  snd (process a e) = true /\ 0 < is_w d <= MAX_PIXMAP_W /\ 0 < is_h d <= U32_MAX.
Proof.
  intros X. split; [exact (exit0_image_written a e d X)|].
  apply exit0_render in X. destruct X as [sz [T [R _]]]. exact (render_ok_dims a e sz d R).
Qed.

(* ---- round 4, 2nd pass: the hand-written render_svg IS the interpretation of the source-derived skeleton ------------ *)
Theorem render_svg_is_skeleton a e ds : render_svg a e ds = run_render a e ds.
Proof.
  unfold render_svg, run_render.
  change c20_render_export with [RsLookup "SVG doesn't have '{}' ID"; RsNodeBox "node has zero size"; RsFit SrcNode "target size is zero"; RsAlloc; RsRenderNode]%string.
  change c20_render_export_page with [RsFit SrcDoc "target size is zero"; RsAlloc; RsDraw]%string.
  change c20_render_normal with [RsFit SrcDoc "target size is zero"; RsAlloc; RsRender]%string.
  change c20_render_normal_drawing with [RsTrim].
  destruct (a_export_id a).
  - destruct (a_area_page a); cbn [app run_rsteps rstep_sem rs_size rs_canvas];
      destruct (e_node e) as [| |x y w h]; try reflexivity;
      destruct (fit_to_size (the_fit a) (to_int_size w h)) as [size|]; try reflexivity;
      cbn [rs_size rs_canvas]; destruct (canvas_ok e size); cbn [negb rs_size rs_canvas]; try reflexivity.
    destruct (fit_to_size (the_fit a) (to_int_size (fst ds) (snd ds))) as [psize|]; try reflexivity.
    cbn [rs_size rs_canvas]. destruct (canvas_ok e psize); reflexivity.
  - destruct (a_area_drawing a); cbn [app run_rsteps rstep_sem rs_size rs_canvas];
      destruct (fit_to_size (the_fit a) (to_int_size (fst ds) (snd ds))) as [size|]; try reflexivity;
      cbn [rs_size rs_canvas]; destruct (canvas_ok e size); cbn [negb rs_size rs_canvas]; try reflexivity.
    destruct (trim (the_fit a) (to_int_size (fst ds) (snd ds)) size (e_content e)); reflexivity.
Qed.

Lemma render_msgs : render_msgs_ok = true.
Proof. vm_compute. reflexivity. Qed.

(* every fallible step of render_svg comes before the pixels are drawn into the final canvas is irrelevant for the
   output file: render_svg returns a value, the file is written by `process` afterwards (steps_write_last). What the
   skeleton adds: in every branch each canvas allocation is preceded by the fit that computes its size. *)
Fixpoint alloc_after_fit (l : list rstep) (have : bool) : bool :=
  match l with
  | [] => true
  | RsFit _ _ :: r => alloc_after_fit r true
  | RsAlloc :: r => have && alloc_after_fit r false
  | _ :: r => alloc_after_fit r have
  end.
Lemma render_allocs_follow_fits :
  alloc_after_fit (c20_render_export ++ c20_render_export_page) false = true /\
  alloc_after_fit (c20_render_normal ++ c20_render_normal_drawing) false = true.
Proof. split; vm_compute; reflexivity. Qed.

(* ---- the node's place on the page (--export-id with --export-area-page): source-derived expression ----------------- *)
From Coq Require Import Qabs.
Lemma Qtrunc_spec q : (Qabs (zq (Qtrunc q) - q) < 1)%Q /\ ((0 <= q)%Q -> (zq (Qtrunc q) <= q)%Q) /\ ((q < 0)%Q -> (q <= zq (Qtrunc q))%Q).
Proof.
  unfold Qtrunc, zq. destruct (Qle_bool 0 q) eqn:E.
  - apply Qle_bool_iff in E. pose proof (Qfloor_le q) as F1. pose proof (Qlt_floor q) as F2.
    rewrite inject_Z_plus in F2. change (inject_Z 1) with 1%Q in F2.
    split; [apply Qabs_case; intros; lra|]. split; intros; lra.
  - assert (q < 0)%Q as N. { apply Qnot_le_lt. intro H. apply Qle_bool_iff in H. congruence. }
    pose proof (Qle_ceiling q) as C1. pose proof (Qceiling_lt q) as C2.
    assert (C3 : (inject_Z (Qceiling q - 1) == inject_Z (Qceiling q) - 1)%Q) by (unfold Z.sub; rewrite inject_Z_plus; reflexivity). rewrite C3 in C2.
    split; [apply Qabs_case; intros; lra|]. split; intros; lra.
Qed.

Theorem page_offset_is_scaled_origin bbox t :
  page_offset_gen bbox t = (sat_i32 (Qtrunc (rx bbox * t_sx t)%Q), sat_i32 (Qtrunc (ry bbox * t_sy t)%Q)).
Proof. reflexivity. Qed.

(* for every fractional origin and zoom whose product fits i32: the pixel position is the scaled origin rounded toward
   zero, less than one pixel away from it *)
Theorem page_offset_within_pixel bbox t : in_i32 (Qtrunc (rx bbox * t_sx t)%Q) = true -> in_i32 (Qtrunc (ry bbox * t_sy t)%Q) = true ->
  (Qabs (zq (fst (page_offset_gen bbox t)) - rx bbox * t_sx t) < 1)%Q /\
  (Qabs (zq (snd (page_offset_gen bbox t)) - ry bbox * t_sy t) < 1)%Q.
Proof.
  intros X Y. rewrite page_offset_is_scaled_origin. cbn [fst snd].
  unfold in_i32 in X, Y. b2p.
  assert (Ex : sat_i32 (Qtrunc (rx bbox * t_sx t)) = Qtrunc (rx bbox * t_sx t)) by (unfold sat_i32; lia).
  assert (Ey : sat_i32 (Qtrunc (ry bbox * t_sy t)) = Qtrunc (ry bbox * t_sy t)) by (unfold sat_i32; lia).
  rewrite Ex, Ey. split; apply Qtrunc_spec.
Qed.

(* the hand-written page_offset of Model/Cli.v = the generated expression *)
Lemma page_offset_hand_is_gen a docsize x y w h :
  page_offset a docsize x y w h = page_offset_gen {| rx := x; ry := y; rw := w; rh := h |} (export_ts a docsize w h).
Proof. reflexivity. Qed.

Lemma main_exit_code : (c20_main_err_exit = 1 /\ (forall k, outcome_code (Exit1 k) = 1) /\ (forall d, outcome_code (Exit0 d) = 0))%Z.
Proof. repeat split. Qed.

Theorem run_render_ok_dims a e sz d : run_render a e sz = ROk d ->
  (0 < is_w d <= MAX_PIXMAP_W /\ 0 < is_h d <= U32_MAX)%Z.
Proof. rewrite <- render_svg_is_skeleton. apply render_ok_dims. Qed.

(* ---- round 5 (seed C20-16): --languages reaches usvg::Options::languages as written --------------------------------- *)
Lemma opt_map_all_total {A B} (f : A -> B) (g : A -> option B) l :
  (forall x, g x = Some (f x)) -> opt_map_all g l = Some (map f l).
Proof. intro H. induction l as [|x r IH]; [reflexivity|]. cbn. rewrite H, IH. reflexivity. Qed.

Theorem usvg_languages_unchanged arg :
  cli_languages usvg_lang_separator usvg_lang_item_ops usvg_lang_all_items_kept usvg_lang_passed_unchanged arg = Some (spec_languages arg).
Proof.
  assert (H : forall x, lang_apply usvg_lang_item_ops x = Some (strim x)) by (intro; reflexivity).
  unfold cli_languages, spec_languages.
  change usvg_lang_all_items_kept with true. change usvg_lang_passed_unchanged with true. cbn [andb].
  change usvg_lang_separator with ","%string. apply opt_map_all_total. exact H.
Qed.

Theorem resvg_languages_unchanged arg :
  cli_languages resvg_lang_separator resvg_lang_item_ops resvg_lang_all_items_kept resvg_lang_passed_unchanged arg = Some (spec_languages arg).
Proof.
  assert (H : forall x, lang_apply resvg_lang_item_ops x = Some (strim x)) by (intro; reflexivity).
  unfold cli_languages, spec_languages.
  change resvg_lang_all_items_kept with true. change resvg_lang_passed_unchanged with true. cbn [andb].
  change resvg_lang_separator with ","%string. apply opt_map_all_total. exact H.
Qed.

Lemma languages_faithful_flags :
  lang_ops_faithful usvg_lang_separator usvg_lang_item_ops usvg_lang_all_items_kept usvg_lang_passed_unchanged = true /\
  lang_ops_faithful resvg_lang_separator resvg_lang_item_ops resvg_lang_all_items_kept resvg_lang_passed_unchanged = true.
Proof. split; vm_compute; reflexivity. Qed.

(* case, duplicates and order are kept; blanks after commas are dropped *)
Lemma languages_example :
  cli_languages usvg_lang_separator usvg_lang_item_ops usvg_lang_all_items_kept usvg_lang_passed_unchanged "EN-us, de-DE,de-DE , zh-Hant"%string
  = Some ["EN-us"; "de-DE"; "de-DE"; "zh-Hant"]%string.
Proof. vm_compute. reflexivity. Qed.
