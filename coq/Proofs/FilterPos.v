(* C13 (extension round 4): position-dependent filter primitives under an integer move of the layer frame. *)
From Coq Require Import QArith Lqa Lia ZArith List.
From RV Require Import Model.Base Model.RenderPrims Model.Render Gen.LeafFilterPos Model.FilterPos.
Local Open Scope Q_scope.

Ltac unf := unfold qpair_eq, turb_device_sample, turb_sample, turb_offset, point_light_xy, spot_light_xy,
  spot_points_at_xy, filter_canvas_draw_pos, ts_shift, ishift, from_row, map_x, map_y;
  cbn [fst snd ix iy iw ih t_sx t_ky t_kx t_sy t_tx t_ty].
Ltac inj := repeat (rewrite inject_Z_plus || rewrite inject_Z_opp || rewrite inject_Z_mult || (unfold Z.sub; rewrite inject_Z_plus)).

(* feTurbulence: the offset handed to turbulence::apply does not see the layer frame at all *)
Lemma turb_offset_frame_invariant : forall region t ex ey,
  qpair_eq (turb_offset (ishift ex ey region) (ts_shift ex ey t)) (turb_offset region t).
Proof. intros. unf. inj. split; ring. Qed.

(* fePointLight: position relative to the region origin *)
Lemma point_light_frame_invariant : forall lx ly region t ex ey,
  qpair_eq (point_light_xy lx ly (ishift ex ey region) (ts_shift ex ey t)) (point_light_xy lx ly region t).
Proof. intros. unf. inj. split; ring. Qed.

(* feSpotLight (after a831d94: y coordinates relative to region.y()): position and pointsAt relative to the region origin *)
Lemma spot_light_frame_invariant : forall lx ly px py region t ex ey,
  qpair_eq (spot_light_xy lx ly (ishift ex ey region) (ts_shift ex ey t)) (spot_light_xy lx ly region t) /\
  qpair_eq (spot_points_at_xy px py (ishift ex ey region) (ts_shift ex ey t)) (spot_points_at_xy px py region t).
Proof. intros. unf. inj. repeat split; ring. Qed.

(* the turbulence phase of a device pixel.  Correct (= the pixel mapped back through the device transform) exactly
   when the region starts at the layer origin *)
Lemma turb_device_sample_correct : forall px py ox oy region t sx sy, ~ sx == 0 -> ~ sy == 0 ->
  ix region = 0%Z -> iy region = 0%Z ->
  qpair_eq (turb_device_sample px py ox oy region t sx sy)
           ((inject_Z px - (t_tx t + inject_Z ox)) / sx, (inject_Z py - (t_ty t + inject_Z oy)) / sy).
Proof. intros px py ox oy region t sx sy Hx Hy Rx Ry. unf. rewrite Rx, Ry. inj. split; field; assumption. Qed.

(* two renderings, root moved by (dx, dy), layer frame moved by (ex, ey): the phase at the moved pixel differs by
   exactly (ex / sx, ey / sy) *)
Lemma turb_device_sample_shift : forall px py ox oy dx dy ex ey region t sx sy, ~ sx == 0 -> ~ sy == 0 ->
  fst (turb_device_sample (px + dx) (py + dy) (ox + dx - ex) (oy + dy - ey) (ishift ex ey region) (ts_shift ex ey t) sx sy)
    == fst (turb_device_sample px py ox oy region t sx sy) + inject_Z ex / sx /\
  snd (turb_device_sample (px + dx) (py + dy) (ox + dx - ex) (oy + dy - ey) (ishift ex ey region) (ts_shift ex ey t) sx sy)
    == snd (turb_device_sample px py ox oy region t sx sy) + inject_Z ey / sy.
Proof. intros px py ox oy dx dy ex ey region t sx sy Hx Hy. unf. inj. split; field; assumption. Qed.

Lemma turb_device_sample_equivariant_guarded : forall px py ox oy dx dy region t sx sy, ~ sx == 0 -> ~ sy == 0 ->
  qpair_eq (turb_device_sample (px + dx) (py + dy) (ox + dx) (oy + dy) region t sx sy)
           (turb_device_sample px py ox oy region t sx sy).
Proof. intros px py ox oy dx dy region t sx sy Hx Hy. unf. inj. split; field; assumption. Qed.

(* the clamped filter layer recorded from the real renderer (corpus/witness/C13-clamped-filter-turbulence.svg on a
   60x60 canvas, root translate(9,-4)): layer origin (-120,-120) in both renderings, region (-80,-80) / (-71,-84),
   layer-local translation (120,120) / (129,116) *)
Lemma turb_device_sample_refuted : exists px py ox oy dx dy ex ey region t sx sy,
  ~ sx == 0 /\ ~ sy == 0 /\
  ~ qpair_eq (turb_device_sample (px + dx) (py + dy) (ox + dx - ex) (oy + dy - ey) (ishift ex ey region) (ts_shift ex ey t) sx sy)
             (turb_device_sample px py ox oy region t sx sy).
Proof.
  exists 10%Z, 10%Z, (-120)%Z, (-120)%Z, 9%Z, (-4)%Z, 9%Z, (-4)%Z, (mk_irect (-80) (-80) 600 600), (from_row 1 0 0 1 120 120), 1, 1.
  split; [intro H; discriminate H|]. split; [intro H; discriminate H|].
  intros [H _]. vm_compute in H. discriminate H.
Qed.

(* ------------------------------------------------------------------ second pass *)
From RV Require Import Gen.LeafFit Gen.LeafRender Proofs.Render.

(* the clip of a primitive result and feTile's tile are taken relative to the region: frame-independent *)
Lemma translate_checked_frame_invariant : forall r o ex ey,
  translate_checked (ishift ex ey r) (ishift ex ey o) = translate_checked r o.
Proof.
  intros. unfold translate_checked, ishift; cbn [ix iy iw ih].
  replace (ix r + ex - (ix o + ex))%Z with (ix r - ix o)%Z by lia.
  replace (iy r + ey - (iy o + ey))%Z with (iy r - iy o)%Z by lia. reflexivity.
Qed.
Lemma tile_origin_frame_invariant : forall input_region region ex ey,
  tile_origin (ishift ex ey input_region) (ishift ex ey region) = tile_origin input_region region.
Proof. intros. unfold tile_origin. rewrite translate_checked_frame_invariant. reflexivity. Qed.

(* feImage is placed by the layer-absolute sub-region: its device position follows the root translation whatever the frame does *)
Lemma feimage_device_pos_equivariant : forall ox oy dx dy ex ey sub region,
  feimage_device_pos (ox + dx - ex) (oy + dy - ey) (ishift ex ey sub) (ishift ex ey region) =
  ((fst (feimage_device_pos ox oy sub region) + dx)%Z, (snd (feimage_device_pos ox oy sub region) + dy)%Z).
Proof.
  intros. unfold feimage_device_pos, feimage_pos, filter_canvas_draw_pos, ishift; cbn [fst snd ix iy iw ih].
  f_equal; lia.
Qed.

(* feOffset / feDropShadow offsets see the linear part only *)
Lemma offset_of_frame_invariant : forall hyp dx dy t ex ey, offset_of hyp dx dy (ts_shift ex ey t) = offset_of hyp dx dy t.
Proof. intros. reflexivity. Qed.

(* pattern phase: every point of tile space lands (dx, dy) further on the device *)
Lemma pattern_phase_equivariant : forall T pattern_ts rx ry sx sy dx dy x y,
  map_x (pattern_device_ts (ts_shift dx dy T) pattern_ts rx ry sx sy) x y
    == map_x (pattern_device_ts T pattern_ts rx ry sx sy) x y + inject_Z dx /\
  map_y (pattern_device_ts (ts_shift dx dy T) pattern_ts rx ry sx sy) x y
    == map_y (pattern_device_ts T pattern_ts rx ry sx sy) x y + inject_Z dy.
Proof.
  intros. unfold pattern_device_ts, ts_shift, ts_concat, from_row, map_x, map_y;
  cbn [t_sx t_ky t_kx t_sy t_tx t_ty]. split; ring.
Qed.

(* primitive sub-regions (and the region): to_int_rect of the device box, exactly equivariant in the Q idealisation
   while no i32 cast saturates.  In f32 the box edges x + w are rounded, so an edge within an ulp of an integer can
   floor / ceil differently after the move: the registered class filter-region-ulp *)
Lemma subregion_equivariant : forall b ex ey, small_bbox b -> small_bbox (qshift ex ey b) ->
  filter_to_int_rect (qshift ex ey b) = option_map (ishift ex ey) (filter_to_int_rect b).
Proof.
  intros b ex ey S S'. rewrite (filter_to_int_rect_small _ S), (filter_to_int_rect_small _ S'). cbn [option_map].
  rewrite raw_box_shift. reflexivity.
Qed.
