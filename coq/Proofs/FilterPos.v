(* C13 (extension round 4): position-dependent filter primitives under an integer move of the layer frame. *)
From Coq Require Import QArith Lqa Lia ZArith List.
From RV Require Import Model.Base Model.RenderPrims Model.Render Gen.LeafFilterPos Model.FilterPos.
Local Open Scope Q_scope.

Ltac unf := unfold qpair_eq, turb_device_sample, turb_sample, turb_offset, point_light_xy, spot_light_xy,
  spot_points_at_xy, filter_canvas_draw_pos, ts_shift, ishift, from_row, map_x, map_y;
  cbn [fst snd ix iy iw ih t_sx t_ky t_kx t_sy t_tx t_ty].
Ltac inj := repeat (rewrite inject_Z_plus || rewrite inject_Z_opp || rewrite inject_Z_mult || (unfold Z.sub; rewrite inject_Z_plus)).

(* feTurbulence: the offset handed to turbulence::apply does not see the layer frame at all *)
Lemma turb_offset_frame_invariant : forall region t ex ey,
  qpair_eq (turb_offset (ishift ex ey region) (ts_shift ex ey t)) (turb_offset region t).
Proof. intros. unf. inj. split; ring. Qed.

(* fePointLight: position relative to the region origin *)
Lemma point_light_frame_invariant : forall lx ly region t ex ey,
  qpair_eq (point_light_xy lx ly (ishift ex ey region) (ts_shift ex ey t)) (point_light_xy lx ly region t).
Proof. intros. unf. inj. split; ring. Qed.

(* feSpotLight (after a831d94: y coordinates relative to region.y()): position and pointsAt relative to the region origin *)
Lemma spot_light_frame_invariant : forall lx ly px py region t ex ey,
  qpair_eq (spot_light_xy lx ly (ishift ex ey region) (ts_shift ex ey t)) (spot_light_xy lx ly region t) /\
  qpair_eq (spot_points_at_xy px py (ishift ex ey region) (ts_shift ex ey t)) (spot_points_at_xy px py region t).
Proof. intros. unf. inj. repeat split; ring. Qed.

(* the turbulence phase of a device pixel.  Correct (= the pixel mapped back through the device transform) exactly
   when the region starts at the layer origin *)
Lemma turb_device_sample_correct : forall px py ox oy region t sx sy, ~ sx == 0 -> ~ sy == 0 ->
  ix region = 0%Z -> iy region = 0%Z ->
  qpair_eq (turb_device_sample px py ox oy region t sx sy)
           ((inject_Z px - (t_tx t + inject_Z ox)) / sx, (inject_Z py - (t_ty t + inject_Z oy)) / sy).
Proof. intros px py ox oy region t sx sy Hx Hy Rx Ry. unf. rewrite Rx, Ry. inj. split; field; assumption. Qed.

(* two renderings, root moved by (dx, dy), layer frame moved by (ex, ey): the phase at the moved pixel differs by
   exactly (ex / sx, ey / sy) *)
Lemma turb_device_sample_shift : forall px py ox oy dx dy ex ey region t sx sy, ~ sx == 0 -> ~ sy == 0 ->
  fst (turb_device_sample (px + dx) (py + dy) (ox + dx - ex) (oy + dy - ey) (ishift ex ey region) (ts_shift ex ey t) sx sy)
    == fst (turb_device_sample px py ox oy region t sx sy) + inject_Z ex / sx /\
  snd (turb_device_sample (px + dx) (py + dy) (ox + dx - ex) (oy + dy - ey) (ishift ex ey region) (ts_shift ex ey t) sx sy)
    == snd (turb_device_sample px py ox oy region t sx sy) + inject_Z ey / sy.
Proof. intros px py ox oy dx dy ex ey region t sx sy Hx Hy. unf. inj. split; field; assumption. Qed.

Lemma turb_device_sample_equivariant_guarded : forall px py ox oy dx dy region t sx sy, ~ sx == 0 -> ~ sy == 0 ->
  qpair_eq (turb_device_sample (px + dx) (py + dy) (ox + dx) (oy + dy) region t sx sy)
           (turb_device_sample px py ox oy region t sx sy).
Proof. intros px py ox oy dx dy region t sx sy Hx Hy. unf. inj. split; field; assumption. Qed.

(* the clamped filter layer recorded from the real renderer (corpus/witness/C13-clamped-filter-turbulence.svg on a
   60x60 canvas, root translate(9,-4)): layer origin (-120,-120) in both renderings, region (-80,-80) / (-71,-84),
   layer-local translation (120,120) / (129,116) *)
Lemma turb_device_sample_refuted : exists px py ox oy dx dy ex ey region t sx sy,
  ~ sx == 0 /\ ~ sy == 0 /\
  ~ qpair_eq (turb_device_sample (px + dx) (py + dy) (ox + dx - ex) (oy + dy - ey) (ishift ex ey region) (ts_shift ex ey t) sx sy)
             (turb_device_sample px py ox oy region t sx sy).
Proof.
  exists 10%Z, 10%Z, (-120)%Z, (-120)%Z, 9%Z, (-4)%Z, 9%Z, (-4)%Z, (mk_irect (-80) (-80) 600 600), (from_row 1 0 0 1 120 120), 1, 1.
  split; [intro H; discriminate H|]. split; [intro H; discriminate H|].
  intros [H _]. vm_compute in H. discriminate H.
Qed.
