(* C02: no step of the turbulence integer arithmetic leaves the i32 range. *)
From RV Require Import Model.Base Model.RenderPrims Gen.LeafTurb Model.Turb.
Local Open Scope Z_scope.

Lemma wrap_i32_in z : i32P (wrap_i32 z).
Proof.
  unfold i32P, wrap_i32, u32_as_i32, I32_MIN, I32_MAX.
  pose proof (Z.mod_pos_bound z 4294967296 ltac:(lia)) as H.
  destruct (z mod 4294967296 <=? 2147483647) eqn:E; [apply Z.leb_le in E | apply Z.leb_gt in E]; lia.
Qed.

Ltac steps_in := repeat (constructor; [first [apply wrap_i32_in | unfold i32P, I32_MIN, I32_MAX; lia] |]); try constructor.

(* init: for every seed <= 0 of the i32 range the normalisation stays in range and yields a seed in [1, RAND_M - 1] *)
Lemma turb_seed_ok seed : I32_MIN <= seed <= 0 ->
  Forall i32P (turb_seed_steps seed) /\ 1 <= turb_seed_norm seed <= 2147483646.
Proof.
  intro H. unfold turb_seed_steps, turb_seed_norm, I32_MIN in *.
  change (2147483647 - 1) with 2147483646.
  assert (R : - 2147483646 < Z.rem seed 2147483646 <= 0).
  { apply (Z.rem_bound_pos_neg seed 2147483646); lia. }
  set (r := Z.rem seed 2147483646) in *. split; [steps_in | lia].
Qed.

(* turbulence: one octave of the stitch update never leaves the range, whatever the current values are;
   hence neither do num_octaves of them *)
Lemma turb_stitch_ok w x h y : i32P w -> i32P x -> i32P h -> i32P y ->
  Forall i32P (turb_stitch_steps w x h y) /\
  (let '(w', x', h', y') := turb_stitch_next w x h y in i32P w' /\ i32P x' /\ i32P h' /\ i32P y').
Proof.
  intros Hw Hx Hh Hy. unfold turb_stitch_steps, turb_stitch_next. split; [steps_in|].
  repeat split; apply wrap_i32_in.
Qed.

(* noise2: the lattice wrap-around subtraction *)
Lemma turb_wrap_ok b w : i32P b -> i32P w -> Forall i32P (turb_wrap_steps b w).
Proof. intros Hb Hw. unfold turb_wrap_steps. steps_in. Qed.
