(* C17 (extension round 4, 2nd pass): <image> placement.  Theorems about the SOURCE-DERIVED
   Gen.LeafImage.{image_ts_gen, image_bbox_gen, image_clip_gen} (image.rs convert_inner). *)
From RV Require Import Model.Base Model.GeomPrims Model.ViewBoxSpec Model.Corr Model.ViewBoxChk Gen.Units Model.SvgSize Gen.PctAxis.
From RV Require Import Model.ViewportPrims Gen.LeafViewBox Gen.LeafImage Proofs.ViewBox Proofs.Viewport.
Local Open Scope Q_scope.

(* the hand-written image_ts of Model/ViewBoxChk.v (used by the `viewbox` correspondence) IS the generated one *)
Lemma image_ts_hand_is_gen actual rect a : image_ts actual rect a = image_ts_gen actual rect a.
Proof.
  unfold image_ts, image_ts_gen. cbn [g_width g_height HasWH_rect HasWH_size]. unfold Qminus.
  destruct (aligned_pos (ar_align a) (rx rect) (ry rect) _ _) as [ax ay]. reflexivity.
Qed.

Definition image_vb (actual : qsize) (a : aspect) : viewbox :=
  {| vb_rect := {| rx := 0; ry := 0; rw := sw actual; rh := sh actual |}; vb_aspect := a |}.

(* the picture is placed exactly as the viewBox (0, 0, natural size) is mapped onto the element rectangle *)
Lemma image_ts_gen_fit actual rect a : pos_size actual -> pos_rect rect ->
  ts_eq (image_ts_gen actual rect a) (ts_concat (from_translate (rx rect) (ry rect)) (to_transform (image_vb actual a) (r_size rect))).
Proof. intros P R. rewrite <- image_ts_hand_is_gen. apply image_fit; assumption. Qed.

(* the slice clip is the element rectangle itself (x, y, width, height as written), present exactly for `slice` *)
Lemma image_clip_spec actual rect a : image_clip_gen actual rect a = if ar_slice a then Some rect else None.
Proof.
  unfold image_clip_gen, no_clip. destruct (aligned_pos _ _ _ _ _). reflexivity.
Qed.

(* the bounding box of the image node is computed from the ALIGNED transform (not from the raw x / y) *)
Lemma image_bbox_uses_ts actual rect a pts :
  image_bbox_gen actual rect a pts = rect_transform (size_to_rect actual 0 0) (ts_concat pts (image_ts_gen actual rect a)).
Proof.
  unfold image_bbox_gen, image_ts_gen. destruct (aligned_pos _ _ _ _ _). reflexivity.
Qed.

Lemma Qmin2_le a b : a <= b -> Qmin2 a b = a.
Proof. intro H. unfold Qmin2. apply Qleb_true in H. rewrite H. reflexivity. Qed.
Lemma Qmax2_le a b : a <= b -> Qmax2 a b = b.
Proof. intro H. unfold Qmax2. apply Qleb_true in H. rewrite H. reflexivity. Qed.
Lemma Qmin2_eq a b : a == b -> Qmin2 a b == a.
Proof. intro H. unfold Qmin2. destruct (Qleb a b); lra. Qed.
Lemma Qmax2_eq a b : a == b -> Qmax2 a b == a.
Proof. intro H. unfold Qmax2. destruct (Qleb a b); lra. Qed.

(* NonZeroRect::transform under a transform without skew and with positive scales: the mapped corner box *)
Lemma rect_transform_axis r t : pos_rect r -> t_kx t == 0 -> t_ky t == 0 -> 0 < t_sx t -> 0 < t_sy t ->
  exists b, rect_transform r t = Some b /\
            rx b == map_x t (rx r) (ry r) /\ ry b == map_y t (rx r) (ry r) /\
            rx b + rw b == map_x t (rx r + rw r) (ry r + rh r) /\ ry b + rh b == map_y t (rx r + rw r) (ry r + rh r).
Proof.
  intros [Pw Ph] Kx Ky Sx Sy. unfold rect_transform. cbv zeta.
  set (x0 := rx r) in *. set (y0 := ry r) in *. set (w := rw r) in *. set (h := rh r) in *.
  assert (A1 : map_x t x0 y0 <= map_x t (x0 + w) y0) by (unfold map_x; nra).
  assert (A2 : map_x t x0 (y0 + h) <= map_x t (x0 + w) (y0 + h)) by (unfold map_x; nra).
  assert (A3 : map_x t x0 y0 == map_x t x0 (y0 + h)) by (unfold map_x; nra).
  assert (A4 : map_x t (x0 + w) y0 == map_x t (x0 + w) (y0 + h)) by (unfold map_x; nra).
  assert (B1 : map_y t x0 y0 == map_y t (x0 + w) y0) by (unfold map_y; nra).
  assert (B2 : map_y t x0 (y0 + h) == map_y t (x0 + w) (y0 + h)) by (unfold map_y; nra).
  assert (B3 : map_y t x0 y0 <= map_y t x0 (y0 + h)) by (unfold map_y; nra).
  assert (Wpos : map_x t x0 y0 < map_x t (x0 + w) (y0 + h)) by (unfold map_x; nra).
  assert (Hpos : map_y t x0 y0 < map_y t (x0 + w) (y0 + h)) by (unfold map_y; nra).
  rewrite (Qmin2_le _ _ A1), (Qmin2_le _ _ A2), (Qmax2_le _ _ A1), (Qmax2_le _ _ A2).
  pose proof (Qmin2_eq _ _ A3) as L. pose proof (Qmax2_eq _ _ A4) as R.
  pose proof (Qmin2_eq _ _ B1) as T1. pose proof (Qmin2_eq _ _ B2) as T2.
  pose proof (Qmax2_eq _ _ B1) as U1. pose proof (Qmax2_eq _ _ B2) as U2.
  set (l := Qmin2 (map_x t x0 y0) (map_x t x0 (y0 + h))) in *.
  set (rr := Qmax2 (map_x t (x0 + w) y0) (map_x t (x0 + w) (y0 + h))) in *.
  set (p1 := Qmin2 (map_y t x0 y0) (map_y t (x0 + w) y0)) in *.
  set (p2 := Qmin2 (map_y t x0 (y0 + h)) (map_y t (x0 + w) (y0 + h))) in *.
  set (q1 := Qmax2 (map_y t x0 y0) (map_y t (x0 + w) y0)) in *.
  set (q2 := Qmax2 (map_y t x0 (y0 + h)) (map_y t (x0 + w) (y0 + h))) in *.
  assert (P12 : p1 <= p2) by lra. assert (Q12 : q1 <= q2) by lra.
  rewrite (Qmin2_le _ _ P12), (Qmax2_le _ _ Q12).
  unfold nzrect_from_xywh.
  assert (E1 : Qltb 0 (rr - l) = true) by (apply Qltb_true; lra).
  assert (E2 : Qltb 0 (q2 - p1) = true) by (apply Qltb_true; lra).
  rewrite E1, E2. cbn [andb]. eexists. split; [reflexivity|]. cbn [rx ry rw rh]. repeat split; lra.
Qed.

(* with the parent at the identity: the image's bounding box is the image of the natural-size viewBox under the
   preserveAspectRatio mapping onto the element rectangle, i.e. it starts at the ALIGNED position *)
Lemma image_bbox_spec actual rect a : pos_size actual -> pos_rect rect ->
  let T := to_transform (image_vb actual a) (r_size rect) in
  let r := vb_rect (image_vb actual a) in
  exists b, image_bbox_gen actual rect a ts_identity = Some b /\
            rx b == rx rect + img_lo_x T r /\ rx b + rw b == rx rect + img_hi_x T r /\
            ry b == ry rect + img_lo_y T r /\ ry b + rh b == ry rect + img_hi_y T r.
Proof.
  intros P R T r. rewrite image_bbox_uses_ts.
  pose proof (image_ts_gen_fit actual rect a P R) as F.
  assert (V : vb_ok (image_vb actual a) (r_size rect)) by (split; [exact P | exact R]).
  destruct (no_skew (image_vb actual a) (r_size rect)) as [K1 K2].
  destruct (scale_positive _ _ V) as [S1 S2].
  fold T in F, K1, K2, S1, S2.
  set (G := image_ts_gen actual rect a) in *.
  destruct F as (F1 & F2 & F3 & F4 & F5 & F6).
  unfold ts_concat, from_translate, from_row in F1, F2, F3, F4, F5, F6. cbn in F1, F2, F3, F4, F5, F6.
  set (I := ts_concat ts_identity G).
  assert (I1 : t_sx I == t_sx T) by (unfold I, ts_concat, ts_identity, from_row; cbn; lra).
  assert (I2 : t_sy I == t_sy T) by (unfold I, ts_concat, ts_identity, from_row; cbn; lra).
  assert (I3 : t_kx I == 0) by (unfold I, ts_concat, ts_identity, from_row; cbn; lra).
  assert (I4 : t_ky I == 0) by (unfold I, ts_concat, ts_identity, from_row; cbn; lra).
  assert (I5 : t_tx I == t_tx T + rx rect) by (unfold I, ts_concat, ts_identity, from_row; cbn; lra).
  assert (I6 : t_ty I == t_ty T + ry rect) by (unfold I, ts_concat, ts_identity, from_row; cbn; lra).
  assert (PR : pos_rect (size_to_rect actual 0 0)) by (destruct P as [Pa Pb]; split; cbn; assumption).
  assert (J1 : 0 < t_sx I) by lra. assert (J2 : 0 < t_sy I) by lra.
  destruct (rect_transform_axis (size_to_rect actual 0 0) I PR I3 I4 J1 J2) as (b & E & X0 & Y0 & X1 & Y1).
  exists b. split; [exact E|].
  unfold size_to_rect in X0, Y0, X1, Y1. cbn [rx ry rw rh] in X0, Y0, X1, Y1.
  unfold img_lo_x, img_hi_x, img_lo_y, img_hi_y, r, image_vb. cbn [vb_rect rx ry rw rh].
  unfold map_x, map_y in *. clearbody I T G. repeat split; nra.
Qed.
