(* C12 lemmas about Model/BBox.v (exact rational arithmetic). *)
From Coq Require Import Qminmax.
From RV Require Import Model.Base Model.BBox Gen.BBoxTables.
Local Open Scope Q_scope.

(* ------------------------------------------------------------------ min4 / max4 *)
Lemma min4_le a b c d : min4 a b c d <= a /\ min4 a b c d <= b /\ min4 a b c d <= c /\ min4 a b c d <= d.
Proof.
  unfold min4. repeat split.
  - eapply Qle_trans; [apply Q.le_min_l|apply Q.le_min_l].
  - eapply Qle_trans; [apply Q.le_min_l|apply Q.le_min_r].
  - eapply Qle_trans; [apply Q.le_min_r|apply Q.le_min_l].
  - eapply Qle_trans; [apply Q.le_min_r|apply Q.le_min_r].
Qed.
Lemma max4_ge a b c d : a <= max4 a b c d /\ b <= max4 a b c d /\ c <= max4 a b c d /\ d <= max4 a b c d.
Proof.
  unfold max4. repeat split.
  - eapply Qle_trans; [apply Q.le_max_l|apply Q.le_max_l].
  - eapply Qle_trans; [apply Q.le_max_r|apply Q.le_max_l].
  - eapply Qle_trans; [apply Q.le_max_l|apply Q.le_max_r].
  - eapply Qle_trans; [apply Q.le_max_r|apply Q.le_max_r].
Qed.
Lemma min4_attained a b c d : min4 a b c d == a \/ min4 a b c d == b \/ min4 a b c d == c \/ min4 a b c d == d.
Proof.
  unfold min4.
  destruct (Q.min_spec a b) as [[_ E1]|[_ E1]], (Q.min_spec c d) as [[_ E2]|[_ E2]],
           (Q.min_spec (Qmin a b) (Qmin c d)) as [[_ E3]|[_ E3]]; rewrite E3, ?E1, ?E2; auto using Qeq_refl.
Qed.
Lemma max4_attained a b c d : max4 a b c d == a \/ max4 a b c d == b \/ max4 a b c d == c \/ max4 a b c d == d.
Proof.
  unfold max4.
  destruct (Q.max_spec a b) as [[_ E1]|[_ E1]], (Q.max_spec c d) as [[_ E2]|[_ E2]],
           (Q.max_spec (Qmax a b) (Qmax c d)) as [[_ E3]|[_ E3]]; rewrite E3, ?E1, ?E2; auto using Qeq_refl.
Qed.

(* ------------------------------------------------------------------ Rect::transform *)
(* an affine form over a rectangle lies between its values at the corners *)
Lemma affine_corner_bounds s k c l r t b x y :
  l <= x <= r -> t <= y <= b ->
  min4 (s * l + k * t + c) (s * r + k * t + c) (s * r + k * b + c) (s * l + k * b + c) <= s * x + k * y + c /\
  s * x + k * y + c <= max4 (s * l + k * t + c) (s * r + k * t + c) (s * r + k * b + c) (s * l + k * b + c).
Proof.
  intros [Hx0 Hx1] [Hy0 Hy1].
  set (v00 := s * l + k * t + c). set (v10 := s * r + k * t + c).
  set (v11 := s * r + k * b + c). set (v01 := s * l + k * b + c).
  destruct (min4_le v00 v10 v11 v01) as (m0 & m1 & m2 & m3).
  destruct (max4_ge v00 v10 v11 v01) as (M0 & M1 & M2 & M3).
  destruct (Qlt_le_dec s 0) as [Hs|Hs], (Qlt_le_dec k 0) as [Hk|Hk].
  - assert (0 <= (-s) * (r - x)) by (apply Qmult_le_0_compat; lra).
    assert (0 <= (-s) * (x - l)) by (apply Qmult_le_0_compat; lra).
    assert (0 <= (-k) * (b - y)) by (apply Qmult_le_0_compat; lra).
    assert (0 <= (-k) * (y - t)) by (apply Qmult_le_0_compat; lra).
    split; [apply Qle_trans with v11 | apply Qle_trans with v00]; try assumption; unfold v11, v00; lra.
  - assert (0 <= (-s) * (r - x)) by (apply Qmult_le_0_compat; lra).
    assert (0 <= (-s) * (x - l)) by (apply Qmult_le_0_compat; lra).
    assert (0 <= k * (b - y)) by (apply Qmult_le_0_compat; lra).
    assert (0 <= k * (y - t)) by (apply Qmult_le_0_compat; lra).
    split; [apply Qle_trans with v10 | apply Qle_trans with v01]; try assumption; unfold v10, v01; lra.
  - assert (0 <= s * (r - x)) by (apply Qmult_le_0_compat; lra).
    assert (0 <= s * (x - l)) by (apply Qmult_le_0_compat; lra).
    assert (0 <= (-k) * (b - y)) by (apply Qmult_le_0_compat; lra).
    assert (0 <= (-k) * (y - t)) by (apply Qmult_le_0_compat; lra).
    split; [apply Qle_trans with v01 | apply Qle_trans with v10]; try assumption; unfold v10, v01; lra.
  - assert (0 <= s * (r - x)) by (apply Qmult_le_0_compat; lra).
    assert (0 <= s * (x - l)) by (apply Qmult_le_0_compat; lra).
    assert (0 <= k * (b - y)) by (apply Qmult_le_0_compat; lra).
    assert (0 <= k * (y - t)) by (apply Qmult_le_0_compat; lra).
    split; [apply Qle_trans with v00 | apply Qle_trans with v11]; try assumption; unfold v11, v00; lra.
Qed.

Lemma map_box_bounds t r x y : inside r x y -> inside (map_box t r) (map_x t x y) (map_y t x y).
Proof.
  intros [Hx Hy]. unfold inside, map_box, map_x, map_y. cbn [bx0 by0 bx1 by1 mkbox].
  split; apply affine_corner_bounds; assumption.
Qed.

Lemma ts_is_identity_spec t : ts_is_identity t = true -> ts_eq t ts_identity.
Proof.
  unfold ts_is_identity, ts_eq. intros H.
  repeat (apply andb_prop in H; destruct H as [H ?]).
  repeat match goal with H : Qeqb _ _ = true |- _ => apply Qeqb_true in H end.
  cbn. repeat split; assumption.
Qed.

Lemma map_identity t x y : ts_eq t ts_identity -> map_x t x y == x /\ map_y t x y == y.
Proof.
  unfold ts_eq, map_x, map_y. cbn. intros (H1 & H2 & H3 & H4 & H5 & H6).
  rewrite H1, H2, H3, H4, H5, H6. split; ring.
Qed.

Theorem rect_transform_bounds t r r' x y :
  rect_transform t r = Some r' -> inside r x y -> inside r' (map_x t x y) (map_y t x y).
Proof.
  unfold rect_transform. destruct (ts_is_identity t) eqn:E; intros H Hin; inversion H; subst; clear H.
  - destruct (map_identity t x y (ts_is_identity_spec t E)) as [Ex Ey].
    unfold inside in *. rewrite Ex, Ey. exact Hin.
  - apply map_box_bounds, Hin.
Qed.

(* the box is tight: every side is attained at a corner of the rectangle *)
Theorem map_box_tight t r :
  let b := map_box t r in
  (exists x y, (x = bx0 r \/ x = bx1 r) /\ (y = by0 r \/ y = by1 r) /\ bx0 b == map_x t x y) /\
  (exists x y, (x = bx0 r \/ x = bx1 r) /\ (y = by0 r \/ y = by1 r) /\ bx1 b == map_x t x y) /\
  (exists x y, (x = bx0 r \/ x = bx1 r) /\ (y = by0 r \/ y = by1 r) /\ by0 b == map_y t x y) /\
  (exists x y, (x = bx0 r \/ x = bx1 r) /\ (y = by0 r \/ y = by1 r) /\ by1 b == map_y t x y).
Proof.
  cbn. unfold map_box. cbn [bx0 by0 bx1 by1 mkbox]. repeat split.
  - destruct (min4_attained (map_x t (bx0 r) (by0 r)) (map_x t (bx1 r) (by0 r)) (map_x t (bx1 r) (by1 r)) (map_x t (bx0 r) (by1 r)))
      as [E|[E|[E|E]]]; eauto 10.
  - destruct (max4_attained (map_x t (bx0 r) (by0 r)) (map_x t (bx1 r) (by0 r)) (map_x t (bx1 r) (by1 r)) (map_x t (bx0 r) (by1 r)))
      as [E|[E|[E|E]]]; eauto 10.
  - destruct (min4_attained (map_y t (bx0 r) (by0 r)) (map_y t (bx1 r) (by0 r)) (map_y t (bx1 r) (by1 r)) (map_y t (bx0 r) (by1 r)))
      as [E|[E|[E|E]]]; eauto 10.
  - destruct (max4_attained (map_y t (bx0 r) (by0 r)) (map_y t (bx1 r) (by0 r)) (map_y t (bx1 r) (by1 r)) (map_y t (bx0 r) (by1 r)))
      as [E|[E|[E|E]]]; eauto 10.
Qed.

Lemma map_box_valid t r : box_valid (map_box t r) = true.
Proof.
  unfold box_valid, map_box. cbn [bx0 by0 bx1 by1 mkbox]. apply andb_true_intro. split; apply Qleb_true.
  - eapply Qle_trans; [apply (proj1 (min4_le _ _ _ _)) | apply (proj1 (max4_ge _ _ _ _))].
  - eapply Qle_trans; [apply (proj1 (min4_le _ _ _ _)) | apply (proj1 (max4_ge _ _ _ _))].
Qed.

(* ------------------------------------------------------------------ unions *)
Lemma contains_refl b : contains b b.
Proof. unfold contains. repeat split; apply Qle_refl. Qed.
Lemma contains_trans a b c : contains a b -> contains b c -> contains a c.
Proof. unfold contains. intros (?&?&?&?) (?&?&?&?). repeat split; eapply Qle_trans; eassumption. Qed.

Lemma expand_old b r : exists u, expand (Some b) r = Some u /\ contains u b /\ contains u r.
Proof.
  eexists. split; [reflexivity|]. unfold contains. cbn.
  repeat split; auto using Q.le_min_l, Q.le_min_r, Q.le_max_l, Q.le_max_r.
Qed.

Lemma fold_expand_contains {A} (f : A -> option box) (cs : list A) : forall a u,
  fold_left (fun a c => match f c with Some r => expand a r | None => a end) cs a = Some u ->
  (forall b, a = Some b -> contains u b) /\ (forall c r, In c cs -> f c = Some r -> contains u r).
Proof.
  induction cs as [|c cs IH]; cbn [fold_left]; intros a u H.
  - split; [intros b Hb; rewrite Hb in H; inversion H; apply contains_refl | intros ? ? []].
  - destruct (IH _ _ H) as [Hacc Hrest]. split.
    + intros b Hb. subst a. destruct (f c) as [r|]; [|apply Hacc; reflexivity].
      destruct (expand_old b r) as (u' & Eu & Cb & _). eapply contains_trans; [apply Hacc; exact Eu | exact Cb].
    + intros c' r [Hc|Hc] Hf; [subst c'|eapply Hrest; eassumption].
      rewrite Hf in *. destruct a as [b|].
      * destruct (expand_old b r) as (u' & Eu & _ & Cr). eapply contains_trans; [apply Hacc; exact Eu | exact Cr].
      * apply Hacc. reflexivity.
Qed.

Lemma union_of_as_opt f cs : union_of f cs = union_opt (fun c => Some (f c)) cs.
Proof. reflexivity. Qed.

Lemma union_of_contains f cs u c : union_of f cs = Some u -> In c (live cs) -> contains u (f c).
Proof.
  rewrite union_of_as_opt. unfold union_opt. intros H Hin.
  destruct (fold_expand_contains (fun c => Some (f c)) (live cs) None u H) as [_ Hc]. eapply Hc; [exact Hin | reflexivity].
Qed.
Lemma union_opt_contains f cs u c r : union_opt f cs = Some u -> In c (live cs) -> f c = Some r -> contains u r.
Proof.
  unfold union_opt. intros H Hin Hf.
  destruct (fold_expand_contains f (live cs) None u H) as [_ Hc]. eapply Hc; eassumption.
Qed.

Lemma to_rect_some a u : to_rect a = Some u -> a = Some u.
Proof. unfold to_rect. destruct a as [b|]; [|discriminate]. destruct (box_valid b); [auto|discriminate]. Qed.
Lemma to_nonzero_some a u : to_nonzero a = Some u -> a = Some u.
Proof. unfold to_nonzero. destruct a as [b|]; [|discriminate]. destruct (box_nonzero b); [auto|discriminate]. Qed.

(* a non-empty union of valid boxes is a valid box *)
Lemma fold_expand_valid {A} (f : A -> box) (cs : list A) : forall a,
  (forall b, a = Some b -> box_valid b = true) -> (forall c, In c cs -> box_valid (f c) = true) ->
  forall u, fold_left (fun a c => expand a (f c)) cs a = Some u -> box_valid u = true.
Proof.
  induction cs as [|c cs IH]; cbn [fold_left]; intros a Ha Hcs u H.
  - apply Ha, H.
  - eapply IH; [| intros; apply Hcs; right; assumption | exact H].
    intros b Hb. assert (Hc := Hcs c (or_introl eq_refl)).
    destruct a as [b0|]; cbn in Hb; inversion Hb; subst; [|exact Hc].
    specialize (Ha b0 eq_refl). unfold box_valid in *. cbn.
    apply andb_prop in Ha, Hc. destruct Ha as [A1 A2], Hc as [C1 C2].
    apply Qleb_true in A1, A2, C1, C2. apply andb_true_intro; split; apply Qleb_true.
    + eapply Qle_trans; [apply Q.le_min_l|]. eapply Qle_trans; [exact A1 | apply Q.le_max_l].
    + eapply Qle_trans; [apply Q.le_min_l|]. eapply Qle_trans; [exact A2 | apply Q.le_max_l].
Qed.

Lemma fold_expand_nonempty {A} (f : A -> box) (cs : list A) a :
  (a <> None \/ cs <> []) -> fold_left (fun a c => expand a (f c)) cs a <> None.
Proof.
  revert a. induction cs as [|c cs IH]; cbn [fold_left]; intros a H.
  - destruct H as [H|H]; [exact H | contradiction].
  - apply IH. left. destruct a; discriminate.
Qed.

Lemma union_valid f cs : live cs <> [] -> (forall c, In c (live cs) -> box_valid (f c) = true) ->
  exists u, union_of f cs = Some u /\ to_rect (union_of f cs) = Some u.
Proof.
  intros Hne Hv. unfold union_of.
  destruct (fold_left (fun a c => expand a (f c)) (live cs) None) as [u|] eqn:E.
  - exists u. split; [reflexivity|]. unfold to_rect.
    rewrite (fold_expand_valid f (live cs) None (fun b Hb => ltac:(discriminate)) Hv u E). reflexivity.
  - exfalso. apply (fold_expand_nonempty f (live cs) None (or_intror Hne)). exact E.
Qed.

(* ------------------------------------------------------------------ calculate_bounding_boxes *)
Definition child_valid (c : child) : bool :=
  box_valid (c_obj c) && box_valid (c_abs c) && box_valid (c_stroke c) && box_valid (c_abs_stroke c).

Theorem parent_contains_children abs_ts filters prev cs g ok :
  calculate_bounding_boxes abs_ts filters prev cs = (g, ok) ->
  live cs <> [] -> (forall c, In c (live cs) -> child_valid c = true) ->
  (* the four object / stroke boxes contain the contribution of every live child (empty groups have nothing to contain) *)
  (forall c, In c (live cs) ->
     contains (gb_obj g) (c_obj c) /\ contains (gb_abs g) (c_abs c) /\
     contains (gb_stroke g) (c_stroke c) /\ contains (gb_abs_stroke g) (c_abs_stroke c)) /\
  (* the layer box is the filter region when there are filters, else it contains every child's layer box *)
  (ok = true ->
     match filters_bounding_box filters with
     | Some f => gb_layer g = f
     | None => forall c l, In c (live cs) -> c_layer c = Some l -> contains (gb_layer g) l
     end /\ nz_transform abs_ts (gb_layer g) = Some (gb_abs_layer g)).
Proof.
  intros H Hne Hv.
  assert (V : forall f, (forall c, child_valid c = true -> box_valid (f c) = true) ->
                        exists u, union_of f cs = Some u /\ to_rect (union_of f cs) = Some u).
  { intros f Hf. apply union_valid; [exact Hne | intros c Hc; apply Hf, Hv, Hc]. }
  destruct (V c_obj) as (o & Uo & To).
  { unfold child_valid. intros c Hc. do 3 (apply andb_prop in Hc; destruct Hc as [Hc ?]). assumption. }
  destruct (V c_abs) as (a & Ua & Ta).
  { unfold child_valid. intros c Hc. do 3 (apply andb_prop in Hc; destruct Hc as [Hc ?]). assumption. }
  destruct (V c_stroke) as (s & Us & Ts).
  { unfold child_valid. intros c Hc. do 3 (apply andb_prop in Hc; destruct Hc as [Hc ?]). assumption. }
  destruct (V c_abs_stroke) as (sa & Usa & Tsa).
  { unfold child_valid. intros c Hc. do 3 (apply andb_prop in Hc; destruct Hc as [Hc ?]). assumption. }
  unfold calculate_bounding_boxes in H. rewrite To, Ta, Ts, Tsa in H. cbn [negb] in H.
  destruct (filters_bounding_box filters) as [f|] eqn:Ef.
  - destruct (nz_transform abs_ts f) as [al|] eqn:El; inversion H; subst; clear H; cbn; (split; [|intros Hok]).
    + intros c Hc. repeat split; eapply union_of_contains; eassumption.
    + split; [reflexivity | exact El].
    + intros c Hc. repeat split; eapply union_of_contains; eassumption.
    + discriminate.
  - destruct (to_nonzero (union_opt c_layer cs)) as [l|] eqn:Eu.
    + apply to_nonzero_some in Eu.
      destruct (nz_transform abs_ts l) as [al|] eqn:El; inversion H; subst; clear H; cbn; (split; [|intros Hok]).
      * intros c Hc. repeat split; eapply union_of_contains; eassumption.
      * split; [|exact El]. intros c l' Hc Hl. eapply union_opt_contains; eassumption.
      * intros c Hc. repeat split; eapply union_of_contains; eassumption.
      * discriminate.
    + inversion H; subst; clear H; cbn. split; [|discriminate].
      intros c Hc. repeat split; eapply union_of_contains; eassumption.
Qed.

Theorem object_bbox_contains cs u c :
  calculate_object_bbox cs = Some u -> In c (live cs) -> contains u (c_obj c).
Proof. unfold calculate_object_bbox. intros H. apply to_nonzero_some in H. apply union_of_contains. exact H. Qed.

(* ------------------------------------------------------------------ transforms *)
Lemma map_concat a b x y :
  map_x (ts_concat a b) x y == map_x a (map_x b x y) (map_y b x y) /\
  map_y (ts_concat a b) x y == map_y a (map_x b x y) (map_y b x y).
Proof. unfold map_x, map_y, ts_concat, from_row. cbn. split; ring. Qed.

(* the image box contains every point of the picture, mapped by the view box transform and then by the
   parent's absolute transform (once each) *)
Theorem image_abs_box_contains parent_abs image_ts w h b x y :
  image_abs_box parent_abs image_ts w h = Some b -> 0 <= x <= w -> 0 <= y <= h ->
  inside b (map_x parent_abs (map_x image_ts x y) (map_y image_ts x y))
           (map_y parent_abs (map_x image_ts x y) (map_y image_ts x y)).
Proof.
  unfold image_abs_box. intros H Hx Hy.
  destruct (map_concat parent_abs image_ts x y) as [Ex Ey].
  unfold inside. rewrite <- Ex, <- Ey.
  apply (rect_transform_bounds _ _ _ x y H). unfold inside. cbn. auto.
Qed.

Lemma ts_eqb_spec a b : ts_eqb a b = true -> ts_eq a b.
Proof.
  unfold ts_eqb, ts_eq. intros H. repeat (apply andb_prop in H; destruct H as [H ?]).
  repeat match goal with H : Qeqb _ _ = true |- _ => apply Qeqb_true in H end. repeat split; assumption.
Qed.
Lemma ts_eqb_refl a : ts_eqb a a = true.
Proof. unfold ts_eqb. repeat (apply andb_true_intro; split); apply Qeqb_true; reflexivity. Qed.
Lemma ts_eqb_of_eq a b : ts_eq a b -> ts_eqb a b = true.
Proof.
  unfold ts_eqb, ts_eq. intros (?&?&?&?&?&?). repeat (apply andb_true_intro; split); apply Qeqb_true; assumption.
Qed.
Lemma ts_concat_id_r a b : ts_eq b ts_identity -> ts_eq (ts_concat a b) a.
Proof.
  unfold ts_eq, ts_concat, from_row. cbn. intros (H1&H2&H3&H4&H5&H6). rewrite H1, H2, H3, H4, H5, H6.
  repeat split; ring.
Qed.
Lemma ts_concat_proper_r a b b' : ts_eq b b' -> ts_eq (ts_concat a b) (ts_concat a b').
Proof.
  unfold ts_eq, ts_concat, from_row. cbn. intros (H1&H2&H3&H4&H5&H6). rewrite H1, H2, H3, H4, H5, H6.
  repeat split; reflexivity.
Qed.
Lemma ts_eq_sym a b : ts_eq a b -> ts_eq b a.
Proof. unfold ts_eq. intros (?&?&?&?&?&?). repeat split; symmetry; assumption. Qed.
Lemma ts_eq_trans a b c : ts_eq a b -> ts_eq b c -> ts_eq a c.
Proof. unfold ts_eq. intros (?&?&?&?&?&?) (?&?&?&?&?&?). repeat split; etransitivity; eassumption. Qed.

(* abs_transform = product of the ancestors' transforms, for every node, unless a use / nested svg element
   carries its own transform attribute *)
Theorem abs_transform_product_guarded : forall n pabs,
  has_use_ts n = false -> product_ok pabs (thread pabs n) = true.
Proof.
  fix IH 1. intros [|k nts pts ch] pabs H.
  - cbn. apply ts_eqb_refl.
  - cbn [has_use_ts] in H. apply orb_false_iff in H. destruct H as [Hk Hch].
    cbn [thread].
    assert (Hkids : forall a, forallb (product_ok a) (map (thread a) ch) = true).
    { intros a. clear Hk. induction ch as [|c ch IHch]; [reflexivity|].
      cbn [existsb] in Hch. apply orb_false_iff in Hch. destruct Hch as [Hc Hrest].
      cbn [map forallb]. rewrite (IH c a Hc), (IHch Hrest). reflexivity. }
    destruct k; cbn [product_ok]; rewrite Hkids, andb_true_r.
    + apply ts_eqb_refl.
    + apply negb_false_iff in Hk. apply ts_eqb_spec in Hk. apply ts_eqb_of_eq. apply ts_concat_id_r. exact Hk.
    + apply negb_false_iff in Hk. apply ts_eqb_spec in Hk. apply ts_eqb_of_eq.
      apply ts_eq_sym. apply ts_concat_id_r. exact Hk.
Qed.

(* F14: <use id="use1" xlink:href="#rect1" transform="translate(20 20)"/> -> abs tx = 40 for ts tx = 20 *)
Definition f14_tree : tnode :=
  TGroup GK_ViaUse (from_translate 20 20) (from_translate 20 20) [TLeaf].
Theorem abs_transform_product_refuted : exists n, has_use_ts n = true /\ product_ok ts_identity (thread ts_identity n) = false.
Proof. exists f14_tree. split; vm_compute; reflexivity. Qed.

(* ------------------------------------------------------------------ axis-aligned transforms: boxes map exactly *)
Definition skewless (t : ts) : Prop := t_kx t == 0 /\ t_ky t == 0.
Definition lo1 (s c l r : Q) : Q := Qmin (s * l + c) (s * r + c).
Definition hi1 (s c l r : Q) : Q := Qmax (s * l + c) (s * r + c).

Lemma min4_abba a b : min4 a b b a == Qmin a b.
Proof. unfold min4. rewrite (Q.min_comm b a). apply Q.min_id. Qed.
Lemma max4_abba a b : max4 a b b a == Qmax a b.
Proof. unfold max4. rewrite (Q.max_comm b a). apply Q.max_id. Qed.
Lemma min4_aabb a b : min4 a a b b == Qmin a b.
Proof. unfold min4. rewrite !Q.min_id. reflexivity. Qed.
Lemma max4_aabb a b : max4 a a b b == Qmax a b.
Proof. unfold max4. rewrite !Q.max_id. reflexivity. Qed.

#[global] Instance min4_proper : Proper (Qeq ==> Qeq ==> Qeq ==> Qeq ==> Qeq) min4.
Proof. intros a a' Ha b b' Hb c c' Hc d d' Hd. unfold min4. rewrite Ha, Hb, Hc, Hd. reflexivity. Qed.
#[global] Instance max4_proper : Proper (Qeq ==> Qeq ==> Qeq ==> Qeq ==> Qeq) max4.
Proof. intros a a' Ha b b' Hb c c' Hc d d' Hd. unfold max4. rewrite Ha, Hb, Hc, Hd. reflexivity. Qed.

Lemma map_box_axis t r : skewless t ->
  box_eq (map_box t r)
         (mkbox (lo1 (t_sx t) (t_tx t) (bx0 r) (bx1 r)) (lo1 (t_sy t) (t_ty t) (by0 r) (by1 r))
                (hi1 (t_sx t) (t_tx t) (bx0 r) (bx1 r)) (hi1 (t_sy t) (t_ty t) (by0 r) (by1 r))).
Proof.
  intros [Hkx Hky]. unfold box_eq, map_box, map_x, map_y, lo1, hi1. cbn [bx0 by0 bx1 by1 mkbox].
  rewrite Hkx, Hky. repeat split.
  - rewrite <- min4_abba. apply min4_proper; ring.
  - rewrite <- min4_aabb. apply min4_proper; ring.
  - rewrite <- max4_abba. apply max4_proper; ring.
  - rewrite <- max4_aabb. apply max4_proper; ring.
Qed.

Lemma lo1_pos s c l r : 0 <= s -> l <= r -> lo1 s c l r == s * l + c /\ hi1 s c l r == s * r + c.
Proof.
  intros Hs Hl. assert (s * l <= s * r) by (assert (0 <= s * (r - l)) by (apply Qmult_le_0_compat; lra); lra).
  unfold lo1, hi1. split; [apply Q.min_l | apply Q.max_r]; lra.
Qed.
Lemma lo1_neg s c l r : s <= 0 -> l <= r -> lo1 s c l r == s * r + c /\ hi1 s c l r == s * l + c.
Proof.
  intros Hs Hl. assert (s * r <= s * l) by (assert (0 <= (-s) * (r - l)) by (apply Qmult_le_0_compat; lra); lra).
  unfold lo1, hi1. split; [apply Q.min_r | apply Q.max_l]; lra.
Qed.

Lemma scale_min s c a b : 0 <= s -> s * Qmin a b + c == Qmin (s * a + c) (s * b + c) /\ s * Qmax a b + c == Qmax (s * a + c) (s * b + c).
Proof.
  intros Hs. split.
  - destruct (Q.min_spec a b) as [[H E]|[H E]]; rewrite E; symmetry; [apply Q.min_l | apply Q.min_r];
      [assert (0 <= s * (b - a)) by (apply Qmult_le_0_compat; lra) | assert (0 <= s * (a - b)) by (apply Qmult_le_0_compat; lra)]; lra.
  - destruct (Q.max_spec a b) as [[H E]|[H E]]; rewrite E; symmetry; [apply Q.max_r | apply Q.max_l];
      [assert (0 <= s * (b - a)) by (apply Qmult_le_0_compat; lra) | assert (0 <= s * (a - b)) by (apply Qmult_le_0_compat; lra)]; lra.
Qed.
Lemma scale_min_neg s c a b : s <= 0 -> s * Qmin a b + c == Qmax (s * a + c) (s * b + c) /\ s * Qmax a b + c == Qmin (s * a + c) (s * b + c).
Proof.
  intros Hs. split.
  - destruct (Q.min_spec a b) as [[H E]|[H E]]; rewrite E; symmetry; [apply Q.max_l | apply Q.max_r];
      [assert (0 <= (-s) * (b - a)) by (apply Qmult_le_0_compat; lra) | assert (0 <= (-s) * (a - b)) by (apply Qmult_le_0_compat; lra)]; lra.
  - destruct (Q.max_spec a b) as [[H E]|[H E]]; rewrite E; symmetry; [apply Q.min_r | apply Q.min_l];
      [assert (0 <= (-s) * (b - a)) by (apply Qmult_le_0_compat; lra) | assert (0 <= (-s) * (a - b)) by (apply Qmult_le_0_compat; lra)]; lra.
Qed.

(* one axis: the image of the union of two intervals is the union of the images *)
Lemma union_1d s c l1 r1 l2 r2 : l1 <= r1 -> l2 <= r2 ->
  lo1 s c (Qmin l1 l2) (Qmax r1 r2) == Qmin (lo1 s c l1 r1) (lo1 s c l2 r2) /\
  hi1 s c (Qmin l1 l2) (Qmax r1 r2) == Qmax (hi1 s c l1 r1) (hi1 s c l2 r2).
Proof.
  intros H1 H2.
  assert (Hu : Qmin l1 l2 <= Qmax r1 r2).
  { eapply Qle_trans; [apply Q.le_min_l|]. eapply Qle_trans; [exact H1 | apply Q.le_max_l]. }
  destruct (Qlt_le_dec s 0) as [Hs|Hs].
  - assert (Hs' : s <= 0) by lra.
    destruct (lo1_neg s c _ _ Hs' Hu) as [E1 E2], (lo1_neg s c _ _ Hs' H1) as [E3 E4], (lo1_neg s c _ _ Hs' H2) as [E5 E6].
    rewrite E1, E2, E3, E4, E5, E6. destruct (scale_min_neg s c r1 r2 Hs') as [_ A], (scale_min_neg s c l1 l2 Hs') as [B _].
    split; assumption.
  - destruct (lo1_pos s c _ _ Hs Hu) as [E1 E2], (lo1_pos s c _ _ Hs H1) as [E3 E4], (lo1_pos s c _ _ Hs H2) as [E5 E6].
    rewrite E1, E2, E3, E4, E5, E6. destruct (scale_min s c l1 l2 Hs) as [A _], (scale_min s c r1 r2 Hs) as [_ B].
    split; assumption.
Qed.

Definition union2 (b r : box) : box :=
  mkbox (Qmin (bx0 b) (bx0 r)) (Qmin (by0 b) (by0 r)) (Qmax (bx1 b) (bx1 r)) (Qmax (by1 b) (by1 r)).
Lemma expand_some b r : expand (Some b) r = Some (union2 b r).
Proof. reflexivity. Qed.

Lemma box_eq_refl a : box_eq a a.
Proof. repeat split; reflexivity. Qed.
Lemma box_eq_sym a b : box_eq a b -> box_eq b a.
Proof. intros (?&?&?&?). repeat split; symmetry; assumption. Qed.
Lemma box_eq_trans a b c : box_eq a b -> box_eq b c -> box_eq a c.
Proof. intros (?&?&?&?) (?&?&?&?). repeat split; etransitivity; eassumption. Qed.
Lemma union2_proper a a' b b' : box_eq a a' -> box_eq b b' -> box_eq (union2 a b) (union2 a' b').
Proof. intros (A1&A2&A3&A4) (B1&B2&B3&B4). unfold union2, box_eq. cbn. rewrite A1, A2, A3, A4, B1, B2, B3, B4. repeat split; reflexivity. Qed.

Lemma valid_le b : box_valid b = true -> bx0 b <= bx1 b /\ by0 b <= by1 b.
Proof. unfold box_valid. intros H. apply andb_prop in H. destruct H as [A B]. apply Qleb_true in A, B. auto. Qed.

Theorem map_box_union t b r : skewless t -> box_valid b = true -> box_valid r = true ->
  box_eq (map_box t (union2 b r)) (union2 (map_box t b) (map_box t r)).
Proof.
  intros Hs Vb Vr. destruct (valid_le b Vb) as [Bx By], (valid_le r Vr) as [Rx Ry].
  eapply box_eq_trans; [apply map_box_axis, Hs|].
  eapply box_eq_trans; [|apply union2_proper; apply box_eq_sym, map_box_axis, Hs].
  unfold union2, box_eq. cbn [bx0 by0 bx1 by1 mkbox].
  destruct (union_1d (t_sx t) (t_tx t) _ _ _ _ Bx Rx) as [X0 X1], (union_1d (t_sy t) (t_ty t) _ _ _ _ By Ry) as [Y0 Y1].
  repeat split; assumption.
Qed.

Lemma union2_valid b r : box_valid b = true -> box_valid r = true -> box_valid (union2 b r) = true.
Proof.
  intros Vb Vr. destruct (valid_le b Vb) as [Bx By]. unfold box_valid, union2. cbn.
  apply andb_true_intro; split; apply Qleb_true.
  - eapply Qle_trans; [apply Q.le_min_l|]. eapply Qle_trans; [exact Bx | apply Q.le_max_l].
  - eapply Qle_trans; [apply Q.le_min_l|]. eapply Qle_trans; [exact By | apply Q.le_max_l].
Qed.

(* group level: if every child's absolute box is its contribution to the parent's object box mapped by the
   group's (axis-aligned) absolute transform, the same holds for the unions, i.e. for the group *)
Lemma fold_union_mapped t cs : skewless t ->
  (forall c, In c cs -> box_valid (c_obj c) = true /\ box_eq (c_abs c) (map_box t (c_obj c))) ->
  forall ao aa,
    match ao, aa with
    | Some o, Some a => box_valid o = true /\ box_eq a (map_box t o)
    | None, None => True
    | _, _ => False
    end ->
    match fold_left (fun a c => expand a (c_obj c)) cs ao, fold_left (fun a c => expand a (c_abs c)) cs aa with
    | Some o, Some a => box_valid o = true /\ box_eq a (map_box t o)
    | None, None => True
    | _, _ => False
    end.
Proof.
  intros Hs. induction cs as [|c cs IH]; cbn [fold_left]; intros Hc ao aa Hacc; [exact Hacc|].
  apply IH; [intros; apply Hc; right; assumption|].
  destruct (Hc c (or_introl eq_refl)) as [Vc Ec].
  destruct ao as [o|], aa as [a|]; try contradiction; cbn [expand].
  - destruct Hacc as [Vo Ea]. fold (union2 o (c_obj c)). fold (union2 a (c_abs c)).
    split; [apply union2_valid; assumption|].
    eapply box_eq_trans; [apply union2_proper; eassumption|]. apply box_eq_sym, map_box_union; assumption.
  - split; assumption.
Qed.

Theorem abs_box_is_mapped_box_group t cs uo ua : skewless t ->
  (forall c, In c (live cs) -> box_valid (c_obj c) = true /\ box_eq (c_abs c) (map_box t (c_obj c))) ->
  union_of c_obj cs = Some uo -> union_of c_abs cs = Some ua -> box_eq ua (map_box t uo).
Proof.
  intros Hs Hc Ho Ha. assert (H := fold_union_mapped t (live cs) Hs Hc None None I).
  unfold union_of in Ho, Ha. rewrite Ho, Ha in H. apply H.
Qed.

(* composition through a child group: mapping by A * B is mapping by B, then by A *)
Lemma lo1_proper s s' c c' l l' r r' : s == s' -> c == c' -> l == l' -> r == r' ->
  lo1 s c l r == lo1 s' c' l' r' /\ hi1 s c l r == hi1 s' c' l' r'.
Proof. intros A B C D. unfold lo1, hi1. rewrite A, B, C, D. split; reflexivity. Qed.

Lemma compose_1d s1 c1 s2 c2 l r : l <= r ->
  lo1 s1 c1 (lo1 s2 c2 l r) (hi1 s2 c2 l r) == lo1 (s1 * s2) (s1 * c2 + c1) l r /\
  hi1 s1 c1 (lo1 s2 c2 l r) (hi1 s2 c2 l r) == hi1 (s1 * s2) (s1 * c2 + c1) l r.
Proof.
  intros Hl. destruct (Qlt_le_dec s2 0) as [Hs|Hs].
  - assert (Hs' : s2 <= 0) by lra. destruct (lo1_neg s2 c2 l r Hs' Hl) as [E1 E2].
    destruct (lo1_proper s1 s1 c1 c1 _ _ _ _ (Qeq_refl _) (Qeq_refl _) E1 E2) as [P1 P2]. rewrite P1, P2.
    unfold lo1, hi1. rewrite Q.min_comm, Q.max_comm. split; [apply Q.min_compat | apply Q.max_compat]; ring.
  - destruct (lo1_pos s2 c2 l r Hs Hl) as [E1 E2].
    destruct (lo1_proper s1 s1 c1 c1 _ _ _ _ (Qeq_refl _) (Qeq_refl _) E1 E2) as [P1 P2]. rewrite P1, P2.
    unfold lo1, hi1. split; [apply Q.min_compat | apply Q.max_compat]; ring.
Qed.

Theorem map_box_compose a b r : skewless a -> skewless b -> box_valid r = true ->
  box_eq (map_box (ts_concat a b) r) (map_box a (map_box b r)).
Proof.
  intros [Akx Aky] [Bkx Bky] Vr. destruct (valid_le r Vr) as [Rx Ry].
  assert (Sab : skewless (ts_concat a b)).
  { unfold skewless, ts_concat, from_row. cbn. rewrite Akx, Aky, Bkx, Bky. split; ring. }
  eapply box_eq_trans; [apply map_box_axis, Sab|].
  eapply box_eq_trans; [|apply box_eq_sym, map_box_axis; split; assumption].
  destruct (map_box_axis b r (conj Bkx Bky)) as (M0 & M1 & M2 & M3).
  unfold box_eq. cbn [bx0 by0 bx1 by1 mkbox].
  destruct (lo1_proper (t_sx a) (t_sx a) (t_tx a) (t_tx a) _ _ _ _ (Qeq_refl _) (Qeq_refl _) M0 M2) as [PX0 PX1].
  destruct (lo1_proper (t_sy a) (t_sy a) (t_ty a) (t_ty a) _ _ _ _ (Qeq_refl _) (Qeq_refl _) M1 M3) as [PY0 PY1].
  rewrite PX0, PX1, PY0, PY1.
  destruct (compose_1d (t_sx a) (t_tx a) (t_sx b) (t_tx b) _ _ Rx) as [CX0 CX1].
  destruct (compose_1d (t_sy a) (t_ty a) (t_sy b) (t_ty b) _ _ Ry) as [CY0 CY1].
  rewrite CX0, CX1, CY0, CY1.
  assert (Esx : t_sx (ts_concat a b) == t_sx a * t_sx b) by (unfold ts_concat, from_row; cbn; rewrite Akx; ring).
  assert (Esy : t_sy (ts_concat a b) == t_sy a * t_sy b) by (unfold ts_concat, from_row; cbn; rewrite Aky; ring).
  assert (Etx : t_tx (ts_concat a b) == t_sx a * t_tx b + t_tx a) by (unfold ts_concat, from_row; cbn; rewrite Akx; ring).
  assert (Ety : t_ty (ts_concat a b) == t_sy a * t_ty b + t_ty a) by (unfold ts_concat, from_row; cbn; rewrite Aky; ring).
  destruct (lo1_proper _ _ _ _ (bx0 r) (bx0 r) (bx1 r) (bx1 r) Esx Etx (Qeq_refl _) (Qeq_refl _)) as [QX0 QX1].
  destruct (lo1_proper _ _ _ _ (by0 r) (by0 r) (by1 r) (by1 r) Esy Ety (Qeq_refl _) (Qeq_refl _)) as [QY0 QY1].
  repeat split; assumption.
Qed.

(* stroke box under a skewed / rotated transform *)
Lemma min4_glb m a b c d : m <= a -> m <= b -> m <= c -> m <= d -> m <= min4 a b c d.
Proof. intros. unfold min4. repeat apply Q.min_glb; assumption. Qed.
Lemma max4_lub m a b c d : a <= m -> b <= m -> c <= m -> d <= m -> max4 a b c d <= m.
Proof. intros. unfold max4. repeat apply Q.max_lub; assumption. Qed.

Theorem stroke_box_skew_refuted :
  exists s len w, 0 < s /\ 0 < len /\ 0 < w /\ ~ contains (skew_branch_stroke_box s len w) (true_stroke_box s len w).
Proof.
  exists 2, 10, 8. repeat split; try reflexivity. unfold contains. vm_compute. intros (H & _). apply H. reflexivity.
Qed.

Theorem stroke_box_rotation_guarded s len w :
  s == 1 -> 0 <= len -> 0 <= w -> contains (skew_branch_stroke_box s len w) (true_stroke_box s len w).
Proof.
  intros Hs Hl Hw. unfold contains, true_stroke_box, skew_branch_stroke_box, map_box, seg_stroke_box, rot90_scale, map_x, map_y, from_row.
  cbn [bx0 by0 bx1 by1 mkbox t_sx t_ky t_kx t_sy t_tx t_ty]. rewrite Hs.
  assert (Hh : w / 2 == w * (1 # 2)) by (unfold Qdiv; reflexivity). rewrite !Hh.
  repeat split; [apply min4_glb | apply min4_glb | apply max4_lub | apply max4_lub]; lra.
Qed.

(* ------------------------------------------------------------------ the source facts the model was written against *)
Lemma bbox_facts_lock : bbox_facts = bbox_facts_expected.
Proof. reflexivity. Qed.

(* an empty child group (no children, no filters) contributes nothing: the result is the same without it *)
Lemma live_app a b : live (a ++ b) = live a ++ live b.
Proof. unfold live. apply filter_app. Qed.
Theorem empty_group_is_skipped abs_ts filters prev l1 l2 :
  calculate_bounding_boxes abs_ts filters prev (l1 ++ CEmptyGroup :: l2) = calculate_bounding_boxes abs_ts filters prev (l1 ++ l2) /\
  calculate_object_bbox (l1 ++ CEmptyGroup :: l2) = calculate_object_bbox (l1 ++ l2).
Proof.
  assert (E : live (l1 ++ CEmptyGroup :: l2) = live (l1 ++ l2)) by (rewrite !live_app; reflexivity).
  unfold calculate_bounding_boxes, calculate_object_bbox, union_of, union_opt. rewrite E. split; reflexivity.
Qed.

(* ------------------------------------------------------------------ arbitrary affine transforms: boxes contain the painted points *)
Lemma inside_of_contains b c x y : contains b c -> inside c x y -> inside b x y.
Proof. unfold contains, inside. intros (A&B&C&D) ((E&F)&(G&H)). repeat split; eapply Qle_trans; eassumption. Qed.

Lemma pts_bbox_contains l b p : pts_bbox l = Some b -> In p l -> inside b (fst p) (snd p).
Proof.
  unfold pts_bbox. intros H Hin.
  change (fold_left (fun a c => match (fun q => Some (pt_box q)) c with Some r => expand a r | None => a end) l None = Some b) in H.
  destruct (fold_expand_contains (fun q => Some (pt_box q)) l None b H) as [_ Hc].
  specialize (Hc p (pt_box p) Hin eq_refl). unfold contains, pt_box in Hc. cbn in Hc. unfold inside. tauto.
Qed.

Lemma pts_bbox_some l p : In p l -> exists b, pts_bbox l = Some b.
Proof.
  intros Hin. unfold pts_bbox. destruct (fold_left (fun a q => expand a (pt_box q)) l None) as [b|] eqn:E; [eauto|].
  exfalso. apply (fold_expand_nonempty pt_box l None); [right; destruct l; [contradiction|discriminate] | exact E].
Qed.

(* Path::new, both branches: the absolute box of an unstroked polygonal path contains the image of every vertex under
   ANY affine abs_transform (rotation, skew, mirror, singular) *)
Theorem path_abs_contains_vertex t pts b p :
  path_abs_bbox t pts = Some b -> In p pts -> inside b (map_x t (fst p) (snd p)) (map_y t (fst p) (snd p)).
Proof.
  unfold path_abs_bbox. destruct (ts_has_skew t); intros H Hin.
  - apply (pts_bbox_contains _ b (apply_ts t p) H). apply in_map. exact Hin.
  - destruct (pts_bbox pts) as [b0|] eqn:E; [|discriminate].
    apply (rect_transform_bounds t b0 b _ _ H). apply (pts_bbox_contains pts b0 p E Hin).
Qed.

(* a box is convex, an affine map preserves convex combinations: every point of every segment is inside as well *)
Lemma between_convex a b u v l : a <= u <= b -> a <= v <= b -> 0 <= l <= 1 -> a <= (1 - l) * u + l * v <= b.
Proof.
  intros [U0 U1] [V0 V1] [L0 L1].
  assert (0 <= (1 - l) * (u - a)) by (apply Qmult_le_0_compat; lra).
  assert (0 <= l * (v - a)) by (apply Qmult_le_0_compat; lra).
  assert (0 <= (1 - l) * (b - u)) by (apply Qmult_le_0_compat; lra).
  assert (0 <= l * (b - v)) by (apply Qmult_le_0_compat; lra).
  split; lra.
Qed.
Lemma inside_convex b x1 y1 x2 y2 l :
  inside b x1 y1 -> inside b x2 y2 -> 0 <= l <= 1 -> inside b ((1 - l) * x1 + l * x2) ((1 - l) * y1 + l * y2).
Proof. unfold inside. intros [A B] [C D] L. split; apply between_convex; assumption. Qed.
Lemma apply_mix t l p q :
  fst (apply_ts t (mix l p q)) == (1 - l) * fst (apply_ts t p) + l * fst (apply_ts t q) /\
  snd (apply_ts t (mix l p q)) == (1 - l) * snd (apply_ts t p) + l * snd (apply_ts t q).
Proof. unfold apply_ts, mix, map_x, map_y. cbn. split; ring. Qed.

Theorem path_abs_contains_segment t pts b p q l :
  path_abs_bbox t pts = Some b -> In p pts -> In q pts -> 0 <= l <= 1 ->
  inside b (fst (apply_ts t (mix l p q))) (snd (apply_ts t (mix l p q))).
Proof.
  intros H Hp Hq Hl. destruct (apply_mix t l p q) as [Ex Ey]. unfold inside. rewrite Ex, Ey.
  apply inside_convex; [apply (path_abs_contains_vertex t pts b p H Hp) | apply (path_abs_contains_vertex t pts b q H Hq) | exact Hl].
Qed.

(* groups, by induction over the tree: the absolute box of a group contains, for every path below it at any depth and
   whatever the transforms are, the image of every vertex under that path's absolute transform *)
Lemma fold_opt_some_stays {A} (f : A -> option box) (l : list A) : forall a,
  a <> None -> fold_left (fun acc c => match f c with Some b => expand acc b | None => acc end) l a <> None.
Proof.
  induction l as [|x r IH]; cbn [fold_left]; intros a Ha; [exact Ha|].
  apply IH. destruct (f x); [destruct a; discriminate | exact Ha].
Qed.
Lemma fold_opt_some_if {A} (f : A -> option box) (l : list A) c bc : forall a,
  In c l -> f c = Some bc -> fold_left (fun acc x => match f x with Some b => expand acc b | None => acc end) l a <> None.
Proof.
  induction l as [|x r IH]; cbn [fold_left]; intros a Hc Hf; [contradiction|]. destruct Hc as [Hc|Hc].
  - subst x. rewrite Hf. apply fold_opt_some_stays. destruct a; discriminate.
  - apply IH; assumption.
Qed.

Lemma ptree_ind2 (P : ptree -> Prop) :
  (forall a pts, P (PLeaf a pts)) -> (forall b, P (PFixed b)) -> (forall ch, Forall P ch -> P (PGroup ch)) -> forall n, P n.
Proof.
  intros HL HF HG. fix IH 1. intros [a pts|b|ch]; [apply HL | apply HF | apply HG].
  induction ch as [|x r IHr]; constructor; [apply IH | exact IHr].
Qed.

Lemma tree_points_have_box : forall n ap, In ap (leaf_points n) -> exists b, pt_abs_box n = Some b.
Proof.
  induction n as [a pts|b0|ch IHch] using ptree_ind2; intros ap Hin; cbn [leaf_points pt_abs_box] in *.
  - apply in_map_iff in Hin. destruct Hin as (p & _ & Hp).
    unfold path_abs_bbox. destruct (ts_has_skew a).
    + apply (pts_bbox_some _ (apply_ts a p)). apply in_map. exact Hp.
    + destruct (pts_bbox_some pts p Hp) as (b0 & E). rewrite E. unfold rect_transform. destruct (ts_is_identity a); eauto.
  - contradiction.
  - apply in_flat_map in Hin. destruct Hin as (c & Hc & Hap).
    rewrite Forall_forall in IHch. destruct (IHch c Hc ap Hap) as (bc & Ebc).
    destruct (fold_left (fun acc c => match pt_abs_box c with Some b => expand acc b | None => acc end) ch None) as [b|] eqn:E; [eauto|].
    exfalso. exact (fold_opt_some_if pt_abs_box ch c bc None Hc Ebc E).
Qed.

Theorem tree_abs_box_contains_points : forall n b a p,
  pt_abs_box n = Some b -> In (a, p) (leaf_points n) -> inside b (map_x a (fst p) (snd p)) (map_y a (fst p) (snd p)).
Proof.
  induction n as [a0 pts|b0|ch IHch] using ptree_ind2; intros b a p H Hin; cbn [leaf_points pt_abs_box] in *.
  - apply in_map_iff in Hin. destruct Hin as (p0 & E & Hp). inversion E; subst. apply (path_abs_contains_vertex a pts b p H Hp).
  - contradiction.
  - apply in_flat_map in Hin. destruct Hin as (c & Hc & Hap).
    destruct (tree_points_have_box c (a, p) Hap) as (bc & Ebc).
    destruct (fold_expand_contains pt_abs_box ch None b H) as [_ Hcont].
    rewrite Forall_forall in IHch.
    apply (inside_of_contains b bc); [apply (Hcont c bc Hc Ebc) | apply (IHch c Hc bc a p Ebc Hap)].
Qed.

(* ... and every point of a segment between two vertices drawn under the same absolute transform *)
Theorem tree_abs_box_contains_segments n b a p q l :
  pt_abs_box n = Some b -> In (a, p) (leaf_points n) -> In (a, q) (leaf_points n) -> 0 <= l <= 1 ->
  inside b (fst (apply_ts a (mix l p q))) (snd (apply_ts a (mix l p q))).
Proof.
  intros H Hp Hq Hl. destruct (apply_mix a l p q) as [Ex Ey]. unfold inside. rewrite Ex, Ey.
  apply inside_convex; [apply (tree_abs_box_contains_points n b a p H Hp) | apply (tree_abs_box_contains_points n b a q H Hq) | exact Hl].
Qed.

(* a child's absolute box is contained in its parent's, for arbitrary transforms *)
Theorem tree_child_box_contained ch b c bc :
  pt_abs_box (PGroup ch) = Some b -> In c ch -> pt_abs_box c = Some bc -> contains b bc.
Proof.
  cbn [pt_abs_box]. intros H Hc Ebc. destruct (fold_expand_contains pt_abs_box ch None b H) as [_ Hcont]. exact (Hcont c bc Hc Ebc).
Qed.

(* ------------------------------------------------------------------ extension round 4: the forest (sub-trees) *)
Lemma ts_concat_id_id : ts_eqb ts_identity (ts_concat ts_identity ts_identity) = true.
Proof. vm_compute. reflexivity. Qed.

(* abs_transform = product of the ancestors' transforms for every node of the main tree AND of every clip-path / mask /
   pattern / feImage sub-tree at every nesting depth (relative to the sub-tree's root), outside the two known classes *)
Theorem forest_product_guarded : forall n pabs,
  xhas_use_ts n = false -> xhas_pushed n = false -> xproduct_ok pabs (xthread pabs n) = true.
Proof.
  fix IH 1. intros [subs|k nts pts subs ch|w ch] pabs Hu Hp.
  - cbn [xthread xproduct_ok]. rewrite ts_eqb_refl. cbn [andb].
    cbn [xhas_use_ts] in Hu. cbn [xhas_pushed] in Hp.
    induction subs as [|c r IHr]; [reflexivity|].
    cbn [existsb] in Hu, Hp. apply orb_false_iff in Hu. apply orb_false_iff in Hp. destruct Hu as [Hu1 Hu2]. destruct Hp as [Hp1 Hp2].
    cbn [map forallb]. rewrite (IH c ts_identity Hu1 Hp1), (IHr Hu2 Hp2). reflexivity.
  - cbn [xhas_use_ts] in Hu. cbn [xhas_pushed] in Hp.
    apply orb_false_iff in Hu. destruct Hu as [Hu Huch]. apply orb_false_iff in Hu. destruct Hu as [Hk Husubs].
    apply orb_false_iff in Hp. destruct Hp as [Hpsubs Hpch].
    assert (Hl : forall (l : list xnode) a, existsb xhas_use_ts l = false -> existsb xhas_pushed l = false ->
                 forallb (xproduct_ok a) (map (xthread a) l) = true).
    { intros l a. induction l as [|c r IHr]; intros H1 H2; [reflexivity|].
      cbn [existsb] in H1, H2. apply orb_false_iff in H1. apply orb_false_iff in H2. destruct H1 as [H1a H1b]. destruct H2 as [H2a H2b].
      cbn [map forallb]. rewrite (IH c a H1a H2a), (IHr H1b H2b). reflexivity. }
    cbn [xthread].
    destruct k; cbn [xproduct_ok]; rewrite (Hl subs ts_identity Husubs Hpsubs), (Hl ch _ Huch Hpch), !andb_true_r.
    + apply ts_eqb_refl.
    + apply negb_false_iff in Hk. apply ts_eqb_spec in Hk. apply ts_eqb_of_eq. apply ts_concat_id_r. exact Hk.
    + apply negb_false_iff in Hk. apply ts_eqb_spec in Hk. apply ts_eqb_of_eq.
      apply ts_eq_sym. apply ts_concat_id_r. exact Hk.
  - cbn [xhas_pushed] in Hp. discriminate Hp.
Qed.

(* paint-servers/pattern/patternContentUnits=objectBoundingBox.svg: the pattern content (one leaf) below the group pushed by
   push_pattern_transform(root, scale(160, 70)) keeps the abs_transform identity *)
Definition pushed_pattern_forest : xnode :=
  xroot [] [XLeaf [xroot [] [XPushed (from_scale 160 70) [XLeaf []]]]].
Theorem forest_pushed_refuted :
  exists n, xhas_use_ts n = false /\ xhas_pushed n = true /\ xproduct_ok ts_identity (xthread ts_identity n) = false.
Proof. exists pushed_pattern_forest. repeat split; vm_compute; reflexivity. Qed.

(* the invariant of the forest is exactly the conjunction of the local checks over the flattened node list: what the `bbox`
   correspondence evaluates group by group (leaf against its parent, group against parent * own transform, roots against
   the identity) decides xproduct_ok of the whole dumped forest *)
Lemma forallb_flat_map {A B} (f : B -> bool) (g : A -> list B) (l : list A) :
  forallb f (flat_map g l) = forallb (fun x => forallb f (g x)) l.
Proof. induction l as [|x r IH]; [reflexivity|]. cbn [flat_map forallb]. rewrite forallb_app, IH. reflexivity. Qed.

Theorem forest_product_is_local : forall n pabs,
  xproduct_ok pabs n = forallb (fun pm => bnode_local_ok (fst pm) (snd pm)) (bflat pabs n).
Proof.
  fix IH 1. intros [a subs|t a subs ch] pabs.
  - cbn [xproduct_ok bflat forallb fst snd bnode_local_ok]. f_equal.
    rewrite forallb_flat_map. induction subs as [|c r IHr]; [reflexivity|].
    cbn [forallb]. rewrite IH, IHr. reflexivity.
  - cbn [xproduct_ok bflat forallb fst snd bnode_local_ok]. rewrite <- andb_assoc. f_equal.
    rewrite forallb_app, !forallb_flat_map. f_equal.
    + induction subs as [|c r IHr]; [reflexivity|]. cbn [forallb]. rewrite IH, IHr. reflexivity.
    + induction ch as [|c r IHr]; [reflexivity|]. cbn [forallb]. rewrite IH, IHr. reflexivity.
Qed.

(* dropping the sub-trees gives the main-tree model of `thread`: the forest invariant implies the main-tree invariant *)
Theorem forest_implies_main : forall n pabs,
  xhas_pushed n = false -> xproduct_ok pabs (xthread pabs n) = true -> product_ok pabs (thread pabs (xmain n)) = true.
Proof.
  fix IH 1. intros [subs|k nts pts subs ch|w ch] pabs Hp H.
  - cbn [xthread xproduct_ok] in H. apply andb_prop in H. destruct H as [H _]. cbn. exact H.
  - cbn [xhas_pushed] in Hp. apply orb_false_iff in Hp. destruct Hp as [_ Hpch].
    cbn [xmain thread]. cbn [xthread] in H.
    destruct k; cbn [xproduct_ok product_ok] in *;
      apply andb_prop in H; destruct H as [H Hch]; apply andb_prop in H; destruct H as [H _]; rewrite H; cbn [andb];
      rewrite map_map; clear H;
      (induction ch as [|c r IHr]; [reflexivity|];
       cbn [existsb] in Hpch; apply orb_false_iff in Hpch; destruct Hpch as [Hp1 Hp2];
       cbn [map forallb] in *; apply andb_prop in Hch; destruct Hch as [Hc Hr];
       rewrite (IH c _ Hp1 Hc), (IHr Hp2 Hr); reflexivity).
  - cbn [xhas_pushed] in Hp. discriminate Hp.
Qed.

(* ------------------------------------------------------------------ extension round 4 (b): fill <= stroke <= layer *)
Lemma inflate_contains b r : 0 <= r -> contains (inflate b r) b.
Proof. intros H. unfold contains, inflate, mkbox. cbn. repeat split; lra. Qed.
Lemma inflate_mono b c r s : contains b c -> r <= s -> contains (inflate b s) (inflate c r).
Proof. unfold contains, inflate, mkbox. cbn. intros (?&?&?&?) ?. repeat split; lra. Qed.
Lemma stroke_radius_ge_half w ml join cap : 0 <= w -> w / 2 <= stroke_radius w ml join cap.
Proof.
  intros Hw. unfold stroke_radius.
  assert (H1 : 1 <= Qmax (Qmax 1 (match join with 0%N => ml | 1%N => ml + 1 | _ => 1 end)) (match cap with 2%N => 3 # 2 | _ => 1 end)).
  { eapply Qle_trans; [|apply Q.le_max_l]. apply Q.le_max_l. }
  assert (H0 : 0 <= w / 2) by (unfold Qdiv; change (/ 2) with (1 # 2); lra).
  set (m := Qmax _ _) in *. clearbody m. nra.
Qed.

(* a leaf whose fill box lies in its stroke box: every box of the parent group that is built from stroke boxes - the layer
   box when the group has no filters - contains the leaf's FILL box too (fill <= stroke <= layer) *)
Theorem fill_in_stroke_in_layer abs_ts prev cs g b :
  calculate_bounding_boxes abs_ts [] prev cs = (g, true) ->
  (forall c, In c (live cs) -> child_valid c = true) ->
  In (CLeaf b) cs -> contains (lb_stroke b) (lb_obj b) ->
  contains (gb_layer g) (lb_stroke b) /\ contains (gb_layer g) (lb_obj b) /\ contains (gb_stroke g) (lb_obj b).
Proof.
  intros Hc Hv Hin Hfs.
  assert (Hl : In (CLeaf b) (live cs)) by (unfold live; apply filter_In; split; [exact Hin|reflexivity]).
  assert (Hne : live cs <> []) by (intros E; rewrite E in Hl; destruct Hl).
  destruct (parent_contains_children _ _ _ _ _ _ Hc Hne Hv) as [H4 Hok].
  destruct (H4 _ Hl) as (_ & _ & Hs & _). destruct (Hok eq_refl) as [Hlay _].
  change (filters_bounding_box []) with (@None box) in Hlay.
  assert (H1 : contains (gb_layer g) (lb_stroke b)) by (apply (Hlay (CLeaf b) (lb_stroke b) Hl); reflexivity).
  split; [exact H1|]. split; [eapply contains_trans; eassumption|].
  cbn [c_stroke] in Hs. eapply contains_trans; eassumption.
Qed.

(* the layer box of a group without filters is EXACTLY the union of its live children's layer boxes: besides containing each
   (parent_contains_children), every side is attained by some child *)
Lemma fold_opt_attained {A} (f : A -> option box) (sel : box -> Q) (l : list A)
  (Hsel : forall b r u, expand (Some b) r = Some u -> sel u == sel b \/ sel u == sel r) :
  forall a u, fold_left (fun a c => match f c with Some r => expand a r | None => a end) l a = Some u ->
  (exists b, a = Some b /\ sel u == sel b) \/ (exists c r, In c l /\ f c = Some r /\ sel u == sel r).
Proof.
  induction l as [|x l IH]; intros a u H.
  - cbn in H. left. exists u. split; [exact H|reflexivity].
  - cbn [fold_left] in H. destruct (f x) as [r|] eqn:Ef.
    + destruct (IH _ _ H) as [(b & Hb & Hu)|(c & r' & Hin & Hf & Hu)].
      * destruct a as [b0|].
        -- destruct (Hsel b0 r b Hb) as [E|E].
           ++ left. exists b0. split; [reflexivity|]. rewrite Hu. exact E.
           ++ right. exists x, r. split; [left; reflexivity|]. split; [exact Ef|]. rewrite Hu. exact E.
        -- cbn in Hb. injection Hb as <-. right. exists x, r. split; [left; reflexivity|]. split; [exact Ef|exact Hu].
      * right. exists c, r'. split; [right; exact Hin|]. split; assumption.
    + destruct (IH _ _ H) as [Hl|(c & r' & Hin & Hf & Hu)]; [left; exact Hl|].
      right. exists c, r'. split; [right; exact Hin|]. split; assumption.
Qed.
Lemma expand_sel_x0 b r u : expand (Some b) r = Some u -> bx0 u == bx0 b \/ bx0 u == bx0 r.
Proof. cbn. intros H. injection H as <-. cbn. destruct (Q.min_dec (bx0 b) (bx0 r)) as [E|E]; rewrite E; [left|right]; reflexivity. Qed.
Lemma expand_sel_y0 b r u : expand (Some b) r = Some u -> by0 u == by0 b \/ by0 u == by0 r.
Proof. cbn. intros H. injection H as <-. cbn. destruct (Q.min_dec (by0 b) (by0 r)) as [E|E]; rewrite E; [left|right]; reflexivity. Qed.
Lemma expand_sel_x1 b r u : expand (Some b) r = Some u -> bx1 u == bx1 b \/ bx1 u == bx1 r.
Proof. cbn. intros H. injection H as <-. cbn. destruct (Q.max_dec (bx1 b) (bx1 r)) as [E|E]; rewrite E; [left|right]; reflexivity. Qed.
Lemma expand_sel_y1 b r u : expand (Some b) r = Some u -> by1 u == by1 b \/ by1 u == by1 r.
Proof. cbn. intros H. injection H as <-. cbn. destruct (Q.max_dec (by1 b) (by1 r)) as [E|E]; rewrite E; [left|right]; reflexivity. Qed.

Theorem layer_box_is_union abs_ts prev cs g :
  calculate_bounding_boxes abs_ts [] prev cs = (g, true) ->
  to_nonzero (union_opt c_layer cs) = Some (gb_layer g) /\
  (exists c r, In c (live cs) /\ c_layer c = Some r /\ bx0 (gb_layer g) == bx0 r) /\
  (exists c r, In c (live cs) /\ c_layer c = Some r /\ by0 (gb_layer g) == by0 r) /\
  (exists c r, In c (live cs) /\ c_layer c = Some r /\ bx1 (gb_layer g) == bx1 r) /\
  (exists c r, In c (live cs) /\ c_layer c = Some r /\ by1 (gb_layer g) == by1 r).
Proof.
  intros H.
  assert (Hu : to_nonzero (union_opt c_layer cs) = Some (gb_layer g)).
  { unfold calculate_bounding_boxes in H. change (filters_bounding_box []) with (@None box) in H.
    repeat match type of H with
    | context [match ?x with _ => _ end] => destruct x eqn:?; cbn [negb fst snd] in H; try discriminate
    end; injection H as <-; try reflexivity; cbn; try assumption; try congruence. }
  split; [exact Hu|]. apply to_nonzero_some in Hu. unfold union_opt in Hu.
  repeat split.
  - destruct (fold_opt_attained c_layer bx0 (live cs) expand_sel_x0 _ _ Hu) as [(b & Hb & _)|Hx]; [discriminate|exact Hx].
  - destruct (fold_opt_attained c_layer by0 (live cs) expand_sel_y0 _ _ Hu) as [(b & Hb & _)|Hx]; [discriminate|exact Hx].
  - destruct (fold_opt_attained c_layer bx1 (live cs) expand_sel_x1 _ _ Hu) as [(b & Hb & _)|Hx]; [discriminate|exact Hx].
  - destruct (fold_opt_attained c_layer by1 (live cs) expand_sel_y1 _ _ Hu) as [(b & Hb & _)|Hx]; [discriminate|exact Hx].
Qed.

(* ------------------------------------------------------------------ round 5: the model's wrong values are the formulas of the class *)
Lemma Qcloseb_refl tol a : 0 <= tol -> Qcloseb tol a a = true.
Proof.
  intros H. unfold Qcloseb. apply Qleb_true. assert (E : a - a == 0) by ring. 
  unfold Qabsb. destruct (Qleb 0 (a - a)) eqn:E0.
  - rewrite E. assert (1 <= Qmax 1 (Qmax (if Qleb 0 a then a else - a) (if Qleb 0 a then a else - a))) by apply Q.le_max_l. nra.
  - apply Qleb_false in E0. rewrite E in E0. lra.
Qed.
Lemma ts_closeb_refl tol a : 0 <= tol -> ts_closeb tol a a = true.
Proof. intros H. unfold ts_closeb. rewrite !Qcloseb_refl by exact H. reflexivity. Qed.

(* what `thread` gives a GK_ViaUse / GK_ClipWrap group is exactly the value the class formulas name *)
Theorem thread_via_use_value tol pabs nts pts ch : 0 <= tol -> ts_closeb tol nts ts_identity = false ->
  match thread pabs (TGroup GK_ViaUse nts pts ch) with
  | AGroup t a _ => kw_via_use tol pabs t a (false, pts, nts) = true
  | ALeaf _ => False
  end.
Proof. intros H Hn. cbn [thread kw_via_use]. rewrite Hn. cbn [negb andb]. apply ts_closeb_refl. exact H. Qed.
Theorem thread_clip_wrap_value tol pabs nts pts ch : 0 <= tol -> ts_closeb tol pts ts_identity = false ->
  match thread pabs (TGroup GK_ClipWrap nts pts ch) with
  | AGroup t a _ => kw_clip_wrap tol pabs t a = true
  | ALeaf _ => False
  end.
Proof. intros H Hn. cbn [thread]. unfold kw_clip_wrap. rewrite Hn, ts_closeb_refl by exact H. reflexivity. Qed.
