From RV Require Import Gen.StopSites.
From RV Require Import Model.Stops.
From Coq Require Import String List Bool QArith NArith.
Import ListNotations.

Lemma stop_loop_is_plain : stop_loop_plain = true.
Proof. vm_compute. reflexivity. Qed.
Lemma stop_fields_ok : chk_stop_fields = true.
Proof. vm_compute. reflexivity. Qed.

Lemma read_write_stop s : stop_eq (read_stop (write_stop s)) s.
Proof.
  destruct s as [[o c] a]. unfold write_stop, read_stop, stop_eq. simpl.
  destruct (Qeq_bool a 1) eqn:E; simpl; repeat split; try reflexivity.
  apply Qeq_bool_iff in E. symmetry. exact E.
Qed.

(* every stop of the tree is written, in order, and reads back as itself: for ALL stop lists *)
Lemma stops_roundtrip : forall l, Forall2 stop_eq (map read_stop (write_stops l)) l.
Proof.
  intros l. unfold write_stops. rewrite stop_loop_is_plain.
  induction l as [|s r IH]; simpl; constructor; [apply read_write_stop|exact IH].
Qed.

Lemma stops_count : forall l, length (write_stops l) = length l.
Proof. intros l. unfold write_stops. rewrite stop_loop_is_plain. apply map_length. Qed.
