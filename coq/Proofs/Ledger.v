(* C01 panic-site ledger (HAND-MAINTAINED).  One entry per key of Gen/Sites.v:
     Guard P pf     the value that reaches the unwrap satisfies the constructor's condition: pf proves the guard lemma P
     ConstArg P pf  the arguments are literals; pf evaluates the constructor model on them (now decided by computation, see site_auto)
     Reviewed why   read and argued informally - NOT PROVED; counted as such in the evidence
     Known class    the site IS reachable: registered finding in /verif/known_findings.txt
   A site of Gen/Sites.v that has no entry here (new code, or an edited statement: the key contains the
   statement text) makes `sites_discharged` fail.  Use coq/Gen/Sites.lines.txt to locate a key. *)
From Coq Require Import String List Bool Arith.
From RV Require Import Gen.Sites Gen.Totality Model.Base Model.Xq Model.Totality Proofs.Xq Proofs.Totality.
Import ListNotations.
Local Open Scope string_scope.

Inductive lclass :=
  | Guard (P : Prop) (pf : P)
  | ConstArg (P : Prop) (pf : P)
  | Reviewed (why : string)
  | Known (cls : string).

Definition skind_eqb (a b : skind) : bool :=
  match a, b with
  | KUnwrap, KUnwrap | KExpect, KExpect | KAssert, KAssert | KDebugAssert, KDebugAssert
  | KUnreachable, KUnreachable | KPanic, KPanic | KIndex, KIndex => true
  | _, _ => false
  end.
Definition site_eqb (a b : site) : bool :=
  String.eqb (s_file a) (s_file b) && String.eqb (s_fn a) (s_fn b) && skind_eqb (s_kind a) (s_kind b) &&
  String.eqb (s_text a) (s_text b) && Nat.eqb (s_ord a) (s_ord b).

Definition ledger : list (site * lclass) := [
(mk_site "parser/converter.rs" "gen_linear_gradient_id" KUnwrap "return NonEmptyString::new(new_id).unwrap()" 0, Reviewed "new_id = format!(prefix + counter) is never the empty string");
  (mk_site "parser/converter.rs" "gen_radial_gradient_id" KUnwrap "return NonEmptyString::new(new_id).unwrap()" 0, Reviewed "new_id = format!(prefix + counter) is never the empty string");
  (mk_site "parser/converter.rs" "gen_pattern_id" KUnwrap "return NonEmptyString::new(new_id).unwrap()" 0, Reviewed "new_id = format!(prefix + counter) is never the empty string");
  (mk_site "parser/converter.rs" "gen_clip_path_id" KUnwrap "return NonEmptyString::new(new_id).unwrap()" 0, Reviewed "new_id = format!(prefix + counter) is never the empty string");
  (mk_site "parser/converter.rs" "gen_mask_id" KUnwrap "return NonEmptyString::new(new_id).unwrap()" 0, Reviewed "new_id = format!(prefix + counter) is never the empty string");
  (mk_site "parser/converter.rs" "gen_filter_id" KUnwrap "return NonEmptyString::new(new_id).unwrap()" 0, Reviewed "new_id = format!(prefix + counter) is never the empty string");
  (mk_site "parser/converter.rs" "gen_image_id" KUnwrap "return NonEmptyString::new(new_id).unwrap()" 0, Reviewed "new_id = format!(prefix + counter) is never the empty string");
  (mk_site "parser/converter.rs" "resolve_length" KDebugAssert "debug_assert!( !matches!(aid, AId::BaselineShift | AId::FontSize), ""{} cannot be resolved via this function"", aid )" 0, Reviewed "resolve_length is called with literal AIds only, none of them BaselineShift / FontSize");
  (mk_site "parser/converter.rs" "convert_path" KDebugAssert "debug_assert!(tiny_skia_path.len() >= 2)" 0, Reviewed "shapes::convert only returns paths built by PathBuilder::finish, which rejects paths with fewer than 2 points; the release build re-checks and returns");
  (mk_site "parser/converter.rs" "svg_paint_order_to_usvg" KIndex "order.order[0]" 0, Reviewed "svgtypes::PaintOrder::order is a fixed array [PaintOrderKind; 3]");
  (mk_site "parser/converter.rs" "svg_paint_order_to_usvg" KIndex "order.order[1]" 0, Reviewed "svgtypes::PaintOrder::order is a fixed array [PaintOrderKind; 3]");
  (mk_site "parser/filter.rs" "find_filter_with_primitives" KUnwrap "link.tag_name().unwrap()" 0, Reviewed "the node comes from doc.links (element_by_id) or from HrefIter, which hold elements only; an element has a tag name");
  (mk_site "parser/filter.rs" "convert_color_matrix_kind" KUnwrap "PositiveF32::new(n).unwrap()" 0, Guard _ bound01_positive);
  (mk_site "parser/filter.rs" "convert_component_transfer" KUnwrap "match child.tag_name().unwrap()" 0, Reviewed "children are filtered with is_element()");
  (mk_site "parser/filter.rs" "convert_convolve_matrix" KUnwrap "divisor: NonZeroF32::new(divisor).unwrap()" 0, Guard _ convolve_divisor_guard);
  (mk_site "parser/image.rs" "convert_inner" KUnwrap "let mut path = Path::new_simple(Arc::new(tiny_skia_path::PathBuilder::from_rect( rect.to_rect(), ))) .unwrap()" 0, Reviewed "PathBuilder::from_rect of a NonZeroRect always yields a non-empty path with a valid bounding box");
  (mk_site "parser/marker.rs" "draw_markers" KIndex "path[i]" 0, Reviewed "`while i < total` with total = path.len() - 1; path is non-empty (tiny_skia_path::Path has at least 2 segments)");
  (mk_site "parser/marker.rs" "calc_vertex_angle" KDebugAssert "debug_assert!(path.len() > 1)" 0, Reviewed "the segment list is built from a tiny_skia_path::Path, which holds at least a MoveTo and one more segment");
  (mk_site "parser/marker.rs" "calc_vertex_angle" KIndex "path[0]" 0, Reviewed "idx is a vertex index produced by draw_markers (0 <= idx <= len - 1); idx - 1 only when idx >= 1; idx + 1 only in the middle branch idx < len - 1");
  (mk_site "parser/marker.rs" "calc_vertex_angle" KIndex "path[1]" 0, Reviewed "idx is a vertex index produced by draw_markers (0 <= idx <= len - 1); idx - 1 only when idx >= 1; idx + 1 only in the middle branch idx < len - 1");
  (mk_site "parser/marker.rs" "calc_vertex_angle" KIndex "path[idx - 1]" 0, Reviewed "idx is a vertex index produced by draw_markers (0 <= idx <= len - 1); idx - 1 only when idx >= 1; idx + 1 only in the middle branch idx < len - 1");
  (mk_site "parser/marker.rs" "calc_vertex_angle" KIndex "path[idx]" 0, Reviewed "idx is a vertex index produced by draw_markers (0 <= idx <= len - 1); idx - 1 only when idx >= 1; idx + 1 only in the middle branch idx < len - 1");
  (mk_site "parser/marker.rs" "calc_vertex_angle" KIndex "path[idx]" 1, Reviewed "idx is a vertex index produced by draw_markers (0 <= idx <= len - 1); idx - 1 only when idx >= 1; idx + 1 only in the middle branch idx < len - 1");
  (mk_site "parser/marker.rs" "calc_vertex_angle" KIndex "path[idx + 1]" 0, Reviewed "idx is a vertex index produced by draw_markers (0 <= idx <= len - 1); idx - 1 only when idx >= 1; idx + 1 only in the middle branch idx < len - 1");
  (mk_site "parser/marker.rs" "get_prev_vertex" KIndex "segments[idx - 1]" 0, Reviewed "idx is a vertex index produced by draw_markers (0 <= idx <= len - 1); idx - 1 only when idx >= 1; idx + 1 only in the middle branch idx < len - 1");
  (mk_site "parser/mod.rs" "f32_bound" KDebugAssert "debug_assert!(min.is_finite())" 0, Reviewed "min / max are literals (0, 1 or 1, 128) at all three call sites");
  (mk_site "parser/mod.rs" "f32_bound" KDebugAssert "debug_assert!(val.is_finite())" 0, Reviewed "callers pass finite values: feColorMatrix `values` come from FromValue for Vec<f32>, which rejects numbers that overflow f32 (fix 8d835b3); specularExponent was range-checked to 1..=128 just before; the stop offset no longer goes through f32_bound (fix 8613502)");
  (mk_site "parser/mod.rs" "f32_bound" KDebugAssert "debug_assert!(max.is_finite())" 0, Reviewed "min / max are literals (0, 1 or 1, 128) at all three call sites");
  (mk_site "parser/paint_server.rs" "convert" KUnwrap "let paint = match node.tag_name().unwrap()" 0, Reviewed "the node comes from doc.links (element_by_id) or from HrefIter, which hold elements only; an element has a tag name");
  (mk_site "parser/paint_server.rs" "convert" KUnreachable "_ => unreachable!()" 0, Reviewed "the caller (style::convert_paint) checked tag_name.is_paint_server(): the three arms are exhaustive");
  (mk_site "parser/paint_server.rs" "convert_radial" KUnwrap "let stop = stops.last().unwrap()" 0, Reviewed "stops.len() >= 2 was checked before (fewer stops return stops_to_color)");
  (mk_site "parser/paint_server.rs" "convert_radial" KUnwrap "r: PositiveF32::new(r).unwrap()" 0, Guard _ valid_length_positive);
  (mk_site "parser/paint_server.rs" "convert_pattern" KUnwrap "g.transform = view_box.unwrap()" 0, Reviewed "inside `if patt.view_box.is_some()`; patt.view_box is a copy of view_box");
  (mk_site "parser/paint_server.rs" "find_gradient_with_stops" KUnwrap "if !link.tag_name().unwrap()" 0, Reviewed "the node comes from doc.links (element_by_id) or from HrefIter, which hold elements only; an element has a tag name");
  (mk_site "parser/paint_server.rs" "find_gradient_with_stops" KUnwrap "link.tag_name().unwrap()" 0, Reviewed "the node comes from doc.links (element_by_id) or from HrefIter, which hold elements only; an element has a tag name");
  (mk_site "parser/paint_server.rs" "find_pattern_with_children" KUnwrap "link.tag_name().unwrap()" 0, Reviewed "the node comes from doc.links (element_by_id) or from HrefIter, which hold elements only; an element has a tag name");
  (mk_site "parser/paint_server.rs" "convert_stops" KUnwrap "stop.tag_name().unwrap()" 0, Reviewed "children of a gradient are elements: text nodes exist only below `text`, and gradients are never kept below `text`");
  (mk_site "parser/paint_server.rs" "convert_stops" KIndex "stops[i + 0]" 0, Reviewed "loop bounds: `while i < stops.len() - 2` under `stops.len() >= 3`, `while i < stops.len() - 1` under `stops.len() >= 2`, `i` from 1 `while i < stops.len()`, `i - 2` under `i >= 2`");
  (mk_site "parser/paint_server.rs" "convert_stops" KIndex "stops[i + 1]" 0, Reviewed "loop bounds: `while i < stops.len() - 2` under `stops.len() >= 3`, `while i < stops.len() - 1` under `stops.len() >= 2`, `i` from 1 `while i < stops.len()`, `i - 2` under `i >= 2`");
  (mk_site "parser/paint_server.rs" "convert_stops" KIndex "stops[i + 2]" 0, Reviewed "loop bounds: `while i < stops.len() - 2` under `stops.len() >= 3`, `while i < stops.len() - 1` under `stops.len() >= 2`, `i` from 1 `while i < stops.len()`, `i - 2` under `i >= 2`");
  (mk_site "parser/paint_server.rs" "convert_stops" KIndex "stops[i + 0]" 1, Reviewed "loop bounds: `while i < stops.len() - 2` under `stops.len() >= 3`, `while i < stops.len() - 1` under `stops.len() >= 2`, `i` from 1 `while i < stops.len()`, `i - 2` under `i >= 2`");
  (mk_site "parser/paint_server.rs" "convert_stops" KIndex "stops[i + 1]" 1, Reviewed "loop bounds: `while i < stops.len() - 2` under `stops.len() >= 3`, `while i < stops.len() - 1` under `stops.len() >= 2`, `i` from 1 `while i < stops.len()`, `i - 2` under `i >= 2`");
  (mk_site "parser/paint_server.rs" "convert_stops" KIndex "stops[i + 1]" 2, Reviewed "loop bounds: `while i < stops.len() - 2` under `stops.len() >= 3`, `while i < stops.len() - 1` under `stops.len() >= 2`, `i` from 1 `while i < stops.len()`, `i - 2` under `i >= 2`");
  (mk_site "parser/paint_server.rs" "convert_stops" KIndex "stops[i - 1]" 0, Reviewed "loop bounds: `while i < stops.len() - 2` under `stops.len() >= 3`, `while i < stops.len() - 1` under `stops.len() >= 2`, `i` from 1 `while i < stops.len()`, `i - 2` under `i >= 2`");
  (mk_site "parser/paint_server.rs" "convert_stops" KIndex "stops[i - 0]" 0, Reviewed "loop bounds: `while i < stops.len() - 2` under `stops.len() >= 3`, `while i < stops.len() - 1` under `stops.len() >= 2`, `i` from 1 `while i < stops.len()`, `i - 2` under `i >= 2`");
  (mk_site "parser/paint_server.rs" "convert_stops" KIndex "stops[i - 2]" 0, Reviewed "loop bounds: `while i < stops.len() - 2` under `stops.len() >= 3`, `while i < stops.len() - 1` under `stops.len() >= 2`, `i` from 1 `while i < stops.len()`, `i - 2` under `i >= 2`");
  (mk_site "parser/paint_server.rs" "convert_stops" KIndex "stops[i - 1]" 1, Reviewed "loop bounds: `while i < stops.len() - 2` under `stops.len() >= 3`, `while i < stops.len() - 1` under `stops.len() >= 2`, `i` from 1 `while i < stops.len()`, `i - 2` under `i >= 2`");
  (mk_site "parser/paint_server.rs" "convert_stops" KIndex "stops[i - 0]" 1, Reviewed "loop bounds: `while i < stops.len() - 2` under `stops.len() >= 3`, `while i < stops.len() - 1` under `stops.len() >= 2`, `i` from 1 `while i < stops.len()`, `i - 2` under `i >= 2`");
  (mk_site "parser/paint_server.rs" "resolve_attr" KUnwrap "match node.tag_name().unwrap()" 0, Reviewed "the node comes from doc.links (element_by_id) or from HrefIter, which hold elements only; an element has a tag name");
  (mk_site "parser/style.rs" "convert_paint" KUnwrap "let tag_name = link.tag_name().unwrap()" 0, Reviewed "the node comes from doc.links (element_by_id) or from HrefIter, which hold elements only; an element has a tag name");
  (mk_site "parser/svgtree/mod.rs" "root" KIndex "self.nodes[0]" 0, Reviewed "nodes[0] is pushed by parse() before anything else");
  (mk_site "parser/svgtree/mod.rs" "root_element" KUnwrap "self.root().first_element_child().unwrap()" 0, Reviewed "parse() returns Err(NoRootNode) unless the root has an `svg` element child");
  (mk_site "parser/svgtree/mod.rs" "get" KIndex "self.nodes[id.get_usize()]" 0, Reviewed "NodeId / ShortRange values are only created by append / parse_svg_element for existing entries of the same document");
  (mk_site "parser/svgtree/mod.rs" "new" KDebugAssert "debug_assert!(id < u32::MAX)" 0, Reviewed "id comes from nodes.len() <= NODES_LIMIT + text nodes (bounded by the input size) < u32::MAX, so id + 1 != 0");
  (mk_site "parser/svgtree/mod.rs" "new" KUnwrap "NonZeroU32::new(id + 1).unwrap()" 0, Reviewed "id comes from nodes.len() <= NODES_LIMIT + text nodes (bounded by the input size) < u32::MAX, so id + 1 != 0");
  (mk_site "parser/svgtree/mod.rs" "from" KDebugAssert "debug_assert!(id <= u32::MAX as usize)" 0, Reviewed "nodes.len() is bounded by NODES_LIMIT plus the number of text nodes of the input");
  (mk_site "parser/svgtree/mod.rs" "attributes" KIndex "self.doc.attrs[attributes.to_urange()]" 0, Reviewed "NodeId / ShortRange values are only created by append / parse_svg_element for existing entries of the same document");
  (mk_site "parser/svgtree/mod.rs" "text" KIndex "self.doc.nodes[child.id.get_usize()]" 0, Reviewed "NodeId / ShortRange values are only created by append / parse_svg_element for existing entries of the same document");
  (mk_site "parser/svgtree/names.rs" "get" KIndex "self.entries[index as usize]" 0, Reviewed "perfect-hash table generated at build time: get_index is reduced modulo the table sizes; key() is called for values that are in the table");
  (mk_site "parser/svgtree/names.rs" "key" KUnwrap "self.entries.iter().find(|kv| kv.1 == *value).unwrap()" 0, Reviewed "perfect-hash table generated at build time: get_index is reduced modulo the table sizes; key() is called for values that are in the table");
  (mk_site "parser/svgtree/names.rs" "get_index" KIndex "disps[(g % (disps.len() as u32)) as usize]" 0, Reviewed "perfect-hash table generated at build time: get_index is reduced modulo the table sizes; key() is called for values that are in the table");
  (mk_site "parser/svgtree/parse.rs" "append" KIndex "self.nodes[parent_id.get_usize()]" 0, Reviewed "parent_id / last child ids are NodeIds of this document (created by earlier append calls)");
  (mk_site "parser/svgtree/parse.rs" "append" KIndex "self.nodes[id.get_usize()]" 0, Reviewed "parent_id / last child ids are NodeIds of this document (created by earlier append calls)");
  (mk_site "parser/svgtree/parse.rs" "append" KIndex "self.nodes[parent_id.get_usize()]" 1, Reviewed "parent_id / last child ids are NodeIds of this document (created by earlier append calls)");
  (mk_site "parser/svgtree/parse.rs" "append" KIndex "self.nodes[parent_id.get_usize()]" 2, Reviewed "parent_id / last child ids are NodeIds of this document (created by earlier append calls)");
  (mk_site "parser/svgtree/parse.rs" "parse_svg_element" KIndex "doc.attrs[attrs_start_idx..]" 0, Reviewed "attrs_start_idx = attrs.len() at entry <= attrs.len(); existing_idx = attrs_start_idx + position within that slice");
  (mk_site "parser/svgtree/parse.rs" "parse_svg_element" KIndex "doc.attrs[existing_idx]" 0, Reviewed "attrs_start_idx = attrs.len() at entry <= attrs.len(); existing_idx = attrs_start_idx + position within that slice");
  (mk_site "parser/svgtree/parse.rs" "fix_recursive_patterns" KUnwrap "let idx = doc.get(node_id).attribute_id(AId::Fill).unwrap()" 0, Reviewed "find_recursive_* returns a node for which attribute(aid) was Some, so the attribute exists (finder_sound lemmas of Proofs/Links.v)");
  (mk_site "parser/svgtree/parse.rs" "fix_recursive_patterns" KIndex "doc.attrs[idx]" 0, Reviewed "idx comes from attribute_id(): start of the node's attribute range + position inside it");
  (mk_site "parser/svgtree/parse.rs" "fix_recursive_patterns" KUnwrap "let idx = doc.get(node_id).attribute_id(AId::Stroke).unwrap()" 0, Reviewed "find_recursive_* returns a node for which attribute(aid) was Some, so the attribute exists (finder_sound lemmas of Proofs/Links.v)");
  (mk_site "parser/svgtree/parse.rs" "fix_recursive_patterns" KIndex "doc.attrs[idx]" 1, Reviewed "idx comes from attribute_id(): start of the node's attribute range + position inside it");
  (mk_site "parser/svgtree/parse.rs" "fix_recursive_links" KUnwrap "let idx = doc.get(node_id).attribute_id(aid).unwrap()" 0, Reviewed "find_recursive_* returns a node for which attribute(aid) was Some, so the attribute exists (finder_sound lemmas of Proofs/Links.v)");
  (mk_site "parser/svgtree/parse.rs" "fix_recursive_links" KIndex "doc.attrs[idx]" 0, Reviewed "idx comes from attribute_id(): start of the node's attribute range + position inside it");
  (mk_site "parser/svgtree/parse.rs" "fix_recursive_fe_image" KUnwrap "let filter_id = fe_node.parent().unwrap()" 0, Reviewed "fe_node is an element reached from the root by descendants(): it has a parent");
  (mk_site "parser/svgtree/parse.rs" "fix_recursive_fe_image" KUnwrap "let idx = doc.get(id).attribute_id(AId::Filter).unwrap()" 0, Reviewed "find_recursive_* returns a node for which attribute(aid) was Some, so the attribute exists (finder_sound lemmas of Proofs/Links.v)");
  (mk_site "parser/svgtree/parse.rs" "fix_recursive_fe_image" KIndex "doc.attrs[idx]" 0, Reviewed "idx comes from attribute_id(): start of the node's attribute range + position inside it");
  (mk_site "parser/svgtree/text.rs" "parse_svg_text_element" KDebugAssert "debug_assert_eq!(parent.tag_name().name(), ""text"")" 0, Reviewed "called from parse_xml_node only when tag_name == EId::Text");
  (mk_site "parser/svgtree/text.rs" "parse_svg_text_element_impl" KUnwrap "node.text().unwrap()" 0, Reviewed "inside `if node.is_text()`: roxmltree text nodes have text");
  (mk_site "parser/svgtree/text.rs" "remove_first_space" KDebugAssert "debug_assert_eq!(self.chars().next().unwrap(), ' ')" 0, Reviewed "callers test the first / last byte for b' ' before calling");
  (mk_site "parser/svgtree/text.rs" "remove_first_space" KUnwrap "self.chars().next().unwrap()" 0, Reviewed "callers test the first / last byte for b' ' before calling");
  (mk_site "parser/svgtree/text.rs" "remove_last_space" KDebugAssert "debug_assert_eq!(self.chars().next_back().unwrap(), ' ')" 0, Reviewed "callers test the first / last byte for b' ' before calling");
  (mk_site "parser/svgtree/text.rs" "remove_last_space" KUnwrap "self.chars().next_back().unwrap()" 0, Reviewed "callers test the first / last byte for b' ' before calling");
  (mk_site "parser/svgtree/text.rs" "trim_text_nodes" KIndex "doc.nodes[node_id.get_usize()]" 0, Reviewed "node ids collected from doc.descendants() of the same document");
  (mk_site "parser/svgtree/text.rs" "trim_text_nodes" KIndex "text.as_bytes()[text.len() - 1]" 0, Reviewed "guarded by `text.len() > 0` / non-empty checks of the enclosing branch");
  (mk_site "parser/svgtree/text.rs" "trim_text_nodes" KIndex "nodes[i]" 0, Reviewed "`while i < len` with len = nodes.len() - 1 under nodes.len() > 1");
  (mk_site "parser/svgtree/text.rs" "trim_text_nodes" KIndex "nodes[i + 1]" 0, Reviewed "`while i < len` with len = nodes.len() - 1 under nodes.len() > 1");
  (mk_site "parser/svgtree/text.rs" "trim_text_nodes" KUnwrap "doc.get(node1_id).parent().unwrap()" 0, Reviewed "text nodes are appended below an element: they have a parent");
  (mk_site "parser/svgtree/text.rs" "trim_text_nodes" KUnwrap "doc.get(node2_id).parent().unwrap()" 0, Reviewed "text nodes are appended below an element: they have a parent");
  (mk_site "parser/svgtree/text.rs" "trim_text_nodes" KIndex "doc.nodes[node2_id.get_usize()]" 0, Reviewed "node ids collected from doc.descendants() of the same document");
  (mk_site "parser/svgtree/text.rs" "trim_text_nodes" KIndex "doc.nodes[node1_id.get_usize()]" 0, Reviewed "node ids collected from doc.descendants() of the same document");
  (mk_site "parser/svgtree/text.rs" "trim_text_nodes" KIndex "doc.nodes[node2_id.get_usize()]" 1, Reviewed "node ids collected from doc.descendants() of the same document");
  (mk_site "parser/svgtree/text.rs" "trim_text_nodes" KIndex "doc.nodes[node1_id.get_usize()]" 1, Reviewed "node ids collected from doc.descendants() of the same document");
  (mk_site "parser/svgtree/text.rs" "trim_text_nodes" KIndex "doc.nodes[node2_id.get_usize()]" 2, Reviewed "node ids collected from doc.descendants() of the same document");
  (mk_site "parser/svgtree/text.rs" "trim_text_nodes" KIndex "doc.nodes[node1_id.get_usize()]" 2, Reviewed "node ids collected from doc.descendants() of the same document");
  (mk_site "parser/switch.rs" "is_valid_sys_lang" KIndex "lang[..idx]" 0, Reviewed "idx = position of an ASCII '-' in the same string: a char boundary within bounds");
  (mk_site "parser/text.rs" "collect_text_chunks_impl" KUnwrap "dominant_baseline = parent .parent_element() .unwrap()" 0, Reviewed "parent is a tspan / textPath / text element below `text`; `text` itself has the root svg as parent element");
  (mk_site "parser/text.rs" "collect_text_chunks_impl" KIndex "pos_list[iter_state.chars_count]" 0, Reviewed "pos_list has one entry per character of the text element (resolve_positions_list allocates count_chars(text)); chars_count counts the same characters");
  (mk_site "parser/text.rs" "collect_text_chunks_impl" KIndex "pos_list[iter_state.chars_count]" 1, Reviewed "pos_list has one entry per character of the text element (resolve_positions_list allocates count_chars(text)); chars_count counts the same characters");
  (mk_site "parser/text.rs" "collect_text_chunks_impl" KIndex "pos_list[iter_state.chars_count]" 2, Reviewed "pos_list has one entry per character of the text element (resolve_positions_list allocates count_chars(text)); chars_count counts the same characters");
  (mk_site "parser/text.rs" "collect_text_chunks_impl" KIndex "pos_list[iter_state.chars_count]" 3, Reviewed "pos_list has one entry per character of the text element (resolve_positions_list allocates count_chars(text)); chars_count counts the same characters");
  (mk_site "parser/text.rs" "collect_text_chunks_impl" KDebugAssert "debug_assert_ne!(span.end, 0)" 0, Reviewed "span.end = start + char_len with char_len >= 1");
  (mk_site "parser/text.rs" "resolve_positions_list" KIndex "list[offset + i]" 0, Reviewed "lists are allocated with count_chars(text_node); offset + i < offset + count_chars(child) <= total; i < min(num_list.len(), child_chars)");
  (mk_site "parser/text.rs" "resolve_positions_list" KIndex "num_list[i]" 0, Reviewed "lists are allocated with count_chars(text_node); offset + i < offset + count_chars(child) <= total; i < min(num_list.len(), child_chars)");
  (mk_site "parser/text.rs" "resolve_rotate_list" KIndex "list[offset + i]" 0, Reviewed "lists are allocated with count_chars(text_node); offset + i < offset + count_chars(child) <= total; i < min(num_list.len(), child_chars)");
  (mk_site "parser/text.rs" "resolve_rotate_list" KIndex "list[offset + i]" 1, Reviewed "lists are allocated with count_chars(text_node); offset + i < offset + count_chars(child) <= total; i < min(num_list.len(), child_chars)");
  (mk_site "parser/text.rs" "path_length" KIndex "path.points()[0]" 0, Reviewed "a tiny_skia_path::Path has at least one point");
  (mk_site "parser/text.rs" "path_length" KIndex "path.points()[0]" 1, Reviewed "a tiny_skia_path::Path has at least one point");
  (mk_site "parser/use_node.rs" "clip_element" KUnwrap "let mut path = Path::new_simple(Arc::new(tiny_skia_path::PathBuilder::from_rect( clip_rect.to_rect(), ))) .unwrap()" 0, Reviewed "PathBuilder::from_rect of a NonZeroRect always yields a non-empty path with a valid bounding box");
  (mk_site "tree/filter.rs" "get" KIndex "self.data[(y * self.columns + x) as usize]" 0, Reviewed "ConvolveMatrixData::new checks columns * rows == data.len(); get(x, y) is called with x < columns, y < rows by resvg");
  (mk_site "tree/mod.rs" "new" KDebugAssert "debug_assert!(n.is_finite())" 0, Reviewed "callers: style::resolve_stroke after replacing non-finite values by 4 and values < 1 by 1 (fix bc08eef), and Default with the literal 4.0");
  (mk_site "tree/mod.rs" "new" KDebugAssert "debug_assert!(n >= 1.0)" 0, Reviewed "callers: style::resolve_stroke after replacing non-finite values by 4 and values < 1 by 1 (fix bc08eef), and Default with the literal 4.0");
  (mk_site "tree/mod.rs" "bounding_box" KUnwrap "self.size.to_rect(0.0, 0.0).unwrap()" 0, Reviewed "self.size is a Size (finite, > 0): to_rect(0, 0) = Rect::from_xywh(0, 0, w, h) is valid")
].

(* sites decided by computation from the facts tools/gen_sites.py reads next to them (Gen/Sites.v `site_auto`):
   a literal index below a length established by the enclosing condition, or a validated constructor applied to
   literals, evaluated in the xq model *)
Local Open Scope Q_scope.
Definition ctor_ok (c : ctor) (args : list Q) : bool :=
  match c, args with
  | CNzRectXywh, [x; y; w; h] => x_nz_xywh (XFin x) (XFin y) (XFin w) (XFin h)
  | CRectXywh, [x; y; w; h] => x_rect_xywh (XFin x) (XFin y) (XFin w) (XFin h)
  | CSize, [w; h] => x_size (XFin w) (XFin h)
  | CPositive, [x] => x_positive (XFin x)
  | _, _ => false
  end.
Definition auto_ok (a : auto) : bool :=
  match a with
  | AIndex k n => Nat.ltb k n
  | ACtor c args => ctor_ok c args
  end.
Definition site_auto_ok (s : site) : bool := existsb (fun e => site_eqb s (fst e) && auto_ok (snd e)) site_auto.
Definition is_index (a : auto) : bool := match a with AIndex _ _ => true | _ => false end.
Definition count_auto_index : nat := length (filter (fun e => is_index (snd e) && auto_ok (snd e)) site_auto).
Definition count_auto_ctor : nat := length (filter (fun e => negb (is_index (snd e)) && auto_ok (snd e)) site_auto).

Definition site_discharged (s : site) : bool := site_auto_ok s || existsb (fun e => site_eqb s (fst e)) ledger.
(* and the ledger carries no stale entry *)
(* ... nor one for a site that is decided by computation *)
Definition entry_live (e : site * lclass) : bool := existsb (site_eqb (fst e)) parser_sites && negb (site_auto_ok (fst e)).

Lemma sites_discharged : forallb site_discharged parser_sites = true.
Proof. vm_compute. reflexivity. Qed.
Lemma ledger_tight : forallb entry_live ledger = true.
Proof. vm_compute. reflexivity. Qed.

Definition is_reviewed (c : lclass) : bool := match c with Reviewed _ => true | _ => false end.
Definition is_known (c : lclass) : bool := match c with Known _ => true | _ => false end.
Definition count_reviewed : nat := length (filter (fun e => is_reviewed (snd e)) ledger).
Definition count_known : nat := length (filter (fun e => is_known (snd e)) ledger).
